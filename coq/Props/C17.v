(* C17: a rejected program leaves no trace, and modules never influence each other.
   Statements only; proofs in Module/ModuleProofs.v (about the abstract machine ModuleSpec.v). *)
From Coq Require Import ZArith List Bool String.
From Verif Require Import BGate PyVal Ast State Unroll Corr Spec Transforms TransformProofs ModuleSpec ModuleProofs.
Import ListNotations.

(* a call that is rejected leaves every module exactly as it was *)
Theorem C17_rejected_call_leaves_no_trace w i o e : snd (step w i o) = OutErr e ->
  forall j, nth_error (fst (step w i o)) j = nth_error w j.
Proof. exact (failed_call_leaves_world w i o e). Qed.
Print Assumptions C17_rejected_call_leaves_no_trace.

(* every retry raises the same error again *)
Theorem C17_retry_fails_the_same_way w i o e : snd (step w i o) = OutErr e ->
  snd (step (fst (step w i o)) i o) = OutErr e.
Proof. exact (failed_call_fails_again w i o e). Qed.
Print Assumptions C17_retry_fails_the_same_way.

(* what a call on one module does never depends on, or changes, another module *)
Theorem C17_modules_do_not_influence_each_other w i j o : i <> j -> (j < List.length w)%nat ->
  nth_error (fst (step w i o)) j = nth_error w j.
Proof. exact (step_other_module w i j o). Qed.
Print Assumptions C17_modules_do_not_influence_each_other.

(* the result is a function of the program text and the call sequence *)
Theorem C17_deterministic w h r1 r2 : run w h = r1 -> run w h = r2 -> r1 = r2.
Proof. exact (run_deterministic w h r1 r2). Qed.
Print Assumptions C17_deterministic.

(* queries on a module whose program is rejected keep being answered from that same program *)
Theorem C17_answers_depend_on_program m m' o :
  program_query o = true -> sp_prog m = sp_prog m' -> sp_q2 m = sp_q2 m' ->
  (view_query o = true -> sp_unrolled m = sp_unrolled m') -> snd (query m o) = snd (query m' o).
Proof. exact (answers_depend_on_program m m' o). Qed.
Print Assumptions C17_answers_depend_on_program.

Example C17_example :
  let p := [SQubitDecl "q" (Some (ELit (VInt 2))); SGate [] "h" [] [QIdx "r" [IdxList [IExpr (ELit (VInt 0))]]]]%string in
  snd (run [mkMS p false false] [(0%nat, OUnroll); (0%nat, ONumQ); (0%nat, OUnroll); (0%nat, ORemoveIdle true)])
  = [OutErr EValidation; OutErr EValidation; OutErr EValidation; OutErr EValidation].
Proof. vm_compute. reflexivity. Qed.
