(* C07: classical expressions and typed assignments evaluate to their OpenQASM values.
   Statements only; proofs in Lang/ExprProofs.v.  OPERATOR_MAP is regenerated from maps.py on
   every run, so the operator theorem is re-proved against the table the code has now. *)
From Coq Require Import ZArith List Bool String PrimFloat.
From Verif Require Import BGate PyVal Ast State GatesGen Unroll Spec ExprProofs CastGen CastProofs Arr ArrProofs.
Import ListNotations.
Open Scope Z_scope.

(* every binary operator of the table: whenever the OpenQASM specification assigns a value to
   `a op b` (Spec.spec_binop), the model's operator yields that value (as a number; Python's True is 1) *)
Theorem C07_operators op o a b r :
  assoc op OPERATOR_MAP = Some (Bin o) -> spec_binop op a b = Ok r ->
  exists r', py_binop o a b = Ok r' /\ same_value r' r.
Proof. exact (binop_table_agrees op o a b r). Qed.
Print Assumptions C07_operators.

Theorem C07_unary_table :
  assoc "!" OPERATOR_MAP = Some (Un OpNot) /\ assoc "~" OPERATOR_MAP = Some (Un OpInvert) /\
  assoc "UMINUS" OPERATOR_MAP = Some (Un OpNeg).
Proof. exact unop_table. Qed.
Print Assumptions C07_unary_table.

Theorem C07_not v : py_unop OpNot v = Ok (VBool (negb (truthy v))).
Proof. exact (not_is_logical v). Qed.
Theorem C07_neg z : py_unop OpNeg (VInt z) = Ok (VInt (- z)).
Proof. exact (neg_is_arithmetic z). Qed.

(* stores, all widths *)
Theorem C07_uint_store_is_mod n z : 1 <= n ->
  cast_value KUint (Some n) (VInt z) = Ok (VInt (z mod 2 ^ n)) /\ 0 <= z mod 2 ^ n < 2 ^ n.
Proof. exact (store_uint_mod n z). Qed.
Print Assumptions C07_uint_store_is_mod.

Theorem C07_int_store_in_range n z : 1 <= n -> - 2 ^ (n - 1) <= z <= 2 ^ (n - 1) - 1 ->
  cast_value KInt (Some n) (VInt z) = Ok (VInt z).
Proof. exact (store_int_in_range n z). Qed.
Print Assumptions C07_int_store_in_range.

Theorem C07_int_store_out_of_range n z : 1 <= n -> (z < - 2 ^ (n - 1) \/ 2 ^ (n - 1) - 1 < z) ->
  cast_value KInt (Some n) (VInt z) = Err EValidation.
Proof. exact (store_int_out_of_range n z). Qed.
Print Assumptions C07_int_store_out_of_range.

Theorem C07_bool_store v sz : v <> VNone -> cast_value KBool sz v = Ok (VBool (truthy v)).
Proof. exact (store_bool v sz). Qed.
Print Assumptions C07_bool_store.

(* the model's conversion is the specification's conversion, for every declared type *)
Theorem C07_store_refines_spec t v r : (forall n, width_of_sty t = Some n -> 1 <= n) ->
  store t v = Ok r -> cast_value (kind_of_sty t) (width_of_sty t) v = Ok r.
Proof. exact (store_refines_spec t v r). Qed.
Print Assumptions C07_store_refines_spec.

Theorem C07_store_rejection_refines_spec t v : (forall n, width_of_sty t = Some n -> 1 <= n) ->
  t <> SAngleT -> store t v = Err EValidation -> cast_value (kind_of_sty t) (width_of_sty t) v = Err EValidation.
Proof. exact (store_rejection_refines_spec t v). Qed.
Print Assumptions C07_store_rejection_refines_spec.

Theorem C07_compound_assignment_operators s :
  map (fun o => match binop_of_assign o s with Ok (r, _) => r | Err _ => None end)
      ["="; "+="; "-="; "*="; "/="; "%="; "&="; "|="; "^="; "<<="; ">>="]%string
  = [None; Some "+"; Some "-"; Some "*"; Some "/"; Some "%"; Some "&"; Some "|"; Some "^"; Some "<<"; Some ">>"]%string.
Proof. exact (compound_assign_operators s). Qed.
Print Assumptions C07_compound_assignment_operators.

(* the conversion and range check as the source has them NOW: CastGen.v is regenerated on every run from
   maps.qasm_variable_type_cast and validator.validate_variable_assignment_value (translator/cast2coq.py);
   it computes the same function as cast_value, so the store theorems above are about that code *)
Theorem C07_store_is_the_source_s_store k size v :
  (forall n, size = Some n -> 1 <= n) -> cast_value_gen k size v = cast_value k size v.
Proof. exact (cast_value_gen_eq k size v). Qed.
Print Assumptions C07_store_is_the_source_s_store.

Theorem C07_source_uint_store_is_mod n z : 1 <= n ->
  cast_value_gen KUint (Some n) (VInt z) = Ok (VInt (z mod 2 ^ n)) /\ 0 <= z mod 2 ^ n < 2 ^ n.
Proof.
  intros Hn. rewrite cast_value_gen_eq by (intros m Hm; inversion Hm; subst; exact Hn). exact (store_uint_mod n z Hn).
Qed.
Print Assumptions C07_source_uint_store_is_mod.

Theorem C07_source_int_store_out_of_range n z : 1 <= n -> (z < - 2 ^ (n - 1) \/ 2 ^ (n - 1) - 1 < z) ->
  cast_value_gen KInt (Some n) (VInt z) = Err EValidation.
Proof.
  intros Hn Hr. rewrite cast_value_gen_eq by (intros m Hm; inversion Hm; subst; exact Hn). exact (store_int_out_of_range n z Hn Hr).
Qed.
Print Assumptions C07_source_int_store_out_of_range.

Theorem C07_source_bool_store v sz : v <> VNone -> cast_value_gen KBool sz v = Ok (VBool (truthy v)).
Proof. intros Hv. destruct v; try reflexivity. congruence. Qed.
Print Assumptions C07_source_bool_store.

(* array elements: an element write followed by a read of the same index yields the written value, in any
   number of dimensions, and leaves every other cell as it was *)
Theorem C07_array_cell_read_after_write is a a' c v :
  arr_set_scalar a (elem_ix is) v = Some a' -> arr_get a (elem_ix is) = Some (ALeaf c) ->
  arr_get a' (elem_ix is) = Some (ALeaf (Some v)).
Proof. exact (arr_cell_read_after_write is a a' c v). Qed.
Print Assumptions C07_array_cell_read_after_write.

Theorem C07_array_write_leaves_other_cells is js a a' v :
  List.length js = List.length is -> js <> is -> Forall (fun j => 0 <= j) js ->
  arr_set_scalar a (elem_ix is) v = Some a' -> arr_get a' (elem_ix js) = arr_get a (elem_ix js).
Proof. exact (arr_elem_write_frame is js a a' v). Qed.
Print Assumptions C07_array_write_leaves_other_cells.

(* slices: the cells selected by start:step:end (step > 0) are start, start+step, ... up to the inclusive end *)
Theorem C07_array_slice_positions start stop step fuel x : 0 < step ->
  (In x (slice_positions start stop step fuel) -> exists n, 0 <= n /\ x = start + n * step /\ x < stop) /\
  (forall n, 0 <= n -> x = start + n * step -> x < stop -> (Z.to_nat n < fuel)%nat -> In x (slice_positions start stop step fuel)).
Proof. exact (slice_positions_spec start stop step fuel x). Qed.
Print Assumptions C07_array_slice_positions.

(* an element index is accepted exactly when it lies inside the dimension *)
Theorem C07_array_index_checked i d s :
  analyze_indices [IExpr (ELit (VInt i))] (Some [d]) s =
  if (0 <=? i) && (i <? d) then Ok ([(i, i, 1)], s) else Err EValidation.
Proof. exact (analyze_index_literal i d s). Qed.
Print Assumptions C07_array_index_checked.

(* non-vacuity and the boundary cases named in the property *)
Example C07_examples :
  cast_value KUint (Some 4) (VInt 17) = Ok (VInt 1) /\ cast_value KUint (Some 4) (VInt (-1)) = Ok (VInt 15) /\
  cast_value KInt (Some 4) (VInt (-8)) = Ok (VInt (-8)) /\ cast_value KInt (Some 4) (VInt 8) = Err EValidation /\
  cast_value_gen KInt (Some 4) (VInt (-8)) = Ok (VInt (-8)) /\ cast_value_gen KInt (Some 4) (VInt (-9)) = Err EValidation /\
  arr_set_scalar (ANode [ALeaf (Some (VInt 1)); ALeaf None]) (elem_ix [1]) (VInt 7) = Some (ANode [ALeaf (Some (VInt 1)); ALeaf (Some (VInt 7))]) /\
  slice_positions 1 (3 + 1) 2 5 = [1; 3] /\
  cast_value_gen KBool None (VFloat 0.5%float) = Ok (VBool true) /\ cast_value_gen KInt (Some 8) (VBool true) = Ok (VInt 1) /\
  spec_binop "&&" (VInt 3) (VInt 5) = Ok (VBool true) /\ py_binop OpLAnd (VInt 3) (VInt 5) = Ok (VBool true) /\
  spec_binop "+" (VBool true) (VBool true) = Ok (VInt 2).
Proof. vm_compute. repeat split; reflexivity. Qed.
