(* PROPERTY C04: programs containing a checked semantic error are never accepted.
   One theorem per error class of the catalogue about the visitor model: the situation makes the
   visit fail with EValidation (ValidationError), never with an internal error, and sequences
   propagate the failure.  Tied to /repo by the correspondence run of ./check C04 over the
   (error class x syntactic context) product. *)
From Coq Require Import ZArith List Bool String.
From Verif Require Import BGate PyVal Ast State Unroll ResolveProofs ErrorProofs CastGen CastProofs ControlProofs.
Import ListNotations.
Open Scope Z_scope.

Theorem C04_undeclared_name x indexed cst reqd s :
  check_in_scope s x = false -> process_variable x indexed cst reqd s = Err EValidation.
Proof. exact (undeclared_name_rejected x indexed cst reqd s). Qed.
Print Assumptions C04_undeclared_name.

Theorem C04_uninitialised x cst reqd s v :
  get_visible s x = Some v -> v_val v = VVNone -> (cst && negb (v_const v)) = false ->
  (match reqd with None => true | Some k => vkind_eqb (v_kind v) k end) = true ->
  process_variable x false cst reqd s = Err EValidation.
Proof. exact (uninitialised_rejected x cst reqd s v). Qed.
Print Assumptions C04_uninitialised.

Theorem C04_non_constant_where_constant_required x indexed reqd s v :
  get_visible s x = Some v -> v_const v = false -> process_variable x indexed true reqd s = Err EValidation.
Proof. exact (non_constant_rejected x indexed reqd s v). Qed.
Print Assumptions C04_non_constant_where_constant_required.

Theorem C04_redeclared_name co cr t name init s :
  is_constant_name name = false -> check_in_scope s name = true ->
  (in_block s && negb (smemk name (curr_scope s))) = false ->
  visit_classical_decl co cr t name init s = Err EValidation.
Proof. exact (redeclaration_rejected co cr t name init s). Qed.
Print Assumptions C04_redeclared_name.

Theorem C04_keyword_name co cr t name init s :
  is_constant_name name = true -> visit_classical_decl co cr t name init s = Err EValidation.
Proof. exact (keyword_name_rejected co cr t name init s). Qed.
Print Assumptions C04_keyword_name.

Theorem C04_redeclared_qubit_register co cr name s :
  check_in_scope s name = true -> visit_qubit_decl co cr name None s = Err EValidation.
Proof. exact (qubit_redeclaration_rejected co cr name s). Qed.
Print Assumptions C04_redeclared_qubit_register.

Theorem C04_assignment_to_constant co cr lv op rv s v :
  get_visible s (qarg_name lv) = Some v -> v_const v = true ->
  visit_assignment co cr lv op rv s = Err EValidation.
Proof. exact (assign_to_constant_rejected co cr lv op rv s v). Qed.
Print Assumptions C04_assignment_to_constant.

Theorem C04_assignment_to_undeclared co cr lv op rv s :
  get_visible s (qarg_name lv) = None -> visit_assignment co cr lv op rv s = Err EValidation.
Proof. exact (assign_to_undeclared_rejected co cr lv op rv s). Qed.
Print Assumptions C04_assignment_to_undeclared.

Theorem C04_operand_index_out_of_range i size s :
  (i < 0 \/ size <= i) -> validate_index i size s = Err EValidation.
Proof. exact (validate_index_rejects i size s). Qed.
Print Assumptions C04_operand_index_out_of_range.

Theorem C04_duplicated_operand_never_accepted cr bits size_map is_q s out s' :
  get_op_bits cr bits size_map is_q s = Ok (out, s') -> NoDup out.
Proof. exact (get_op_bits_nodup cr bits size_map is_q s out s'). Qed.
Print Assumptions C04_duplicated_operand_never_accepted.

Theorem C04_value_outside_declared_range n z :
  1 <= n -> (z < - 2 ^ (n - 1) \/ 2 ^ (n - 1) - 1 < z) -> cast_value KInt (Some n) (VInt z) = Err EValidation.
Proof. exact (int_out_of_range_rejected n z). Qed.
Print Assumptions C04_value_outside_declared_range.

(* the same for the range check as the source has it now (CastGen.v, regenerated from validator.py / maps.py) *)
Theorem C04_value_outside_declared_range_in_the_source n z :
  1 <= n -> (z < - 2 ^ (n - 1) \/ 2 ^ (n - 1) - 1 < z) -> cast_value_gen KInt (Some n) (VInt z) = Err EValidation.
Proof.
  intros Hn Hr. rewrite cast_value_gen_eq by (intros m Hm; inversion Hm; subst; exact Hn). exact (int_out_of_range_rejected n z Hn Hr).
Qed.
Print Assumptions C04_value_outside_declared_range_in_the_source.

(* wrong counts and out-of-range indices for arrays *)
Theorem C04_array_index_out_of_range i d s :
  (i < 0 \/ d <= i) -> analyze_indices [IExpr (ELit (VInt i))] (Some [d]) s = Err EValidation.
Proof.
  intros H. rewrite analyze_index_literal.
  destruct ((0 <=? i) && (i <? d)) eqn:E; [|reflexivity].
  apply andb_true_iff in E as [E1 E2]. apply Z.leb_le in E1. apply Z.ltb_lt in E2. exfalso. destruct H; auto with zarith.
Qed.
Print Assumptions C04_array_index_out_of_range.

Theorem C04_array_index_count items ds s :
  ds <> [] -> List.length items <> List.length ds -> analyze_indices items (Some ds) s = Err EValidation.
Proof. exact (analyze_index_count items ds s). Qed.
Print Assumptions C04_array_index_count.

Theorem C04_duplicate_gate_definition co ext vr cr name ps qs body s :
  smemk name (gates s) = true -> visit_stmt_body co ext vr cr (SGateDef name ps qs body) s = Err EValidation.
Proof. exact (duplicate_gate_rejected co ext vr cr name ps qs body s). Qed.
Print Assumptions C04_duplicate_gate_definition.

Theorem C04_duplicate_subroutine_definition co ext vr cr name args r body s :
  is_constant_name name = false -> smemk name (subs s) = true ->
  visit_stmt_body co ext vr cr (SSubDef name args r body) s = Err EValidation.
Proof. exact (duplicate_subroutine_rejected co ext vr cr name args r body s). Qed.
Print Assumptions C04_duplicate_subroutine_definition.

Theorem C04_duplicate_include co ext vr cr f s :
  smem f (included s) = true -> visit_stmt_body co ext vr cr (SInclude f) s = Err EValidation.
Proof. exact (duplicate_include_rejected co ext vr cr f s). Qed.
Print Assumptions C04_duplicate_include.

Theorem C04_unsupported_statement co ext vr cr k s :
  visit_stmt_body co ext vr cr (SOther k) s = Err EValidation.
Proof. exact (unsupported_statement_rejected co ext vr cr k s). Qed.
Print Assumptions C04_unsupported_statement.

Theorem C04_undeclared_subroutine co vr cr f args s :
  sget f (subs s) = None -> call_body co vr cr f args s = Err EValidation.
Proof. exact (undeclared_subroutine_rejected co vr cr f args s). Qed.
Print Assumptions C04_undeclared_subroutine.

Theorem C04_subroutine_argument_count co vr cr f args sd s :
  sget f (subs s) = Some sd -> Nat.eqb (List.length args) (List.length (s_args sd)) = false ->
  call_body co vr cr f args s = Err EValidation.
Proof. exact (subroutine_arg_count_rejected co vr cr f args sd s). Qed.
Print Assumptions C04_subroutine_argument_count.

Theorem C04_measurement_without_target co cr q s : visit_measure co cr q None s = Err EValidation.
Proof. exact (measure_without_target_rejected co cr q s). Qed.
Print Assumptions C04_measurement_without_target.

Theorem C04_qasm2_whitelist co ext fuel prog :
  forallb qasm2_allowed prog = false -> run_visit true co ext fuel prog = Err EValidation.
Proof. exact (qasm2_whitelist_rejects co ext fuel prog). Qed.
Print Assumptions C04_qasm2_whitelist.

(* wherever the error is reachable inside a block, the block fails with it *)
Theorem C04_errors_propagate_through_blocks {A B} (f : A -> M (list B)) l1 x l2 s o s1 e :
  concatMM f l1 s = Ok (o, s1) -> f x s1 = Err e -> concatMM f (l1 ++ x :: l2) s = Err e.
Proof. exact (concatMM_propagates f l1 x l2 s o s1 e). Qed.
Print Assumptions C04_errors_propagate_through_blocks.

(* ---- wrong argument, qubit or size counts; duplicate switch-case values; recursive definitions ---- *)
Theorem C04_library_gate_qubit_count cr qubits count s bits s1 :
  get_op_bits cr qubits (qreg_sizes s) true s = Ok (bits, s1) -> count <> O ->
  Nat.modulo (List.length bits) count <> O -> unroll_targets cr qubits count s = Err EValidation.
Proof. exact (gate_qubit_count_rejected cr qubits count s bits s1). Qed.
Print Assumptions C04_library_gate_qubit_count.

Theorem C04_custom_gate_parameter_count co vr cr name gd args qubits inverse s bits s1 :
  sget name (gates s) = Some gd -> get_op_bits cr qubits (qreg_sizes s) true s = Ok (bits, s1) ->
  List.length args <> List.length (g_params gd) ->
  visit_custom_gate co vr cr name args qubits inverse s = Err EValidation.
Proof. exact (custom_gate_param_count_rejected co vr cr name gd args qubits inverse s bits s1). Qed.
Print Assumptions C04_custom_gate_parameter_count.

Theorem C04_custom_gate_qubit_count co vr cr name gd args qubits inverse s bits s1 :
  sget name (gates s) = Some gd -> get_op_bits cr qubits (qreg_sizes s) true s = Ok (bits, s1) ->
  List.length args = List.length (g_params gd) -> List.length bits <> List.length (g_qubits gd) ->
  visit_custom_gate co vr cr name args qubits inverse s = Err EValidation.
Proof. exact (custom_gate_qubit_count_rejected co vr cr name gd args qubits inverse s bits s1). Qed.
Print Assumptions C04_custom_gate_qubit_count.

Theorem C04_measurement_size_mismatch co cr q t s src s1 tgt s2 :
  smemk (qarg_name q) (qreg_sizes s) = true -> smemk (qarg_name t) (creg_sizes s) = true ->
  get_op_bits cr [q] (qreg_sizes s) true s = Ok (src, s1) ->
  get_op_bits cr [t] (creg_sizes s1) false s1 = Ok (tgt, s2) ->
  List.length src <> List.length tgt ->
  visit_measure co cr q (Some t) s = Err EValidation.
Proof. exact (measurement_size_mismatch_rejected co cr q t s src s1 tgt s2). Qed.
Print Assumptions C04_measurement_size_mismatch.

Theorem C04_recursive_gate_definition co vr cr name gd args qubits inverse s bits s1 pvals s2 :
  sget name (gates s) = Some gd -> get_op_bits cr qubits (qreg_sizes s) true s = Ok (bits, s1) ->
  List.length args = List.length (g_params gd) -> List.length bits = List.length (g_qubits gd) ->
  mapMM (fun e => eval0 cr e false None) args s1 = Ok (pvals, s2) -> smem name (gstack s2) = true ->
  visit_custom_gate co vr cr name args qubits inverse s = Err EValidation.
Proof. exact (recursive_gate_rejected co vr cr name gd args qubits inverse s bits s1 pvals s2). Qed.
Print Assumptions C04_recursive_gate_definition.

Theorem C04_duplicate_switch_case_value cr tv e vs seen hit s cv s1 :
  eval0 cr e true (Some KInt) s = Ok (cv, s1) -> existsb (pyval_eqb cv) seen = true ->
  case_scan cr tv (e :: vs) seen hit s = Err EValidation.
Proof. exact (duplicate_case_value_rejected cr tv e vs seen hit s cv s1). Qed.
Print Assumptions C04_duplicate_switch_case_value.
