(* C13: populate_idle_qubits adds one identity gate to each idle qubit and nothing else. *)
From Coq Require Import ZArith List Bool String.
From Verif Require Import BGate PyVal Ast State Unroll Corr Spec Transforms TransformProofs ModuleSpec ModuleProofs.
Import ListNotations.
Open Scope Z_scope.

Theorem C13_appends_one_id_per_idle_qubit p :
  exists ids, populate p = p ++ ids /\ ids = map id_gate (idle_qubits p) /\
              List.length ids = List.length (idle_qubits p) /\ firstn (List.length p) (populate p) = p.
Proof. exact (populate_appends p). Qed.
Print Assumptions C13_appends_one_id_per_idle_qubit.

(* idle = declared and touched by no operation anywhere in the (whole, inlined) program *)
Theorem C13_idle_exact p b :
  In b (idle_qubits p) <-> In b (all_qubits (qregs_of p)) /\ ~ In b (used_qubits p).
Proof. exact (populate_idle_exact p b). Qed.
Print Assumptions C13_idle_exact.

Theorem C13_no_idle_afterwards p : idle_qubits (populate p) = [].
Proof. exact (populate_no_idle p). Qed.
Print Assumptions C13_no_idle_afterwards.

Theorem C13_idempotent p : populate (populate p) = populate p.
Proof. exact (populate_idempotent p). Qed.
Print Assumptions C13_idempotent.

Theorem C13_registers_unchanged p : qregs_of (populate p) = qregs_of p.
Proof. exact (populate_declarations p). Qed.
Print Assumptions C13_registers_unchanged.

(* after removing the idle qubits there is nothing to populate *)
Theorem C13_after_remove_idle p : decls_literal p = true -> populate (remove_idle p) = remove_idle p.
Proof. exact (remove_idle_then_populate p). Qed.
Print Assumptions C13_after_remove_idle.

Example C13_example :
  let q i := bit_qarg ("q"%string, i) in
  populate [SQubitDecl "q" (Some (ELit (VInt 3))); SIf (EId "c") [SGate [] "x" [] [q 1]] []]
  = [SQubitDecl "q" (Some (ELit (VInt 3))); SIf (EId "c") [SGate [] "x" [] [q 1]] [];
     SGate [] "id" [] [q 0]; SGate [] "id" [] [q 2]].
Proof. vm_compute. reflexivity. Qed.
