(* C13: populate_idle_qubits adds one identity gate to each idle qubit and nothing else. *)
From Coq Require Import ZArith List Bool String.
From Verif Require Import BGate PyVal Ast State Unroll Corr Spec Transforms TransformProofs ModuleSpec ModuleProofs FixProofs ValidProofs Depth DepthModel.
Import ListNotations.
Open Scope Z_scope.

Theorem C13_appends_one_id_per_idle_qubit p :
  exists ids, populate p = p ++ ids /\ ids = map id_gate (idle_qubits p) /\
              List.length ids = List.length (idle_qubits p) /\ firstn (List.length p) (populate p) = p.
Proof. exact (populate_appends p). Qed.
Print Assumptions C13_appends_one_id_per_idle_qubit.

(* idle = declared and touched by no operation anywhere in the (whole, inlined) program *)
Theorem C13_idle_exact p b :
  In b (idle_qubits p) <-> In b (all_qubits (qregs_of p)) /\ ~ In b (used_qubits p).
Proof. exact (populate_idle_exact p b). Qed.
Print Assumptions C13_idle_exact.

Theorem C13_no_idle_afterwards p : idle_qubits (populate p) = [].
Proof. exact (populate_no_idle p). Qed.
Print Assumptions C13_no_idle_afterwards.

Theorem C13_idempotent p : populate (populate p) = populate p.
Proof. exact (populate_idempotent p). Qed.
Print Assumptions C13_idempotent.

Theorem C13_registers_unchanged p : qregs_of (populate p) = qregs_of p.
Proof. exact (populate_declarations p). Qed.
Print Assumptions C13_registers_unchanged.

(* after removing the idle qubits there is nothing to populate *)
Theorem C13_after_remove_idle p : decls_literal p = true -> populate (remove_idle p) = remove_idle p.
Proof. exact (remove_idle_then_populate p). Qed.
Print Assumptions C13_after_remove_idle.

Example C13_example :
  let q i := bit_qarg ("q"%string, i) in
  populate [SQubitDecl "q" (Some (ELit (VInt 3))); SIf (EId "c") [SGate [] "x" [] [q 1]] []]
  = [SQubitDecl "q" (Some (ELit (VInt 3))); SIf (EId "c") [SGate [] "x" [] [q 1]] [];
     SGate [] "id" [] [q 0]; SGate [] "id" [] [q 2]].
Proof. vm_compute. reflexivity. Qed.

(* ---- the visitor model and the transformed program (Module/ValidProofs.v + Lang/FixProofs.v) ----
   What populate_idle_qubits() yields from a well-formed flat program (what unroll() leaves, Props/C03.v) is a well-formed flat program
   again; hence, for every such program of any size: validate() accepts the result, unroll() accepts it and emits it
   UNCHANGED (a later unroll()/validate() cannot undo or duplicate the transformation), and num_qubits is the total of
   the program's qubit registers. *)
Theorem C13_result_is_a_valid_program_the_visitor_leaves_as_it_is fuel p :
  wf_flat env0 p = true -> (ldepth (populate p) < fuel)%nat ->
  (exists o, run_visit false true [] fuel (populate p) = Ok o /\ num_qubits (o_state o) = total_qubits p) /\
  (exists o, run_visit false false [] fuel (populate p) = Ok o /\ o_stmts o = populate p /\ num_qubits (o_state o) = total_qubits p).
Proof. exact (populated_program_is_valid_and_stable fuel p). Qed.
Print Assumptions C13_result_is_a_valid_program_the_visitor_leaves_as_it_is.

Theorem C13_keeps_wellformedness p : wf_flat env0 p = true -> wf_flat env0 (populate p) = true.
Proof. exact (populate_keeps_wellformed p). Qed.
Print Assumptions C13_keeps_wellformedness.

(* "... leaves everything else as it was": in terms of the depth counters of Props/C09.v, populate moves exactly the idle
   qubits from 0 to 1 (each gets one `id`) and changes the counter of no other qubit and of no classical bit -- so
   depth() is unchanged whenever the circuit has any operation, and becomes 1 on a circuit with none *)
Theorem C13_populate_moves_exactly_the_idle_qubits_to_depth_one p r :
  wf_flat env0 p = true ->
  depth_after rsrc_eqb (evs_of (populate p)) r
  = if existsb (rsrc_eqb r) (map Qr (idle_qubits p)) then 1 else depth_after rsrc_eqb (evs_of p) r.
Proof. exact (populate_depth p r). Qed.
Print Assumptions C13_populate_moves_exactly_the_idle_qubits_to_depth_one.
