(* C09: depth() is the critical-path length of the inlined circuit.
   Statements only; proofs are in Depth/Depth.v and Depth/DepthModel.v. *)
From Coq Require Import ZArith List Bool String.
From Verif Require Import BGate PyVal Ast State Unroll Spec Depth DepthModel DepthSpec FixProofs SpecFlat LoopProofs BroadcastProofs GateDefProofs.
Import ListNotations.
Open Scope Z_scope.

(* (1) The recurrence "every resource of a step moves to 1 + the maximum of their depths" computes,
   for every event list of any length and every resource, the length of the longest chain of
   events ending on that resource in which consecutive members share a qubit or classical bit. *)
Theorem C09_no_chain_is_longer (evs : list (list rsrc)) (r : rsrc) (n : nat) :
  ChainTo evs r n -> Z.of_nat n <= depth_after rsrc_eqb evs r.
Proof. exact (depth_upper rsrc_eqb rsrc_eqb_spec evs r n). Qed.
Print Assumptions C09_no_chain_is_longer.

Theorem C09_some_chain_attains (evs : list (list rsrc)) (r : rsrc) :
  0 < depth_after rsrc_eqb evs r -> ChainTo evs r (Z.to_nat (depth_after rsrc_eqb evs r)).
Proof. exact (depth_attained rsrc_eqb rsrc_eqb_spec evs r). Qed.
Print Assumptions C09_some_chain_attains.

(* (2) The circuit's depth (maximum over its resources) is the longest chain anywhere. *)
Theorem C09_total_upper univ (evs : list (list rsrc)) r n :
  In r univ -> ChainTo evs r n -> Z.of_nat n <= total_depth rsrc_eqb univ evs.
Proof. exact (total_depth_upper rsrc_eqb rsrc_eqb_spec univ evs r n). Qed.
Print Assumptions C09_total_upper.

Theorem C09_total_attained univ (evs : list (list rsrc)) :
  0 < total_depth rsrc_eqb univ evs ->
  exists r, In r univ /\ ChainTo evs r (Z.to_nat (total_depth rsrc_eqb univ evs)).
Proof. exact (total_depth_attained rsrc_eqb rsrc_eqb_spec univ evs). Qed.
Print Assumptions C09_total_attained.

(* (3) The visitor model's four depth updates are that recurrence on the event they stand for:
   a library-gate application on one broadcast group, a barrier statement, a reset, a measurement
   pair (the measurement synchronises its qubit with its target bit). *)
Theorem C09_model_gate l s s' : NoDup l -> nonneg s ->
  depth_gate_subset l s = Ok (tt, s') -> forall r, dof s' r = dstep rsrc_eqb (dof s) (map Qr l) r.
Proof. exact (gate_subset_is_dstep l s s'). Qed.
Print Assumptions C09_model_gate.

Theorem C09_model_barrier l s s' : NoDup l -> nonneg s ->
  depth_barrier l s = Ok (tt, s') -> forall r, dof s' r = dstep rsrc_eqb (dof s) (map Qr l) r.
Proof. exact (barrier_is_dstep l s s'). Qed.
Print Assumptions C09_model_barrier.

Theorem C09_model_reset b s s' : nonneg s ->
  upd1 reset_upd b s = Ok (tt, s') -> forall r, dof s' r = dstep rsrc_eqb (dof s) [Qr b] r.
Proof. exact (reset1_is_dstep b s s'). Qed.
Print Assumptions C09_model_reset.

Theorem C09_model_measure q c s s' : nonneg s ->
  depth_measure_pair (q, c) s = Ok (tt, s') -> forall r, dof s' r = dstep rsrc_eqb (dof s) [Qr q; Br c] r.
Proof. exact (measure_pair_is_dstep q c s s'). Qed.
Print Assumptions C09_model_measure.

Theorem C09_nonneg_kept (d : dmap (R := rsrc)) ev : (forall r, 0 <= d r) -> forall r, 0 <= dstep rsrc_eqb d ev r.
Proof. exact (dstep_nonneg d ev). Qed.
Print Assumptions C09_nonneg_kept.

(* (4) Whole programs.  For every well-formed flat program (Props/C03.v: what unroll() leaves), of any length and nesting,
   the depth counter the visitor model holds for every qubit and classical bit after validate() -- what depth() reads --
   and after unroll() is the recurrence of (1) run over the program's own events in program order: one event per gate
   application (its qubits), per barrier, per reset, per measurement (its qubit AND its target bit), the two blocks of
   a conditional one after the other; declarations, includes and global phases are no events.  With (1) and (2): the
   counter of a bit is the length of the longest chain of operations of the program that ends on it, and since the
   value is a function of the program alone, validating or unrolling again cannot change it. *)
Theorem C09_depth_of_a_flat_program_is_the_recurrence_over_its_operations fuel p :
  wf_flat env0 p = true -> (ldepth p < fuel)%nat ->
  (exists o, run_visit false true [] fuel p = Ok o /\ forall r, dof (o_state o) r = depth_after rsrc_eqb (evs_of p) r) /\
  (exists o, run_visit false false [] fuel p = Ok o /\ o_stmts o = p /\ forall r, dof (o_state o) r = depth_after rsrc_eqb (evs_of p) r).
Proof.
  intros Hw Hf. destruct (wf_flat_is_accepted_and_a_fixpoint fuel p Hw Hf) as [(o1 & E1 & _ & _ & D1) (o2 & E2 & Ho & _ & _ & D2)].
  split; [exists o1; split; assumption|exists o2; repeat split; assumption].
Qed.
Print Assumptions C09_depth_of_a_flat_program_is_the_recurrence_over_its_operations.

(* ... hence no chain of operations of the program ending on a bit is longer than that bit's counter *)
Corollary C09_flat_program_no_chain_is_longer fuel p o r n :
  wf_flat env0 p = true -> (ldepth p < fuel)%nat -> run_visit false true [] fuel p = Ok o ->
  ChainTo (evs_of p) r n -> Z.of_nat n <= dof (o_state o) r.
Proof.
  intros Hw Hf Ho Hc. destruct (wf_flat_is_accepted_and_a_fixpoint fuel p Hw Hf) as [(o1 & E1 & _ & _ & D1) _].
  rewrite E1 in Ho. injection Ho as <-. rewrite D1. exact (depth_upper rsrc_eqb rsrc_eqb_spec (evs_of p) r n Hc).
Qed.
Print Assumptions C09_flat_program_no_chain_is_longer.

(* the check's oracle is the critical path of the REFERENCE trace (Depth/DepthSpec.v: spec_depth over the operations the
   reference semantics executes); on every well-formed flat program (conditionals on quantum operations, bit registers without
   initial value) the reference semantics executes operations with exactly the program's events, so the oracle's depth is the
   total of the very recurrence the model's counters satisfy: oracle and model measure the same thing on these programs *)
Theorem C09_reference_depth_and_model_counters_agree_on_flat_programs strict p :
  wf_flat env0 p = true -> forallb quantum_blocks p = true -> forallb no_bit_init p = true -> (ldepth p < default_fuel)%nat ->
  exists tr o, spec_run strict false [] p = Ok tr /\ run_visit false true [] default_fuel p = Ok o /\
    spec_depth tr = total_depth rsrc_eqb (List.concat (evs_of p)) (evs_of p) /\
    forall r, dof (o_state o) r = depth_after rsrc_eqb (evs_of p) r.
Proof. exact (reference_depth_is_model_depth strict p). Qed.
Print Assumptions C09_reference_depth_and_model_counters_agree_on_flat_programs.

(* ... and for SOURCE programs that are not flat: for every program inside the whole-program judgement (Props/C01.v: gate
   definitions and calls, modifiers, library gates, loops, whole-register operations, unsized registers) the depth counters
   after unroll() are the recurrence over the events the judgement lists -- one event per gate application (whatever the
   gate is lowered to), per reset, per measurement pair, and ONE event for a barrier over several qubits; so no chain of
   those operations ending on a bit is longer than the bit's counter *)
Theorem C09_depth_of_a_source_program_is_the_recurrence_over_its_operations fuel p q evs :
  gjudge p = Some (q, evs) -> (ldepth p + 1 < fuel)%nat -> (gate_nesting < fuel)%nat ->
  exists o, run_visit false false [] fuel p = Ok o /\
            (forall r, dof (o_state o) r = depth_after rsrc_eqb evs r) /\
            (forall r n, ChainTo evs r n -> Z.of_nat n <= dof (o_state o) r).
Proof.
  intros Hx Hf HN. destruct (source_programs_unroll_to_their_expansion fuel p q evs Hx Hf HN) as (o & E & _ & _ & _ & _ & D).
  exists o. split; [exact E|]. split; [exact D|]. intros r n Hc. rewrite D. exact (depth_upper rsrc_eqb rsrc_eqb_spec evs r n Hc).
Qed.
Print Assumptions C09_depth_of_a_source_program_is_the_recurrence_over_its_operations.

Example C09_flat_program_example :
  let q i := QIdx "q" [IdxList [IExpr (ELit (VInt i))]] in
  let c i := QIdx "c" [IdxList [IExpr (ELit (VInt i))]] in
  let p := [SQubitDecl "q" (Some (ELit (VInt 3))); SClassicalDecl (TBit (Some (ELit (VInt 1)))) "c" None;
            SGate [] "h" [] [q 0]; SGate [] "cx" [] [q 0; q 1]; SMeasure (q 1) (Some (c 0)); SBarrier [q 2];
            SIf (EBin "==" (EIndexE (EId "c") (IdxList [IExpr (ELit (VInt 0))])) (ELit (VBool true))) [SGate [] "x" [] [q 2]] []]%string in
  wf_flat env0 p = true /\
  evs_of p = [[Qr ("q", 0)]; [Qr ("q", 0); Qr ("q", 1)]; [Qr ("q", 1); Br ("c", 0)]; [Qr ("q", 2)]; [Qr ("q", 2)]]%string /\
  depth_after rsrc_eqb (evs_of p) (Br ("c"%string, 0)) = 3.
Proof. vm_compute. repeat split; reflexivity. Qed.

(* non-vacuity: a concrete circuit  h q0; cx q0,q1; measure q1->c0; barrier q0,q1,q2; x q2  has depth 5
   along  h - cx - measure - barrier - x *)
Example C09_example :
  let q i := Qr ("q"%string, i) in
  let evs := [[q 0]; [q 0; q 1]; [q 1; Br ("c"%string, 0)]; [q 0; q 1; q 2]; [q 2]] in
  total_depth rsrc_eqb (List.concat evs) evs = 5.
Proof. vm_compute. reflexivity. Qed.
