(* C09: depth() is the critical-path length of the inlined circuit.
   Statements only; proofs are in Depth/Depth.v and Depth/DepthModel.v. *)
From Coq Require Import ZArith List Bool String.
From Verif Require Import BGate PyVal Ast State Unroll Spec Depth DepthModel DepthSpec.
Import ListNotations.
Open Scope Z_scope.

(* (1) The recurrence "every resource of a step moves to 1 + the maximum of their depths" computes,
   for every event list of any length and every resource, the length of the longest chain of
   events ending on that resource in which consecutive members share a qubit or classical bit. *)
Theorem C09_no_chain_is_longer (evs : list (list rsrc)) (r : rsrc) (n : nat) :
  ChainTo evs r n -> Z.of_nat n <= depth_after rsrc_eqb evs r.
Proof. exact (depth_upper rsrc_eqb rsrc_eqb_spec evs r n). Qed.
Print Assumptions C09_no_chain_is_longer.

Theorem C09_some_chain_attains (evs : list (list rsrc)) (r : rsrc) :
  0 < depth_after rsrc_eqb evs r -> ChainTo evs r (Z.to_nat (depth_after rsrc_eqb evs r)).
Proof. exact (depth_attained rsrc_eqb rsrc_eqb_spec evs r). Qed.
Print Assumptions C09_some_chain_attains.

(* (2) The circuit's depth (maximum over its resources) is the longest chain anywhere. *)
Theorem C09_total_upper univ (evs : list (list rsrc)) r n :
  In r univ -> ChainTo evs r n -> Z.of_nat n <= total_depth rsrc_eqb univ evs.
Proof. exact (total_depth_upper rsrc_eqb rsrc_eqb_spec univ evs r n). Qed.
Print Assumptions C09_total_upper.

Theorem C09_total_attained univ (evs : list (list rsrc)) :
  0 < total_depth rsrc_eqb univ evs ->
  exists r, In r univ /\ ChainTo evs r (Z.to_nat (total_depth rsrc_eqb univ evs)).
Proof. exact (total_depth_attained rsrc_eqb rsrc_eqb_spec univ evs). Qed.
Print Assumptions C09_total_attained.

(* (3) The visitor model's four depth updates are that recurrence on the event they stand for:
   a library-gate application on one broadcast group, a barrier statement, a reset, a measurement
   pair (the measurement synchronises its qubit with its target bit). *)
Theorem C09_model_gate l s s' : NoDup l -> nonneg s ->
  depth_gate_subset l s = Ok (tt, s') -> forall r, dof s' r = dstep rsrc_eqb (dof s) (map Qr l) r.
Proof. exact (gate_subset_is_dstep l s s'). Qed.
Print Assumptions C09_model_gate.

Theorem C09_model_barrier l s s' : NoDup l -> nonneg s ->
  depth_barrier l s = Ok (tt, s') -> forall r, dof s' r = dstep rsrc_eqb (dof s) (map Qr l) r.
Proof. exact (barrier_is_dstep l s s'). Qed.
Print Assumptions C09_model_barrier.

Theorem C09_model_reset b s s' : nonneg s ->
  upd1 reset_upd b s = Ok (tt, s') -> forall r, dof s' r = dstep rsrc_eqb (dof s) [Qr b] r.
Proof. exact (reset1_is_dstep b s s'). Qed.
Print Assumptions C09_model_reset.

Theorem C09_model_measure q c s s' : nonneg s ->
  depth_measure_pair (q, c) s = Ok (tt, s') -> forall r, dof s' r = dstep rsrc_eqb (dof s) [Qr q; Br c] r.
Proof. exact (measure_pair_is_dstep q c s s'). Qed.
Print Assumptions C09_model_measure.

Theorem C09_nonneg_kept (d : dmap (R := rsrc)) ev : (forall r, 0 <= d r) -> forall r, 0 <= dstep rsrc_eqb d ev r.
Proof. exact (dstep_nonneg d ev). Qed.
Print Assumptions C09_nonneg_kept.

(* non-vacuity: a concrete circuit  h q0; cx q0,q1; measure q1->c0; barrier q0,q1,q2; x q2  has depth 5
   along  h - cx - measure - barrier - x *)
Example C09_example :
  let q i := Qr ("q"%string, i) in
  let evs := [[q 0]; [q 0; q 1]; [q 1; Br ("c"%string, 0)]; [q 0; q 1; q 2]; [q 2]] in
  total_depth rsrc_eqb (List.concat evs) evs = 5.
Proof. vm_compute. reflexivity. Qed.
