(* C01: unrolling preserves the meaning of every accepted program.
   Statements only.  The argument has three parts:
   (1) every library gate is lowered to a circuit with the same unitary up to a global phase, for all
       real parameters (Props/C05.v), and its inverse circuit undoes it (Props/C06.v);
   (2) composition (this file, proved in Lang/Process.v): given (1), the lowered program denotes the
       same quantum-classical process as the source-level trace -- for every pattern of measurement
       outcomes the same classical memory and the same state up to a global phase, through
       measurements, resets and measurement-conditioned blocks nested to any depth;
   (3) inlining: the statements the visitor emits are the lowering of the trace the reference
       semantics (Lang/Spec.v) executes, and every program the reference semantics accepts is
       accepted.  (3) is not a theorem here: it is checked on every run by evaluating Spec.v and
       the visitor model on the same programs real pyqasm unrolls (harness/check_c01.py); the
       structural facts about the output that are theorems are flatness (Props/C03.v), operand
       resolution (Props/C02.v), control flow and scoping (Props/C08.v), modifiers (Props/C06.v),
       expression values (Props/C07.v) and external gates (Props/C18.v). *)
From Coq Require Import List Bool String.
From Verif Require Import Aexp BGate PyVal Ast State GatesGen GateLib Unroll Spec ExternalProofs Process Depth DepthModel FixProofs SpecFlat ParamProofs LoopProofs BroadcastProofs ModUnrollProofs GateDefProofs.
Import ListNotations.

Theorem C01_lowering_preserves_process
  (S : Type) (eqv : S -> S -> Prop)
  (eqv_refl : forall s, eqv s s) (eqv_trans : forall a b c, eqv a b -> eqv b c -> eqv a c)
  (G B E C : Type) (gsem : G -> S -> S) (bsem : B -> S -> S) (branch : E -> S -> list S) (holds : C -> S -> bool)
  (bsem_proper : forall b s s', eqv s s' -> eqv (bsem b s) (bsem b s'))
  (branch_proper : forall e s s', eqv s s' -> Forall2 eqv (branch e s) (branch e s'))
  (holds_proper : forall c s s', eqv s s' -> holds c s = holds c s')
  (lower : G -> list B)
  (lower_correct : forall g s, eqv (run_basis S B bsem (lower g) s) (gsem g s))
  fuel (l : list (item G E C)) ss ss' :
  Forall2 eqv ss ss' ->
  Forall2 eqv (lexec S B E C bsem branch holds fuel (lower_prog G B E C lower l) ss)
              (exec S G E C gsem branch holds fuel l ss').
Proof.
  exact (lowering_preserves_process S eqv eqv_trans G B E C gsem bsem branch holds bsem_proper
           branch_proper holds_proper lower lower_correct fuel l ss ss').
Qed.
Print Assumptions C01_lowering_preserves_process.

Theorem C01_same_process_from_any_state
  (S : Type) (eqv : S -> S -> Prop)
  (eqv_refl : forall s, eqv s s) (eqv_trans : forall a b c, eqv a b -> eqv b c -> eqv a c)
  (G B E C : Type) (gsem : G -> S -> S) (bsem : B -> S -> S) (branch : E -> S -> list S) (holds : C -> S -> bool)
  (bsem_proper : forall b s s', eqv s s' -> eqv (bsem b s) (bsem b s'))
  (branch_proper : forall e s s', eqv s s' -> Forall2 eqv (branch e s) (branch e s'))
  (holds_proper : forall c s s', eqv s s' -> holds c s = holds c s')
  (lower : G -> list B)
  (lower_correct : forall g s, eqv (run_basis S B bsem (lower g) s) (gsem g s))
  fuel (l : list (item G E C)) s :
  Forall2 eqv (lexec S B E C bsem branch holds fuel (lower_prog G B E C lower l) [s])
              (exec S G E C gsem branch holds fuel l [s]).
Proof.
  exact (unrolled_program_same_process S eqv eqv_refl eqv_trans G B E C gsem bsem branch holds bsem_proper
           branch_proper holds_proper lower lower_correct fuel l s).
Qed.
Print Assumptions C01_same_process_from_any_state.

(* (3), the part that is a theorem: a call of a library gate emits, for every broadcast group of its resolved
   operands in order, exactly the statements of the decomposition that GatesGen.v -- regenerated from maps.py on
   every run -- holds for that name, at the evaluated parameters; C05 says that decomposition has the gate's
   unitary, so hypothesis lower_correct of the two theorems above is what the code's tables provide *)
Theorem C01_library_call_emits_the_table_decomposition call_rec name args qubits out s s' d np f arity :
  lookup_op bitref name = Some (Some (d, np, f), arity) ->
  visit_basic_gate false call_rec name args qubits false s = Ok (out, s') ->
  exists params targets groups,
    Forall2 (group_lowers f params) targets groups /\ out = List.concat groups.
Proof. exact (basic_gate_emits_table_decomposition call_rec name args qubits out s s' d np f arity). Qed.
Print Assumptions C01_library_call_emits_the_table_decomposition.

(* ... and a call of a custom gate visits the members of the definition's body in order -- in reverse order, each
   with `inv` appended, when the call is inverted -- with the call's parameter values substituted and the formal
   qubits replaced by the actual ones, and emits the concatenation of what those visits emit *)
Theorem C01_custom_call_expands_the_definition visit_rec call_rec name args qubits inverse out s s' :
  visit_custom_gate false visit_rec call_rec name args qubits inverse s = Ok (out, s') ->
  exists gd pmap qmap outs,
    sget name (gates s) = Some gd /\
    out = List.concat outs /\
    Forall2 (fun op o => exists op' s1 s2, expands name pmap qmap inverse op op' /\ visit_rec op' s1 = Ok (o, s2))
            (if inverse then rev (g_body gd) else g_body gd) outs.
Proof. exact (custom_gate_expands_its_body visit_rec call_rec name args qubits inverse out s s'). Qed.
Print Assumptions C01_custom_call_expands_the_definition.

(* non-vacuity: a concrete instance -- states are integers, gates add, "up to phase" is equality;
   two basis steps implement one source gate; a measurement branches; a condition selects *)
Example C01_instance :
  let gsem (g : nat) (s : nat) := g + s in
  let lower (g : nat) := [g; 0] in
  let l := [IGate nat bool bool 3; IEvent nat bool bool true; IIf nat bool bool true [IGate nat bool bool 1] []] in
  lexec nat nat bool bool gsem (fun e s => if e then [s; s + 100] else [s]) (fun c s => Nat.ltb s 50) 5
        (lower_prog nat nat bool bool lower l) [0]
  = exec nat nat bool bool gsem (fun e s => if e then [s; s + 100] else [s]) (fun c s => Nat.ltb s 50) 5 l [0].
Proof. vm_compute. reflexivity. Qed.

(* (3), a proved fragment of the refinement "what the visitor emits is the lowering of the trace the reference semantics
   executes": on EVERY well-formed flat program (Props/C03.v) whose conditionals hold quantum operations only and whose bit
   registers carry no initial value -- any length -- the reference semantics accepts the program and its trace lowers to the
   program itself, which is also what the visitor model emits.  Model and reference semantics agree, statement for
   statement, on all such programs. *)
Theorem C01_reference_semantics_executes_a_flat_program_to_itself strict p :
  wf_flat env0 p = true -> forallb quantum_blocks p = true -> forallb no_bit_init p = true ->
  exists tr, spec_run strict false [] p = Ok tr /\ lower tr = Ok p.
Proof.
  intros Hw Hq Hi. destruct (reference_semantics_on_flat_programs strict p Hw Hq Hi) as (tr & E & L & _).
  exists tr. split; assumption.
Qed.
Print Assumptions C01_reference_semantics_executes_a_flat_program_to_itself.

Theorem C01_model_and_reference_semantics_agree_on_flat_programs strict p o :
  wf_flat env0 p = true -> forallb quantum_blocks p = true -> forallb no_bit_init p = true -> (ldepth p < default_fuel)%nat ->
  unroll_v false [] p = Ok o ->
  exists tr, spec_run strict false [] p = Ok tr /\ lower tr = Ok (o_stmts o).
Proof. exact (model_agrees_with_reference_semantics_on_flat_programs strict p o). Qed.
Print Assumptions C01_model_and_reference_semantics_agree_on_flat_programs.

(* (4) INLINING OF GATE DEFINITIONS, as a theorem about whole programs (Lang/GateDefProofs.v).  `gexpand env0 [] p = Some (q, evs)`
   is a computable judgement on programs whose top level holds includes, register declarations, GATE DEFINITIONS
       gate g(p1, ...) a, b, ... { basis gates on the formal qubits, possibly under inv / pow(k), and calls of gates defined
                                   earlier (nested to depth 24), parameters closed expressions over literals, constants
                                   and the formal parameters }
   under names that are neither defined already nor names of the basis gates, CALLS  g(closed expressions) r[i], r[j], ...;  of defined
   gates on pairwise distinct bits inside their registers, and everything Props/C02.v and Props/C08.v admit (flat operations,
   loops, whole-register operations).  q is the program without the definitions and with every call replaced by the body
   of its definition, formal qubits replaced by the actual bits and formal parameters by the actual values, in order.
   For EVERY such program -- any number of definitions, calls and body statements -- unroll() emits exactly q, q is a
   well-formed flat program (accepted again and a fixpoint of unroll, Props/C03.v), the counts are q's register sizes and the
   depth counters the recurrence over the events of q's operations. *)
Theorem C01_gate_calls_are_replaced_by_instantiated_bodies fuel p q evs :
  gexpand env0 [] p = Some (q, evs) -> (ldepth p + 1 < fuel)%nat -> (gate_nesting < fuel)%nat ->
  exists o, run_visit false false [] fuel p = Ok o /\ o_stmts o = q /\ wf_flat env0 q = true /\
            num_qubits (o_state o) = total_qubits q /\ num_clbits (o_state o) = total_clbits q /\
            forall r, dof (o_state o) r = depth_after rsrc_eqb evs r.
Proof. exact (programs_with_gate_definitions_unroll_to_their_expansion fuel p q evs). Qed.
Print Assumptions C01_gate_calls_are_replaced_by_instantiated_bodies.

(* ... on SOURCE programs, where `qubit q;` and `bit c;` stand for registers of size 1 (`gjudge p = gexpand env0 [] (map sized p)`) *)
Theorem C01_source_programs_unroll_to_their_expansion fuel p q evs :
  gjudge p = Some (q, evs) -> (ldepth p + 1 < fuel)%nat -> (gate_nesting < fuel)%nat ->
  exists o, run_visit false false [] fuel p = Ok o /\ o_stmts o = q /\ wf_flat env0 q = true /\
            num_qubits (o_state o) = total_qubits q /\ num_clbits (o_state o) = total_clbits q /\
            forall r, dof (o_state o) r = depth_after rsrc_eqb evs r.
Proof. exact (source_programs_unroll_to_their_expansion fuel p q evs). Qed.
Print Assumptions C01_source_programs_unroll_to_their_expansion.

(* one call, in any state that holds the definitions G and is expanding the gates of stk (the called gate not among them);
   `gcall n` follows calls of defined gates inside bodies to nesting depth n, instantiating each body in turn *)
Theorem C01_one_gate_call check_only env G n f stk s name args vs qs bss out evs :
  (n <= S f)%nat -> Regs env s -> gates s = G -> gstack s = stk -> cvals args = Some vs ->
  mapM (opnd_bits (e_q env)) qs = Some bss -> distinctb [] (List.concat bss) = true ->
  gcall n env G stk name vs (List.concat bss) = Some (out, evs) ->
  exists s', visit_stmt check_only [] (S (S f)) (SGate [] name args qs) s
             = Ok ((if check_only then [] else out), s') /\ DE s s' /\ Dstep s s' evs.
Proof. exact (gcall_fix check_only env G n f stk s name args vs qs bss out evs). Qed.
Print Assumptions C01_one_gate_call.

From Coq Require Import ZArith.
Local Open Scope Z_scope.
Example C01_gate_definition_example :
  let q k := QIdx "q" [IdxList [IExpr (ELit (VInt k))]] in
  let decls := [SInclude "stdgates.inc"; SQubitDecl "q" (Some (ELit (VInt 3)))] in
  let def := SGateDef "ent" ["t"] ["a"; "b"] [SGate [] "h" [] [QId "a"]; SGate [] "rx" [EId "t"] [QId "b"]; SGate [] "cx" [] [QId "a"; QId "b"]] in
  let p := decls ++ [def; SGate [] "ent" [ELit (VInt 7)] [q 0; q 2]; SGate [] "h" [] [QId "q"]; SGate [] "ent" [ELit (VInt 3)] [q 2; q 1]] in
  option_map fst (gexpand env0 [] p) =
    Some (decls ++ [SGate [] "h" [] [q 0]; SGate [] "rx" [ELit (VInt 7)] [q 2]; SGate [] "cx" [] [q 0; q 2];
                    SGate [] "h" [] [q 0]; SGate [] "h" [] [q 1]; SGate [] "h" [] [q 2];
                    SGate [] "h" [] [q 2]; SGate [] "rx" [ELit (VInt 3)] [q 1]; SGate [] "cx" [] [q 2; q 1]]) /\
  match unroll_v false [] p, gexpand env0 [] p with Ok o, Some (e, _) => list_eqb stmt_eqb (o_stmts o) e | _, _ => false end = true /\
  (* outside the judgement: a call before the definition, a repeated actual qubit, a second definition of the name, a basis-gate name *)
  gexpand env0 [] (decls ++ [SGate [] "ent" [ELit (VInt 7)] [q 0; q 2]; def]) = None /\
  gexpand env0 [] (decls ++ [def; SGate [] "ent" [ELit (VInt 7)] [q 1; q 1]]) = None /\
  gexpand env0 [] (decls ++ [def; def]) = None /\
  gexpand env0 [] (decls ++ [SGateDef "h" [] ["a"] [SGate [] "x" [] [QId "a"]]]) = None.
Proof. vm_compute. repeat split; reflexivity. Qed.

(* definitions calling definitions: three levels, parameters passed down through an expression, an inverse inside a body *)
Example C01_nested_gate_definitions_example :
  let q k := QIdx "q" [IdxList [IExpr (ELit (VInt k))]] in
  let decls := [SInclude "stdgates.inc"; SQubitDecl "q" (Some (ELit (VInt 3)))] in
  let p := decls ++
     [SGateDef "g1" ["t"] ["a"] [SGate [] "rx" [EId "t"] [QId "a"]; SGate [MInv] "s" [] [QId "a"]];
      SGateDef "g2" ["u"] ["a"; "b"] [SGate [] "g1" [EBin "*" (EId "u") (ELit (VInt 2))] [QId "b"]; SGate [] "cx" [] [QId "a"; QId "b"]];
      SGateDef "g3" [] ["a"; "b"; "c"] [SGate [] "g2" [ELit (VInt 3)] [QId "c"; QId "a"]; SGate [] "h" [] [QId "b"]];
      SGate [] "g3" [] [q 0; q 1; q 2]] in
  option_map fst (gexpand env0 [] p) =
    Some (decls ++ [SGate [] "rx" [ELit (VInt 6)] [q 0]; SGate [] "sdg" [] [q 0]; SGate [] "cx" [] [q 2; q 0]; SGate [] "h" [] [q 1]]) /\
  match unroll_v false [] p, gexpand env0 [] p with Ok o, Some (e, _) => list_eqb stmt_eqb (o_stmts o) e | _, _ => false end = true.
Proof. vm_compute. split; reflexivity. Qed.
