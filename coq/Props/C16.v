(* C16: any call sequence equals the composition of its steps. *)
From Coq Require Import ZArith List Bool String.
From Verif Require Import BGate PyVal Ast State Unroll Corr Spec Transforms TransformProofs ModuleSpec ModuleProofs Depth DepthModel FixProofs ValidProofs LoopProofs BroadcastProofs GateDefProofs.
Import ListNotations.
Open Scope Z_scope.

(* the machine of a sequence is the composition of the machines of its parts *)
Theorem C16_composition w h1 h2 :
  run w (h1 ++ h2) = let '(w1, o1) := run w h1 in let '(w2, o2) := run w1 h2 in (w2, o1 ++ o2).
Proof. exact (run_app w h1 h2). Qed.
Print Assumptions C16_composition.

(* queries and repeated validate() calls interleaved anywhere change nothing *)
Theorem C16_queries_transparent h w :
  fst (run w h) = fst (run w (filter (fun io => negb (pure_query (snd io))) h)).
Proof. exact (queries_are_transparent h w). Qed.
Print Assumptions C16_queries_transparent.

(* unroll() keeps the program; it only makes later transformations start from its flat form *)
Theorem C16_unroll_keeps_program m : sp_prog (fst (query m OUnroll)) = sp_prog m /\ sp_q2 (fst (query m OUnroll)) = sp_q2 m.
Proof. exact (query_keeps_program m OUnroll). Qed.
Print Assumptions C16_unroll_keeps_program.

(* a later transformation never undoes or duplicates an earlier one: the pure effects compose *)
Theorem C16_remove_commutes_with_itself k p : remove_kind k (remove_kind k p) = remove_kind k p.
Proof. exact (remove_kind_idempotent k p). Qed.
Print Assumptions C16_remove_commutes_with_itself.

Theorem C16_populate_after_populate p : populate (populate p) = populate p.
Proof. exact (populate_idempotent p). Qed.
Print Assumptions C16_populate_after_populate.

Theorem C16_reverse_after_reverse p : reverse_qubits (reverse_qubits p) = p.
Proof. exact (reverse_involutive p). Qed.
Print Assumptions C16_reverse_after_reverse.

Theorem C16_populate_after_remove_idle p : decls_literal p = true -> populate (remove_idle p) = remove_idle p.
Proof. exact (remove_idle_then_populate p). Qed.
Print Assumptions C16_populate_after_remove_idle.

Theorem C16_calls_on_other_modules_do_not_matter w i j o : i <> j -> (j < List.length w)%nat ->
  nth_error (fst (step w i o)) j = nth_error w j.
Proof. exact (step_other_module w i j o). Qed.
Print Assumptions C16_calls_on_other_modules_do_not_matter.

Example C16_example :
  let q i := bit_qarg ("q"%string, i) in
  let p := [SQubitDecl "q" (Some (ELit (VInt 3))); SGate [] "h" [] [q 2]; SBarrier [q 2]] in
  snd (run [mkMS p false false] [(0%nat, ORemove KBarr true); (0%nat, ONumQ); (0%nat, ORemoveIdle true); (0%nat, OReverse true); (0%nat, ODumps)])
  = [OutUnit; OutZ 3; OutUnit; OutUnit; OutProg [SQubitDecl "q" (Some (ELit (VInt 1))); SGate [] "h" [] [q 0]]].
Proof. vm_compute. reflexivity. Qed.

(* ---- any sequence of transformations, on the visitor model (Module/ValidProofs.v + Lang/FixProofs.v) ----
   Starting from a well-formed flat program (what unroll() leaves, Props/C03.v), after ANY sequence of populate / reverse /
   remove-idle / remove-measurements|barriers|includes steps -- as long as no removal empties an if-block (the known finding
   C03-empty-if-block: pyqasm itself rejects such a program) -- the program is again a well-formed flat program.  So at every
   point of the sequence: validate() accepts it, unroll() accepts it and emits it UNCHANGED (interleaved validate()/unroll()
   calls change nothing; a later step never meets a program an earlier step left invalid), num_qubits is the total of its
   registers and the depth counters are those of its own operations. *)
Theorem C16_any_sequence_of_transformations_leaves_a_valid_stable_program fuel ts p :
  wf_flat env0 p = true -> no_emptied_if ts p = true -> (ldepth (apply_tsteps ts p) < fuel)%nat ->
  (exists o, run_visit false true [] fuel (apply_tsteps ts p) = Ok o /\
             num_qubits (o_state o) = total_qubits (apply_tsteps ts p) /\
             forall r, dof (o_state o) r = depth_after rsrc_eqb (evs_of (apply_tsteps ts p)) r) /\
  (exists o, run_visit false false [] fuel (apply_tsteps ts p) = Ok o /\ o_stmts o = apply_tsteps ts p).
Proof. exact (any_sequence_result_is_valid_and_stable fuel ts p). Qed.
Print Assumptions C16_any_sequence_of_transformations_leaves_a_valid_stable_program.

Example C16_sequence_example :
  let q i := QIdx "q" [IdxList [IExpr (ELit (VInt i))]] in
  let p := [SQubitDecl "q" (Some (ELit (VInt 4))); SClassicalDecl (TBit (Some (ELit (VInt 1)))) "c" None;
            SGate [] "h" [] [q 1]; SBarrier [q 1]; SMeasure (q 1) (Some (QIdx "c" [IdxList [IExpr (ELit (VInt 0))]])); SGate [] "cx" [] [q 1; q 3]]%string in
  let ts := [TRemove KBarr; TReverse; TRemoveIdle; TPopulate; TRemove KMeas] in
  wf_flat env0 p = true /\ no_emptied_if ts p = true /\
  apply_tsteps ts p = [SQubitDecl "q" (Some (ELit (VInt 2))); SClassicalDecl (TBit (Some (ELit (VInt 1)))) "c" None;
                       SGate [] "h" [] [q 1]; SGate [] "cx" [] [q 1; q 0]]%string.
Proof. vm_compute. repeat split; reflexivity. Qed.

(* From the SOURCE program: unroll() of any program inside the whole-program judgement (gate definitions and calls, modifiers,
   loops, whole-register operations, Props/C01.v) gives the flat program q, and q transformed by ANY sequence of the five
   transformations (none of which empties an if-block) is again a valid program that validate() accepts and unroll() leaves as
   it is -- the language-level theorem composed with the module-level one. *)
Theorem C16_unrolled_then_transformed_programs_stay_valid fuel ts p q evs :
  gexpand env0 [] p = Some (q, evs) -> (ldepth p + 1 < fuel)%nat -> (gate_nesting < fuel)%nat ->
  no_emptied_if ts q = true -> (ldepth (apply_tsteps ts q) < fuel)%nat ->
  (exists o, run_visit false false [] fuel p = Ok o /\ o_stmts o = q) /\
  (exists o, run_visit false true [] fuel (apply_tsteps ts q) = Ok o /\
             num_qubits (o_state o) = total_qubits (apply_tsteps ts q) /\
             forall r, dof (o_state o) r = depth_after rsrc_eqb (evs_of (apply_tsteps ts q)) r) /\
  (exists o, run_visit false false [] fuel (apply_tsteps ts q) = Ok o /\ o_stmts o = apply_tsteps ts q).
Proof.
  intros Hx Hf HN Hn Hd.
  destruct (programs_with_gate_definitions_unroll_to_their_expansion fuel p q evs Hx Hf HN) as (o & E & Ho & W & _).
  split; [exists o; split; assumption|]. exact (any_sequence_result_is_valid_and_stable fuel ts q W Hn Hd).
Qed.
Print Assumptions C16_unrolled_then_transformed_programs_stay_valid.
