(* C14: remove_measurements/barriers/includes remove all and only those statements. *)
From Coq Require Import ZArith List Bool String.
From Verif Require Import BGate PyVal Ast State Unroll Corr Spec Transforms TransformProofs ModuleSpec ModuleProofs Depth DepthModel FixProofs ValidProofs.
Import ListNotations.
Open Scope Z_scope.

(* all: nothing of the kind is left, at any nesting depth *)
Theorem C14_none_left k p : has_kind k (remove_kind k p) = false.
Proof. exact (remove_kind_no_kind k p). Qed.
Print Assumptions C14_none_left.

(* only: the remaining leaf statements are exactly the other leaf statements, in order, untouched *)
Theorem C14_others_untouched k p : leavesl (remove_kind k p) = filter (keep k) (leavesl p).
Proof. exact (remove_kind_leaves k p). Qed.
Print Assumptions C14_others_untouched.

(* ... inside the same block structure (conditions, loop headers, definitions unchanged) *)
Theorem C14_structure_kept k p : headersl (remove_kind k p) = headersl p.
Proof. exact (remove_kind_headers k p). Qed.
Print Assumptions C14_structure_kept.

Theorem C14_nothing_to_remove k p : has_kind k p = false -> remove_kind k p = p.
Proof. exact (remove_kind_id k p). Qed.
Print Assumptions C14_nothing_to_remove.

Theorem C14_idempotent k p : remove_kind k (remove_kind k p) = remove_kind k p.
Proof. exact (remove_kind_idempotent k p). Qed.
Print Assumptions C14_idempotent.

(* the has_* answer of the machine after the call is false *)
Theorem C14_flag_false m k b m' :
  effect m (ORemove k b) = Some (Ok m') -> has_kind k (sp_prog m') = false.
Proof. exact (remove_then_flag_false m k b m'). Qed.
Print Assumptions C14_flag_false.

Example C14_example :
  let q i := bit_qarg ("q"%string, i) in let c i := bit_qarg ("c"%string, i) in
  remove_kind KMeas [SInclude "stdgates.inc"; SMeasure (q 0) (Some (c 0));
                     SIf (EId "c") [SGate [] "x" [] [q 1]; SMeasure (q 1) (Some (c 1))] [SBarrier [q 0]]]
  = [SInclude "stdgates.inc"; SIf (EId "c") [SGate [] "x" [] [q 1]] [SBarrier [q 0]]].
Proof. vm_compute. reflexivity. Qed.

(* ---- the visitor model and the program after a removal (Module/ValidProofs.v + Lang/FixProofs.v) ----
   Removing every measurement, every barrier or every include from a well-formed flat program (what unroll() leaves,
   Props/C03.v) leaves a well-formed flat program -- unless the removal empties the if-block of a conditional (the known
   finding C03-empty-if-block) -- so validate() accepts the result and unroll() accepts it and emits it unchanged:
   the statements that remain are really untouched by any later visit. *)
Theorem C14_result_is_a_valid_program_the_visitor_leaves_as_it_is fuel k p :
  wf_flat env0 p = true -> has_empty_if (remove_kind k p) = false -> (ldepth (remove_kind k p) < fuel)%nat ->
  (exists o, run_visit false true [] fuel (remove_kind k p) = Ok o) /\
  (exists o, run_visit false false [] fuel (remove_kind k p) = Ok o /\ o_stmts o = remove_kind k p).
Proof. exact (removal_result_is_valid_and_stable fuel k p). Qed.
Print Assumptions C14_result_is_a_valid_program_the_visitor_leaves_as_it_is.

(* "... and depth() equals the depth of the remaining circuit": the depth counters the visitor model computes for the program
   after the removal are the recurrence of Props/C09.v over the operations that remain, in order *)
Theorem C14_depth_after_removal_is_the_depth_of_what_remains fuel k p :
  wf_flat env0 p = true -> has_empty_if (remove_kind k p) = false -> (ldepth (remove_kind k p) < fuel)%nat ->
  exists o, run_visit false true [] fuel (remove_kind k p) = Ok o /\
            forall r, dof (o_state o) r = depth_after rsrc_eqb (evs_of (remove_kind k p)) r.
Proof. exact (removal_depth_is_depth_of_what_remains fuel k p). Qed.
Print Assumptions C14_depth_after_removal_is_the_depth_of_what_remains.
