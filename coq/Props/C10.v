(* C10: qubit/bit counts and has_* flags always describe the current program.
   Statements only; proofs in Module/ModuleProofs.v, Module/TransformProofs.v. The machine
   (ModuleSpec.v) is the specification of the module API; real pyqasm is compared with it on call
   histories by harness/modcheck.py on every run. *)
From Coq Require Import ZArith List Bool String.
From Verif Require Import BGate PyVal Ast State Unroll Corr Spec Transforms TransformProofs ModuleSpec ModuleProofs FixProofs LoopProofs BroadcastProofs GateDefProofs.
Import ListNotations.
Open Scope Z_scope.

(* every count / depth / validate answer is a function of the current program alone; a flag answer of the
   program and of whether an unrolled view exists (the flat program is then the current one) *)
Theorem C10_answers_depend_on_program m m' o :
  program_query o = true -> sp_prog m = sp_prog m' -> sp_q2 m = sp_q2 m' ->
  (view_query o = true -> sp_unrolled m = sp_unrolled m') -> snd (query m o) = snd (query m' o).
Proof. exact (answers_depend_on_program m m' o). Qed.
Print Assumptions C10_answers_depend_on_program.

(* validate(), unroll(), depth() and the queries never change the program *)
Theorem C10_queries_keep_program m o : sp_prog (fst (query m o)) = sp_prog m /\ sp_q2 (fst (query m o)) = sp_q2 m.
Proof. exact (query_keeps_program m o). Qed.
Print Assumptions C10_queries_keep_program.

(* hence repeating them, in any number and order, never changes any answer (for the flags: as long as no
   unrolled view is produced in between -- unroll() legitimately changes what "the current program" is) *)
Theorem C10_answer_stable_under_queries m os o :
  program_query o = true -> (view_query o = true -> ~ In OUnroll os) -> snd (query (run_q m os) o) = snd (query m o).
Proof. exact (answer_stable_under_queries m os o). Qed.
Print Assumptions C10_answer_stable_under_queries.

(* ... also when interleaved with transformations of any module: the final world is that of the
   call sequence with the queries deleted *)
Theorem C10_queries_are_transparent h w :
  fst (run w h) = fst (run w (filter (fun io => negb (pure_query (snd io))) h)).
Proof. exact (queries_are_transparent h w). Qed.
Print Assumptions C10_queries_are_transparent.

(* after remove_measurements / remove_barriers the flag is false because no such statement is left *)
Theorem C10_flag_false_after_remove m k b m' :
  effect m (ORemove k b) = Some (Ok m') -> has_kind k (sp_prog m') = false.
Proof. exact (remove_then_flag_false m k b m'). Qed.
Print Assumptions C10_flag_false_after_remove.

(* num_qubits after remove_idle_qubits is the number of declared qubits that are used *)
Theorem C10_num_qubits_after_remove_idle p : decls_literal p = true ->
  total_size (qregs_of (remove_idle p))
  = Z.of_nat (List.length (filter (fun b => bmem b (used_qubits p)) (all_qubits (qregs_of p)))).
Proof. exact (remove_idle_num_qubits p). Qed.
Print Assumptions C10_num_qubits_after_remove_idle.

(* reversal, population keep the register tables *)
Theorem C10_reverse_keeps_registers p :
  qregs_of (reverse_qubits p) = qregs_of p /\ cregs_of (reverse_qubits p) = cregs_of p /\
  List.length (reverse_qubits p) = List.length p.
Proof. exact (reverse_declarations p). Qed.
Print Assumptions C10_reverse_keeps_registers.

Theorem C10_populate_keeps_registers p : qregs_of (populate p) = qregs_of p.
Proof. exact (populate_declarations p). Qed.
Print Assumptions C10_populate_keeps_registers.

Example C10_example :
  let p := [SQubitDecl "q" (Some (ELit (VInt 3))); SGate [] "h" [] [bit_qarg ("q"%string, 1)];
            SMeasure (bit_qarg ("q"%string, 1)) (Some (bit_qarg ("c"%string, 0)))] in
  has_kind KMeas p = true /\ has_kind KMeas (remove_kind KMeas p) = false /\
  total_size (qregs_of (remove_idle p)) = 1.
Proof. vm_compute. auto. Qed.

(* ---- on the visitor model itself (Lang/FixProofs.v): the counts of a flat program ----
   For every well-formed flat program (Props/C03.v), of any length and nesting: after validate() as after unroll() the
   module's num_qubits / num_clbits are the sums of the sizes of the qubit / bit registers the program declares --
   the counts "equal the total sizes of the registers of the module's current program" once that program is the
   unrolled one -- and they are the same in both modes, so repeating validate() or unroll() on it cannot change them. *)
Theorem C10_counts_of_a_flat_program_are_its_register_sizes fuel p :
  wf_flat env0 p = true -> (ldepth p < fuel)%nat ->
  (exists o, run_visit false true [] fuel p = Ok o /\
             num_qubits (o_state o) = total_qubits p /\ num_clbits (o_state o) = total_clbits p) /\
  (exists o, run_visit false false [] fuel p = Ok o /\ o_stmts o = p /\
             num_qubits (o_state o) = total_qubits p /\ num_clbits (o_state o) = total_clbits p).
Proof.
  intros Hw Hf. destruct (wf_flat_is_accepted_and_a_fixpoint fuel p Hw Hf) as [(o1 & E1 & A1 & B1 & _) (o2 & E2 & Ho & A2 & B2 & _)].
  split; [exists o1; repeat split; assumption|exists o2; repeat split; assumption].
Qed.
Print Assumptions C10_counts_of_a_flat_program_are_its_register_sizes.

Example C10_counts_example :
  let p := [SQubitDecl "q" (Some (ELit (VInt 3))); SClassicalDecl (TBit (Some (ELit (VInt 2)))) "c" None;
            SQubitDecl "r" (Some (ELit (VInt 4))); SGate [] "h" [] [QIdx "r" [IdxList [IExpr (ELit (VInt 3))]]]]%string in
  wf_flat env0 p = true /\ total_qubits p = 7 /\ total_clbits p = 2.
Proof. vm_compute. repeat split; reflexivity. Qed.

(* ... and the same for programs that are NOT flat: every program of the whole-program judgement (Props/C01.v: gate definitions
   and calls, loops, whole-register operations, flat statements) is accepted by validate() and by unroll(), and in both modes
   num_qubits / num_clbits are the total register sizes of the flat program it stands for -- which declares exactly the
   registers the source declares.  (validate() visits the first iteration of a loop only; the counts do not depend on it.) *)
Theorem C10_counts_of_a_program_with_loops_and_gate_definitions fuel p q evs :
  gexpand env0 [] p = Some (q, evs) -> (ldepth p + 1 < fuel)%nat -> (gate_nesting < fuel)%nat ->
  (exists o, run_visit false true [] fuel p = Ok o /\
             num_qubits (o_state o) = total_qubits q /\ num_clbits (o_state o) = total_clbits q) /\
  (exists o, run_visit false false [] fuel p = Ok o /\ o_stmts o = q /\
             num_qubits (o_state o) = total_qubits q /\ num_clbits (o_state o) = total_clbits q).
Proof.
  intros Hx Hf HN. split.
  - exact (programs_of_the_judgement_are_accepted_by_validate fuel p q evs Hx Hf HN).
  - destruct (programs_with_gate_definitions_unroll_to_their_expansion fuel p q evs Hx Hf HN) as (o & E & Ho & _ & A & B & _).
    exists o. repeat split; assumption.
Qed.
Print Assumptions C10_counts_of_a_program_with_loops_and_gate_definitions.
