(* PROPERTY C08: control flow executes and names resolve as the language prescribes.
   Theorems about the scope machinery and the loop-range function of the visitor model; the
   model is tied to /repo by the correspondence run of ./check C08. *)
From Coq Require Import ZArith List Bool String.
From Verif Require Import BGate PyVal Ast State Unroll ResolveProofs ScopeProofs ControlProofs StackProofs DefProofs Depth DepthModel FixProofs LoopProofs BroadcastProofs ModUnrollProofs LoopModProofs BranchProofs GateDefProofs.
Import ListNotations.
Open Scope Z_scope.

(* a for-loop over [a:s:b] runs exactly for a, a+s, a+2s, ... up to and including b *)
Theorem C08_for_range_inclusive a b s l x :
  py_range a (b + (if 0 <? s then 1 else -1)) s = Ok l ->
  (In x l <-> exists k, 0 <= k /\ x = a + k * s /\ (if 0 <? s then x <= b else b <= x)).
Proof. exact (for_range_inclusive a b s l x). Qed.
Print Assumptions C08_for_range_inclusive.

(* ... in increasing k *)
Theorem C08_for_range_order a b s l i :
  py_range a b s = Ok l -> (i < List.length l)%nat -> nth i l 0 = a + Z.of_nat i * s.
Proof. exact (py_range_nth a b s l i). Qed.
Print Assumptions C08_for_range_order.

(* leaving a block restores the scope and context stacks exactly *)
Theorem C08_block_push_pop s : pop_ctx (pop_scope (push_scope (push_ctx CBlock s))) = s.
Proof. exact (block_push_pop s). Qed.
Print Assumptions C08_block_push_pop.

(* a declaration made inside a block (a shadowing declaration, a loop variable) disappears when
   the block ends and leaves every enclosing scope as it was *)
Theorem C08_declaration_dies_with_block s x v s1 :
  add_var (push_scope (push_ctx CBlock s)) x v = Ok s1 ->
  scopes (pop_ctx (pop_scope s1)) = scopes s /\ ctxs (pop_ctx (pop_scope s1)) = ctxs s.
Proof. exact (declaration_dies_with_block s x v s1). Qed.
Print Assumptions C08_declaration_dies_with_block.

(* inside the block the shadowing declaration is the one that is read *)
Theorem C08_shadow_visible_in_block s x v s1 :
  scopes s <> [] ->
  add_var (push_scope (push_ctx CBlock s)) x v = Ok s1 -> get_visible s1 x = Some v.
Proof. exact (shadow_visible_in_block s x v s1). Qed.
Print Assumptions C08_shadow_visible_in_block.

(* a block at top level reads the enclosing (global) variables *)
Theorem C08_block_reads_enclosing s x :
  ctxs s <> [] -> in_global s = true ->
  get_visible (push_scope (push_ctx CBlock s)) x = get_visible s x.
Proof. exact (block_reads_enclosing_global s x). Qed.
Print Assumptions C08_block_reads_enclosing.

(* a subroutine body cannot see the caller's non-constant variables, but sees global constants *)
Theorem C08_function_body_isolated s x v :
  in_function s = true -> sget x (curr_scope s) = None ->
  sget x (global_scope s) = Some v -> v_const v = false -> get_visible s x = None.
Proof. exact (function_body_isolated s x v). Qed.
Print Assumptions C08_function_body_isolated.

Theorem C08_function_body_sees_constants s x v :
  in_function s = true -> sget x (curr_scope s) = None ->
  sget x (global_scope s) = Some v -> v_const v = true -> get_visible s x = Some v.
Proof. exact (function_body_sees_constants s x v). Qed.
Print Assumptions C08_function_body_sees_constants.

(* a block opened in a subroutine body resolves every name exactly as the body does *)
Theorem C08_block_in_body_reads_as_body s x :
  in_function s = true -> scopes s <> [] ->
  get_visible (push_scope (push_ctx CBlock s)) x = get_visible s x.
Proof. exact (block_in_function_reads_as_body s x). Qed.
Print Assumptions C08_block_in_body_reads_as_body.

(* every visit -- of any statement, with any fuel, from any state, in validate or unroll mode, with or without
   external gates -- returns with exactly the scope and context stacks it started with: blocks, loop
   iterations, switch arms, gate bodies and subroutine calls push and pop in pairs, so a declaration made
   inside them (C08_declaration_dies_with_block) is gone and the enclosing scopes are in place afterwards.
   Proved by induction over the whole visitor model (every function of Unroll.v, the evaluator, the fuel knot). *)
Theorem C08_every_visit_restores_the_stacks check_only externals fuel :
  (forall st s out s', visit_stmt check_only externals fuel st s = Ok (out, s') ->
     List.length (scopes s') = List.length (scopes s) /\ ctxs s' = ctxs s) /\
  (forall f args s r s', visit_call check_only externals fuel f args s = Ok (r, s') ->
     List.length (scopes s') = List.length (scopes s) /\ ctxs s' = ctxs s).
Proof.
  destruct (visit_restores_stacks check_only externals fuel) as [Hs Hc].
  split; [intros st s out s' E; specialize (Hs st s out s' E)|intros f args s r s' E; specialize (Hc f args s r s' E)].
  all: unfold sg in *; match goal with H : (_, _) = (_, _) |- _ => inversion H end; auto.
Qed.
Print Assumptions C08_every_visit_restores_the_stacks.

Theorem C08_program_ends_at_global_scope qasm2 check_only externals fuel prog o :
  run_visit qasm2 check_only externals fuel prog = Ok o ->
  List.length (scopes (o_state o)) = 1%nat /\ ctxs (o_state o) = [CGlobal].
Proof. exact (run_visit_restores_stacks qasm2 check_only externals fuel prog o). Qed.
Print Assumptions C08_program_ends_at_global_scope.

(* repeated calls of a gate or subroutine start from the unmodified definition: every definition in force before a
   visit -- of any statement or subroutine call, with any fuel, from any state, in either mode -- is in force and
   unchanged after it; a definition is only ever ADDED, under a name not yet taken.  (Induction over the whole
   visitor model, Lang/DefProofs.v.) *)
Theorem C08_definitions_are_never_altered check_only externals fuel :
  (forall st s out s', visit_stmt check_only externals fuel st s = Ok (out, s') ->
     (forall n gd, sget n (gates s) = Some gd -> sget n (gates s') = Some gd) /\
     (forall n sd, sget n (subs s) = Some sd -> sget n (subs s') = Some sd)) /\
  (forall f args s r s', visit_call check_only externals fuel f args s = Ok (r, s') ->
     (forall n gd, sget n (gates s) = Some gd -> sget n (gates s') = Some gd) /\
     (forall n sd, sget n (subs s) = Some sd -> sget n (subs s') = Some sd)).
Proof.
  destruct (visit_keeps_definitions check_only externals fuel) as [Hs Hc].
  split; [intros st s out s' E; exact (Hs st s out s' E)|intros f args s r s' E; exact (Hc f args s r s' E)].
Qed.
Print Assumptions C08_definitions_are_never_altered.


(* ---- what the control-flow statements visit and emit (Lang/ControlProofs.v) ---- *)

(* a for-loop runs its body once per element of the range or set, in order: each iteration opens a fresh block scope,
   declares the loop variable, stores the element converted to (and range-checked against) the declared type, visits
   the body, and drops the scope again; the loop emits the concatenation of what the iterations emitted *)
Theorem C08_for_loop_runs_body_once_per_value visit_rec call_rec t var set body decl out s s' :
  visit_for false visit_rec call_rec t var set body decl s = Ok (out, s') ->
  exists init vals s0 outs,
    for_values call_rec set s = Ok ((init, vals), s0) /\
    iterations visit_rec t var init body decl vals s0 outs s' /\
    List.length outs = List.length vals /\
    out = List.concat outs.
Proof.
  intros H. destruct (for_loop_runs_body_once_per_value false visit_rec call_rec t var set body decl out s s' eq_refl H)
    as (init & vals & s0 & outs & A & B & C).
  exists init, vals, s0, outs. repeat split; auto. eapply iterations_length; eauto.
Qed.
Print Assumptions C08_for_loop_runs_body_once_per_value.

(* validate() takes the check-only shortcut: only the first iteration is visited and nothing is emitted *)
Theorem C08_for_loop_validate_visits_first_iteration visit_rec call_rec t var set body decl out s s' :
  visit_for true visit_rec call_rec t var set body decl s = Ok (out, s') ->
  exists init vals s0,
    for_values call_rec set s = Ok ((init, vals), s0) /\ out = [] /\
    match vals with
    | [] => s' = s0
    | v :: _ => exists o, iteration visit_rec t var init body decl v s0 o s'
    end.
Proof. exact (for_loop_check_only_visits_first_iteration true visit_rec call_rec t var set body decl out s s' eq_refl). Qed.
Print Assumptions C08_for_loop_validate_visits_first_iteration.

(* a compile-time if/else executes exactly the arm its condition selects *)
Theorem C08_compile_time_branch_visits_selected_arm check_only visit_rec call_rec cond t e out s s' :
  let s0 := level_push (push_scope (push_ctx CBlock s)) in
  creg_in_expr s0 cond s0 = Ok (false, s0) ->
  visit_branch check_only visit_rec call_rec cond t e s = Ok (out, s') ->
  exists v ne s1 b s2,
    eval0 call_rec cond false None s0 = Ok (v, s1) /\
    py_binop OpNe v (VInt 0) = Ok ne /\
    visit_block visit_rec (if truthy ne then t else e) s1 = Ok (b, s2) /\
    s' = pop_ctx (pop_scope (level_pop s2)) /\
    out = (if check_only then [] else b).
Proof. exact (compile_time_branch_visits_selected_arm check_only visit_rec call_rec cond t e out s s'). Qed.
Print Assumptions C08_compile_time_branch_visits_selected_arm.

(* a measurement-conditioned if stays: one conditional on the same register (bit), both arms visited in order *)
Theorem C08_measured_branch_keeps_both_arms visit_rec call_rec cond t e out s s' :
  let s0 := level_push (push_scope (push_ctx CBlock s)) in
  creg_in_expr s0 cond s0 = Ok (true, s0) ->
  visit_branch false visit_rec call_rec cond t e s = Ok (out, s') ->
  exists rid rname rhs s1 lhs lit tb s2 eb s3,
    branch_params call_rec cond s0 = Ok ((rid, rname, rhs), s1) /\
    lit = ELit rhs /\
    (lhs = EId rname \/ exists i, lhs = EIndexE (EId rname) (IdxList [IExpr (ELit (VInt i))])) /\
    visit_block visit_rec t s1 = Ok (tb, s2) /\
    visit_block visit_rec e s2 = Ok (eb, s3) /\
    s' = pop_ctx (pop_scope (level_pop s3)) /\
    out = [SIf (EBin "==" lhs lit) tb eb].
Proof. exact (measured_branch_keeps_both_arms false visit_rec call_rec cond t e out s s' eq_refl). Qed.
Print Assumptions C08_measured_branch_keeps_both_arms.

(* a switch executes exactly the body of the first case holding a value equal to the target, else the default,
   else nothing; a case is hit only through a value that compares equal to the target *)
Theorem C08_switch_visits_exactly_the_selected_case check_only visit_rec call_rec target cases default out s s' :
  visit_switch check_only visit_rec call_rec target cases default s = Ok (out, s') ->
  exists sa tv s0 r s1,
    eval0 call_rec target false None sa = Ok (tv, s0) /\
    selects call_rec tv default cases s0 r s1 /\
    match r with
    | Some body => eval_case check_only visit_rec body s1 = Ok (out, s')
    | None => out = [] /\ s' = s1
    end.
Proof. exact (switch_visits_exactly_the_selected_case check_only visit_rec call_rec target cases default out s s'). Qed.
Print Assumptions C08_switch_visits_exactly_the_selected_case.

Theorem C08_switch_case_hit_means_equal_value call_rec tv vs s s1 :
  case_scan call_rec tv vs [] false s = Ok (true, s1) ->
  exists e cv s2 s3 eqv, In e vs /\ eval0 call_rec e true (Some KInt) s2 = Ok (cv, s3) /\
                         py_binop OpEq cv tv = Ok eqv /\ truthy eqv = true.
Proof.
  intros H. destruct (case_scan_hit call_rec tv vs [] false s true s1 H eq_refl) as [X|X]; [discriminate|exact X].
Qed.
Print Assumptions C08_switch_case_hit_means_equal_value.

(* WHOLE PROGRAMS WITH LOOPS (Lang/LoopProofs.v).  `expand env0 p = Some q` (a decidable, computable judgement) holds when the
   top level of p consists of includes, register declarations, well-formed flat operations (Props/C03.v) and loops
       for int i in [a:b] { gate / gphase / measurement / reset / barrier ... }
   with literal 32-bit bounds, at most 100000 iterations, whose operations index their registers by literals or by the loop
   variable and are well formed at EVERY value a, a+1, ..., b; q is then the program with every such loop replaced by its
   body instantiated at a, then at a+1, ..., then at b.  For every such program -- any number of loops, iterations and
   operations -- unroll() emits exactly q ("loops run their body once per value, in order, with the variable bound to the
   value"), q is a well-formed flat program (so it is accepted again and unrolling it again changes nothing, Props/C03.v),
   the qubit / bit counts are q's register sizes and the depth counters the recurrence over q's operations. *)
Theorem C08_loops_unroll_to_their_instances fuel p q :
  expand env0 p = Some q -> (ldepth p + 1 < fuel)%nat ->
  exists o, run_visit false false [] fuel p = Ok o /\ o_stmts o = q /\ wf_flat env0 q = true /\
            num_qubits (o_state o) = total_qubits q /\ num_clbits (o_state o) = total_clbits q /\
            forall r, dof (o_state o) r = depth_after rsrc_eqb (evs_of q) r.
Proof. exact (loops_unroll_to_their_instances fuel p q). Qed.
Print Assumptions C08_loops_unroll_to_their_instances.

(* ... with the fuel unroll() uses *)
Corollary C08_unroll_of_a_program_with_loops p q o :
  expand env0 p = Some q -> (ldepth p + 1 < default_fuel)%nat -> unroll_v false [] p = Ok o -> o_stmts o = q.
Proof.
  intros Hx Hf Hu. destruct (loops_unroll_to_their_instances default_fuel p q Hx Hf) as (o' & E & Ho & _).
  unfold unroll_v in Hu. rewrite E in Hu. injection Hu as <-. exact Ho.
Qed.
Print Assumptions C08_unroll_of_a_program_with_loops.

(* one iteration's worth: in a loop body, an operand indexed by the loop variable names the bit the variable's value names *)
Theorem C08_operand_indexed_by_the_loop_variable call_rec env s (is_q : bool) x v r n :
  Regs env s -> InLoop x v s -> sget r (if is_q then e_q env else e_c env) = Some n -> 0 <= v < n ->
  resolve_one call_rec (QIdx r [IdxList [IExpr (EId x)]]) (if is_q then qreg_sizes s else creg_sizes s) is_q s = Ok ([(r, v)], s).
Proof. exact (resolve_loop_var call_rec env s is_q x v r n). Qed.
Print Assumptions C08_operand_indexed_by_the_loop_variable.

(* non-vacuity: two loops around flat operations; the judgement computes the 12-statement flat program, which is what the
   model's unroll emits; an index that leaves the register in the last iteration, a repeated operand at one value and a
   loop variable named like a constant are outside the judgement *)
Example C08_loops_example :
  let qi := QIdx "q" [IdxList [IExpr (EId "i")]] in
  let ci := QIdx "c" [IdxList [IExpr (EId "i")]] in
  let q k := QIdx "q" [IdxList [IExpr (ELit (VInt k))]] in
  let c k := QIdx "c" [IdxList [IExpr (ELit (VInt k))]] in
  let rng a b := FRange (Some (ELit (VInt a))) (Some (ELit (VInt b))) None in
  let decls := [SInclude "stdgates.inc"; SQubitDecl "q" (Some (ELit (VInt 4))); SClassicalDecl (TBit (Some (ELit (VInt 3)))) "c" None] in
  let p := decls ++ [SGate [] "h" [] [q 3];
                     SFor (TInt None) "i" (rng 0 2) [SGate [] "cx" [] [q 3; qi]; SGate [] "rx" [ELit (VInt 2)] [qi]];
                     SBarrier [q 0];
                     SFor (TInt None) "i" (rng 1 2) [SMeasure qi (Some ci); SReset qi]] in
  expand env0 p = Some (decls ++ [SGate [] "h" [] [q 3];
                                  SGate [] "cx" [] [q 3; q 0]; SGate [] "rx" [ELit (VInt 2)] [q 0];
                                  SGate [] "cx" [] [q 3; q 1]; SGate [] "rx" [ELit (VInt 2)] [q 1];
                                  SGate [] "cx" [] [q 3; q 2]; SGate [] "rx" [ELit (VInt 2)] [q 2];
                                  SBarrier [q 0];
                                  SMeasure (q 1) (Some (c 1)); SReset (q 1); SMeasure (q 2) (Some (c 2)); SReset (q 2)]) /\
  match unroll_v false [] p, expand env0 p with Ok o, Some e => list_eqb stmt_eqb (o_stmts o) e | _, _ => false end = true /\
  expand env0 (decls ++ [SFor (TInt None) "i" (rng 0 4) [SGate [] "h" [] [qi]]]) = None /\
  expand env0 (decls ++ [SFor (TInt None) "i" (rng 0 3) [SGate [] "cx" [] [q 3; qi]]]) = None /\
  expand env0 (decls ++ [SFor (TInt None) "pi" (rng 0 1) [SGate [] "h" [] [q 0]]]) = None /\
  expand env0 (decls ++ [SFor (TInt None) "i" (rng 2 1) [SGate [] "h" [] [q 9]]]) = Some decls.
Proof. vm_compute. repeat split; reflexivity. Qed.

(* LOOP BODIES IN GENERAL (Lang/LoopModProofs.v, inside the judgement `gjudge` of Props/C01.v): a body statement may be a flat
   operation indexed by the loop variable (above) or any library gate, under any stack of inv / pow(k), with closed parameter
   expressions, on registers, literal slices, literal bits or bits indexed by the loop variable; each iteration emits what the
   statement unrolls to at that value; a body statement may also be a call of a defined gate (`hcall`: the call's operands may be
   indexed by the loop variable, the body of the definition is instantiated as at the top level).  One loop statement, unroll mode: *)
Theorem C08_loop_with_general_body_unrolls_iteration_by_iteration f env G s stm out evs :
  (Nat.pred gate_nesting <= S f)%nat -> Top env s -> gates s = G -> gstack s = [] -> gloop_ok hcall env G stm = Some (out, evs) ->
  exists s', visit_stmt false [] (S (S (S f))) stm s = Ok (out, s') /\ DE s s' /\ Dstep s s' evs.
Proof. exact (gloop_fix hcall (Nat.pred gate_nesting) hcall_fix f env G s stm out evs). Qed.
Print Assumptions C08_loop_with_general_body_unrolls_iteration_by_iteration.

Example C08_general_loop_example :
  let q k := QIdx "q" [IdxList [IExpr (ELit (VInt k))]] in
  let qi := QIdx "q" [IdxList [IExpr (EId "i")]] in
  let p := [SInclude "stdgates.inc"; SQubitDecl "q" (Some (ELit (VInt 4))); SClassicalDecl (TBit (Some (ELit (VInt 4)))) "c" None;
            SFor (TInt None) "i" (FRange (Some (ELit (VInt 0))) (Some (ELit (VInt 2))) None)
              [SGate [] "cnot" [] [qi; q 3]; SGate [MInv] "s" [] [qi]; SGate [MPow (Some (ELit (VInt 2)))] "rx" [EUn "-" (ELit (VInt 1))] [qi];
               SMeasure qi (Some (QIdx "c" [IdxList [IExpr (EId "i")]]))]] in
  option_map (fun r => List.length (fst r)) (gjudge p) = Some 18%nat /\
  match unroll_v false [] p, gjudge p with Ok o, Some (e, _) => list_eqb stmt_eqb (o_stmts o) e | _, _ => false end = true.
Proof. vm_compute. split; reflexivity. Qed.

(* MEASUREMENT-CONDITIONED BLOCKS IN GENERAL (Lang/BranchProofs.v, inside the judgement `gjudge`): the statements of the two blocks
   may be flat operations, any library gate under inv / pow(k) with closed parameters on registers, slices or bits, or calls of
   defined gates (`hcallb`); the conditional is kept, on the same register bit or register value, with BOTH blocks unrolled ("a measured if keeps both arms") *)
Theorem C08_measured_branch_with_general_blocks check_only f env G s stm out evs :
  (Nat.pred gate_nesting <= f)%nat -> Regs env s -> gates s = G -> gstack s = [] -> branch_ok hcallb env G stm = Some (out, evs) ->
  exists s', visit_stmt check_only [] (S (S f)) stm s = Ok ((if check_only then [] else out), s') /\ DE s s' /\ Dstep s s' evs.
Proof. exact (branch_ok_fix hcallb (Nat.pred gate_nesting) hcallb_fix check_only f env G s stm out evs). Qed.
Print Assumptions C08_measured_branch_with_general_blocks.
