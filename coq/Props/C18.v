(* C18: external_gates keeps the named gates opaque and changes nothing else.
   Statements only; proofs in Lang/ExternalProofs.v, Lang/ModGroup.v. *)
From Coq Require Import ZArith List Bool String PrimFloat.
From Verif Require Import BGate PyVal Ast State Unroll ExternalProofs ModGroup.
Import ListNotations.

Theorem C18_other_calls_untouched check_only visit_rec call_rec ext mods name args qs :
  smem name ext = false ->
  visit_generic_gate check_only ext visit_rec call_rec mods name args qs
  = visit_generic_gate check_only [] visit_rec call_rec mods name args qs.
Proof. exact (not_named_is_plain check_only visit_rec call_rec ext mods name args qs). Qed.
Print Assumptions C18_other_calls_untouched.

Theorem C18_kept_call_shape visit_rec call_rec name args qs inverse out s s' :
  visit_external_gate false visit_rec call_rec name args qs inverse s = Ok (out, s') ->
  exists params, Forall (kept_call name inverse params) out.
Proof. exact (external_shape false visit_rec call_rec name args qs inverse out s s' eq_refl). Qed.
Print Assumptions C18_kept_call_shape.

Theorem C18_still_validated_custom check_only visit_rec call_rec name gd args qs inverse s e :
  sget name (gates s) = Some gd ->
  visit_custom_gate check_only visit_rec call_rec name args qs inverse s = Err e ->
  visit_external_gate check_only visit_rec call_rec name args qs inverse s = Err e.
Proof. exact (external_validates_custom check_only visit_rec call_rec name gd args qs inverse s e). Qed.
Print Assumptions C18_still_validated_custom.

Theorem C18_still_validated_library check_only visit_rec call_rec name args qs inverse s e :
  sget name (gates s) = None ->
  visit_basic_gate check_only call_rec name args qs inverse s = Err e ->
  visit_external_gate check_only visit_rec call_rec name args qs inverse s = Err e.
Proof. exact (external_validates_library check_only visit_rec call_rec name args qs inverse s e). Qed.
Print Assumptions C18_still_validated_library.

(* replacing a kept call by the meaning of the gate it names gives the meaning of the plain expansion:
   a kept `inv @ g` denotes the inverse of g's expansion, which is what plain unroll() expands it to *)
Theorem C18_kept_inverse_meaning (G : Type) op e ginv
  (A : forall a b c : G, op a (op b c) = op (op a b) c) (El : forall a, op e a = a) (Er : forall a, op a e = a)
  (Il : forall a, op (ginv a) a = e) (Ir : forall a, op a (ginv a) = e) (c : call G) :
  lib_ok G ginv c -> ginv (prod G op e (expand G c)) = prod G op e (expand_inv G c).
Proof. intros H. symmetry. exact (expand_inv_is_inverse G op e ginv A El Er Il Ir c H). Qed.
Print Assumptions C18_kept_inverse_meaning.

Example C18_example :
  match unroll_v false ["g"%string]
          [SQubitDecl "q" (Some (ELit (VInt 2)));
           SGateDef "g" ["a"] ["x"] [SGate [] "rx" [EId "a"] [QId "x"]];
           SGate [MInv; MPow (Some (ELit (VInt 2)))] "g" [EBin "*" (ELit (VInt 2)) (ELit (VFloat 0.25%float))] [qarg_of ("q", 1%Z)]]%string with
  | Ok o => o_stmts o
  | Err _ => []
  end
  = [SQubitDecl "q" (Some (ELit (VInt 2)));
     SGate [MInv] "g" [ELit (VFloat 0.5%float)] [qarg_of ("q", 1%Z)]; SGate [MInv] "g" [ELit (VFloat 0.5%float)] [qarg_of ("q", 1%Z)]]%string.
Proof. vm_compute. reflexivity. Qed.
