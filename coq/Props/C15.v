(* C15: in_place=False and copy() never disturb the original module. *)
From Coq Require Import ZArith List Bool String.
From Verif Require Import BGate PyVal Ast State Unroll Corr Spec Transforms TransformProofs ModuleSpec ModuleProofs.
Import ListNotations.
Open Scope Z_scope.

(* the original (and every other module) is exactly what it was *)
Theorem C15_world_untouched w i o : in_place_of o = false -> firstn (List.length w) (fst (step w i o)) = w.
Proof. exact (not_in_place_keeps_world w i o). Qed.
Print Assumptions C15_world_untouched.

(* the returned module is what the in-place call makes of an independent copy *)
Theorem C15_result_is_in_place_effect_on_copy w i o m m' :
  in_place_of o = false -> o <> OCopy -> o <> OToQasm3 -> nth_error w i = Some m -> effect m o = Some (Ok m') ->
  step w i o = (w ++ [m'], OutNew) /\ step [m] 0 (in_place_version o) = ([m'], OutUnit).
Proof. exact (not_in_place_is_effect_on_copy w i o m m'). Qed.
Print Assumptions C15_result_is_in_place_effect_on_copy.

Theorem C15_copy_is_identical w i m : nth_error w i = Some m -> step w i OCopy = (w ++ [m], OutNew).
Proof. exact (copy_is_identical w i m). Qed.
Print Assumptions C15_copy_is_identical.

(* later changes to either module never show through the other *)
Theorem C15_no_interference w i j o : i <> j -> (j < List.length w)%nat ->
  nth_error (fst (step w i o)) j = nth_error w j.
Proof. exact (step_other_module w i j o). Qed.
Print Assumptions C15_no_interference.

Example C15_example :
  let p := [SQubitDecl "q" (Some (ELit (VInt 2))); SBarrier [bit_qarg ("q"%string, 0)]] in
  let w := fst (step [mkMS p false false] 0 (ORemove KBarr false)) in
  nth_error w 0 = Some (mkMS p false false) /\
  nth_error w 1 = Some (mkMS [SQubitDecl "q" (Some (ELit (VInt 2)))] false false).
Proof. vm_compute. auto. Qed.
