(* C12: reverse_qubit_order mirrors every register and is its own inverse. *)
From Coq Require Import ZArith List Bool String.
From Verif Require Import BGate PyVal Ast State Unroll Corr Spec Transforms TransformProofs ModuleSpec ModuleProofs FixProofs ValidProofs.
Import ListNotations.
Open Scope Z_scope.

Theorem C12_involutive p : reverse_qubits (reverse_qubits p) = p.
Proof. exact (reverse_involutive p). Qed.
Print Assumptions C12_involutive.

(* every operation (also inside conditional blocks) acts on size-1-i of the same register *)
Theorem C12_operands_mirrored p n s :
  nth_error p n = Some s ->
  exists s', nth_error (reverse_qubits p) n = Some s' /\
             stmt_qubits s' = map (rev_bit (qregs_of p)) (stmt_qubits s).
Proof. exact (reverse_statement_operands p n s). Qed.
Print Assumptions C12_operands_mirrored.

Theorem C12_mirror_is_size_minus_one_minus_i regs x i n :
  sget x regs = Some n -> rev_bit regs (x, i) = (x, n - 1 - i).
Proof. exact (rev_bit_spec regs x i n). Qed.
Print Assumptions C12_mirror_is_size_minus_one_minus_i.

(* declarations, classical bits, parameters and operation order unchanged *)
Theorem C12_frame p : map erase_idx (reverse_qubits p) = map erase_idx p.
Proof. exact (reverse_frame p). Qed.
Print Assumptions C12_frame.

Theorem C12_declarations p :
  qregs_of (reverse_qubits p) = qregs_of p /\ cregs_of (reverse_qubits p) = cregs_of p /\
  List.length (reverse_qubits p) = List.length p.
Proof. exact (reverse_declarations p). Qed.
Print Assumptions C12_declarations.

Example C12_example :
  let q i := bit_qarg ("q"%string, i) in let r i := bit_qarg ("r"%string, i) in
  reverse_qubits [SQubitDecl "q" (Some (ELit (VInt 4))); SQubitDecl "r" None;
                  SGate [] "cx" [] [q 0; r 0]; SIf (EId "c") [SMeasure (q 1) (Some (bit_qarg ("c"%string, 0)))] []]
  = [SQubitDecl "q" (Some (ELit (VInt 4))); SQubitDecl "r" None;
     SGate [] "cx" [] [q 3; r 0]; SIf (EId "c") [SMeasure (q 2) (Some (bit_qarg ("c"%string, 0)))] []].
Proof. vm_compute. reflexivity. Qed.

(* ---- the visitor model and the transformed program (Module/ValidProofs.v + Lang/FixProofs.v) ----
   What reverse_qubit_order() yields from a well-formed flat program (what unroll() leaves, Props/C03.v) is a well-formed flat program
   again; hence, for every such program of any size: validate() accepts the result, unroll() accepts it and emits it
   UNCHANGED (a later unroll()/validate() cannot undo or duplicate the transformation), and num_qubits is the total of
   the program's qubit registers. *)
Theorem C12_result_is_a_valid_program_the_visitor_leaves_as_it_is fuel p :
  wf_flat env0 p = true -> (ldepth (reverse_qubits p) < fuel)%nat ->
  (exists o, run_visit false true [] fuel (reverse_qubits p) = Ok o /\ num_qubits (o_state o) = total_qubits p) /\
  (exists o, run_visit false false [] fuel (reverse_qubits p) = Ok o /\ o_stmts o = reverse_qubits p /\ num_qubits (o_state o) = total_qubits p).
Proof. exact (reversed_program_is_valid_and_stable fuel p). Qed.
Print Assumptions C12_result_is_a_valid_program_the_visitor_leaves_as_it_is.

Theorem C12_keeps_wellformedness p : wf_flat env0 p = true -> wf_flat env0 (reverse_qubits p) = true.
Proof. exact (reverse_keeps_wellformed p). Qed.
Print Assumptions C12_keeps_wellformedness.
