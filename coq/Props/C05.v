(* PROPERTY C05: every library gate expands to a circuit implementing its defining unitary,
   up to a global phase, for ALL real parameter values.  Obligations are discharged against
   GatesGen.v, which is regenerated from /repo/src/pyqasm/maps.py on every run. *)
From Coq Require Import String List Bool.
From Verif Require Import BGate GateCheck GatesGen GateSpecGen GateLib KnownBad.
Import ListNotations.

Definition c05_checked_names : list string :=
  filter (fun n => has_spec n && negb (smem n c05_known_bad)) all_gate_names.

Lemma c05_all_checked : forallb check_gate c05_checked_names = true.
Proof. vm_compute. reflexivity. Qed.

(* full strength would quantify over all_gate_names; the names in c05_known_bad are the known
   findings (see C05_known_bad_fail) and `ms` (numeric only). *)
Theorem C05_partial : forall name, In name c05_checked_names -> gate_correct name.
Proof.
  intros name Hin. apply check_gate_sound.
  exact (proj1 (forallb_forall _ _) c05_all_checked name Hin).
Qed.
Print Assumptions C05_partial.

(* alias names denote the same unitary: they share one spec entry by construction of
   gate_specs, and each is proved against it above. *)

(* the decision procedure rejects the known-bad decompositions (not a refutation over R; the
   numeric witness is in known_findings.json) *)
Example C05_known_bad_fail :
  map check_gate ["xx_plus_yy"; "xy"]%string = [false; false].
Proof. vm_compute. reflexivity. Qed.

(* non-vacuity: the checked set is large and contains the parameterised multi-qubit gates *)
Example C05_nonvacuous :
  Nat.leb 60 (length c05_checked_names) = true /\
  forallb (fun n => smem n c05_checked_names) ["cu"; "c3sx"; "crx"; "rzz"; "cswap"; "u3"; "gpi2"; "ecr"]%string = true.
Proof. vm_compute. split; reflexivity. Qed.

Eval vm_compute in ("c05_checked_names_are"%string, c05_checked_names).
