(* C06: gate modifiers denote inverse and integer powers.
   Statements only; proofs in Lang/ModProofs.v, Lang/ModGroup.v, Gates/InvCheck.v.  The library
   inverse obligations are discharged against GatesGen.v, regenerated from maps.py on every run. *)
From Coq Require Import ZArith List Bool String Permutation.
From Verif Require Import BGate PyVal Ast State Unroll ExternalProofs GateCheck GatesGen GateSpecGen GateLib KnownBad InvCheck ModProofs ModGroup Depth DepthModel FixProofs ParamProofs BroadcastProofs ModUnrollProofs GateDefProofs.
Import ListNotations.

(* (1) library gates: for every name the inverse table accepts (and that has a defining unitary),
   the circuit emitted for `inv @ g(params)` undoes the circuit emitted for `g(params)` up to a
   global phase, for ALL real parameter values *)
Definition c06_inverse_names : list string :=
  filter (fun n => inv_accepted n && has_spec n) all_gate_names.

Lemma c06_all_checked : forallb check_inverse c06_inverse_names = true.
Proof. vm_compute. reflexivity. Qed.

Theorem C06_library_inverse : forall name, In name c06_inverse_names -> inverse_correct name.
Proof.
  intros name Hin. apply check_inverse_sound.
  exact (proj1 (forallb_forall _ _) c06_all_checked name Hin).
Qed.
Print Assumptions C06_library_inverse.

(* names the table does not accept are rejected (ValidationError), not expanded wrongly *)
Example C06_rejected_names :
  filter (fun n => negb (inv_accepted n)) all_gate_names =
  ["not"; "si"; "ti"; "v"; "sx"; "vi"; "sxdg"; "u1"; "U1"; "u"; "prx"; "phaseshift"; "p"; "gpi"; "gpi2";
   "cv"; "xx_plus_yy"; "iswap"; "cu"; "cu3"; "csx"; "ms"; "c3sx"; "c3sqrtx"; "c4x"]%string.
Proof. vm_compute. reflexivity. Qed.

Example C06_nonvacuous :
  Nat.leb 45 (List.length c06_inverse_names) = true /\
  forallb (fun n => smem n c06_inverse_names) ["crx"; "rzz"; "cp"; "u3"; "u2"; "s"; "tdg"; "cswap"; "ecr"; "cp10"; "pswap"]%string = true.
Proof. vm_compute. split; reflexivity. Qed.

(* (2) modifier stacks collapse to (product of |k_i|, parity of inversions) *)
Theorem C06_collapse call_rec l p i s :
  collapse_mods call_rec (map mod_of l) (VInt p) i s
  = Ok ((VInt (p * spec_power l), xorb i (spec_inv l)), s).
Proof. exact (collapse_spec call_rec l p i s). Qed.
Print Assumptions C06_collapse.

Theorem C06_order_independent call_rec l l' p i s : Permutation l l' ->
  collapse_mods call_rec (map mod_of l) (VInt p) i s = collapse_mods call_rec (map mod_of l') (VInt p) i s.
Proof. exact (collapse_order_independent call_rec l l' p i s). Qed.
Print Assumptions C06_order_independent.

Theorem C06_multiplicative l1 l2 :
  spec_power (l1 ++ l2) = (spec_power l1 * spec_power l2)%Z /\ spec_inv (l1 ++ l2) = xorb (spec_inv l1) (spec_inv l2).
Proof. exact (collapse_app l1 l2). Qed.
Print Assumptions C06_multiplicative.

Theorem C06_pow_zero l1 l2 : spec_power (l1 ++ APow 0 :: l2) = 0%Z.
Proof. exact (pow_zero_is_nothing l1 l2). Qed.
Print Assumptions C06_pow_zero.

Theorem C06_negative_pow k l : (k < 0)%Z ->
  spec_power (APow k :: l) = spec_power (APow (- k) :: l) /\
  spec_inv (APow k :: l) = spec_inv (AInv :: APow (- k) :: l).
Proof. exact (pow_neg_is_inverse_pow k l). Qed.
Print Assumptions C06_negative_pow.

Theorem C06_ctrl_rejected call_rec e ms p i s :
  collapse_mods call_rec (MCtrl e :: ms) p i s = Err (EInternal KNotImpl) /\
  collapse_mods call_rec (MNegCtrl e :: ms) p i s = Err (EInternal KNotImpl).
Proof. exact (ctrl_rejected call_rec e ms p i s). Qed.
Print Assumptions C06_ctrl_rejected.

(* the visitor's part of that: an inverted call of a custom gate visits the members of the definition's body in
   REVERSE order, each with `inv` appended to its modifiers (parameters substituted, formal qubits bound) *)
Theorem C06_inverted_custom_call_reverses_and_inverts_members visit_rec call_rec name args qubits out s s' :
  visit_custom_gate false visit_rec call_rec name args qubits true s = Ok (out, s') ->
  exists gd pmap qmap outs,
    sget name (gates s) = Some gd /\ out = List.concat outs /\
    Forall2 (fun op o => exists op' s1 s2, expands name pmap qmap true op op' /\ visit_rec op' s1 = Ok (o, s2))
            (rev (g_body gd)) outs.
Proof. exact (custom_gate_expands_its_body visit_rec call_rec name args qubits true out s s'). Qed.
Print Assumptions C06_inverted_custom_call_reverses_and_inverts_members.

(* (3) meaning, over any group of circuit meanings: `inv @` on a call tree of custom gates nested to
   any depth (body reversed, members inverted) denotes the inverse, given that every library inverse
   circuit undoes its gate (1); pow is repetition; pow(-k) = inverse repeated k times *)
Theorem C06_custom_inverse (G : Type) op e ginv
  (A : forall a b c : G, op a (op b c) = op (op a b) c) (El : forall a, op e a = a) (Er : forall a, op a e = a)
  (Il : forall a, op (ginv a) a = e) (Ir : forall a, op a (ginv a) = e) (c : call G) :
  lib_ok G ginv c -> prod G op e (expand_inv G c) = ginv (prod G op e (expand G c)).
Proof. exact (expand_inv_is_inverse G op e ginv A El Er Il Ir c). Qed.
Print Assumptions C06_custom_inverse.

Theorem C06_modified_meaning (G : Type) op e ginv
  (A : forall a b c : G, op a (op b c) = op (op a b) c) (El : forall a, op e a = a) (Er : forall a, op a e = a)
  (Il : forall a, op (ginv a) a = e) (Ir : forall a, op a (ginv a) = e) (c : call G) n inverted :
  lib_ok G ginv c ->
  prod G op e (modified G c n inverted)
  = gpow G op e (if inverted then ginv (prod G op e (expand G c)) else prod G op e (expand G c)) n.
Proof. exact (modified_meaning G op e ginv A El Er Il Ir c n inverted). Qed.
Print Assumptions C06_modified_meaning.

Theorem C06_negative_power_meaning (G : Type) op e ginv
  (A : forall a b c : G, op a (op b c) = op (op a b) c) (El : forall a, op e a = a) (Er : forall a, op a e = a)
  (Il : forall a, op (ginv a) a = e) (Ir : forall a, op a (ginv a) = e) (c : call G) n :
  lib_ok G ginv c -> prod G op e (modified G c n true) = ginv (prod G op e (modified G c n false)).
Proof. exact (negative_power G op e ginv A El Er Il Ir c n). Qed.
Print Assumptions C06_negative_power_meaning.

Eval vm_compute in ("c06_inverse_names_are"%string, c06_inverse_names).

(* MODIFIED BASIS GATES IN WHOLE PROGRAMS (Lang/ModUnrollProofs.v, inside the judgement of Props/C01.v).  A statement
       m1 @ m2 @ ... @ g(params) operands;       mi ::= inv | pow(k), k an integer literal of any sign; operands registers,
       literal slices or literal bits, cut into consecutive groups of g's arity (`tgs`), one application per group;
       params closed expressions over literals, pi / tau / euler and the operators (`cparams` computes their values)
   on ANY library gate g that no definition shadows collapses to a count p (the product of the |k|) and a flag inv (the parity
   of the `inv`s and the negative k); unroll() emits p copies of what the operation tables lower g -- or, when inv holds, the
   inverse of g -- to (`lower_app`, computed from the tables as the visitor does: self-inverse gates stay, s <-> sdg, t <-> tdg,
   rotations negate their angle, cnot gives cx, u3 its rz / rx sequence, ...); pow(0) emits nothing.  One statement, any modifier list, any state that holds the registers and satisfies an invariant P that depth
   bookkeeping does not disturb and relative to which the operands resolve to `bits` and the parameters evaluate to `vs`
   (P = True at the top level; P = the loop variable holds v inside a loop body, Lang/LoopModProofs.v): *)
Theorem C06_modified_basis_gate_unrolls_to_repetitions check_only visit_rec call_rec (P : st -> Prop)
  (P_DE : forall s s', P s -> DE s s' -> P s') env s mods name args vs qs bits p inv tgs sts :
  Regs env s -> P s -> smemk name (gates s) = false -> cmods mods 1 false = Some (p, inv) -> (p < 10000)%Z ->
  resolves call_rec P env qs bits ->
  lower_app env name vs bits inv = Some (tgs, sts) -> evaluates call_rec P args vs ->
  exists s1, visit_generic_gate check_only [] visit_rec call_rec mods name args qs s
             = Ok ((if check_only then [] else copies (Z.to_nat p) (List.concat sts)), s1) /\ DE s s1 /\
             Dstep s s1 (copies (Z.to_nat p) (map (map Qr) tgs)).
Proof. exact (modified_gate_fix check_only visit_rec call_rec P P_DE env s mods name args vs qs bits p inv tgs sts). Qed.
Print Assumptions C06_modified_basis_gate_unrolls_to_repetitions.

(* the count and the flag do not depend on the order of the modifiers *)
Example C06_modified_gates_in_a_program :
  let q k := QIdx "q" [IdxList [IExpr (ELit (VInt k))]] in
  let pw k := MPow (Some (ELit (VInt k))) in
  let npw k := MPow (Some (EUn "-" (ELit (VInt k)))) in
  let decls := [SInclude "stdgates.inc"; SQubitDecl "q" (Some (ELit (VInt 3)))] in
  let p := decls ++ [SGate [MInv] "s" [] [q 0]; SGate [pw 2] "x" [] [q 1]; SGate [npw 2; MInv] "t" [] [q 2];
                     SGate [MInv; pw 3] "rx" [ELit (VInt 2)] [q 0]; SGate [MInv] "cx" [] [q 0; q 1]; SGate [pw 0] "h" [] [q 0];
                     SGate [MInv; MInv] "sdg" [] [q 1]] in
  option_map fst (gexpand env0 [] p) =
    Some (decls ++ [SGate [] "sdg" [] [q 0]; SGate [] "x" [] [q 1]; SGate [] "x" [] [q 1]; SGate [] "t" [] [q 2]; SGate [] "t" [] [q 2];
                    SGate [] "rx" [ELit (VInt (-2))] [q 0]; SGate [] "rx" [ELit (VInt (-2))] [q 0]; SGate [] "rx" [ELit (VInt (-2))] [q 0];
                    SGate [] "cx" [] [q 0; q 1]; SGate [] "sdg" [] [q 1]])%Z /\
  match unroll_v false [] p, gexpand env0 [] p with Ok o, Some (e, _) => list_eqb stmt_eqb (o_stmts o) e | _, _ => false end = true.
Proof. vm_compute. split; reflexivity. Qed.
