(* C11: remove_idle_qubits drops exactly the unused qubits and renumbers the rest. *)
From Coq Require Import ZArith List Bool String.
From Verif Require Import BGate PyVal Ast State Unroll Corr Spec Transforms TransformProofs ModuleSpec ModuleProofs FixProofs ValidProofs.
Import ListNotations.
Open Scope Z_scope.

Theorem C11_no_idle_qubit_remains p : decls_literal p = true -> idle_qubits (remove_idle p) = [].
Proof. exact (remove_idle_no_idle p). Qed.
Print Assumptions C11_no_idle_qubit_remains.

Theorem C11_used_qubits_are_kept p b : decls_literal p = true ->
  In b (used_qubits p) -> in_regs (qregs_of p) b ->
  in_regs (qregs_of (remove_idle p)) (idle_rename (used_qubits p) b).
Proof. exact (remove_idle_keeps_used p b). Qed.
Print Assumptions C11_used_qubits_are_kept.

(* survivors are renumbered consecutively (onto 0..k-1, see C11_registers and rank_onto) in their original order *)
Theorem C11_order_preserved p x i j :
  In (x, i) (used_qubits p) -> 0 <= i < j ->
  snd (idle_rename (used_qubits p) (x, i)) < snd (idle_rename (used_qubits p) (x, j)).
Proof. exact (remove_idle_order p x i j). Qed.
Print Assumptions C11_order_preserved.

Theorem C11_renumbering_injective p a b :
  In a (used_qubits p) -> In b (used_qubits p) -> 0 <= snd a -> 0 <= snd b ->
  idle_rename (used_qubits p) a = idle_rename (used_qubits p) b -> a = b.
Proof. exact (remove_idle_injective p a b). Qed.
Print Assumptions C11_renumbering_injective.

Theorem C11_renumbering_onto used r n k : 0 <= k < rank used r n ->
  exists i, 0 <= i < n /\ isused used r i = true /\ rank used r i = k.
Proof. exact (rank_onto used r n k). Qed.
Print Assumptions C11_renumbering_onto.

(* registers: each keeps as many qubits as were used, empty ones are undeclared *)
Theorem C11_registers p : decls_literal p = true ->
  qregs_of (remove_idle p) = flat_map (shrink_reg (used_qubits p)) (qregs_of p).
Proof. exact (remove_idle_registers p). Qed.
Print Assumptions C11_registers.

(* every operation refers to the renumbered qubit it referred to before *)
Theorem C11_operands_renamed p :
  used_qubits (remove_idle p) = map (idle_rename (used_qubits p)) (used_qubits p).
Proof. exact (remove_idle_operands p). Qed.
Print Assumptions C11_operands_renamed.

(* classical registers, order and kind of operations, parameters, classical operands unchanged *)
Theorem C11_frame p :
  cregs_of (remove_idle p) = cregs_of p /\
  map erase_idx (filter (fun s => negb (is_qdecl s)) (remove_idle p))
  = map erase_idx (filter (fun s => negb (is_qdecl s)) p).
Proof. exact (remove_idle_frame p). Qed.
Print Assumptions C11_frame.

Theorem C11_num_qubits p : decls_literal p = true ->
  total_size (qregs_of (remove_idle p))
  = Z.of_nat (List.length (filter (fun b => bmem b (used_qubits p)) (all_qubits (qregs_of p)))).
Proof. exact (remove_idle_num_qubits p). Qed.
Print Assumptions C11_num_qubits.

Example C11_example :
  let q i := bit_qarg ("q"%string, i) in
  remove_idle [SQubitDecl "q" (Some (ELit (VInt 5))); SQubitDecl "r" (Some (ELit (VInt 2)));
               SGate [] "cx" [] [q 1; q 4]; SIf (EId "c") [SReset (q 3)] []]
  = [SQubitDecl "q" (Some (ELit (VInt 3))); SGate [] "cx" [] [q 0; q 2]; SIf (EId "c") [SReset (q 1)] []].
Proof. vm_compute. reflexivity. Qed.

(* ---- "yields a valid program": the visitor model and the result (Module/ValidProofs.v + Lang/FixProofs.v) ----
   remove_idle of a well-formed flat program (what unroll() leaves, Props/C03.v) is a well-formed flat program: every
   surviving register is declared with its new size (between 1 and the old size) under its old name, every operation --
   at any depth of conditionals -- names renumbered qubits inside the shrunk registers, pairwise distinct as before.
   Hence, for every such program of any size: validate() accepts the result, unroll() accepts it and emits it
   unchanged, and num_qubits is the total of the shrunk registers. *)
Theorem C11_result_is_a_valid_program_the_visitor_leaves_as_it_is fuel p :
  wf_flat env0 p = true -> (ldepth (remove_idle p) < fuel)%nat ->
  (exists o, run_visit false true [] fuel (remove_idle p) = Ok o /\ num_qubits (o_state o) = total_qubits (remove_idle p)) /\
  (exists o, run_visit false false [] fuel (remove_idle p) = Ok o /\ o_stmts o = remove_idle p /\ num_qubits (o_state o) = total_qubits (remove_idle p)).
Proof. exact (remove_idle_result_is_valid_and_stable fuel p). Qed.
Print Assumptions C11_result_is_a_valid_program_the_visitor_leaves_as_it_is.

Theorem C11_remove_idle_keeps_wellformedness p : wf_flat env0 p = true -> wf_flat env0 (remove_idle p) = true.
Proof. exact (remove_idle_keeps_wellformed p). Qed.
Print Assumptions C11_remove_idle_keeps_wellformedness.
