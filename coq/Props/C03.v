(* C03: unrolled output is flat, self-contained, re-loadable and a fixpoint of unroll.
   Statements only; proofs in Lang/FlatProofs.v.  The flatness clause is a theorem about the visitor
   model for every program; the acceptance and fixpoint clauses are theorems about the visitor model for
   every WELL-FORMED flat program (Lang/FixProofs.v; ./check C03 evaluates the well-formedness predicate on
   every real output); the text round trip involves the third-party parser/printer and is established on the
   explored programs by harness/check_c03.py. *)
From Coq Require Import ZArith List Bool String.
From Verif Require Import BGate PyVal Ast State Unroll FlatProofs FixProofs.
Import ListNotations.

(* For every program, OpenQASM 2 or 3, with or without external gates: every statement of the output
   is flat -- include; register declaration with a literal size; gate call without modifiers (or the
   single `inv` of a kept external gate) with literal parameters on literally indexed single qubits;
   single-bit measurement; reset; single-qubit barrier; gphase with a literal angle; or a conditional on
   `reg[i] == literal` / `reg == literal` whose blocks are flat.  No loop, definition, alias, call,
   classical variable or unevaluated parameter remains. *)
Theorem C03_unroll_is_flat qasm2 externals prog o :
  unroll_v qasm2 externals prog = Ok o -> forallb flatb (o_stmts o) = true.
Proof. exact (unroll_flat qasm2 externals prog o). Qed.
Print Assumptions C03_unroll_is_flat.

(* the same for every fuel and every intermediate visit (statement or subroutine call) *)
Theorem C03_every_visit_is_flat check_only externals fuel :
  (forall st, FM (visit_stmt check_only externals fuel st)) /\
  (forall f args, FE (visit_call check_only externals fuel f args)).
Proof. exact (visit_flat check_only externals fuel). Qed.
Print Assumptions C03_every_visit_is_flat.

(* what flat excludes, spelled out on the statement kinds of the language *)
Example C03_flat_excludes :
  map flatb [SFor (TInt None) "i" (FSet []) []; SGateDef "g" [] ["a"] []; SSubDef "f" [] None [];
             SAlias "a" (EId "q"); SExprStmt (ECall "f" []); SClassicalDecl (TInt None) "x" None;
             SConstDecl (TInt None) "x" (ELit (VInt 1)); SAssign (QId "x") "=" (ELit (VInt 1));
             SSwitch (EId "x") [] None; SGate [MPow None] "x" [] []; SGate [] "rx" [EId "t"] [];
             SGate [] "x" [] [QId "q"]; SGate [] "x" [] [QIdx "q" [IdxList [IExpr (EId "i")]]];
             SQubitDecl "q" (Some (EId "n")); SIf (EId "b") [] []; SMeasure (QId "q") None]%string
  = repeat false 16.
Proof. vm_compute. reflexivity. Qed.

Example C03_example :
  match unroll_v false [] [SQubitDecl "q" (Some (ELit (VInt 2))); SClassicalDecl (TBit (Some (ELit (VInt 2)))) "c" None;
                            SFor (TInt None) "i" (FRange (Some (ELit (VInt 0))) (Some (ELit (VInt 1))) None)
                              [SGate [] "h" [] [QIdx "q" [IdxList [IExpr (EId "i")]]];
                               SMeasure (QIdx "q" [IdxList [IExpr (EId "i")]]) (Some (QIdx "c" [IdxList [IExpr (EId "i")]]))]]%string with
  | Ok o => List.length (o_stmts o)
  | Err _ => 0%nat
  end = 6%nat.
Proof. vm_compute. reflexivity. Qed.

(* Re-load and fixpoint clauses.  A flat program is WELL FORMED (wf_flat, a decidable predicate) when every statement is an
   include not seen before, a qubit / bit register declaration with a literal size 1 <= n < 100000 under a fresh name
   (a bit register's initial value, if any, a literal), or an operation on registers declared BEFORE it: a gate of a
   name the operation tables lower to itself (id h x y z s t sdg tdg sx rx ry rz cx cz swap ccx c4x), with numeric
   literal parameters of the right number, on the right number of pairwise distinct, literally indexed qubits inside
   their registers; a gphase with a numeric literal and no operands; a single-bit measurement, a reset, a single-qubit
   barrier on such bits; a conditional `c == k` / `c[i] == true|false` on a declared register / bit inside it with a
   non-empty if-block, both blocks well-formed operations.
   For EVERY such program, of any length and any nesting depth (fuel above the nesting depth): validate() accepts it,
   unroll() accepts it, and unroll() emits exactly the program itself -- "accepted again ... unrolling it again
   changes nothing". *)
Theorem C03_wellformed_flat_program_is_accepted_and_a_fixpoint fuel p :
  wf_flat env0 p = true -> (ldepth p < fuel)%nat ->
  (exists o, run_visit false true [] fuel p = Ok o) /\
  (exists o, run_visit false false [] fuel p = Ok o /\ o_stmts o = p).
Proof.
  intros Hw Hf. destruct (wf_flat_is_accepted_and_a_fixpoint fuel p Hw Hf) as [(o1 & E1 & _) (o2 & E2 & Ho & _)].
  split; [exists o1; exact E1|exists o2; split; assumption].
Qed.
Print Assumptions C03_wellformed_flat_program_is_accepted_and_a_fixpoint.

(* ... with the fuel the model's unroll / validate use, for programs nested less than 200 deep *)
Corollary C03_unroll_of_wellformed_flat_program_is_identity p o :
  wf_flat env0 p = true -> (ldepth p < default_fuel)%nat ->
  unroll_v false [] p = Ok o -> o_stmts o = p.
Proof.
  intros Hw Hd Hu. destruct (wf_flat_is_accepted_and_a_fixpoint default_fuel p Hw Hd) as [_ (o' & E & Ho & _)].
  unfold unroll_v in Hu. rewrite E in Hu. injection Hu as <-. exact Ho.
Qed.
Print Assumptions C03_unroll_of_wellformed_flat_program_is_identity.

(* every operation of a well-formed flat program is accepted and emitted as it stands in any state that holds the
   registers declared so far, in validate and in unroll mode (the per-statement form, by induction on the fuel) *)
Theorem C03_wellformed_operation_is_emitted_unchanged check_only fuel stm env s :
  (sdepth stm < fuel)%nat -> Regs env s -> op_ok env stm = true ->
  exists s', visit_stmt check_only [] fuel stm s = Ok ((if check_only then [] else [stm]), s') /\ DE s s'.
Proof.
  intros Hf R Ho. destruct (op_fix check_only fuel stm env s Hf R Ho) as (s' & E & D & _). exists s'. split; assumption.
Qed.
Print Assumptions C03_wellformed_operation_is_emitted_unchanged.

(* non-vacuity: a concrete program with every statement kind, nested conditionals included, is well formed; and the
   predicate rejects a use before the declaration, an operand outside its register, a repeated operand, a gate that
   is not a basis gate, an unevaluated parameter *)
Example C03_wf_flat_example :
  let q i := QIdx "q" [IdxList [IExpr (ELit (VInt i))]] in
  let c i := QIdx "c" [IdxList [IExpr (ELit (VInt i))]] in
  let decls := [SInclude "stdgates.inc"; SQubitDecl "q" (Some (ELit (VInt 3))); SClassicalDecl (TBit (Some (ELit (VInt 2)))) "c" None] in
  wf_flat env0 (decls ++
     [SGate [] "h" [] [q 0]; SGate [] "rx" [ELit (VInt 2)] [q 1]; SGate [] "ccx" [] [q 2; q 0; q 1]; SPhase [] (ELit (VInt 1)) [];
      SMeasure (q 0) (Some (c 1)); SReset (q 0); SBarrier [q 2];
      SIf (EBin "==" (EIndexE (EId "c") (IdxList [IExpr (ELit (VInt 1))])) (ELit (VBool true)))
          [SGate [] "x" [] [q 1]; SIf (EBin "==" (EId "c") (ELit (VInt 2))) [SGate [] "z" [] [q 2]] []] [SGate [] "y" [] [q 0]]]) = true /\
  map (fun st => wf_flat env0 (decls ++ [st]))
      [SGate [] "h" [] [q 3]; SGate [] "cx" [] [q 1; q 1]; SGate [] "crz" [ELit (VInt 1)] [q 0; q 1]; SGate [] "rx" [EId "t"] [q 0];
       SMeasure (q 0) (Some (c 2)); SGate [] "h" [] [QIdx "r" [IdxList [IExpr (ELit (VInt 0))]]]; SQubitDecl "q" (Some (ELit (VInt 1)))]
  = repeat false 7 /\
  wf_flat env0 [SGate [] "h" [] [q 0]; SQubitDecl "q" (Some (ELit (VInt 3)))] = false.
Proof. vm_compute. repeat split; reflexivity. Qed.
