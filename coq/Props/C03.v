(* C03: unrolled output is flat, self-contained, re-loadable and a fixpoint of unroll.
   Statements only; proofs in Lang/FlatProofs.v.  The flatness clause is a theorem about the visitor
   model for every program; the re-load and fixpoint clauses involve the third-party parser/printer
   and are established on the explored programs by harness/check_c03.py. *)
From Coq Require Import ZArith List Bool String.
From Verif Require Import BGate PyVal Ast State Unroll FlatProofs.
Import ListNotations.

(* For every program, OpenQASM 2 or 3, with or without external gates: every statement of the output
   is flat -- include; register declaration with a literal size; gate call without modifiers (or the
   single `inv` of a kept external gate) with literal parameters on literally indexed single qubits;
   single-bit measurement; reset; single-qubit barrier; gphase with a literal angle; or a conditional on
   `reg[i] == literal` / `reg == literal` whose blocks are flat.  No loop, definition, alias, call,
   classical variable or unevaluated parameter remains. *)
Theorem C03_unroll_is_flat qasm2 externals prog o :
  unroll_v qasm2 externals prog = Ok o -> forallb flatb (o_stmts o) = true.
Proof. exact (unroll_flat qasm2 externals prog o). Qed.
Print Assumptions C03_unroll_is_flat.

(* the same for every fuel and every intermediate visit (statement or subroutine call) *)
Theorem C03_every_visit_is_flat check_only externals fuel :
  (forall st, FM (visit_stmt check_only externals fuel st)) /\
  (forall f args, FE (visit_call check_only externals fuel f args)).
Proof. exact (visit_flat check_only externals fuel). Qed.
Print Assumptions C03_every_visit_is_flat.

(* what flat excludes, spelled out on the statement kinds of the language *)
Example C03_flat_excludes :
  map flatb [SFor (TInt None) "i" (FSet []) []; SGateDef "g" [] ["a"] []; SSubDef "f" [] None [];
             SAlias "a" (EId "q"); SExprStmt (ECall "f" []); SClassicalDecl (TInt None) "x" None;
             SConstDecl (TInt None) "x" (ELit (VInt 1)); SAssign (QId "x") "=" (ELit (VInt 1));
             SSwitch (EId "x") [] None; SGate [MPow None] "x" [] []; SGate [] "rx" [EId "t"] [];
             SGate [] "x" [] [QId "q"]; SGate [] "x" [] [QIdx "q" [IdxList [IExpr (EId "i")]]];
             SQubitDecl "q" (Some (EId "n")); SIf (EId "b") [] []; SMeasure (QId "q") None]%string
  = repeat false 16.
Proof. vm_compute. reflexivity. Qed.

Example C03_example :
  match unroll_v false [] [SQubitDecl "q" (Some (ELit (VInt 2))); SClassicalDecl (TBit (Some (ELit (VInt 2)))) "c" None;
                            SFor (TInt None) "i" (FRange (Some (ELit (VInt 0))) (Some (ELit (VInt 1))) None)
                              [SGate [] "h" [] [QIdx "q" [IdxList [IExpr (EId "i")]]];
                               SMeasure (QIdx "q" [IdxList [IExpr (EId "i")]]) (Some (QIdx "c" [IdxList [IExpr (EId "i")]]))]]%string with
  | Ok o => List.length (o_stmts o)
  | Err _ => 0%nat
  end = 6%nat.
Proof. vm_compute. reflexivity. Qed.
