(* C19: OpenQASM 2 programs stay OpenQASM 2 and convert faithfully to OpenQASM 3.
   Statements only; proofs in Text/Qasm2.v. *)
From Coq Require Import ZArith List Bool String.
From Verif Require Import BGate PyVal Ast State Unroll Qasm2 FixProofs LoopProofs BroadcastProofs GateDefProofs.
From Verif Require Import ModuleSpec ModuleProofs.
Import ListNotations.

(* top-level statements outside the OpenQASM 2 subset are rejected with ValidationError *)
Theorem C19_outside_subset_rejected check_only externals fuel prog :
  forallb qasm2_allowed prog = false -> run_visit true check_only externals fuel prog = Err EValidation.
Proof. exact (whitelist_rejects check_only externals fuel prog). Qed.
Print Assumptions C19_outside_subset_rejected.

(* a version-2 module is unrolled exactly as a version-3 module: same meaning guarantees *)
Theorem C19_same_visit_as_version_3 check_only externals fuel prog :
  forallb qasm2_allowed prog = true ->
  run_visit true check_only externals fuel prog = run_visit false check_only externals fuel prog.
Proof. exact (whitelisted_same_visit check_only externals fuel prog). Qed.
Print Assumptions C19_same_visit_as_version_3.

(* printed declarations: every `qubit[n] x;` / `bit[n] x;` line becomes `qreg x[n];` / `creg x[n];`,
   every other line is untouched, none is left, nothing is added or dropped *)
Theorem C19_declarations_rewritten p :
  format_declarations p =
  map (fun l => match l with LQubit n x => LQreg n x | LBit n x => LCreg n x | _ => l end) p.
Proof. exact (format_spec p). Qed.
Print Assumptions C19_declarations_rewritten.

Theorem C19_no_version_3_declaration_left p l : In l (format_declarations p) ->
  forall n x, l <> LQubit n x /\ l <> LBit n x.
Proof. exact (format_no_v3_declaration_left p l). Qed.
Print Assumptions C19_no_version_3_declaration_left.

Theorem C19_other_lines_untouched p l : In l p -> (forall n x, l <> LQubit n x /\ l <> LBit n x) -> In l (format_declarations p).
Proof. exact (format_frame p l). Qed.
Print Assumptions C19_other_lines_untouched.

Theorem C19_format_idempotent p : format_declarations (format_declarations p) = format_declarations p.
Proof. exact (format_idempotent p). Qed.
Print Assumptions C19_format_idempotent.

(* to_qasm3 keeps every statement except that the qelib1 include becomes the stdgates include *)
Theorem C19_to_qasm3_keeps_statements p :
  filter (fun s => negb (is_include s)) (to_qasm3 p) = filter (fun s => negb (is_include s)) p.
Proof. exact (to_qasm3_keeps_statements p). Qed.
Print Assumptions C19_to_qasm3_keeps_statements.

Theorem C19_to_qasm3_stays_in_subset p : forallb qasm2_allowed p = true -> forallb qasm2_allowed (to_qasm3 p) = true.
Proof. exact (to_qasm3_whitelisted p). Qed.
Print Assumptions C19_to_qasm3_stays_in_subset.

Example C19_example :
  map render (format_declarations [LOtherLine "OPENQASM 2.0;"; LQubit "2" "qubit_1"; LBit "3" "mbit"; LOtherLine "h qubit_1[0];"])
  = ["OPENQASM 2.0;"; "qreg qubit_1[2];"; "creg mbit[3];"; "h qubit_1[0];"]%string.
Proof. reflexivity. Qed.

(* in a call history: to_qasm3() of a version-2 module adds a NEW version-3 module holding the module's current
   program (the transformations applied so far included) with the include rewritten; nothing else changes *)
Theorem C19_to_qasm3_is_a_new_module w i m : nth_error w i = Some m -> sp_q2 m = true ->
  step w i OToQasm3 = (w ++ [mkMS (to_qasm3 (sp_prog m)) false false], OutNew).
Proof. exact (to_qasm3_is_a_new_module w i m). Qed.
Print Assumptions C19_to_qasm3_is_a_new_module.


(* a flat version-2 program (no gphase: the known finding C19-gphase-in-version-2-output) that is well formed is accepted by
   the version-2 module exactly as by the version-3 one and unrolls to itself: what dumps() prints for an unrolled
   version-2 module is, read again as version 2, the same circuit *)
Theorem C19_wellformed_flat_version_2_program_is_a_fixpoint fuel p :
  forallb qasm2_allowed p = true -> wf_flat env0 p = true -> (ldepth p < fuel)%nat ->
  (exists o, run_visit true true [] fuel p = Ok o) /\
  (exists o, run_visit true false [] fuel p = Ok o /\ o_stmts o = p).
Proof.
  intros Ha Hw Hf. destruct (wf_flat_is_accepted_and_a_fixpoint fuel p Hw Hf) as [(o1 & E1 & _) (o2 & E2 & Ho & _)].
  unfold run_visit in *. rewrite Ha. cbn [negb andb] in *.
  split; [exists o1; exact E1|exists o2; split; assumption].
Qed.
Print Assumptions C19_wellformed_flat_version_2_program_is_a_fixpoint.

(* Version-2 programs inside the whole-program judgement (Props/C01.v): an OpenQASM 2 program of whitelisted statements that the
   judgement `gjudge` admits (gate definitions and calls, library gates, whole-register operands, conditionals, ...) is unrolled,
   as a version-2 module, to exactly the expansion the judgement computes, and validate() accepts it with the expansion's counts *)
Theorem C19_version_2_programs_of_the_judgement fuel p q evs :
  forallb qasm2_allowed p = true -> gjudge p = Some (q, evs) -> (ldepth p + 1 < fuel)%nat -> (gate_nesting < fuel)%nat ->
  (exists o, run_visit true false [] fuel p = Ok o /\ o_stmts o = q /\ wf_flat env0 q = true /\
             num_qubits (o_state o) = total_qubits q /\ num_clbits (o_state o) = total_clbits q) /\
  (exists o, run_visit true true [] fuel p = Ok o /\
             num_qubits (o_state o) = total_qubits q /\ num_clbits (o_state o) = total_clbits q).
Proof.
  intros Hw Hx Hf HN. rewrite !(whitelisted_same_visit _ [] fuel p Hw). split.
  - destruct (source_programs_unroll_to_their_expansion fuel p q evs Hx Hf HN) as (o & E & Ho & W & A & B & _).
    exists o. repeat split; assumption.
  - exact (source_programs_are_accepted_by_validate fuel p q evs Hx Hf HN).
Qed.
Print Assumptions C19_version_2_programs_of_the_judgement.
