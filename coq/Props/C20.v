(* C20: the validate CLI's verdict and exit status match the library's verdict per file.
   Statements only; proofs in Text/Cli.v. *)
From Coq Require Import ZArith List Bool String.
From Verif Require Import Cli.
Import ListNotations.
Open Scope Z_scope.

(* for every tree, argument list and --skip list: the exit status is the set-theoretic verdict *)
Theorem C20_exit_is_verdict args skip : cli_exit args skip = verdict_spec args skip.
Proof. exact (cli_exit_correct args skip). Qed.
Print Assumptions C20_exit_is_verdict.

(* non-zero exactly when an examined file (a .qasm file given directly or found under a given
   directory, not listed with --skip, not carrying the ignore tag) fails loads()+validate() *)
Theorem C20_nonzero_iff_some_examined_file_fails args skip :
  cli_exit args skip <> 0 <-> exists f, In f (examined args skip) /\ f_valid f = false.
Proof. exact (cli_exit_nonzero_iff args skip). Qed.
Print Assumptions C20_nonzero_iff_some_examined_file_fails.

(* each failing file is named, and only those *)
Theorem C20_names_failures args skip : cli_named args skip = map f_path (failing args skip).
Proof. exact (cli_named_correct args skip). Qed.
Print Assumptions C20_names_failures.

(* nothing to check: exit 0 *)
Example C20_nothing_to_check : cli_exit [] [] = 0 /\ cli_exit [ADir [mkFile "d/readme.txt" false false false]] [] = 0.
Proof. vm_compute. auto. Qed.

Example C20_example :
  let ok := mkFile "d/ok.qasm" true false true in
  let bad := mkFile "d/sub/bad.qasm" true false false in
  let ignored := mkFile "d/ign.qasm" true true false in
  let bak := mkFile "d/x.qasm.bak" false false false in
  cli_exit [ADir [ok; bad; ignored; bak]] [] = 1 /\ cli_named [ADir [ok; bad; ignored; bak]] [] = ["d/sub/bad.qasm"%string] /\
  cli_exit [ADir [ok; bad; ignored; bak]] ["d/sub/bad.qasm"%string] = 0 /\
  cli_exit [ADir [ok; bad; ignored; bak]] ["unrelated.qasm"%string] = 1.
Proof. vm_compute. auto. Qed.
