(* PROPERTY C02: every operation lands on exactly the designated register elements.
   Theorems about the operand-resolution functions of the visitor model (Lang/Unroll.v), which is
   tied to /repo by the correspondence run of ./check C02.  Stated for all sizes and bounds. *)
From Coq Require Import ZArith List Bool String.
From Verif Require Import BGate PyVal Ast State Unroll ResolveProofs Depth DepthModel FixProofs ParamProofs LoopProofs BroadcastProofs.
Import ListNotations.
Open Scope Z_scope.

(* a slice q[a:s:b] / q[a:b] selects exactly a, a+s, a+2s, ... strictly before b (Python range) *)
Theorem C02_slice_selects a b s l x :
  py_range a b s = Ok l ->
  (In x l <-> exists k, 0 <= k /\ x = a + k * s /\ (if 0 <? s then x < b else b < x)).
Proof. exact (py_range_In a b s l x). Qed.
Print Assumptions C02_slice_selects.

(* ... in that order *)
Theorem C02_slice_order a b s l i :
  py_range a b s = Ok l -> (i < List.length l)%nat -> nth i l 0 = a + Z.of_nat i * s.
Proof. exact (py_range_nth a b s l i). Qed.
Print Assumptions C02_slice_order.

(* ... and, once its two end positions are validated, never leaves the register *)
Theorem C02_slice_in_register a b s size l :
  py_range a b s = Ok l -> 0 <= a < size -> 0 <= b - 1 < size -> Forall (fun x => 0 <= x < size) l.
Proof. exact (py_range_in_register a b s size l). Qed.
Print Assumptions C02_slice_in_register.

(* a whole-register operand is 0 .. size-1 *)
Theorem C02_whole_register size l :
  py_range 0 size 1 = Ok l -> l = map Z.of_nat (seq 0 (Z.to_nat (Z.max 0 size))).
Proof. exact (py_range_whole size l). Qed.
Print Assumptions C02_whole_register.

(* out-of-range single indices are rejected with ValidationError *)
Theorem C02_index_out_of_range_rejected i size s :
  (i < 0 \/ size <= i) -> validate_index i size s = Err EValidation.
Proof. exact (validate_index_rejects i size s). Qed.
Print Assumptions C02_index_out_of_range_rejected.

(* broadcasting splits the resolved operand list into consecutive groups of the gate's arity,
   in order, losing and duplicating nothing *)
Theorem C02_broadcast_consecutive_groups {A} (k fuel : nat) (l : list A) :
  (0 < k)%nat -> (List.length l <= fuel)%nat ->
  List.concat (chunks fuel k l) = l.
Proof. exact (chunks_concat k fuel l). Qed.
Print Assumptions C02_broadcast_consecutive_groups.

Theorem C02_broadcast_group_size {A} (k fuel : nat) (l : list A) :
  (0 < k)%nat -> (List.length l <= fuel)%nat -> Nat.modulo (List.length l) k = 0%nat ->
  Forall (fun c => List.length c = k) (chunks fuel k l).
Proof. exact (chunks_lengths k fuel l). Qed.
Print Assumptions C02_broadcast_group_size.

(* an operation whose operands resolve to a repeated bit is never accepted *)
Theorem C02_no_duplicate_operands cr bits size_map is_q s out s' :
  get_op_bits cr bits size_map is_q s = Ok (out, s') -> NoDup out.
Proof. exact (get_op_bits_nodup cr bits size_map is_q s out s'). Qed.
Print Assumptions C02_no_duplicate_operands.

(* non-vacuity: a concrete slice with a negative step and a concrete chunking *)
Example C02_examples :
  py_range 5 0 (-2) = Ok [5; 3; 1] /\ py_range 0 6 2 = Ok [0; 2; 4] /\
  chunks 4 2 [1; 2; 3; 4] = [[1; 2]; [3; 4]].
Proof. vm_compute. repeat split; reflexivity. Qed.

(* an operand that names a register directly -- whole register, single index, index set, slice with any step -- resolves
   to bits of THAT register, each inside it; so does every bit of every operation whose operands name registers *)
Theorem C02_resolved_operand_lies_inside_its_register cr q size_map is_q s bits s' n :
  sget (qarg_name q) size_map = Some n ->
  resolve_one cr q size_map is_q s = Ok (bits, s') ->
  Forall (fun b => fst b = qarg_name q /\ 0 <= snd b < n) bits.
Proof. exact (resolve_one_inside cr q size_map is_q s bits s' n). Qed.
Print Assumptions C02_resolved_operand_lies_inside_its_register.

Theorem C02_every_resolved_bit_lies_inside_a_register cr bits size_map is_q s out s' :
  (forall q, In q bits -> sget (qarg_name q) size_map <> None) ->
  get_op_bits cr bits size_map is_q s = Ok (out, s') ->
  Forall (fun b => exists n, sget (fst b) size_map = Some n /\ 0 <= snd b < n) out.
Proof. exact (get_op_bits_inside cr bits size_map is_q s out s'). Qed.
Print Assumptions C02_every_resolved_bit_lies_inside_a_register.

(* WHOLE PROGRAMS (Lang/BroadcastProofs.v).  `pexpand env0 p = Some (q, evs)` is a computable judgement on programs whose top
   level holds includes, register declarations, well-formed flat operations (Props/C03.v), loops over flat operations indexed
   by the loop variable (Props/C08.v) and operations on WHOLE REGISTERS: a single-qubit library gate `g(params) r;`,
   `reset r;`, `barrier r, s[1], ...;` and `c = measure r;` with registers of equal size.  q replaces each of them by one
   operation per bit, in index order (measurements pair bit i of the qubit register with bit i of the classical register);
   evs lists the events of the operations, a barrier on several qubits being ONE event that synchronises them.
   For every such program: unroll() emits exactly q -- "an operation on a register acts on each of its bits, in order, and
   on nothing else" --, q is a well-formed flat program, the counts are its register sizes and the depth counters are the
   recurrence over evs. *)
Theorem C02_whole_register_operands_unroll_bit_by_bit fuel p q evs :
  pexpand env0 p = Some (q, evs) -> (ldepth p + 1 < fuel)%nat ->
  exists o, run_visit false false [] fuel p = Ok o /\ o_stmts o = q /\ wf_flat env0 q = true /\
            num_qubits (o_state o) = total_qubits q /\ num_clbits (o_state o) = total_clbits q /\
            forall r, dof (o_state o) r = depth_after rsrc_eqb evs r.
Proof. exact (programs_unroll_to_their_expansion fuel p q evs). Qed.
Print Assumptions C02_whole_register_operands_unroll_bit_by_bit.

(* the bits an operand names: a whole register names all its bits in index order, an indexed operand the one bit *)
Theorem C02_operand_resolves_to_its_bits call_rec env s (is_q : bool) q bits :
  Regs env s -> opnd_bits (if is_q then e_q env else e_c env) q = Some bits ->
  resolve_one call_rec q (if is_q then qreg_sizes s else creg_sizes s) is_q s = Ok (bits, s).
Proof. exact (resolve_opnd call_rec env s is_q q bits). Qed.
Print Assumptions C02_operand_resolves_to_its_bits.

Example C02_whole_register_example :
  let qi := QIdx "q" [IdxList [IExpr (EId "i")]] in
  let q k := QIdx "q" [IdxList [IExpr (ELit (VInt k))]] in
  let c k := QIdx "c" [IdxList [IExpr (ELit (VInt k))]] in
  let decls := [SInclude "stdgates.inc"; SQubitDecl "q" (Some (ELit (VInt 3))); SClassicalDecl (TBit (Some (ELit (VInt 3)))) "c" None] in
  let p := decls ++ [SGate [] "h" [] [QId "q"];
                     SFor (TInt None) "i" (FRange (Some (ELit (VInt 0))) (Some (ELit (VInt 1))) None) [SGate [] "cx" [] [qi; q 2]];
                     SBarrier [QId "q"]; SReset (QId "q"); SMeasure (QId "q") (Some (QId "c"))] in
  pexpand env0 p =
    Some (decls ++ [SGate [] "h" [] [q 0]; SGate [] "h" [] [q 1]; SGate [] "h" [] [q 2];
                    SGate [] "cx" [] [q 0; q 2]; SGate [] "cx" [] [q 1; q 2];
                    SBarrier [q 0]; SBarrier [q 1]; SBarrier [q 2]; SReset (q 0); SReset (q 1); SReset (q 2);
                    SMeasure (q 0) (Some (c 0)); SMeasure (q 1) (Some (c 1)); SMeasure (q 2) (Some (c 2))],
          [[Qr ("q", 0)]; [Qr ("q", 1)]; [Qr ("q", 2)]; [Qr ("q", 0); Qr ("q", 2)]; [Qr ("q", 1); Qr ("q", 2)];
           [Qr ("q", 0); Qr ("q", 1); Qr ("q", 2)]; [Qr ("q", 0)]; [Qr ("q", 1)]; [Qr ("q", 2)];
           [Qr ("q", 0); Br ("c", 0)]; [Qr ("q", 1); Br ("c", 1)]; [Qr ("q", 2); Br ("c", 2)]]) /\
  match unroll_v false [] p, pexpand env0 p with Ok o, Some (e, _) => list_eqb stmt_eqb (o_stmts o) e | _, _ => false end = true /\
  pexpand env0 (decls ++ [SGate [] "cx" [] [QId "q"]]) = None /\
  pexpand env0 (decls ++ [SMeasure (QId "q") (Some (c 0))]) = None /\
  pexpand env0 (decls ++ [SBarrier [QId "q"; q 1]]) = None.
Proof. vm_compute. repeat split; reflexivity. Qed.

(* what the judgement takes an index set and a stepped slice to designate, for every register size, index list and bounds: the set's
   bits in the order written (refused as soon as one index is outside the register), the slice's bits a, a+s, a+2s, ... strictly
   before b, with start and end - 1 inside the register; C02_operand_resolves_to_its_bits says the visitor resolves to exactly these *)
Theorem C02_index_set_designates_its_elements_in_order m r n zs : sget r m = Some n ->
  opnd_bits m (QIdx r [IdxSet (map (fun z => ELit (VInt z)) zs)]) =
  if forallb (in_size n) zs then Some (map (fun i => (r, i)) zs) else None.
Proof. exact (opnd_bits_index_set m r n zs). Qed.
Print Assumptions C02_index_set_designates_its_elements_in_order.

(* an index that is a closed expression designates the bit its folded value names (a boolean as 0 / 1), or nothing when that is outside *)
Theorem C02_closed_index_designates_its_value m r n e v i : sget r m = Some n -> ceval e = Some v -> idx_of v = Some i ->
  opnd_bits m (QIdx r [IdxList [IExpr e]]) = if in_size n i then Some [(r, i)] else None.
Proof. exact (opnd_bits_closed_index m r n e v i). Qed.
Print Assumptions C02_closed_index_designates_its_value.

Theorem C02_stepped_slice_designates_the_range m r n a b st bits : sget r m = Some n ->
  opnd_bits m (QIdx r [IdxList [IRange (Some (ELit (VInt a))) (Some (ELit (VInt b))) (Some (ELit (VInt st)))]]) = Some bits ->
  (0 <= a < n /\ 0 <= b - 1 < n) /\
  exists l, bits = map (fun i => (r, i)) l /\
    forall x, In x l <-> exists k, 0 <= k /\ x = a + k * st /\ (if 0 <? st then x < b else b < x).
Proof. exact (opnd_bits_slice m r n a b st bits). Qed.
Print Assumptions C02_stepped_slice_designates_the_range.

(* index sets r[{i, j, ...}] of integer literals are operands of the same judgement: the bits in the order written, every
   index checked against the register, a repeated bit refused (the implementation raises "Duplicate qubit") *)
Example C02_index_set_example :
  let q k := QIdx "q" [IdxList [IExpr (ELit (VInt k))]] in
  let c k := QIdx "c" [IdxList [IExpr (ELit (VInt k))]] in
  let qs l := QIdx "q" [IdxSet (map (fun k => ELit (VInt k)) l)] in
  let cs l := QIdx "c" [IdxSet (map (fun k => ELit (VInt k)) l)] in
  let decls := [SInclude "stdgates.inc"; SQubitDecl "q" (Some (ELit (VInt 4))); SClassicalDecl (TBit (Some (ELit (VInt 4)))) "c" None] in
  let p := decls ++ [SGate [] "h" [] [qs [0; 2]]; SReset (qs [1; 2]); SBarrier [qs [0; 3]];
                     SMeasure (qs [2; 3]) (Some (cs [0; 1]))] in
  pexpand env0 p =
    Some (decls ++ [SGate [] "h" [] [q 0]; SGate [] "h" [] [q 2]; SReset (q 1); SReset (q 2);
                    SBarrier [q 0]; SBarrier [q 3]; SMeasure (q 2) (Some (c 0)); SMeasure (q 3) (Some (c 1))],
          [[Qr ("q", 0)]; [Qr ("q", 2)]; [Qr ("q", 1)]; [Qr ("q", 2)];
           [Qr ("q", 0); Qr ("q", 3)]; [Qr ("q", 2); Br ("c", 0)]; [Qr ("q", 3); Br ("c", 1)]]) /\
  match unroll_v false [] p, pexpand env0 p with Ok o, Some (e, _) => list_eqb stmt_eqb (o_stmts o) e | _, _ => false end = true /\
  pexpand env0 (decls ++ [SGate [] "h" [] [qs [0; 4]]]) = None /\
  pexpand env0 (decls ++ [SBarrier [qs [1; 1]]]) = None /\
  pexpand env0 (decls ++ [SGate [] "h" [] [qs [1; 1]]]) = None.
Proof. vm_compute. repeat split; reflexivity. Qed.

(* slices with a literal step r[a:b:s]: the bits the model's own range function lists (Python range a, a+s, ... before b), both
   ends checked against the register exactly as the visitor checks them (start and end - 1), so a descending slice down to
   index 0 is refused, as the implementation refuses it *)
Example C02_stepped_slice_example :
  let q k := QIdx "q" [IdxList [IExpr (ELit (VInt k))]] in
  let sl a b st := QIdx "q" [IdxList [IRange (Some (ELit (VInt a))) (Some (ELit (VInt b))) (Some (ELit (VInt st)))]] in
  let decls := [SInclude "stdgates.inc"; SQubitDecl "q" (Some (ELit (VInt 6)))] in
  let p := decls ++ [SGate [] "h" [] [sl 0 6 2]; SReset (sl 1 6 3); SBarrier [sl 5 1 (-2)]] in
  pexpand env0 p =
    Some (decls ++ [SGate [] "h" [] [q 0]; SGate [] "h" [] [q 2]; SGate [] "h" [] [q 4]; SReset (q 1); SReset (q 4);
                    SBarrier [q 5]; SBarrier [q 3]],
          [[Qr ("q", 0)]; [Qr ("q", 2)]; [Qr ("q", 4)]; [Qr ("q", 1)]; [Qr ("q", 4)]; [Qr ("q", 5); Qr ("q", 3)]]) /\
  match unroll_v false [] p, pexpand env0 p with Ok o, Some (e, _) => list_eqb stmt_eqb (o_stmts o) e | _, _ => false end = true /\
  pexpand env0 (decls ++ [SGate [] "h" [] [sl 0 7 2]]) = None /\
  pexpand env0 (decls ++ [SGate [] "h" [] [sl 5 0 (-1)]]) = None /\
  pexpand env0 (decls ++ [SGate [] "h" [] [sl 0 6 0]]) = None.
Proof. vm_compute. repeat split; reflexivity. Qed.

(* indices that are closed expressions: r[1 + 1], r[2 * 3 - 4], r[true]: folded by the pure evaluator that is proved equal to the
   model's (ParamProofs.ceval_eval), checked against the register, and emitted as the literal index *)
Example C02_closed_index_example :
  let q k := QIdx "q" [IdxList [IExpr (ELit (VInt k))]] in
  let c k := QIdx "c" [IdxList [IExpr (ELit (VInt k))]] in
  let ix r e := QIdx r [IdxList [IExpr e]] in
  let i k := ELit (VInt k) in
  let decls := [SInclude "stdgates.inc"; SQubitDecl "q" (Some (ELit (VInt 4))); SClassicalDecl (TBit (Some (ELit (VInt 4)))) "c" None] in
  let p := decls ++ [SGate [] "h" [] [ix "q" (EBin "+" (i 1) (i 1))]; SReset (ix "q" (EBin "-" (EBin "*" (i 2) (i 3)) (i 4)));
                     SBarrier [ix "q" (ELit (VBool true)); ix "q" (EUn "-" (EUn "-" (i 3)))];
                     SMeasure (ix "q" (EBin "%" (i 7) (i 4))) (Some (ix "c" (EBin "<<" (i 1) (i 1))))] in
  pexpand env0 p =
    Some (decls ++ [SGate [] "h" [] [q 2]; SReset (q 2); SBarrier [q 1]; SBarrier [q 3]; SMeasure (q 3) (Some (c 2))],
          [[Qr ("q", 2)]; [Qr ("q", 2)]; [Qr ("q", 1); Qr ("q", 3)]; [Qr ("q", 3); Br ("c", 2)]]) /\
  match unroll_v false [] p, pexpand env0 p with Ok o, Some (e, _) => list_eqb stmt_eqb (o_stmts o) e | _, _ => false end = true /\
  pexpand env0 (decls ++ [SGate [] "h" [] [ix "q" (EBin "+" (i 2) (i 2))]]) = None /\
  pexpand env0 (decls ++ [SGate [] "h" [] [ix "q" (EBin "-" (i 1) (i 2))]]) = None /\
  pexpand env0 (decls ++ [SGate [] "h" [] [ix "q" (EBin "/" (i 1) (i 0))]]) = None /\
  pexpand env0 (decls ++ [SGate [] "h" [] [ix "q" (EId "n")]]) = None.
Proof. vm_compute. repeat split; reflexivity. Qed.
