(* PROPERTY C02: every operation lands on exactly the designated register elements.
   Theorems about the operand-resolution functions of the visitor model (Lang/Unroll.v), which is
   tied to /repo by the correspondence run of ./check C02.  Stated for all sizes and bounds. *)
From Coq Require Import ZArith List Bool String.
From Verif Require Import BGate PyVal Ast State Unroll ResolveProofs.
Import ListNotations.
Open Scope Z_scope.

(* a slice q[a:s:b] / q[a:b] selects exactly a, a+s, a+2s, ... strictly before b (Python range) *)
Theorem C02_slice_selects a b s l x :
  py_range a b s = Ok l ->
  (In x l <-> exists k, 0 <= k /\ x = a + k * s /\ (if 0 <? s then x < b else b < x)).
Proof. exact (py_range_In a b s l x). Qed.
Print Assumptions C02_slice_selects.

(* ... in that order *)
Theorem C02_slice_order a b s l i :
  py_range a b s = Ok l -> (i < List.length l)%nat -> nth i l 0 = a + Z.of_nat i * s.
Proof. exact (py_range_nth a b s l i). Qed.
Print Assumptions C02_slice_order.

(* ... and, once its two end positions are validated, never leaves the register *)
Theorem C02_slice_in_register a b s size l :
  py_range a b s = Ok l -> 0 <= a < size -> 0 <= b - 1 < size -> Forall (fun x => 0 <= x < size) l.
Proof. exact (py_range_in_register a b s size l). Qed.
Print Assumptions C02_slice_in_register.

(* a whole-register operand is 0 .. size-1 *)
Theorem C02_whole_register size l :
  py_range 0 size 1 = Ok l -> l = map Z.of_nat (seq 0 (Z.to_nat (Z.max 0 size))).
Proof. exact (py_range_whole size l). Qed.
Print Assumptions C02_whole_register.

(* out-of-range single indices are rejected with ValidationError *)
Theorem C02_index_out_of_range_rejected i size s :
  (i < 0 \/ size <= i) -> validate_index i size s = Err EValidation.
Proof. exact (validate_index_rejects i size s). Qed.
Print Assumptions C02_index_out_of_range_rejected.

(* broadcasting splits the resolved operand list into consecutive groups of the gate's arity,
   in order, losing and duplicating nothing *)
Theorem C02_broadcast_consecutive_groups {A} (k fuel : nat) (l : list A) :
  (0 < k)%nat -> (List.length l <= fuel)%nat ->
  List.concat (chunks fuel k l) = l.
Proof. exact (chunks_concat k fuel l). Qed.
Print Assumptions C02_broadcast_consecutive_groups.

Theorem C02_broadcast_group_size {A} (k fuel : nat) (l : list A) :
  (0 < k)%nat -> (List.length l <= fuel)%nat -> Nat.modulo (List.length l) k = 0%nat ->
  Forall (fun c => List.length c = k) (chunks fuel k l).
Proof. exact (chunks_lengths k fuel l). Qed.
Print Assumptions C02_broadcast_group_size.

(* an operation whose operands resolve to a repeated bit is never accepted *)
Theorem C02_no_duplicate_operands cr bits size_map is_q s out s' :
  get_op_bits cr bits size_map is_q s = Ok (out, s') -> NoDup out.
Proof. exact (get_op_bits_nodup cr bits size_map is_q s out s'). Qed.
Print Assumptions C02_no_duplicate_operands.

(* non-vacuity: a concrete slice with a negative step and a concrete chunking *)
Example C02_examples :
  py_range 5 0 (-2) = Ok [5; 3; 1] /\ py_range 0 6 2 = Ok [0; 2; 4] /\
  chunks 4 2 [1; 2; 3; 4] = [[1; 2]; [3; 4]].
Proof. vm_compute. repeat split; reflexivity. Qed.

(* an operand that names a register directly -- whole register, single index, index set, slice with any step -- resolves
   to bits of THAT register, each inside it; so does every bit of every operation whose operands name registers *)
Theorem C02_resolved_operand_lies_inside_its_register cr q size_map is_q s bits s' n :
  sget (qarg_name q) size_map = Some n ->
  resolve_one cr q size_map is_q s = Ok (bits, s') ->
  Forall (fun b => fst b = qarg_name q /\ 0 <= snd b < n) bits.
Proof. exact (resolve_one_inside cr q size_map is_q s bits s' n). Qed.
Print Assumptions C02_resolved_operand_lies_inside_its_register.

Theorem C02_every_resolved_bit_lies_inside_a_register cr bits size_map is_q s out s' :
  (forall q, In q bits -> sget (qarg_name q) size_map <> None) ->
  get_op_bits cr bits size_map is_q s = Ok (out, s') ->
  Forall (fun b => exists n, sget (fst b) size_map = Some n /\ 0 <= snd b < n) out.
Proof. exact (get_op_bits_inside cr bits size_map is_q s out s'). Qed.
Print Assumptions C02_every_resolved_bit_lies_inside_a_register.
