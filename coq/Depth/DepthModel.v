(* The four depth updates of the visitor model (Unroll.v: depth_gate_subset, depth_barrier,
   depth_reset, depth_measure_pair -- visitor.py:488-499, 536-537, 569-585, 669-689) are the
   abstract recurrence [dstep] of Depth.v on the event they stand for. *)
From Coq Require Import ZArith List Bool String Lia.
From Verif Require Import BGate PyVal Ast State Unroll Depth.
Import ListNotations.
Open Scope Z_scope.

(* resources: (true, b) = qubit b ; (false, b) = classical bit b *)
Definition rsrc := (bool * bitref)%type.
Definition rsrc_eqb (a b : rsrc) : bool := Bool.eqb (fst a) (fst b) && bitref_eqb (snd a) (snd b).
Definition Qr (b : bitref) : rsrc := (true, b).
Definition Br (b : bitref) : rsrc := (false, b).

Lemma bitref_eqb_spec a b : reflect (a = b) (bitref_eqb a b).
Proof.
  destruct a as [x i], b as [y j]; unfold bitref_eqb; simpl.
  destruct (String.eqb_spec x y), (Z.eqb_spec i j); simpl; constructor; congruence.
Qed.

Lemma rsrc_eqb_spec a b : reflect (a = b) (rsrc_eqb a b).
Proof.
  destruct a as [k x], b as [k' y]; unfold rsrc_eqb; simpl.
  destruct (Bool.eqb_spec k k'), (bitref_eqb_spec x y); simpl; constructor; congruence.
Qed.

Definition qdof (s : st) (b : bitref) : Z := match bget b (qdepth s) with Some n => qd n | None => 0 end.
Definition cdof (s : st) (b : bitref) : Z := match bget b (cdepth s) with Some n => cd n | None => 0 end.
Definition dof (s : st) : dmap (R := rsrc) := fun r => if fst r then qdof s (snd r) else cdof s (snd r).

Notation dstepR := (dstep rsrc_eqb).

(* ---------- association-list facts ---------- *)
Lemma bget_bset_same {V} b (v : V) l : bget b (bset b v l) = Some v.
Proof.
  unfold bget, bset. induction l as [|[k w] l IH]; simpl.
  - destruct (bitref_eqb_spec b b); congruence.
  - destruct (bitref_eqb_spec b k); simpl.
    + destruct (bitref_eqb_spec b b); congruence.
    + destruct (bitref_eqb_spec b k); congruence.
Qed.

Lemma bget_bset_other {V} b b' (v : V) l : b' <> b -> bget b' (bset b v l) = bget b' l.
Proof.
  intros Hne. unfold bget, bset. induction l as [|[k w] l IH]; simpl.
  - destruct (bitref_eqb_spec b' b); congruence.
  - destruct (bitref_eqb_spec b k); simpl.
    + subst k. destruct (bitref_eqb_spec b' b); congruence.
    + destruct (bitref_eqb_spec b' k); auto.
Qed.

(* ---------- the primitive state operations ---------- *)
Lemma get_qnode_ok b s n s' : get_qnode b s = Ok (n, s') -> s' = s /\ bget b (qdepth s) = Some n.
Proof.
  unfold get_qnode, bindM, getst, ret, ierr, fail. destruct (bget b (qdepth s)); intros H; inversion H; auto.
Qed.
Lemma get_cnode_ok b s n s' : get_cnode b s = Ok (n, s') -> s' = s /\ bget b (cdepth s) = Some n.
Proof.
  unfold get_cnode, bindM, getst, ret, ierr, fail. destruct (bget b (cdepth s)); intros H; inversion H; auto.
Qed.

(* a step that rewrites one qubit node *)
Definition upd1 (f : qnode -> qnode) (b : bitref) : M unit := qn <- get_qnode b;; set_qnode b (f qn).

Lemma upd1_ok f b s s' : upd1 f b s = Ok (tt, s') ->
  exists n, bget b (qdepth s) = Some n /\ bget b (qdepth s') = Some (f n) /\
            (forall b', b' <> b -> bget b' (qdepth s') = bget b' (qdepth s)) /\ cdepth s' = cdepth s.
Proof.
  unfold upd1, bindM. destruct (get_qnode b s) as [[n s1]|] eqn:E; [|discriminate].
  apply get_qnode_ok in E as [-> Hn]. unfold set_qnode, modify. intros H; inversion H; subst s'; clear H.
  exists n. simpl. repeat split; auto.
  - apply bget_bset_same.
  - intros b' Hne. now apply bget_bset_other.
Qed.

(* ---------- pass 1 / pass 2 ---------- *)
Lemma pass1_ok upd : forall l mx s v s', NoDup l -> depth_pass1 upd l mx s = Ok (v, s') ->
  v = fold_left (fun m b => Z.max m (qdof s b + 1)) l mx /\
  cdepth s' = cdepth s /\
  (forall b, ~ In b l -> bget b (qdepth s') = bget b (qdepth s)) /\
  (forall b, In b l -> exists n, bget b (qdepth s) = Some n /\ bget b (qdepth s') = Some (upd n)).
Proof.
  induction l as [|b l IH]; intros mx s v s' Hnd H.
  - simpl in H. unfold ret in H. inversion H; subst. simpl. repeat split; auto. intros b [].
  - inversion Hnd as [|? ? Hnotin Hnd']; subst. simpl in H. unfold bindM in H.
    destruct (get_qnode b s) as [[n s1]|] eqn:E; [|discriminate].
    apply get_qnode_ok in E as [-> Hn].
    destruct (set_qnode b (upd n) s) as [[[] s2]|] eqn:E2; [|discriminate].
    unfold set_qnode, modify in E2. inversion E2; subst s2; clear E2.
    apply IH in H; auto. destruct H as (Hv & Hc & Hout & Hin). simpl in *.
    assert (Hsame : forall b', b' <> b -> qdof (with_qdepth s (bset b (upd n) (qdepth s))) b' = qdof s b').
    { intros b' Hne. unfold qdof. simpl. now rewrite bget_bset_other. }
    repeat split.
    + rewrite Hv. assert (Hqb : qdof s b = qd n) by (unfold qdof; now rewrite Hn). rewrite Hqb.
      clear - Hnotin Hsame. revert Hnotin. generalize (Z.max mx (qd n + 1)). induction l as [|c l IHl]; intros z Hni; simpl; auto.
      rewrite Hsame by (intros ->; apply Hni; now left). apply IHl. intros Hc; apply Hni; now right.
    + exact Hc.
    + intros b' Hni. rewrite Hout by (intros Hc'; apply Hni; now right).
      apply bget_bset_other. intros ->; apply Hni; now left.
    + intros b' [<-|Hb'].
      * exists n. split; auto. rewrite Hout by exact Hnotin. apply bget_bset_same.
      * destruct (Hin b' Hb') as (n' & Hg & Hg'). exists n'. split; auto.
        rewrite bget_bset_other in Hg; auto. intros ->; tauto.
Qed.

Lemma pass2_ok mx : forall l s s', depth_pass2 mx l s = Ok (tt, s') ->
  cdepth s' = cdepth s /\
  (forall b, ~ In b l -> bget b (qdepth s') = bget b (qdepth s)) /\
  (forall b, In b l -> exists n, bget b (qdepth s') = Some n /\ qd n = mx).
Proof.
  unfold depth_pass2. induction l as [|b l IH]; intros s s' H.
  - simpl in H. unfold ret in H. inversion H; subst. repeat split; auto. intros b [].
  - simpl in H. unfold bindM in H at 1.
    change (qn <- get_qnode b;; set_qnode b (set_depth mx qn)) with (upd1 (set_depth mx) b) in H.
    destruct (upd1 (set_depth mx) b s) as [[[] s1]|] eqn:E; [|discriminate].
    apply upd1_ok in E as (n & Hn & Hn' & Hoth & Hc).
    apply IH in H as (Hc2 & Hout & Hin). repeat split.
    + congruence.
    + intros b' Hni. rewrite Hout by (intros Hx; apply Hni; now right). apply Hoth. intros ->; apply Hni; now left.
    + intros b' [<-|Hb']; [|now apply Hin].
      destruct (in_dec (fun x y => match bitref_eqb_spec x y with ReflectT _ e => left e | ReflectF _ e => right e end) b l) as [Hi|Hi].
      * now apply Hin.
      * exists (set_depth mx n). rewrite Hout by exact Hi. split; auto.
Qed.

Definition nonneg (s : st) : Prop := forall r, 0 <= dof s r.

Lemma fold_max_maxl (d : bitref -> Z) : forall l mx, 0 <= mx ->
  fold_left (fun m b => Z.max m (d b + 1)) l mx = Z.max mx (fold_right Z.max 0 (map (fun b => d b + 1) l)).
Proof.
  induction l as [|b l IH]; intros mx Hmx; simpl; [lia|].
  rewrite IH by lia. lia.
Qed.

Lemma maxl_shift (d : rsrc -> Z) (l : list rsrc) : l <> [] -> (forall r, 0 <= d r) ->
  fold_right Z.max 0 (map (fun r => d r + 1) l) = 1 + maxl (map d l).
Proof.
  intros Hne Hnn. induction l as [|r l IH]; [congruence|].
  destruct l as [|r' l].
  - unfold maxl; cbn [map fold_right]. specialize (Hnn r). lia.
  - assert (IH' := IH ltac:(discriminate)). clear IH.
    change (map (fun r0 => d r0 + 1) (r :: r' :: l)) with ((d r + 1) :: map (fun r0 => d r0 + 1) (r' :: l)).
    change (map d (r :: r' :: l)) with (d r :: map d (r' :: l)).
    unfold maxl in *. cbn [fold_right]. rewrite IH'. lia.
Qed.

(* two-pass update = dstep on the qubits of the list *)
Lemma two_pass_dstep upd l s s' :
  (forall n, qd (upd n) = qd n \/ True) ->
  NoDup l -> nonneg s ->
  (mx <- depth_pass1 upd l 0;; depth_pass2 mx l) s = Ok (tt, s') ->
  forall r, dof s' r = dstepR (dof s) (map Qr l) r.
Proof.
  intros _ Hnd Hnn H r. unfold bindM in H.
  destruct (depth_pass1 upd l 0 s) as [[mx s1]|] eqn:E1; [|discriminate].
  apply pass1_ok in E1 as (Hmx & Hc1 & Hout1 & Hin1); auto.
  apply pass2_ok in H as (Hc2 & Hout2 & Hin2).
  destruct r as [[|] b]; unfold dof; simpl.
  - (* qubit *)
    destruct (in_dec (fun x y => match bitref_eqb_spec x y with ReflectT _ e => left e | ReflectF _ e => right e end) b l) as [Hi|Hi].
    + rewrite (dstep_in rsrc_eqb rsrc_eqb_spec) by (apply in_map_iff; exists b; auto).
      destruct (Hin2 b Hi) as (n & Hg & Hq). unfold qdof at 1. rewrite Hg, Hq, Hmx.
      rewrite (fold_max_maxl (qdof s) l 0) by lia.
      assert (Hl : l <> []) by (intros ->; destruct Hi).
      transitivity (fold_right Z.max 0 (map (fun r => dof s r + 1) (map Qr l))).
      * rewrite map_map. simpl.
        assert (0 <= fold_right Z.max 0 (map (fun x : bitref => qdof s x + 1) l)) by (clear; induction l; simpl; lia).
        unfold dof; simpl. lia.
      * rewrite maxl_shift; auto. destruct l; [congruence|discriminate].
    + rewrite (dstep_out rsrc_eqb rsrc_eqb_spec).
      * unfold dof, qdof; simpl. now rewrite Hout2, Hout1.
      * intros Hx. apply in_map_iff in Hx as (b' & Hb' & Hin'). inversion Hb'; subst; tauto.
  - (* classical bit: untouched *)
    rewrite (dstep_out rsrc_eqb rsrc_eqb_spec).
    + unfold dof, cdof; simpl. now rewrite Hc2, Hc1.
    + intros Hx. apply in_map_iff in Hx as (b' & Hb' & _). inversion Hb'.
Qed.

Theorem gate_subset_is_dstep l s s' : NoDup l -> nonneg s ->
  depth_gate_subset l s = Ok (tt, s') -> forall r, dof s' r = dstepR (dof s) (map Qr l) r.
Proof. intros; eapply two_pass_dstep; eauto. Qed.

Theorem barrier_is_dstep l s s' : NoDup l -> nonneg s ->
  depth_barrier l s = Ok (tt, s') -> forall r, dof s' r = dstepR (dof s) (map Qr l) r.
Proof. intros; eapply two_pass_dstep; eauto. Qed.

(* reset of one qubit = dstep on the singleton event *)
Theorem reset1_is_dstep b s s' : nonneg s ->
  upd1 reset_upd b s = Ok (tt, s') -> forall r, dof s' r = dstepR (dof s) [Qr b] r.
Proof.
  intros Hnn H r. apply upd1_ok in H as (n & Hn & Hn' & Hoth & Hc).
  destruct r as [[|] b']; unfold dof at 1; cbn [fst snd].
  - destruct (bitref_eqb_spec b' b) as [->|Hne].
    + rewrite (dstep_in rsrc_eqb rsrc_eqb_spec) by (now left).
      assert (Hd : dof s (Qr b) = qd n) by (unfold dof, qdof; cbn [fst snd Qr]; now rewrite Hn).
      unfold qdof at 1. rewrite Hn'. unfold maxl, reset_upd; cbn [map fold_right qd]. rewrite Hd.
      specialize (Hnn (Qr b)). rewrite Hd in Hnn. lia.
    + rewrite (dstep_out rsrc_eqb rsrc_eqb_spec).
      * unfold dof, qdof; simpl. now rewrite Hoth.
      * intros [Hx|[]]. inversion Hx; congruence.
  - rewrite (dstep_out rsrc_eqb rsrc_eqb_spec).
    + unfold dof, cdof; simpl. now rewrite Hc.
    + intros [Hx|[]]. inversion Hx.
Qed.

(* one measurement pair = dstep on {qubit, bit}: "a measurement synchronises its qubit with its target bit" *)
Theorem measure_pair_is_dstep q c s s' : nonneg s ->
  depth_measure_pair (q, c) s = Ok (tt, s') -> forall r, dof s' r = dstepR (dof s) [Qr q; Br c] r.
Proof.
  intros Hnn H r. unfold depth_measure_pair, bindM in H. simpl in H.
  destruct (get_qnode q s) as [[qn s1]|] eqn:E1; [|discriminate]. apply get_qnode_ok in E1 as [-> Hq].
  destruct (get_cnode c s) as [[cn s1]|] eqn:E2; [|discriminate]. apply get_cnode_ok in E2 as [-> Hc].
  unfold set_qnode, set_cnode, modify in H. inversion H; subst s'; clear H.
  assert (Hdq : dof s (Qr q) = qd qn) by (unfold dof, qdof; cbn [fst snd Qr]; now rewrite Hq).
  assert (Hdc : dof s (Br c) = cd cn) by (unfold dof, cdof; cbn [fst snd Br]; now rewrite Hc).
  assert (Hm : 1 + maxl (map (dof s) [Qr q; Br c]) = Z.max (qd qn + 1) (cd cn + 1)).
  { unfold maxl; cbn [map fold_right]. rewrite Hdq, Hdc.
    pose proof (Hnn (Qr q)) as H1. pose proof (Hnn (Br c)) as H2. rewrite Hdq in H1. rewrite Hdc in H2. lia. }
  destruct r as [[|] b]; unfold dof at 1; cbn [fst snd].
  - destruct (bitref_eqb_spec b q) as [->|Hne].
    + rewrite (dstep_in rsrc_eqb rsrc_eqb_spec) by (now left). rewrite Hm.
      unfold qdof; simpl. now rewrite bget_bset_same.
    + rewrite (dstep_out rsrc_eqb rsrc_eqb_spec).
      * unfold dof, qdof; simpl. now rewrite bget_bset_other.
      * intros [Hx|[Hx|[]]]; inversion Hx; congruence.
  - destruct (bitref_eqb_spec b c) as [->|Hne].
    + rewrite (dstep_in rsrc_eqb rsrc_eqb_spec) by (right; now left). rewrite Hm.
      unfold cdof; simpl. now rewrite bget_bset_same.
    + rewrite (dstep_out rsrc_eqb rsrc_eqb_spec).
      * unfold dof, cdof; simpl. now rewrite bget_bset_other.
      * intros [Hx|[Hx|[]]]; inversion Hx; congruence.
Qed.

(* dstep keeps depths non-negative, so the invariant used above is maintained *)
Lemma dstep_nonneg (d : dmap (R := rsrc)) ev : (forall r, 0 <= d r) -> forall r, 0 <= dstepR d ev r.
Proof.
  intros H r. unfold dstep. destruct (memb rsrc_eqb r ev); auto.
  pose proof (maxl_nonneg (map d ev)). lia.
Qed.
