(* Specification of depth() on the reference trace (Spec.v): one event per source-level
   library-gate application per broadcast group (kept external gates included), per measurement
   pair, per reset, one event per barrier statement; gphase and declarations count nothing; both
   arms of a measurement-conditioned block are counted in sequence (DESIGN appendix H.3). *)
From Coq Require Import ZArith List Bool String.
From Verif Require Import BGate PyVal Ast State Unroll Spec Depth DepthModel.
Import ListNotations.
Open Scope Z_scope.

Fixpoint events_of_top (t : top) : list (list rsrc) :=
  let go_list := fix go (l : list top) : list (list rsrc) :=
                   match l with [] => [] | x :: l' => events_of_top x ++ go l' end in
  match t with
  | TGate _ _ qs _ | TExt _ _ qs _ => [map Qr qs]
  | TMeasure q c => [[Qr q; Br c]]
  | TReset q => [[Qr q]]
  | TBarrier qs => [map Qr qs]
  | TIf _ _ _ t e => go_list t ++ go_list e
  | TInclude _ | TQreg _ _ | TCreg _ _ | TPhase _ => []
  end.

Definition events_of (tr : list top) : list (list rsrc) := flat_map events_of_top tr.

(* depth of a trace: the maximum, over the resources it mentions, of the depth recurrence *)
Definition spec_depth (tr : list top) : Z :=
  let evs := events_of tr in total_depth rsrc_eqb (List.concat evs) evs.
