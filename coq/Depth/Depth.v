(* Depth as critical-path length.

   An *event* is one step of the circuit: the list of resources (qubits, classical bits) it
   occupies.  The recurrence used by pyqasm's visitor is [dstep]: every resource of the event is
   moved to 1 + the maximum of their current depths.  The specification is the textbook one: the
   longest *chain*, a subsequence of the events in which consecutive members share a resource.

     depth_upper    : every chain ending on resource r is no longer than the computed depth of r
     depth_attained : the computed depth of r is the length of some chain ending on r
   for every event list (no bound on the number of events, resources or their arity). *)
From Coq Require Import ZArith List Bool Lia.
Import ListNotations.
Open Scope Z_scope.

Section Depth.
Context {R : Type} (reqb : R -> R -> bool).
Hypothesis reqb_spec : forall a b, reflect (a = b) (reqb a b).

Definition event := list R.
Definition dmap := R -> Z.

Definition memb (r : R) (ev : event) : bool := existsb (reqb r) ev.
Definition maxl (l : list Z) : Z := fold_right Z.max 0 l.

Definition dstep (d : dmap) (ev : event) : dmap :=
  let m := 1 + maxl (map d ev) in
  fun r => if memb r ev then m else d r.

Definition d0 : dmap := fun _ => 0.
Definition depth_after (evs : list event) : dmap := fold_left dstep evs d0.

(* total depth of a circuit over a finite universe of resources *)
Definition total_depth (univ : list R) (evs : list event) : Z := maxl (map (depth_after evs) univ).

(* ---------- specification ---------- *)
Inductive Subseq {A} : list A -> list A -> Prop :=
| sub_nil : Subseq [] []
| sub_skip c l x : Subseq c l -> Subseq c (l ++ [x])
| sub_take c l x : Subseq c l -> Subseq (c ++ [x]) (l ++ [x]).

Definition share (a b : event) : Prop := exists r, In r a /\ In r b.

(* consecutive members of the chain share a resource *)
Inductive Linked : list event -> Prop :=
| lk_nil : Linked []
| lk_one a : Linked [a]
| lk_snoc c a b : Linked (c ++ [a]) -> share a b -> Linked ((c ++ [a]) ++ [b]).

(* a chain of [evs] of length [n] whose last member occupies [r] *)
Definition ChainTo (evs : list event) (r : R) (n : nat) : Prop :=
  exists c last, Subseq (c ++ [last]) evs /\ Linked (c ++ [last]) /\ In r last /\ length (c ++ [last]) = n.

(* ---------- basic facts ---------- *)
Lemma memb_In r ev : memb r ev = true <-> In r ev.
Proof.
  unfold memb; rewrite existsb_exists; split.
  - intros [x [Hx Hr]]. destruct (reqb_spec r x); congruence.
  - intros H; exists r; split; auto. destruct (reqb_spec r r); congruence.
Qed.

Lemma maxl_ge l x : In x l -> x <= maxl l.
Proof. induction l as [|y l IH]; simpl; [tauto|]. intros [->|H]; [lia|]. specialize (IH H); lia. Qed.

Lemma maxl_nonneg l : 0 <= maxl l.
Proof. induction l; simpl; lia. Qed.

Lemma maxl_in l : maxl l = 0 \/ In (maxl l) l.
Proof.
  induction l as [|y l IH]; simpl; [auto|].
  destruct (Z.max_spec y (maxl l)) as [[_ ->]|[_ ->]]; [|auto].
  destruct IH as [E|I]; [|auto]. left; exact E.
Qed.

Lemma dstep_in d ev r : In r ev -> dstep d ev r = 1 + maxl (map d ev).
Proof. intros H; unfold dstep. apply memb_In in H. now rewrite H. Qed.

Lemma dstep_out d ev r : ~ In r ev -> dstep d ev r = d r.
Proof.
  intros H; unfold dstep. destruct (memb r ev) eqn:E; auto. apply memb_In in E; tauto.
Qed.

Lemma depth_after_snoc evs ev : depth_after (evs ++ [ev]) = dstep (depth_after evs) ev.
Proof. unfold depth_after; now rewrite fold_left_app. Qed.

Lemma depth_nonneg evs r : 0 <= depth_after evs r.
Proof.
  revert r; induction evs as [|ev evs IH] using rev_ind; intros r; [unfold depth_after, d0; simpl; lia|].
  rewrite depth_after_snoc. unfold dstep. destruct (memb r ev); [|apply IH].
  pose proof (maxl_nonneg (map (depth_after evs) ev)); lia.
Qed.

Lemma depth_mono evs ev r : depth_after evs r <= depth_after (evs ++ [ev]) r.
Proof.
  rewrite depth_after_snoc. unfold dstep. destruct (memb r ev) eqn:E; [|lia].
  apply memb_In in E. assert (depth_after evs r <= maxl (map (depth_after evs) ev)).
  { apply maxl_ge, in_map, E. } lia.
Qed.

(* ---------- inversion of Subseq / Linked at the right end ---------- *)
Lemma app_snoc_inj {A} (l1 l2 : list A) x y : l1 ++ [x] = l2 ++ [y] -> l1 = l2 /\ x = y.
Proof. intros H; apply app_inj_tail in H; exact H. Qed.

Lemma subseq_snoc_inv {A} (c l : list A) y x :
  Subseq (c ++ [y]) (l ++ [x]) -> Subseq (c ++ [y]) l \/ (y = x /\ Subseq c l).
Proof.
  intros H. remember (c ++ [y]) as c' eqn:Ec. remember (l ++ [x]) as l' eqn:El.
  destruct H as [|c0 l0 x0 H|c0 l0 x0 H].
  - destruct c; discriminate.
  - apply app_snoc_inj in El as [-> ->]. left; subst; exact H.
  - apply app_snoc_inj in El as [-> ->]. apply app_snoc_inj in Ec as [-> ->]. right; auto.
Qed.

Lemma subseq_nil_r {A} (c : list A) : Subseq c [] -> c = [].
Proof.
  intros H. remember [] as l eqn:El. destruct H; auto; destruct l; discriminate.
Qed.

Lemma linked_snoc2_inv c a b : Linked ((c ++ [a]) ++ [b]) -> Linked (c ++ [a]) /\ share a b.
Proof.
  intros H. remember ((c ++ [a]) ++ [b]) as l eqn:El.
  destruct H as [| a0 | c0 a0 b0 H S].
  - destruct c; discriminate.
  - destruct c as [|? [|? ?]]; discriminate.
  - apply app_snoc_inj in El as [E1 ->]. apply app_snoc_inj in E1 as [-> ->]. auto.
Qed.

(* ---------- upper bound ---------- *)
Lemma chain_upper evs : forall c last r,
  Subseq (c ++ [last]) evs -> Linked (c ++ [last]) -> In r last ->
  Z.of_nat (length (c ++ [last])) <= depth_after evs r.
Proof.
  induction evs as [|ev evs IH] using rev_ind; intros c last r Hs Hl Hr.
  - apply subseq_nil_r in Hs. destruct c; discriminate.
  - apply subseq_snoc_inv in Hs as [Hs | [-> Hs]].
    + specialize (IH c last r Hs Hl Hr). pose proof (depth_mono evs ev r). lia.
    + rewrite depth_after_snoc, dstep_in by exact Hr.
      revert Hs Hl. destruct c as [|a c _] using rev_ind; intros Hs Hl.
      * pose proof (maxl_nonneg (map (depth_after evs) ev)). cbn [app length]. lia.
      * apply linked_snoc2_inv in Hl as [Hl [r' [Hra Hrb]]].
        specialize (IH c a r' Hs Hl Hra).
        assert (depth_after evs r' <= maxl (map (depth_after evs) ev)) by (apply maxl_ge, in_map, Hrb).
        rewrite !app_length in *. cbn [length] in *. lia.
Qed.

Theorem depth_upper evs r n : ChainTo evs r n -> Z.of_nat n <= depth_after evs r.
Proof. intros (c & last & Hs & Hl & Hr & <-). now apply chain_upper. Qed.

(* ---------- attained ---------- *)
Lemma subseq_skip_app {A} (c l : list A) x : Subseq c l -> Subseq c (l ++ [x]).
Proof. apply sub_skip. Qed.

Theorem depth_attained evs : forall r, 0 < depth_after evs r ->
  ChainTo evs r (Z.to_nat (depth_after evs r)).
Proof.
  induction evs as [|ev evs IH] using rev_ind; intros r Hpos.
  - unfold depth_after, d0 in Hpos; simpl in Hpos; lia.
  - rewrite depth_after_snoc in *. unfold dstep in *. destruct (memb r ev) eqn:E.
    + apply memb_In in E.
      destruct (maxl_in (map (depth_after evs) ev)) as [Z0 | Hin].
      * rewrite Z0. exists [], ev. repeat split; simpl; auto.
        -- change [ev] with ([] ++ [ev]). apply sub_take. clear. induction evs using rev_ind; [constructor|now apply sub_skip].
        -- constructor.
      * apply in_map_iff in Hin as [r' [Hd Hr']].
        set (m := maxl (map (depth_after evs) ev)) in *.
        destruct (Z.eq_dec m 0) as [Z0|NZ].
        -- rewrite Z0. exists [], ev. repeat split; simpl; auto.
           ++ change [ev] with ([] ++ [ev]). apply sub_take. clear. induction evs using rev_ind; [constructor|now apply sub_skip].
           ++ constructor.
        -- assert (0 < depth_after evs r').
           { pose proof (maxl_nonneg (map (depth_after evs) ev)) as Hnn. fold m in Hnn. rewrite Hd. clearbody m. lia. }
           destruct (IH r' H) as (c & last & Hs & Hl & Hr & Hlen).
           exists (c ++ [last]), ev. repeat split.
           ++ now apply sub_take.
           ++ apply lk_snoc; auto. exists r'; auto.
           ++ exact E.
           ++ rewrite app_length, Hlen, Hd. cbn [length]. clearbody m. lia.
    + destruct (IH r Hpos) as (c & last & Hs & Hl & Hr & Hlen).
      exists c, last. repeat split; auto. now apply sub_skip.
Qed.

(* the two together: the computed depth of r is the maximum chain length ending on r *)
Corollary depth_is_longest_chain evs r :
  (forall n, ChainTo evs r n -> Z.of_nat n <= depth_after evs r) /\
  (0 < depth_after evs r -> ChainTo evs r (Z.to_nat (depth_after evs r))).
Proof. split; [apply depth_upper | apply depth_attained]. Qed.

End Depth.

(* ---------- total depth over a finite universe of resources ---------- *)
Section Total.
Context {R : Type} (reqb : R -> R -> bool).
Hypothesis reqb_spec : forall a b, reflect (a = b) (reqb a b).

Theorem total_depth_upper univ evs r n :
  In r univ -> ChainTo evs r n -> Z.of_nat n <= total_depth reqb univ evs.
Proof.
  intros Hr Hc. apply (depth_upper reqb reqb_spec) in Hc.
  assert (depth_after reqb evs r <= total_depth reqb univ evs) by (apply maxl_ge, in_map, Hr). lia.
Qed.

Theorem total_depth_attained univ evs :
  0 < total_depth reqb univ evs ->
  exists r, In r univ /\ ChainTo evs r (Z.to_nat (total_depth reqb univ evs)).
Proof.
  intros Hpos. unfold total_depth in *.
  destruct (maxl_in (map (depth_after reqb evs) univ)) as [Z0|Hin]; [lia|].
  apply in_map_iff in Hin as (r & Hd & Hr). exists r; split; auto.
  rewrite <- Hd. apply (depth_attained reqb reqb_spec). lia.
Qed.
End Total.
