(* Complex numbers as pairs of reals; cis x = e^{ix}. *)
From Coq Require Import Reals Lra.
Open Scope R_scope.

Definition C := (R * R)%type.
Definition Cadd (a b : C) : C := (fst a + fst b, snd a + snd b).
Definition Cmul (a b : C) : C := (fst a * fst b - snd a * snd b, fst a * snd b + snd a * fst b).
Definition Cneg (a : C) : C := (- fst a, - snd a).
Definition Cscal (r : R) (a : C) : C := (r * fst a, r * snd a).
Definition C0 : C := (0, 0).
Definition C1 : C := (1, 0).
Definition Ci : C := (0, 1).
Definition RtoC (r : R) : C := (r, 0).
Definition cis (x : R) : C := (cos x, sin x).
(* squared modulus *)
Definition Cnorm2 (a : C) : R := fst a * fst a + snd a * snd a.

Lemma C_eq (a b : C) : fst a = fst b -> snd a = snd b -> a = b.
Proof. destruct a, b; simpl; congruence. Qed.

Ltac cring := apply C_eq; simpl; ring.

Lemma cis_add x y : cis (x + y) = Cmul (cis x) (cis y).
Proof. unfold cis, Cmul; simpl. rewrite cos_plus, sin_plus. f_equal; ring. Qed.

Lemma cis_0 : cis 0 = C1.
Proof. unfold cis, C1. rewrite cos_0, sin_0. reflexivity. Qed.

Lemma cis_neg x : cis (- x) = (cos x, - sin x).
Proof. unfold cis. rewrite cos_neg, sin_neg. reflexivity. Qed.

Lemma cis_minus_pi x : cis (x - PI) = Cscal (-1) (cis x).
Proof. unfold cis, Cscal; simpl. rewrite cos_minus, sin_minus, cos_PI, sin_PI. f_equal; ring. Qed.

Lemma cis_norm x : Cnorm2 (cis x) = 1.
Proof. unfold Cnorm2, cis; simpl. pose proof (sin2_cos2 x) as H. unfold Rsqr in H. lra. Qed.

Lemma cis_pi2 : cis (PI / 2) = Ci.
Proof. unfold cis, Ci. rewrite cos_PI2, sin_PI2. reflexivity. Qed.

Lemma Cmul_comm a b : Cmul a b = Cmul b a. Proof. cring. Qed.
Lemma Cmul_assoc a b c : Cmul a (Cmul b c) = Cmul (Cmul a b) c. Proof. cring. Qed.
Lemma Cadd_comm a b : Cadd a b = Cadd b a. Proof. cring. Qed.
Lemma Cadd_assoc a b c : Cadd a (Cadd b c) = Cadd (Cadd a b) c. Proof. cring. Qed.
Lemma Cmul_1_l a : Cmul C1 a = a. Proof. unfold C1; cring. Qed.
Lemma Cmul_0_l a : Cmul C0 a = C0. Proof. unfold C0; cring. Qed.
Lemma Cadd_0_l a : Cadd C0 a = a. Proof. unfold C0; cring. Qed.
Lemma Cadd_0_r a : Cadd a C0 = a. Proof. unfold C0; cring. Qed.
Lemma Cmul_add_distr_l a b c : Cmul a (Cadd b c) = Cadd (Cmul a b) (Cmul a c). Proof. cring. Qed.
Lemma Cmul_add_distr_r a b c : Cmul (Cadd a b) c = Cadd (Cmul a c) (Cmul b c). Proof. cring. Qed.
Lemma Cnorm2_mul a b : Cnorm2 (Cmul a b) = Cnorm2 a * Cnorm2 b.
Proof. unfold Cnorm2, Cmul; simpl; ring. Qed.
