(* Soundness of the symbolic ring operations: evaluation into C is a ring homomorphism
   on the computed results of padd1/padd/pmul/pneg/mono. *)
From Coq Require Import ZArith QArith Qreals Reals List Bool Lia Lra.
From Verif Require Import Sym Cplx.
Import ListNotations.

Lemma lcmp_eq a : forall b, lcmp a b = Eq -> a = b.
Proof.
  induction a as [|x a IH]; intros [|y b]; simpl; try congruence.
  destruct (Z.compare_spec x y) as [Hxy|Hxy|Hxy]; try congruence.
  intros Hl; f_equal; auto.
Qed.

Lemma kcmp_eq a b : kcmp a b = Eq -> a = b.
Proof.
  destruct a as [k e], b as [k' e']; unfold kcmp; simpl.
  destruct (Z.compare_spec k k') as [Hk|Hk|Hk]; try congruence.
  intros Hl; apply lcmp_eq in Hl; congruence.
Qed.

Lemma qz_true c : qz c = true -> Q2R c = 0%R.
Proof.
  unfold qz. intros H. apply Qeq_bool_eq in H. apply Qeq_eqR in H.
  rewrite H. unfold Q2R; simpl. lra.
Qed.

Lemma Q2R_red c : Q2R (Qred c) = Q2R c.
Proof. apply Qeq_eqR, Qred_correct. Qed.

Open Scope R_scope.
Arguments Q2R : simpl never.
Arguments Qred : simpl never.
Arguments Qplus : simpl never.
Arguments Qmult : simpl never.
Arguments Qopp : simpl never.
Arguments qz : simpl never.

Section Eval.
Variable rho : nat -> R.

(* angle contributed by the parameter exponents: sum_i e_i * rho_i / 4 *)
Fixpoint ang (i : nat) (es : list Z) : R :=
  match es with [] => 0 | e :: es' => IZR e * rho i / 4 + ang (S i) es' end.

Definition emono (k : key) : C := cis (IZR (fst k) * PI / 32 + ang 0 (snd k)).
Definition eterm (t : key * Q) : C := Cscal (Q2R (snd t)) (emono (fst t)).
Fixpoint eval (p : poly) : C :=
  match p with [] => C0 | t :: q => Cadd (eterm t) (eval q) end.

Lemma eval_padd1 k c p : eval (padd1 k c p) = Cadd (eterm (k, c)) (eval p).
Proof.
  induction p as [|[k' c'] q IH]; simpl.
  - destruct (qz c) eqn:Hz; simpl; unfold eterm; simpl.
    + rewrite (qz_true _ Hz). cring.
    + cring.
  - destruct (kcmp k k') eqn:E.
    + apply kcmp_eq in E; subst k'.
      destruct (qz (Qred (c + c'))) eqn:Hz; simpl; unfold eterm; simpl.
      * apply qz_true in Hz. rewrite Q2R_red, Q2R_plus in Hz.
        assert (Q2R c' = - Q2R c) by lra. rewrite H. cring.
      * rewrite Q2R_red, Q2R_plus. cring.
    + destruct (qz c) eqn:Hz; simpl; unfold eterm; simpl.
      * rewrite (qz_true _ Hz). cring.
      * cring.
    + simpl. rewrite IH. unfold eterm; simpl. cring.
Qed.

Lemma eval_padd p : forall q, eval (padd p q) = Cadd (eval p) (eval q).
Proof.
  unfold padd. induction p as [|t p IH]; intros q; simpl.
  - cring.
  - rewrite IH, eval_padd1. destruct t as [k c]; simpl. unfold eterm; simpl. cring.
Qed.

Lemma ang_vadd e1 : forall e2 i, ang i (vadd e1 e2) = ang i e1 + ang i e2.
Proof.
  induction e1 as [|x e1 IH]; intros [|y e2] i; simpl; try ring.
  rewrite IH, plus_IZR. field.
Qed.

Lemma ang_trimz e : forall i, ang i (trimz e) = ang i e.
Proof.
  induction e as [|x e IH]; intros i; simpl; [reflexivity|].
  specialize (IH (S i)).
  destruct (trimz e) as [|y t] eqn:Ht.
  - simpl in IH. destruct (Z.eqb_spec x 0) as [->|Hx]; simpl; rewrite <- IH; lra.
  - simpl. simpl in IH. rewrite IH. reflexivity.
Qed.

Lemma eterm_tmul t1 t2 : eterm (tmul t1 t2) = Cmul (eterm t1) (eterm t2).
Proof.
  destruct t1 as [[k1 e1] c1], t2 as [[k2 e2] c2]. unfold tmul.
  destruct (Z.ltb_spec (k1 + k2) 32); unfold eterm, emono; simpl;
    rewrite ang_trimz, ang_vadd, Q2R_red.
  - rewrite Q2R_mult, plus_IZR.
    replace ((IZR k1 + IZR k2) * PI / 32 + (ang 0 e1 + ang 0 e2)) with
        ((IZR k1 * PI / 32 + ang 0 e1) + (IZR k2 * PI / 32 + ang 0 e2)) by field.
    rewrite cis_add. cring.
  - rewrite Q2R_opp, Q2R_mult, minus_IZR, plus_IZR.
    replace ((IZR k1 + IZR k2 - 32) * PI / 32 + (ang 0 e1 + ang 0 e2)) with
        (((IZR k1 * PI / 32 + ang 0 e1) + (IZR k2 * PI / 32 + ang 0 e2)) - PI) by field.
    rewrite cis_minus_pi, cis_add. cring.
Qed.

Lemma eval_inner t1 q : forall acc,
  eval (fold_left (fun acc t2 => let t := tmul t1 t2 in padd1 (fst t) (snd t) acc) q acc)
  = Cadd (Cmul (eterm t1) (eval q)) (eval acc).
Proof.
  induction q as [|t2 q IH]; intros acc; simpl.
  - cring.
  - rewrite IH, eval_padd1.
    replace (fst (tmul t1 t2), snd (tmul t1 t2)) with (tmul t1 t2)
      by (destruct (tmul t1 t2); reflexivity).
    rewrite eterm_tmul. cring.
Qed.

Lemma eval_pmul_acc p q : forall acc,
  eval (fold_left (fun acc t1 =>
          fold_left (fun acc t2 => let t := tmul t1 t2 in padd1 (fst t) (snd t) acc) q acc) p acc)
  = Cadd (Cmul (eval p) (eval q)) (eval acc).
Proof.
  induction p as [|t1 p IH]; intros acc; simpl.
  - cring.
  - rewrite IH, eval_inner. cring.
Qed.

Theorem eval_pmul p q : eval (pmul p q) = Cmul (eval p) (eval q).
Proof. unfold pmul. rewrite eval_pmul_acc. simpl. cring. Qed.

Lemma eval_pneg p : eval (pneg p) = Cneg (eval p).
Proof.
  induction p as [|[k c] p IH]; simpl.
  - unfold Cneg, C0; simpl. f_equal; ring.
  - rewrite IH. unfold eterm; simpl. rewrite Q2R_red, Q2R_opp. unfold Cneg. cring.
Qed.

Lemma eval_pconst c : eval (pconst c) = RtoC (Q2R c).
Proof.
  unfold pconst. rewrite eval_padd1. simpl. unfold eterm, emono; simpl.
  rewrite Q2R_red.
  replace (0 * PI / 32 + 0) with 0 by field. rewrite cis_0. unfold RtoC, C1. cring.
Qed.

(* zeta^k u^e for arbitrary integer k: k mod 64 folded with zeta^32 = -1 *)
Lemma eval_mono k e : eval (mono k e) = cis (IZR k * PI / 32 + ang 0 e).
Proof.
  unfold mono.
  pose proof (Z.mod_pos_bound k 64 ltac:(lia)) as Hb.
  pose proof (Z.div_mod k 64 ltac:(lia)) as Hd.
  set (m := (k mod 64)%Z) in *. set (d := (k / 64)%Z) in *.
  assert (Hper : forall x (n : Z), cis (x + IZR n * (2 * PI)) = cis x).
  { intros x n. unfold cis. f_equal.
    - destruct n as [|p|p].
      + f_equal; simpl; ring.
      + rewrite <- (cos_period x (Pos.to_nat p)). f_equal.
        rewrite INR_IZR_INZ, positive_nat_Z. ring.
      + rewrite <- (cos_period (x + IZR (Z.neg p) * (2 * PI)) (Pos.to_nat p)). f_equal.
        rewrite INR_IZR_INZ, positive_nat_Z.
        change (Z.neg p) with (- Z.pos p)%Z. rewrite opp_IZR. ring.
    - destruct n as [|p|p].
      + f_equal; simpl; ring.
      + rewrite <- (sin_period x (Pos.to_nat p)). f_equal.
        rewrite INR_IZR_INZ, positive_nat_Z. ring.
      + rewrite <- (sin_period (x + IZR (Z.neg p) * (2 * PI)) (Pos.to_nat p)). f_equal.
        rewrite INR_IZR_INZ, positive_nat_Z.
        change (Z.neg p) with (- Z.pos p)%Z. rewrite opp_IZR. ring. }
  assert (Hk : IZR k * PI / 32 + ang 0 e
               = (IZR m * PI / 32 + ang 0 e) + IZR d * (2 * PI)).
  { rewrite Hd at 1. rewrite plus_IZR, mult_IZR. field. }
  rewrite Hk, Hper.
  destruct (Z.ltb_spec m 32); simpl; unfold eterm, emono; simpl; rewrite ang_trimz.
  - replace (Q2R 1) with 1 by (unfold Q2R; simpl; lra). cring.
  - replace (Q2R (-1)) with (-1) by (unfold Q2R; simpl; lra).
    rewrite minus_IZR.
    replace ((IZR m - 32) * PI / 32 + ang 0 e) with ((IZR m * PI / 32 + ang 0 e) - PI) by field.
    rewrite cis_minus_pi. cring.
Qed.

Lemma eval_pzero : eval pzero = C0. Proof. reflexivity. Qed.

End Eval.

Lemma leqb_eq a : forall b, leqb a b = true -> a = b.
Proof.
  induction a as [|x a IH]; intros [|y b]; simpl; try congruence.
  intros H. apply andb_true_iff in H as [H1 H2]. apply Z.eqb_eq in H1. f_equal; auto.
Qed.

Lemma qeqb_eq a b : qeqb a b = true -> a = b.
Proof.
  destruct a, b; unfold qeqb; simpl. intros H. apply andb_true_iff in H as [H1 H2].
  apply Z.eqb_eq in H1. apply Pos.eqb_eq in H2. congruence.
Qed.

Lemma peqb_eq p : forall q, peqb p q = true -> p = q.
Proof.
  induction p as [|[k1 c1] p IH]; intros [|[k2 c2] q]; simpl; try congruence.
  intros H. apply andb_true_iff in H as [H H3]. apply andb_true_iff in H as [H1 H2].
  unfold keqb in H1. apply andb_true_iff in H1 as [Ha Hb].
  apply Z.eqb_eq in Ha. apply leqb_eq in Hb. apply qeqb_eq in H2.
  destruct k1, k2; simpl in *; subst. f_equal. auto.
Qed.
