(* Sparse Laurent polynomials in zeta = e^{i pi/32} and u_i = e^{i theta_i / 4}
   with rational coefficients.  A term ((k, es), c) denotes
       c * zeta^k * prod_i u_i^(es_i),   0 <= k < 32, using zeta^32 = -1.
   Only executable definitions here; soundness w.r.t. the complex numbers is in SymSound.v. *)
From Coq Require Import ZArith QArith List Bool Lia.
Import ListNotations.
Open Scope Z_scope.

Definition key := (Z * list Z)%type.

Fixpoint lcmp (a b : list Z) : comparison :=
  match a, b with
  | [], [] => Eq | [], _ => Lt | _, [] => Gt
  | x :: a', y :: b' => match Z.compare x y with Eq => lcmp a' b' | c => c end
  end.

Definition kcmp (a b : key) : comparison :=
  match Z.compare (fst a) (fst b) with Eq => lcmp (snd a) (snd b) | c => c end.

Definition poly := list (key * Q).

Definition qz (c : Q) : bool := Qeq_bool c 0.

Fixpoint padd1 (k : key) (c : Q) (p : poly) : poly :=
  match p with
  | [] => if qz c then [] else [(k, c)]
  | (k', c') :: q =>
      match kcmp k k' with
      | Lt => if qz c then p else (k, c) :: p
      | Eq => let s := Qred (c + c') in if qz s then q else (k', s) :: q
      | Gt => (k', c') :: padd1 k c q
      end
  end.

Definition padd (p q : poly) : poly :=
  fold_left (fun acc t => padd1 (fst t) (snd t) acc) p q.

Fixpoint vadd (a b : list Z) : list Z :=
  match a, b with
  | [], _ => b | _, [] => a
  | x :: a', y :: b' => (x + y) :: vadd a' b'
  end.

(* drop trailing zero exponents so that equal monomials have equal keys *)
Fixpoint trimz (l : list Z) : list Z :=
  match l with
  | [] => []
  | x :: t => match trimz t with
              | [] => if x =? 0 then [] else [x]
              | t' => x :: t'
              end
  end.

Definition tmul (t1 t2 : key * Q) : key * Q :=
  let '((k1, e1), c1) := t1 in
  let '((k2, e2), c2) := t2 in
  let k := k1 + k2 in
  let e := trimz (vadd e1 e2) in
  if k <? 32 then ((k, e), Qred (c1 * c2)) else ((k - 32, e), Qred (- (c1 * c2))).

Definition pmul (p q : poly) : poly :=
  fold_left (fun acc t1 =>
     fold_left (fun acc t2 => let t := tmul t1 t2 in padd1 (fst t) (snd t) acc) q acc) p [].

Definition pneg (p : poly) : poly := map (fun t => (fst t, Qred (- snd t))) p.

Definition pscale (c : Q) (p : poly) : poly := pmul [((0, []), c)] p.

(* zeta^k * u^e for any integer k *)
Definition mono (k : Z) (e : list Z) : poly :=
  let k := k mod 64 in
  if k <? 32 then [((k, trimz e), 1%Q)] else [((k - 32, trimz e), (-1)%Q)].

Definition pzero : poly := [].
Definition pone : poly := mono 0 [].
Definition pconst (c : Q) : poly := padd1 (0, []) (Qred c) [].

Definition qeqb (a b : Q) : bool :=
  Z.eqb (Qnum a) (Qnum b) && Pos.eqb (Qden a) (Qden b).

Fixpoint leqb (a b : list Z) : bool :=
  match a, b with
  | [], [] => true
  | x :: a', y :: b' => Z.eqb x y && leqb a' b'
  | _, _ => false
  end.

Definition keqb (a b : key) : bool := Z.eqb (fst a) (fst b) && leqb (snd a) (snd b).

Fixpoint peqb (p q : poly) : bool :=
  match p, q with
  | [], [] => true
  | (k1, c1) :: a, (k2, c2) :: b => keqb k1 k2 && qeqb c1 c2 && peqb a b
  | _, _ => false
  end.
