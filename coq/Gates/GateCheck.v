(* Meaning of a basis-gate circuit over C, its symbolic evaluation, and the decision procedure
   "circuit = phase * defining unitary for all real parameter values" with its soundness proof. *)
From Coq Require Import String List ZArith QArith Reals Arith Bool Lia Lra.
From Verif Require Import Sym Cplx SymSound Aexp Mexp Apply BGate Basis.
Import ListNotations.

Definition mat_S (M : list (list mexp)) : option (list (list poly)) := mapM (mapM interpS) M.
Definition mat_C (rho : nat -> R) (M : list (list mexp)) : list (list C) :=
  map (map (interpC rho)) M.

(* ---------- one circuit step ---------- *)
Definition step_S (n : nat) (g : bgate nat) (v : list poly) : option (list poly) :=
  match g with
  | BG name args qs =>
      match mapM norm args with
      | Some affs =>
          match basis_matrix name affs with
          | Some (k, M) =>
              if Nat.eqb (length qs) k then
                match mat_S M with
                | Some MS => Some (applyk pzero padd pmul n MS qs v)
                | None => None
                end
              else None
          | None => None
          end
      | None => None
      end
  | BPhase a qs =>
      match norm a with
      | Some f => match mono_of_aff f with Some m => Some (vscale pmul m v) | None => None end
      | None => None
      end
  end.

(* MEANING of one emitted basis gate on an n-qubit state (angles through their affine normal
   form; Aexp.norm_sound: eval_aff (norm a) = interp_R a) *)
Definition step_C (rho : nat -> R) (n : nat) (g : bgate nat) (v : list C) : option (list C) :=
  match g with
  | BG name args qs =>
      match mapM norm args with
      | Some affs =>
          match basis_matrix name affs with
          | Some (k, M) =>
              if Nat.eqb (length qs) k
              then Some (applyk C0 Cadd Cmul n (mat_C rho M) qs v)
              else None
          | None => None
          end
      | None => None
      end
  | BPhase a qs =>
      match norm a with
      | Some f => Some (vscale Cmul (cis (eval_aff rho f)) v)
      | None => None
      end
  end.

Fixpoint run_S (n : nat) (circ : list (bgate nat)) (v : list poly) : option (list poly) :=
  match circ with
  | [] => Some v
  | g :: circ' => match step_S n g v with Some w => run_S n circ' w | None => None end
  end.

Fixpoint run_C (rho : nat -> R) (n : nat) (circ : list (bgate nat)) (v : list C) : option (list C) :=
  match circ with
  | [] => Some v
  | g :: circ' => match step_C rho n g v with Some w => run_C rho n circ' w | None => None end
  end.

Definition basis_S (n j : nat) : list poly :=
  map (fun i => if Nat.eqb i j then pone else pzero) (seq 0 (2 ^ n)).
Definition basis_C (n j : nat) : list C :=
  map (fun i => if Nat.eqb i j then C1 else C0) (seq 0 (2 ^ n)).

Definition col {T} (zero : T) (M : list (list T)) (j : nat) : list T :=
  map (fun row => nth j row zero) M.

(* ---------- homomorphism ---------- *)
Section Hom.
Variable rho : nat -> R.
Notation ev := (eval rho).

Lemma mat_S_sound M MS : mat_S M = Some MS -> map (map ev) MS = mat_C rho M.
Proof.
  unfold mat_S, mat_C. apply mapM_map. intros row rowS Hrow.
  revert rowS Hrow. apply mapM_map. intros e p He. apply (interpS_sound rho e p He).
Qed.

Lemma ev_pzero : ev pzero = C0. Proof. reflexivity. Qed.
Lemma ev_pone : ev pone = C1.
Proof. unfold pone. rewrite eval_mono. simpl. replace (0 * PI / 32 + 0)%R with 0%R by field. apply cis_0. Qed.

Lemma step_hom n g v w :
  step_S n g v = Some w -> step_C rho n g (map ev v) = Some (map ev w).
Proof.
  destruct g as [name args qs|a qs]; simpl.
  - destruct (mapM norm args) as [affs|]; [|discriminate].
    destruct (basis_matrix name affs) as [[k M]|]; [|discriminate].
    destruct (Nat.eqb (length qs) k); [|discriminate].
    destruct (mat_S M) as [MS|] eqn:HM; [|discriminate].
    intros [= <-]. f_equal.
    rewrite (applyk_hom poly C pzero C0 padd pmul Cadd Cmul ev ev_pzero
               (eval_padd rho) (eval_pmul rho)).
    rewrite (mat_S_sound _ _ HM). reflexivity.
  - destruct (norm a) as [f|]; [|discriminate].
    destruct (mono_of_aff f) as [m|] eqn:Hm; [|discriminate].
    intros [= <-]. f_equal.
    rewrite (vscale_hom poly C pmul Cmul ev (eval_pmul rho)).
    rewrite (mono_of_aff_sound rho _ _ Hm). reflexivity.
Qed.

Lemma run_hom n circ : forall v w,
  run_S n circ v = Some w -> run_C rho n circ (map ev v) = Some (map ev w).
Proof.
  induction circ as [|g circ IH]; simpl; intros v w.
  - intros [= <-]. reflexivity.
  - destruct (step_S n g v) as [u|] eqn:Hs; [|discriminate].
    intros Hr. rewrite (step_hom _ _ _ _ Hs). apply IH. exact Hr.
Qed.

Lemma basis_hom n j : map ev (basis_S n j) = basis_C n j.
Proof.
  unfold basis_S, basis_C. rewrite map_map. apply map_ext. intros i.
  destruct (Nat.eqb i j); [apply ev_pone | apply ev_pzero].
Qed.

End Hom.

(* ---------- the decision procedure ---------- *)
(* phase witness: zeta^k * prod u_i^(e_i) *)
Definition phase := (Z * list Z)%type.

Fixpoint peqb_list (a b : list poly) : bool :=
  match a, b with
  | [], [] => true
  | x :: a', y :: b' => peqb x y && peqb_list a' b'
  | _, _ => false
  end.

Definition check_col (n : nat) (circ : list (bgate nat)) (US : list (list poly)) (m : poly) (j : nat) : bool :=
  match run_S n circ (basis_S n j) with
  | Some w => peqb_list w (map (pmul m) (col pzero US j))
  | None => false
  end.

Definition check_with (n : nat) (circ : list (bgate nat)) (U : list (list mexp)) (ph : phase) : bool :=
  match mat_S U with
  | Some US =>
      Nat.eqb (length US) (2 ^ n) &&
      forallb (check_col n circ US (mono (fst ph) (snd ph))) (seq 0 (2 ^ n))
  | None => false
  end.

Lemma peqb_list_eq a : forall b, peqb_list a b = true -> a = b.
Proof.
  induction a as [|x a IH]; intros [|y b]; simpl; try congruence.
  intros H. apply andb_true_iff in H as [H1 H2]. apply peqb_eq in H1. f_equal; auto.
Qed.

(* what it means for a circuit on n qubits to implement U up to a global phase, for all
   real parameter values *)
Definition implements (n : nat) (circ : list (bgate nat)) (U : list (list mexp)) : Prop :=
  forall rho : nat -> R, exists c : C, Cnorm2 c = 1%R /\
    forall j, (j < 2 ^ n)%nat ->
      run_C rho n circ (basis_C n j) = Some (map (Cmul c) (col C0 (mat_C rho U) j)).

Theorem check_with_sound n circ U ph : check_with n circ U ph = true -> implements n circ U.
Proof.
  unfold check_with. destruct (mat_S U) as [US|] eqn:HU; [|discriminate].
  intros H. apply andb_true_iff in H as [_ H]. rewrite forallb_forall in H.
  intros rho. exists (eval rho (mono (fst ph) (snd ph))). split.
  - rewrite eval_mono. apply cis_norm.
  - intros j Hj. specialize (H j). rewrite in_seq in H. specialize (H ltac:(lia)).
    unfold check_col in H.
    destruct (run_S n circ (basis_S n j)) as [w|] eqn:Hr; [|discriminate].
    apply peqb_list_eq in H. subst w.
    apply (run_hom rho) in Hr. rewrite basis_hom in Hr. rewrite Hr. f_equal.
    rewrite <- (mat_S_sound rho _ _ HU).
    unfold col. rewrite !map_map. apply map_ext. intros row.
    rewrite eval_pmul. f_equal.
    rewrite <- (ev_pzero rho). symmetry. apply map_nth.
Qed.

(* ---------- phase search (untrusted: only proposes a witness) ---------- *)
Fixpoint first_nonzero (a b : list poly) : option (poly * poly) :=
  match a, b with
  | x :: a', y :: b' => match y with [] => first_nonzero a' b' | _ => Some (x, y) end
  | _, _ => None
  end.

Definition vsub (a b : list Z) : list Z := trimz (vadd a (map Z.opp b)).

(* compare precomputed circuit columns with phase * spec columns *)
Definition cols_match (cols : list (option (list poly))) (US : list (list poly)) (m : poly) : bool :=
  forallb (fun jc => match snd jc with
                     | Some w => peqb_list w (map (pmul m) (col pzero US (fst jc)))
                     | None => false
                     end)
          (combine (seq 0 (length cols)) cols).

Definition find_phase (n : nat) (circ : list (bgate nat)) (U : list (list mexp)) : option phase :=
  match mat_S U with
  | Some US =>
      let cols := map (fun j => run_S n circ (basis_S n j)) (seq 0 (2 ^ n)) in
      (* exponent-vector candidates: every term of the first circuit entry that faces a
         non-zero spec entry, relative to that spec entry's first term *)
      let cands :=
        match cols with
        | Some w :: _ =>
            match first_nonzero w (col pzero US 0) with
            | Some (c, (ks, _) :: _) => map (fun t => vsub (snd (fst t)) (snd ks)) c
            | _ => []
            end
        | _ => []
        end in
      find (fun ph => cols_match cols US (mono (fst ph) (snd ph)))
           (flat_map (fun e => map (fun k => (Z.of_nat k, e)) (seq 0 64)) cands)
  | None => None
  end.

Definition check_circuit (n : nat) (circ : list (bgate nat)) (U : list (list mexp)) : bool :=
  match find_phase n circ U with
  | Some ph => check_with n circ U ph
  | None => false
  end.

Theorem check_circuit_sound n circ U : check_circuit n circ U = true -> implements n circ U.
Proof.
  unfold check_circuit. destruct (find_phase n circ U) as [ph|]; [|discriminate].
  apply check_with_sound.
Qed.
