(* The library-gate lowering of pyqasm as generated from maps.py, the lookup functions of
   map_qasm_op_to_callable / map_qasm_inv_op_to_callable, and the per-gate decision procedure. *)
From Coq Require Import String List ZArith QArith Reals Arith Bool Lia.
From Verif Require Import Sym Cplx Aexp Mexp Apply BGate Basis GateCheck GatesGen GateSpecGen.
Import ListNotations.
Open Scope string_scope.

Section Lib.
Variable Q : Type.

(* map_qasm_op_to_callable: first table (in op_maps order) that has the key; None = ValidationError *)
Fixpoint lookup_tables (tabs : list (list (string * option (entry Q)) * nat)) (name : string)
  : option (option (entry Q) * nat) :=
  match tabs with
  | [] => None
  | (t, n) :: tabs' => match assoc name t with Some e => Some (e, n) | None => lookup_tables tabs' name end
  end.
Definition lookup_op (name : string) := lookup_tables (op_maps Q) name.

Inductive inv_lookup :=
| InvFound (e : option (entry Q)) (arity : nat) (invert_rotation : bool)
| InvKeyError            (* table[key] raised KeyError *)
| InvUnsupported.        (* the final raise ValidationError *)

(* map_qasm_inv_op_to_callable *)
Fixpoint lookup_inv_clauses
  (cl : list (list string * list (string * string) * list (string * option (entry Q)) * nat * bool))
  (name : string) : inv_lookup :=
  match cl with
  | [] => InvUnsupported
  | (members, rename, table, arity, inv) :: cl' =>
      if smem name members then
        let key := match rename with
                   | [] => Some name
                   | _ => assoc name rename
                   end in
        match key with
        | Some k => match assoc k table with Some e => InvFound e arity inv | None => InvKeyError end
        | None => InvKeyError
        end
      else lookup_inv_clauses cl' name
  end.
Definition lookup_inv (name : string) := lookup_inv_clauses (inv_clauses Q) name.

End Lib.
Arguments InvFound {Q} e arity invert_rotation.
Arguments InvKeyError {Q}.
Arguments InvUnsupported {Q}.

Definition vars (np : nat) : list aexp := map AVar (seq 0 np).
Definition gargs (np k : nat) : list (garg nat) := map GA (vars np) ++ map GQ (seq 0 k).

(* all names the operation tables recognise, in table order *)
Definition all_gate_names : list string := flat_map (fun t => map fst (fst t)) (op_maps nat).

(* The circuit emitted for one application of [name] with np symbolic parameters on qubits
   0 .. arity-1, exactly as visitor._visit_basic_gate_operation calls it:
   the callable applied to the parameters followed by the qubits.  None = the call raises. *)
Definition lib_circuit (name : string) (np : nat) : option (nat * list (bgate nat)) :=
  match lookup_op nat name with
  | Some (Some (_, _, f), arity) =>
      match f (gargs np arity) with Some c => Some (arity, c) | None => None end
  | _ => None
  end.

(* C05 for one gate name *)
Definition gate_correct (name : string) : Prop :=
  exists np nq U circ,
    assoc name gate_specs = Some (np, nq, U) /\
    lib_circuit name np = Some (nq, circ) /\
    implements nq circ U.

Definition check_gate (name : string) : bool :=
  match assoc name gate_specs with
  | Some (np, nq, U) =>
      match lib_circuit name np with
      | Some (k, circ) => Nat.eqb k nq && check_circuit nq circ U
      | None => false
      end
  | None => false
  end.

Theorem check_gate_sound name : check_gate name = true -> gate_correct name.
Proof.
  unfold check_gate, gate_correct.
  destruct (assoc name gate_specs) as [[[np nq] U]|] eqn:Hs; [|discriminate].
  destruct (lib_circuit name np) as [[k circ]|] eqn:Hl; [|discriminate].
  intros H. apply andb_true_iff in H as [Hk Hc]. apply Nat.eqb_eq in Hk. subst k.
  exists np, nq, U, circ. split; [reflexivity|]. split; [exact Hl|]. apply check_circuit_sound. exact Hc.
Qed.

Definition has_spec (name : string) : bool :=
  match assoc name gate_specs with Some _ => true | None => false end.

Definition unspecified_names : list string := filter (fun n => negb (has_spec n)) all_gate_names.
