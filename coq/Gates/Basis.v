(* SPECIFICATION (trusted): matrices of the basis gates the decompositions are expressed in,
   OpenQASM 3 stdgates.inc conventions, first operand = most significant index bit.
   Read through Mexp.interpC. *)
From Coq Require Import String List ZArith QArith Arith.
From Verif Require Import Aexp Mexp.
Import ListNotations.
Open Scope string_scope.

Definition m0 := MQ 0.
Definition m1 := MQ 1.
Definition mm1 := MQ (-1).
Definition mi := MI.
Definition mmi := MNeg MI.
Definition hf (a : aff) : aff := aff_scale (1 # 2) a.       (* a/2 *)
Definition mhf (a : aff) : aff := aff_scale (-1 # 2) a.     (* -a/2 *)

(* permutation matrix of dimension d: column j has its 1 in row (f j) *)
Definition perm_mat (d : nat) (f : nat -> nat) : list (list mexp) :=
  map (fun i => map (fun j => if Nat.eqb i (f j) then m1 else m0) (seq 0 d)) (seq 0 d).

(* arity, matrix *)
Definition basis_matrix (name : string) (args : list aff) : option (nat * list (list mexp)) :=
  match name, args with
  | "id", [] => Some (1%nat, [[m1; m0]; [m0; m1]])
  | "x", [] => Some (1%nat, [[m0; m1]; [m1; m0]])
  | "y", [] => Some (1%nat, [[m0; mmi]; [mi; m0]])
  | "z", [] => Some (1%nat, [[m1; m0]; [m0; mm1]])
  | "h", [] => Some (1%nat, [[MRs2; MRs2]; [MRs2; MNeg MRs2]])
  | "s", [] => Some (1%nat, [[m1; m0]; [m0; mi]])
  | "sdg", [] => Some (1%nat, [[m1; m0]; [m0; mmi]])
  | "t", [] => Some (1%nat, [[m1; m0]; [m0; MCis (aff_pi (1 # 4))]])
  | "tdg", [] => Some (1%nat, [[m1; m0]; [m0; MCis (aff_pi (-1 # 4))]])
  (* sx = 1/2 [[1+i, 1-i],[1-i, 1+i]] *)
  | "sx", [] => Some (1%nat, [[MMul (MQ (1 # 2)) (MAdd m1 mi); MMul (MQ (1 # 2)) (MAdd m1 mmi)];
                         [MMul (MQ (1 # 2)) (MAdd m1 mmi); MMul (MQ (1 # 2)) (MAdd m1 mi)]])
  | "sxdg", [] => Some (1%nat, [[MMul (MQ (1 # 2)) (MAdd m1 mmi); MMul (MQ (1 # 2)) (MAdd m1 mi)];
                           [MMul (MQ (1 # 2)) (MAdd m1 mi); MMul (MQ (1 # 2)) (MAdd m1 mmi)]])
  (* rx(a) = [[cos(a/2), -i sin(a/2)], [-i sin(a/2), cos(a/2)]] *)
  | "rx", [a] => Some (1%nat, [[MCos (hf a); MMul mmi (MSin (hf a))];
                          [MMul mmi (MSin (hf a)); MCos (hf a)]])
  (* ry(a) = [[cos(a/2), -sin(a/2)], [sin(a/2), cos(a/2)]] *)
  | "ry", [a] => Some (1%nat, [[MCos (hf a); MNeg (MSin (hf a))];
                          [MSin (hf a); MCos (hf a)]])
  (* rz(a) = diag(e^{-ia/2}, e^{ia/2}) *)
  | "rz", [a] => Some (1%nat, [[MCis (mhf a); m0]; [m0; MCis (hf a)]])
  | "cx", [] => Some (2%nat, perm_mat 4%nat (fun j => match j with 2 => 3 | 3 => 2 | _ => j end)%nat)
  | "cz", [] => Some (2%nat, [[m1; m0; m0; m0]; [m0; m1; m0; m0]; [m0; m0; m1; m0]; [m0; m0; m0; mm1]])
  | "swap", [] => Some (2%nat, perm_mat 4%nat (fun j => match j with 1 => 2 | 2 => 1 | _ => j end)%nat)
  | "ccx", [] => Some (3%nat, perm_mat 8%nat (fun j => match j with 6 => 7 | 7 => 6 | _ => j end)%nat)
  | "c4x", [] => Some (5%nat, perm_mat 32%nat (fun j => if Nat.eqb j 30%nat then 31%nat else if Nat.eqb j 31%nat then 30%nat else j)%nat)
  | _, _ => None
  end.
