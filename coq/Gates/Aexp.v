(* Angle expressions as they occur in maps.py, their meaning as real numbers, and their affine
   normal form  sum_i q_i * theta_i + r * pi + c  (q_i, r, c rational). *)
From Coq Require Import ZArith QArith Qreals Reals List Bool Lia Lra.
From Verif Require Import Sym Cplx SymSound.
Import ListNotations.

Inductive aexp :=
| AVar (n : nat)            (* n-th angle parameter of the gate *)
| AInt (z : Z)              (* Python int literal *)
| AFlt (q : Q)              (* Python float literal, as the exact (dyadic) rational it denotes *)
| APi | ATau | AEuler       (* CONSTANTS_MAP["pi"|"tau"|"euler"] *)
| ANeg (a : aexp)
| AAdd (a b : aexp) | ASub (a b : aexp) | AMul (a b : aexp) | ADiv (a b : aexp).

Record aff := mkAff { ap : list Q; api : Q; ac : Q }.

Fixpoint ladd (a b : list Q) : list Q :=
  match a, b with
  | [], _ => b | _, [] => a
  | x :: a', y :: b' => Qred (x + y) :: ladd a' b'
  end.
Definition lscale (c : Q) (a : list Q) : list Q := map (fun x => Qred (c * x)) a.

Definition aff_add (f g : aff) : aff :=
  mkAff (ladd (ap f) (ap g)) (Qred (api f + api g)) (Qred (ac f + ac g)).
Definition aff_scale (c : Q) (f : aff) : aff :=
  mkAff (lscale c (ap f)) (Qred (c * api f)) (Qred (c * ac f)).
Definition aff_neg (f : aff) : aff := aff_scale (-1) f.
Definition aff_const (c : Q) : aff := mkAff [] 0 c.
Definition aff_pi (r : Q) : aff := mkAff [] r 0.
Fixpoint unitv (n : nat) : list Q := match n with O => [1%Q] | S n' => 0%Q :: unitv n' end.
Definition aff_var (n : nat) : aff := mkAff (unitv n) 0 0.

Definition lzero (a : list Q) : bool := forallb qz a.
(* a pure rational constant *)
Definition aff_is_const (f : aff) : option Q :=
  if lzero (ap f) && qz (api f) then Some (ac f) else None.

Fixpoint norm (a : aexp) : option aff :=
  match a with
  | AVar n => Some (aff_var n)
  | AInt z => Some (aff_const (inject_Z z))
  | AFlt q => Some (aff_const q)
  | APi => Some (aff_pi 1)
  | ATau => Some (aff_pi 2)
  | AEuler => None
  | ANeg x => option_map aff_neg (norm x)
  | AAdd x y => match norm x, norm y with Some f, Some g => Some (aff_add f g) | _, _ => None end
  | ASub x y => match norm x, norm y with Some f, Some g => Some (aff_add f (aff_neg g)) | _, _ => None end
  | AMul x y =>
      match norm x, norm y with
      | Some f, Some g =>
          match aff_is_const f with
          | Some c => Some (aff_scale c g)
          | None => match aff_is_const g with Some c => Some (aff_scale c f) | None => None end
          end
      | _, _ => None
      end
  | ADiv x y =>
      match norm x, norm y with
      | Some f, Some g =>
          match aff_is_const g with
          | Some c => if qz c then None else Some (aff_scale (/ c) f)
          | None => None
          end
      | _, _ => None
      end
  end.

Open Scope R_scope.
Arguments Q2R : simpl never.
Arguments Qred : simpl never.
Arguments Qplus : simpl never.
Arguments Qmult : simpl never.
Arguments Qopp : simpl never.
Arguments Qinv : simpl never.
Arguments qz : simpl never.

Section Sem.
Variable rho : nat -> R.

Fixpoint interp_R (a : aexp) : R :=
  match a with
  | AVar n => rho n
  | AInt z => IZR z
  | AFlt q => Q2R q
  | APi => PI
  | ATau => 2 * PI
  | AEuler => exp 1
  | ANeg x => - interp_R x
  | AAdd x y => interp_R x + interp_R y
  | ASub x y => interp_R x - interp_R y
  | AMul x y => interp_R x * interp_R y
  | ADiv x y => interp_R x / interp_R y
  end.

Fixpoint lsum (i : nat) (qs : list Q) : R :=
  match qs with [] => 0 | q :: qs' => Q2R q * rho i + lsum (S i) qs' end.

Definition eval_aff (f : aff) : R := lsum 0 (ap f) + Q2R (api f) * PI + Q2R (ac f).

Lemma lsum_ladd a : forall b i, lsum i (ladd a b) = lsum i a + lsum i b.
Proof.
  induction a as [|x a IH]; intros [|y b] i; simpl; try ring.
  rewrite IH, Q2R_red, Q2R_plus. ring.
Qed.

Lemma lsum_lscale c a : forall i, lsum i (lscale c a) = Q2R c * lsum i a.
Proof.
  induction a as [|x a IH]; intros i; simpl; [ring|].
  rewrite IH, Q2R_red, Q2R_mult. ring.
Qed.

Lemma eval_aff_add f g : eval_aff (aff_add f g) = eval_aff f + eval_aff g.
Proof.
  unfold eval_aff, aff_add; simpl. rewrite lsum_ladd, !Q2R_red, !Q2R_plus. ring.
Qed.

Lemma eval_aff_scale c f : eval_aff (aff_scale c f) = Q2R c * eval_aff f.
Proof.
  unfold eval_aff, aff_scale; simpl. rewrite lsum_lscale, !Q2R_red, !Q2R_mult. ring.
Qed.

Lemma Q2R_m1 : Q2R (-1) = -1. Proof. unfold Q2R; simpl. lra. Qed.
Lemma Q2R_0' : Q2R 0 = 0. Proof. unfold Q2R; simpl. lra. Qed.
Lemma Q2R_1' : Q2R 1 = 1. Proof. unfold Q2R; simpl. lra. Qed.
Lemma Q2R_2' : Q2R 2 = 2. Proof. unfold Q2R; simpl. lra. Qed.

Lemma eval_aff_neg f : eval_aff (aff_neg f) = - eval_aff f.
Proof. unfold aff_neg. rewrite eval_aff_scale, Q2R_m1. ring. Qed.

Lemma lsum_unitv n : forall i, lsum i (unitv n) = rho (i + n)%nat.
Proof.
  induction n as [|n IH]; intros i; simpl.
  - rewrite Q2R_1', Nat.add_0_r. ring.
  - rewrite IH, Q2R_0'. replace (S i + n)%nat with (i + S n)%nat by lia. ring.
Qed.

Lemma lzero_lsum a : lzero a = true -> forall i, lsum i a = 0.
Proof.
  induction a as [|x a IH]; simpl; intros H i; [reflexivity|].
  apply andb_true_iff in H as [H1 H2]. rewrite (qz_true _ H1), (IH H2). ring.
Qed.

Lemma aff_is_const_sound f c : aff_is_const f = Some c -> eval_aff f = Q2R c.
Proof.
  unfold aff_is_const. destruct (lzero (ap f)) eqn:H1; simpl; [|discriminate].
  destruct (qz (api f)) eqn:H2; [|discriminate]. intros [= <-].
  unfold eval_aff. rewrite (lzero_lsum _ H1), (qz_true _ H2). ring.
Qed.

Theorem norm_sound a : forall f, norm a = Some f -> eval_aff f = interp_R a.
Proof.
  induction a as [n|z|q| | | |x IHx|x IHx y IHy|x IHx y IHy|x IHx y IHy|x IHx y IHy];
    intros f; simpl.
  - intros [= <-]. unfold eval_aff, aff_var; simpl. rewrite lsum_unitv, Q2R_0'. simpl. ring.
  - intros [= <-]. unfold eval_aff, aff_const; simpl. rewrite Q2R_0'.
    unfold Q2R, inject_Z; simpl. field.
  - intros [= <-]. unfold eval_aff, aff_const; simpl. rewrite Q2R_0'. ring.
  - intros [= <-]. unfold eval_aff, aff_pi; simpl. rewrite Q2R_0', Q2R_1'. ring.
  - intros [= <-]. unfold eval_aff, aff_pi; simpl. rewrite Q2R_0', Q2R_2'. ring.
  - discriminate.
  - destruct (norm x) as [g|]; simpl; [|discriminate]. intros [= <-].
    rewrite eval_aff_neg, (IHx g eq_refl). reflexivity.
  - destruct (norm x) as [g|]; [|discriminate]. destruct (norm y) as [h|]; [|discriminate].
    intros [= <-]. rewrite eval_aff_add, (IHx g eq_refl), (IHy h eq_refl). reflexivity.
  - destruct (norm x) as [g|]; [|discriminate]. destruct (norm y) as [h|]; [|discriminate].
    intros [= <-]. rewrite eval_aff_add, eval_aff_neg, (IHx g eq_refl), (IHy h eq_refl). ring.
  - destruct (norm x) as [g|]; [|discriminate]. destruct (norm y) as [h|]; [|discriminate].
    specialize (IHx g eq_refl). specialize (IHy h eq_refl).
    destruct (aff_is_const g) as [c|] eqn:Hc.
    + intros [= <-]. rewrite eval_aff_scale, IHy, <- IHx, (aff_is_const_sound _ _ Hc). ring.
    + destruct (aff_is_const h) as [c|] eqn:Hd; [|discriminate].
      intros [= <-]. rewrite eval_aff_scale, IHx, <- IHy, (aff_is_const_sound _ _ Hd). ring.
  - destruct (norm x) as [g|]; [|discriminate]. destruct (norm y) as [h|]; [|discriminate].
    specialize (IHx g eq_refl). specialize (IHy h eq_refl).
    destruct (aff_is_const h) as [c|] eqn:Hc; [|discriminate].
    destruct (qz c) eqn:Hz; [discriminate|].
    intros [= <-]. rewrite eval_aff_scale, IHx, <- IHy, (aff_is_const_sound _ _ Hc).
    assert (Hnz : Q2R c <> 0).
    { intro H0. unfold qz in Hz. apply Qeq_bool_neq in Hz. apply Hz.
      apply eqR_Qeq. rewrite H0. unfold Q2R; simpl; lra. }
    assert (Hq : ~ (c == 0)%Q).
    { intro Hq. apply Hnz. rewrite (Qeq_eqR _ _ Hq). unfold Q2R; simpl; lra. }
    rewrite (Q2R_inv _ Hq). unfold Rdiv. ring.
Qed.

End Sem.

(* ---- affine angle -> monomial of the symbolic ring (zeta = e^{i pi/32}, u_i = e^{i theta_i/4}) ---- *)
Definition q_to_z (c : Q) : option Z :=
  let r := Qred c in if Pos.eqb (Qden r) 1 then Some (Qnum r) else None.

Fixpoint lq_to_z (l : list Q) : option (list Z) :=
  match l with
  | [] => Some []
  | q :: l' => match q_to_z (Qred (4 * q)), lq_to_z l' with
               | Some z, Some zs => Some (z :: zs) | _, _ => None end
  end.

Definition mono_of_aff (f : aff) : option poly :=
  if qz (ac f) then
    match q_to_z (Qred (32 * api f)), lq_to_z (ap f) with
    | Some k, Some es => Some (mono k es)
    | _, _ => None
    end
  else None.

Lemma q_to_z_sound c z : q_to_z c = Some z -> Q2R c = IZR z.
Proof.
  unfold q_to_z. destruct (Pos.eqb_spec (Qden (Qred c)) 1) as [H1|]; [|discriminate].
  intros [= <-]. rewrite <- (Q2R_red c). unfold Q2R. rewrite H1. simpl. field.
Qed.

Lemma lq_to_z_sound rho l : forall zs i, lq_to_z l = Some zs -> ang rho i zs = lsum rho i l.
Proof.
  induction l as [|q l IH]; intros zs i; simpl.
  - intros [= <-]. reflexivity.
  - destruct (q_to_z (Qred (4 * q))) as [z|] eqn:Hz; [|discriminate].
    destruct (lq_to_z l) as [zs'|] eqn:Hl; [|discriminate].
    intros [= <-]. simpl. rewrite (IH zs' (S i) eq_refl).
    apply q_to_z_sound in Hz. rewrite Q2R_red, Q2R_mult in Hz.
    replace (Q2R 4) with 4 in Hz by (unfold Q2R; simpl; lra).
    rewrite <- Hz. field.
Qed.

Theorem mono_of_aff_sound rho f p :
  mono_of_aff f = Some p -> eval rho p = cis (eval_aff rho f).
Proof.
  unfold mono_of_aff. destruct (qz (ac f)) eqn:Hc; [|discriminate].
  destruct (q_to_z (Qred (32 * api f))) as [k|] eqn:Hk; [|discriminate].
  destruct (lq_to_z (ap f)) as [es|] eqn:He; [|discriminate].
  intros [= <-]. rewrite eval_mono. f_equal. unfold eval_aff.
  rewrite (lq_to_z_sound rho _ _ 0%nat He), (qz_true _ Hc).
  apply q_to_z_sound in Hk. rewrite Q2R_red, Q2R_mult in Hk.
  replace (Q2R 32) with 32 in Hk by (unfold Q2R; simpl; lra).
  rewrite <- Hk. field.
Qed.
