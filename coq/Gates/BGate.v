(* Basis-gate applications as emitted by the decomposition functions of maps.py, and the
   argument type used by the generated name -> callable tables. *)
From Coq Require Import String Ascii List ZArith.
From Verif Require Import Aexp.
Import ListNotations.

Inductive bgate (Q : Type) :=
| BG (name : string) (args : list aexp) (qubits : list Q)   (* QuantumGate(name, arguments, qubits) *)
| BPhase (arg : aexp) (qubits : list Q).                     (* QuantumPhase(argument, qubits) *)
Arguments BG {Q} name args qubits.
Arguments BPhase {Q} arg qubits.

(* positional argument of a table callable: an angle or a qubit *)
Inductive garg (Q : Type) := GA (a : aexp) | GQ (q : Q).
Arguments GA {Q} a.
Arguments GQ {Q} q.

(* str.lower() restricted to ASCII letters *)
Definition ascii_lower (c : ascii) : ascii :=
  let n := nat_of_ascii c in
  if andb (Nat.leb 65 n) (Nat.leb n 90) then ascii_of_nat (n + 32) else c.
Fixpoint str_lower (s : string) : string :=
  match s with EmptyString => EmptyString | String c s' => String (ascii_lower c) (str_lower s') end.

Fixpoint assoc {A} (k : string) (l : list (string * A)) : option A :=
  match l with
  | [] => None
  | (k', v) :: l' => if String.eqb k k' then Some v else assoc k l'
  end.

Definition smem (k : string) (l : list string) : bool := existsb (String.eqb k) l.

Fixpoint mapM {A B} (f : A -> option B) (l : list A) : option (list B) :=
  match l with
  | [] => Some []
  | x :: l' => match f x, mapM f l' with Some y, Some ys => Some (y :: ys) | _, _ => None end
  end.

Lemma mapM_map {A B C} (f : A -> option B) (g : B -> C) (h : A -> C) l :
  (forall a b, f a = Some b -> g b = h a) ->
  forall ys, mapM f l = Some ys -> map g ys = map h l.
Proof.
  intros Hf. induction l as [|x l IH]; simpl; intros ys.
  - intros [= <-]. reflexivity.
  - destruct (f x) as [y|] eqn:Hx; [|discriminate].
    destruct (mapM f l) as [ys'|]; [|discriminate].
    intros [= <-]. simpl. rewrite (Hf _ _ Hx), (IH ys' eq_refl). reflexivity.
Qed.

(* Python operators occurring as lambda bodies in maps.OPERATOR_MAP *)
Inductive binop := OpAdd | OpSub | OpMul | OpDiv | OpMod | OpXor | OpBitAnd | OpBitOr | OpShl | OpShr
  | OpFloorDiv | OpPow | OpEq | OpNe | OpLt | OpGt | OpLe | OpGe | OpAnd | OpOr | OpLAnd | OpLOr.
Inductive unop := OpInvert | OpNot | OpNeg | OpPos.
Inductive pyop := Bin (o : binop) | Un (o : unop).
