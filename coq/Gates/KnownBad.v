(* Gate names excluded from the C05 / C06 theorems on the current tree.  Each has an entry in
   /verif/known_findings.json (or is numeric-only); the check replays them on every run. *)
From Coq Require Import String List.
Import ListNotations.
Open Scope string_scope.

(* xx_plus_yy, xy: rz(+-pi/2) applied to the wrong qubit (pinned by tests/utils.py);
   ms: numeric KAK decomposition, not affine -> opaque to the translator *)
Definition c05_known_bad : list string := ["xx_plus_yy"; "xy"; "ms"].
