(* Matrix-entry expressions: the language in which basis-gate matrices and defining unitaries
   are written.  interpC is their textbook meaning in C; interpS computes them in the symbolic
   ring; interpS_sound ties the two. *)
From Coq Require Import ZArith QArith Qreals Reals List Bool Lia Lra.
From Verif Require Import Sym Cplx SymSound Aexp.
Import ListNotations.

Inductive mexp :=
| MQ (q : Q)            (* rational constant *)
| MI                    (* the imaginary unit *)
| MRs2                  (* 1/sqrt 2 = cos(pi/4) *)
| MCis (a : aff)        (* e^{i a} *)
| MCos (a : aff)
| MSin (a : aff)
| MAdd (x y : mexp)
| MMul (x y : mexp)
| MNeg (x : mexp).

Definition half : Q := 1 # 2.

Fixpoint interpS (e : mexp) : option poly :=
  match e with
  | MQ q => Some (pconst q)
  | MI => Some (mono 16 [])
  | MRs2 => Some (pmul (pconst half) (padd (mono 8 []) (mono (-8) [])))
  | MCis a => mono_of_aff a
  | MCos a =>
      match mono_of_aff a, mono_of_aff (aff_neg a) with
      | Some p, Some q => Some (pmul (pconst half) (padd p q))
      | _, _ => None
      end
  | MSin a =>
      match mono_of_aff a, mono_of_aff (aff_neg a) with
      | Some p, Some q => Some (pmul (pmul (pconst half) (mono (-16) [])) (padd p (pneg q)))
      | _, _ => None
      end
  | MAdd x y => match interpS x, interpS y with Some p, Some q => Some (padd p q) | _, _ => None end
  | MMul x y => match interpS x, interpS y with Some p, Some q => Some (pmul p q) | _, _ => None end
  | MNeg x => option_map pneg (interpS x)
  end.

Open Scope R_scope.
Arguments Q2R : simpl never.

Section Sem.
Variable rho : nat -> R.

Fixpoint interpC (e : mexp) : C :=
  match e with
  | MQ q => RtoC (Q2R q)
  | MI => Ci
  | MRs2 => RtoC (cos (PI / 4))
  | MCis a => cis (eval_aff rho a)
  | MCos a => RtoC (cos (eval_aff rho a))
  | MSin a => RtoC (sin (eval_aff rho a))
  | MAdd x y => Cadd (interpC x) (interpC y)
  | MMul x y => Cmul (interpC x) (interpC y)
  | MNeg x => Cneg (interpC x)
  end.

Lemma Some_inj {A} (a b : A) : Some a = Some b -> a = b. Proof. congruence. Qed.
Ltac somei := let H := fresh in intros H; apply Some_inj in H; subst.

Lemma Q2R_half : Q2R half = / 2. Proof. unfold Q2R, half; simpl. lra. Qed.

Lemma ang_nil i : ang rho i [] = 0. Proof. reflexivity. Qed.

Theorem interpS_sound e : forall p, interpS e = Some p -> eval rho p = interpC e.
Proof.
  induction e as [q| | |a|a|a|x IHx y IHy|x IHx y IHy|x IHx]; intros p; cbn [interpS interpC option_map].
  - somei. apply eval_pconst.
  - somei. rewrite eval_mono, ang_nil.
    replace (16 * PI / 32 + 0) with (PI / 2) by field. apply cis_pi2.
  - somei. rewrite eval_pmul, eval_padd, !eval_mono, eval_pconst, Q2R_half, !ang_nil.
    replace (8 * PI / 32 + 0) with (PI / 4) by field.
    replace (-8 * PI / 32 + 0) with (- (PI / 4)) by field.
    rewrite cis_neg. unfold cis, RtoC. apply C_eq; simpl; field.
  - apply mono_of_aff_sound.
  - destruct (mono_of_aff a) as [p1|] eqn:H1; [|discriminate].
    destruct (mono_of_aff (aff_neg a)) as [p2|] eqn:H2; [|discriminate].
    somei. rewrite eval_pmul, eval_padd, eval_pconst, Q2R_half.
    rewrite (mono_of_aff_sound rho _ _ H1), (mono_of_aff_sound rho _ _ H2), eval_aff_neg, cis_neg.
    unfold cis, RtoC. apply C_eq; simpl; field.
  - destruct (mono_of_aff a) as [p1|] eqn:H1; [|discriminate].
    destruct (mono_of_aff (aff_neg a)) as [p2|] eqn:H2; [|discriminate].
    somei. rewrite !eval_pmul, eval_padd, eval_pneg, eval_pconst, Q2R_half, eval_mono, ang_nil.
    rewrite (mono_of_aff_sound rho _ _ H1), (mono_of_aff_sound rho _ _ H2), eval_aff_neg, cis_neg.
    replace (-16 * PI / 32 + 0) with (- (PI / 2)) by field.
    rewrite cis_neg, cos_PI2, sin_PI2.
    unfold cis, RtoC, Cneg. apply C_eq; simpl; field.
  - destruct (interpS x) as [p1|]; [|discriminate]. destruct (interpS y) as [p2|]; [|discriminate].
    somei. rewrite eval_padd, (IHx p1 eq_refl), (IHy p2 eq_refl). reflexivity.
  - destruct (interpS x) as [p1|]; [|discriminate]. destruct (interpS y) as [p2|]; [|discriminate].
    somei. rewrite eval_pmul, (IHx p1 eq_refl), (IHy p2 eq_refl). reflexivity.
  - destruct (interpS x) as [p1|]; cbn [option_map]; [|discriminate].
    somei. rewrite eval_pneg, (IHx p1 eq_refl). reflexivity.
Qed.

End Sem.
