(* Inverse of library gates (C06): the circuit pyqasm emits for `inv @ g(params) qs` undoes the
   circuit it emits for `g(params) qs`, for all real parameter values, up to a global phase. *)
From Coq Require Import String List ZArith QArith Reals Arith Bool Lia.
From Verif Require Import Sym Cplx Aexp Mexp Apply BGate Basis GateCheck GatesGen GateSpecGen GateLib.
Import ListNotations.
Open Scope string_scope.

Definition ident_mat (n : nat) : list (list mexp) :=
  map (fun i => map (fun j => if Nat.eqb i j then MQ 1 else MQ 0) (seq 0 (2 ^ n))) (seq 0 (2 ^ n)).

(* visitor._visit_basic_gate_operation: [-1 * param for param in op_parameters] *)
Definition neg_vars (np : nat) : list aexp := map (fun i => AMul (AInt (-1)) (AVar i)) (seq 0 np).

Definition apply_entry (e : option (entry nat)) (arity : nat) (params : list aexp) : option (nat * list (bgate nat)) :=
  match e with
  | Some (_, _, f) => match f ((map GA params ++ map GQ (seq 0 arity))%list) with Some c => Some (arity, c) | None => None end
  | None => None
  end.

(* the circuit emitted for `inv @ name(params)`; None = the call is rejected *)
Definition inv_circuit (name : string) (np : nat) : option (nat * list (bgate nat)) :=
  match lookup_inv nat name with
  | InvFound e arity invrot => apply_entry e arity (if invrot then neg_vars np else vars np)
  | _ => None
  end.

Definition inv_accepted (name : string) : bool :=
  match lookup_inv nat name with InvFound _ _ _ => true | _ => false end.

Definition inverse_correct (name : string) : Prop :=
  exists np nq U c1 c2,
    assoc name gate_specs = Some (np, nq, U) /\
    lib_circuit name np = Some (nq, c1) /\
    inv_circuit name np = Some (nq, c2) /\
    implements nq ((c1 ++ c2)%list) (ident_mat nq).

Definition check_inverse (name : string) : bool :=
  match assoc name gate_specs with
  | Some (np, nq, U) =>
      match lib_circuit name np, inv_circuit name np with
      | Some (k1, c1), Some (k2, c2) => Nat.eqb k1 nq && Nat.eqb k2 nq && check_circuit nq ((c1 ++ c2)%list) (ident_mat nq)
      | _, _ => false
      end
  | None => false
  end.

Theorem check_inverse_sound name : check_inverse name = true -> inverse_correct name.
Proof.
  unfold check_inverse, inverse_correct.
  destruct (assoc name gate_specs) as [[[np nq] U]|] eqn:Hs; [|discriminate].
  destruct (lib_circuit name np) as [[k1 c1]|] eqn:H1; [|discriminate].
  destruct (inv_circuit name np) as [[k2 c2]|] eqn:H2; [|discriminate].
  intros H. apply andb_true_iff in H as [H Hc]. apply andb_true_iff in H as [Hk1 Hk2].
  apply Nat.eqb_eq in Hk1. apply Nat.eqb_eq in Hk2. subst k1 k2.
  exists np, nq, U, c1, c2. repeat split; auto. now apply check_circuit_sound.
Qed.

(* classification used to state which names may be passed through / inverted by negation *)
Definition self_inverse (name : string) : bool :=
  match assoc name gate_specs with
  | Some (np, nq, _) =>
      match lib_circuit name np with
      | Some (k, c) => Nat.eqb k nq && check_circuit nq ((c ++ c)%list) (ident_mat nq)
      | None => false
      end
  | None => false
  end.
Definition negation_inverse (name : string) : bool :=
  match assoc name gate_specs, lookup_op nat name with
  | Some (np, nq, _), Some (e, arity) =>
      match lib_circuit name np, apply_entry e arity (neg_vars np) with
      | Some (k, c1), Some (_, c2) => Nat.eqb k nq && check_circuit nq ((c1 ++ c2)%list) (ident_mat nq)
      | _, _ => false
      end
  | _, _ => false
  end.
