(* Applying a k-qubit gate matrix to an n-qubit state vector, generically over the scalars.
   Convention: qubit 0 is the most significant bit of a basis-state index; the first qubit in the
   operand list is the most significant bit of the gate-matrix index.
     (G psi)[x] = sum_y  G[x|qs , y] * psi[x with bits qs := y]                                   *)
From Coq Require Import List Arith Lia.
Import ListNotations.

Section Generic.
Variable T : Type.
Variable zero : T.
Variables add mul : T -> T -> T.

Definition qbit (n q x : nat) : nat := (x / 2 ^ (n - 1 - q)) mod 2.

Definition getbits (n : nat) (qs : list nat) (x : nat) : nat :=
  fold_left (fun acc q => 2 * acc + qbit n q x) qs 0.

Definition setbit (n q b x : nat) : nat :=
  x - qbit n q x * 2 ^ (n - 1 - q) + b * 2 ^ (n - 1 - q).

Fixpoint setbits (n : nat) (qs : list nat) (y x : nat) : nat :=
  match qs with
  | [] => x
  | q :: qs' => setbits n qs' y (setbit n q ((y / 2 ^ length qs') mod 2) x)
  end.

Definition mentry (M : list (list T)) (i j : nat) : T := nth j (nth i M []) zero.

Definition applyk (n : nat) (M : list (list T)) (qs : list nat) (v : list T) : list T :=
  map (fun x =>
         fold_left (fun acc y =>
                      add acc (mul (mentry M (getbits n qs x) y) (nth (setbits n qs y x) v zero)))
                   (seq 0 (2 ^ length qs)) zero)
      (seq 0 (2 ^ n)).

Definition vscale (c : T) (v : list T) : list T := map (mul c) v.

End Generic.

Arguments qbit n q x : simpl never.
Arguments applyk {T} zero add mul n M qs v.
Arguments mentry {T} zero M i j.
Arguments vscale {T} mul c v.

(* A map between scalar structures that preserves 0, + and * commutes with gate application. *)
Section Hom.
Variables (A B : Type) (zA : A) (zB : B).
Variables (addA mulA : A -> A -> A) (addB mulB : B -> B -> B).
Variable f : A -> B.
Hypothesis f_zero : f zA = zB.
Hypothesis f_add : forall x y, f (addA x y) = addB (f x) (f y).
Hypothesis f_mul : forall x y, f (mulA x y) = mulB (f x) (f y).

Lemma mentry_map M i j : mentry zB (map (map f) M) i j = f (mentry zA M i j).
Proof.
  unfold mentry. rewrite <- f_zero.
  change (@nil B) with (map f []). rewrite map_nth, map_nth. reflexivity.
Qed.

Lemma nth_map_f v i : nth i (map f v) zB = f (nth i v zA).
Proof. rewrite <- f_zero. apply map_nth. Qed.

Theorem applyk_hom n M qs v :
  map f (applyk zA addA mulA n M qs v) = applyk zB addB mulB n (map (map f) M) qs (map f v).
Proof.
  unfold applyk. rewrite map_map. apply map_ext. intros x.
  generalize (seq 0 (2 ^ length qs)) as ys.
  assert (H : forall ys a b, f a = b ->
     f (fold_left (fun acc y => addA acc (mulA (mentry zA M (getbits n qs x) y)
                                            (nth (setbits n qs y x) v zA))) ys a)
     = fold_left (fun acc y => addB acc (mulB (mentry zB (map (map f) M) (getbits n qs x) y)
                                            (nth (setbits n qs y x) (map f v) zB))) ys b).
  { induction ys as [|y ys IH]; intros a b Hab; simpl; [exact Hab|].
    apply IH. rewrite f_add, f_mul, mentry_map, nth_map_f, Hab. reflexivity. }
  intros ys. apply H. exact f_zero.
Qed.

Lemma vscale_hom c v : map f (vscale mulA c v) = vscale mulB (f c) (map f v).
Proof. unfold vscale. rewrite !map_map. apply map_ext. intros. apply f_mul. Qed.

End Hom.
