(* Operand-resolution lemmas about the model's own functions (C02, parts of C04/C08):
   Python range semantics, slices stay inside their register, broadcast chunking,
   duplicate operands are rejected. *)
From Coq Require Import ZArith List Bool String Lia Arith.
From Verif Require Import Aexp BGate PyVal Ast State GatesGen GateLib Unroll.
Import ListNotations.
Open Scope Z_scope.

(* ---------- monad inversion ---------- *)
Lemma bindM_ok {A B} (m : M A) (f : A -> M B) s r :
  bindM m f s = Ok r -> exists a s', m s = Ok (a, s') /\ f a s' = Ok r.
Proof.
  unfold bindM. destruct (m s) as [[a s']|e]; [|discriminate]. intros H. exists a, s'. auto.
Qed.

Lemma ret_ok {A} (a : A) s r : ret a s = Ok r -> r = (a, s).
Proof. unfold ret. congruence. Qed.

Lemma guard_ok b e s r : guard b e s = Ok r -> b = true /\ r = (tt, s).
Proof. unfold guard. destruct b; unfold ret, fail; [intros [= <-]; auto | discriminate]. Qed.

Lemma lift_ok {A} (x : res A) s r : lift x s = Ok r -> exists a, x = Ok a /\ r = (a, s).
Proof. unfold lift. destruct x; [intros [= <-]; eauto | discriminate]. Qed.

Lemma validate_index_ok i size s r :
  validate_index i size s = Ok r -> 0 <= i < size /\ r = (tt, s).
Proof.
  unfold validate_index. destruct ((0 <=? i) && (i <? size)) eqn:E; unfold ret, verr, fail; [|discriminate].
  intros [= <-]. apply andb_true_iff in E as [E1 E2]. split; [lia | reflexivity].
Qed.

Lemma validate_index_rejects i size s :
  (i < 0 \/ size <= i) -> validate_index i size s = Err EValidation.
Proof.
  unfold validate_index. intros H.
  destruct ((0 <=? i) && (i <? size)) eqn:E; [|reflexivity].
  apply andb_true_iff in E as [E1 E2]. lia.
Qed.

(* ---------- list(range(a, b, s)) ---------- *)
Definition range_len (a b s : Z) : Z :=
  Z.max 0 (if 0 <? s then (b - a + s - 1) / s else (a - b + (- s) - 1) / (- s)).

Lemma py_range_shape a b s l :
  py_range a b s = Ok l ->
  s <> 0 /\ l = map (fun k => a + Z.of_nat k * s) (seq 0 (Z.to_nat (range_len a b s))).
Proof.
  unfold py_range, range_len. destruct (Z.eqb_spec s 0) as [->|Hs]; [discriminate|].
  destruct (100000 <? _); [discriminate|]. intros [= <-]. split; [exact Hs | reflexivity].
Qed.

(* membership: exactly the arithmetic progression from a with step s that stays before b *)
Theorem py_range_In a b s l x :
  py_range a b s = Ok l ->
  (In x l <-> exists k, 0 <= k /\ x = a + k * s /\ (if 0 <? s then x < b else b < x)).
Proof.
  intros H. apply py_range_shape in H as [Hs ->]. unfold range_len.
  rewrite in_map_iff. split.
  - intros [k [<- Hk]]. apply in_seq in Hk. exists (Z.of_nat k). split; [lia|]. split; [reflexivity|].
    destruct (Z.ltb_spec 0 s) as [Hp|Hn].
    + assert (Hk' : Z.of_nat k < (b - a + s - 1) / s) by lia.
      assert (Z.of_nat k + 1 <= (b - a + s - 1) / s) by lia.
      assert (s * (Z.of_nat k + 1) <= b - a + s - 1).
      { etransitivity; [apply Z.mul_le_mono_nonneg_l; [lia | eassumption]|]. apply Z.mul_div_le. lia. }
      nia.
    + assert (Hs' : 0 < - s) by lia.
      assert (Hk' : Z.of_nat k < (a - b + - s - 1) / (- s)) by lia.
      assert (Z.of_nat k + 1 <= (a - b + - s - 1) / (- s)) by lia.
      assert ((- s) * (Z.of_nat k + 1) <= a - b + - s - 1).
      { etransitivity; [apply Z.mul_le_mono_nonneg_l; [lia | eassumption]|]. apply Z.mul_div_le. lia. }
      nia.
  - intros [k [Hk [-> Hb]]]. exists (Z.to_nat k). split; [rewrite Z2Nat.id; lia|].
    apply in_seq. split; [lia|]. simpl.
    destruct (Z.ltb_spec 0 s) as [Hp|Hn].
    + assert (k < (b - a + s - 1) / s).
      { apply Z.div_lt_upper_bound in Hb || idtac.
        assert (k * s + s <= b - a + s - 1) by lia.
        assert (k + 1 <= (b - a + s - 1) / s).
        { apply Z.div_le_lower_bound; [lia | nia]. }
        lia. }
      lia.
    + assert (Hs' : 0 < - s) by lia.
      assert (k < (a - b + - s - 1) / (- s)).
      { assert (k + 1 <= (a - b + - s - 1) / (- s)).
        { apply Z.div_le_lower_bound; [lia | nia]. }
        lia. }
      lia.
Qed.

(* order: the i-th element is a + i*s *)
Lemma py_range_nth a b s l i :
  py_range a b s = Ok l -> (i < List.length l)%nat -> nth i l 0 = a + Z.of_nat i * s.
Proof.
  intros H Hi. apply py_range_shape in H as [_ ->].
  rewrite map_length, seq_length in Hi.
  rewrite (nth_indep _ 0 (a + Z.of_nat 0 * s)) by (rewrite map_length, seq_length; exact Hi).
  rewrite (map_nth (fun k => a + Z.of_nat k * s)), seq_nth by exact Hi. reflexivity.
Qed.

(* elements of a slice whose first and last position are valid indices stay in the register *)
Lemma py_range_in_register a b s size l :
  py_range a b s = Ok l -> 0 <= a < size -> 0 <= b - 1 < size ->
  Forall (fun x => 0 <= x < size) l.
Proof.
  intros H Ha Hb. apply Forall_forall. intros x Hx.
  apply (py_range_In a b s l x H) in Hx as [k [Hk [-> Hlt]]].
  destruct (Z.ltb_spec 0 s); nia.
Qed.

(* whole register: 0 .. size-1 *)
Lemma py_range_whole size l :
  py_range 0 size 1 = Ok l -> l = map Z.of_nat (seq 0 (Z.to_nat (Z.max 0 size))).
Proof.
  intros H. apply py_range_shape in H as [_ ->]. unfold range_len. simpl.
  replace ((size - 0 + 1 - 1) / 1) with size by (rewrite Z.div_1_r; lia).
  apply map_ext. intros k. lia.
Qed.

(* ---------- broadcast chunking ---------- *)
Lemma chunks_concat {A} (k : nat) : forall fuel (l : list A),
  (0 < k)%nat -> (List.length l <= fuel)%nat -> List.concat (chunks fuel k l) = l.
Proof.
  induction fuel as [|f IH]; intros l Hk Hl.
  - destruct l; [reflexivity | simpl in Hl; lia].
  - destruct l as [|x l]; [reflexivity|].
    cbn [chunks List.concat]. rewrite IH; [apply firstn_skipn | exact Hk |].
    rewrite skipn_length. cbn [List.length] in *. lia.
Qed.

Lemma chunks_lengths {A} (k : nat) : forall fuel (l : list A),
  (0 < k)%nat -> (List.length l <= fuel)%nat -> Nat.modulo (List.length l) k = 0%nat ->
  Forall (fun c => List.length c = k) (chunks fuel k l).
Proof.
  induction fuel as [|f IH]; intros l Hk Hl Hm.
  - destruct l; constructor.
  - destruct l as [|x l]; [constructor|].
    cbn [chunks].
    assert (Hge : (k <= List.length (x :: l))%nat).
    { apply Nat.mod_divides in Hm; [|lia]. destruct Hm as [c Hc]. rewrite Hc.
      destruct c; [simpl in Hc; rewrite Nat.mul_0_r in Hc; discriminate | nia]. }
    constructor.
    + rewrite firstn_length. lia.
    + apply IH; [exact Hk | rewrite skipn_length; cbn [List.length] in *; lia |].
      rewrite skipn_length.
      apply Nat.mod_divides in Hm; [|lia]. destruct Hm as [c Hc].
      apply Nat.mod_divides; [lia|]. exists (c - 1)%nat. rewrite Hc. nia.
Qed.

(* ---------- duplicate operands ---------- *)
Lemma existsb_bitref b l : existsb (bitref_eqb b) l = true <-> In b l.
Proof.
  rewrite existsb_exists. split.
  - intros [x [Hx He]]. unfold bitref_eqb in He. apply andb_true_iff in He as [H1 H2].
    apply String.eqb_eq in H1. apply Z.eqb_eq in H2. destruct b, x; simpl in *; subst; auto.
  - intros H. exists b. split; [exact H|]. unfold bitref_eqb.
    rewrite String.eqb_refl, Z.eqb_refl. reflexivity.
Qed.

Lemma dedup_check_spec : forall l seen,
  dedup_check seen l = true -> NoDup l /\ (forall b, In b l -> ~ In b seen).
Proof.
  induction l as [|x l IH]; intros seen H; simpl in *.
  - split; [constructor | intros b []].
  - destruct (existsb (bitref_eqb x) seen) eqn:E; [discriminate|].
    apply IH in H as [Hnd Hdisj]. split.
    + constructor; [|exact Hnd]. intro Hin. apply (Hdisj x Hin). left; reflexivity.
    + intros b [<-|Hb].
      * intro Hs. apply existsb_bitref in Hs. congruence.
      * intro Hs. apply (Hdisj b Hb). right; exact Hs.
Qed.

Lemma dedup_check_rejects : forall l seen b,
  In b l -> In b seen -> dedup_check seen l = false.
Proof.
  induction l as [|x l IH]; intros seen b Hl Hs; [destruct Hl|].
  simpl. destruct (existsb (bitref_eqb x) seen) eqn:E; [reflexivity|].
  destruct Hl as [->|Hl].
  - apply existsb_bitref in Hs. congruence.
  - apply (IH (x :: seen) b Hl). right; exact Hs.
Qed.

Lemma nodup_app {A} (a b : list A) :
  NoDup a -> NoDup b -> (forall x, In x b -> ~ In x a) -> NoDup (a ++ b).
Proof.
  induction a as [|x a IH]; intros Ha Hb Hd; simpl; [exact Hb|].
  inversion Ha as [|? ? Hx Ha']; subst. constructor.
  - rewrite in_app_iff. intros [H|H]; [contradiction|]. apply (Hd x H). left; reflexivity.
  - apply IH; [exact Ha' | exact Hb |]. intros y Hy Hin. apply (Hd y Hy). right; exact Hin.
Qed.

Definition get_op_bits_go (cr : string -> list expr -> M (pyval * list stmt)) (size_map : list (string * Z)) (is_q : bool) :=
  fix go (bits : list qarg) (acc : list bitref) : M (list bitref) :=
    match bits with
    | [] => ret acc
    | q :: bits' =>
        bindM (resolve_one cr q size_map is_q) (fun new =>
        bindM (guard (dedup_check acc new) EValidation) (fun _ => go bits' (acc ++ new)))
    end.

Lemma get_op_bits_go_nodup cr size_map is_q : forall bits acc s out s',
  NoDup acc -> get_op_bits_go cr size_map is_q bits acc s = Ok (out, s') -> NoDup out.
Proof.
  induction bits as [|q bits IH]; intros acc s out s' Hacc Hgo; cbn [get_op_bits_go] in Hgo.
  - apply ret_ok in Hgo. congruence.
  - apply bindM_ok in Hgo as [new [s1 [_ Hgo]]].
    apply bindM_ok in Hgo as [u [s2 [Hg Hgo]]].
    apply guard_ok in Hg as [Hd _].
    apply dedup_check_spec in Hd as [Hnd Hdisj].
    apply (IH _ _ _ _ (nodup_app _ _ Hacc Hnd Hdisj) Hgo).
Qed.

(* every successful operand resolution yields pairwise distinct bits: a duplicated qubit or
   classical bit within one operation is never accepted *)
Theorem get_op_bits_nodup cr bits size_map is_q s out s' :
  get_op_bits cr bits size_map is_q s = Ok (out, s') -> NoDup out.
Proof.
  intros H. apply (get_op_bits_go_nodup cr size_map is_q bits [] s out s'); [constructor | exact H].
Qed.

(* ---------- resolved operands lie inside their register ---------- *)
Definition inside (x : string) (n : Z) (b : bitref) : Prop := fst b = x /\ 0 <= snd b < n.

Lemma iter_validate_ok size : forall ids s r, iterM (fun i => validate_index i size) ids s = Ok r ->
  Forall (fun i => 0 <= i < size) ids.
Proof.
  induction ids as [|i ids IH]; intros s r H; [constructor|]. cbn [iterM] in H.
  apply bindM_ok in H as [u [s1 [Hv H]]]. apply validate_index_ok in Hv as [Hi _]. constructor; [exact Hi|eapply IH; eauto].
Qed.

(* an operand that names a register of the size map directly (not through an alias) resolves to bits of that register,
   every one inside it: whole register, single index, index set, slice with any step *)
Theorem resolve_one_inside cr q size_map is_q s bits s' n :
  sget (qarg_name q) size_map = Some n ->
  resolve_one cr q size_map is_q s = Ok (bits, s') ->
  Forall (inside (qarg_name q) n) bits.
Proof.
  intros Hn H. unfold resolve_one in H.
  apply bindM_ok in H as [s0 [s1 [_ H]]]. rewrite Hn in H.
  apply bindM_ok in H as [[al sm] [s2 [E H]]]. apply ret_ok in E. inversion E; subst al sm s2; clear E.
  apply bindM_ok in H as [u [s3 [_ H]]]. rewrite Hn in H.
  apply bindM_ok in H as [ids [s4 [Hids H]]]. apply ret_ok in H. inversion H; subst bits s'; clear H.
  assert (Hr : Forall (fun i => 0 <= i < n) ids).
  { destruct q as [x|x idx]; cbn [qarg_name] in *.
    - apply lift_ok in Hids as [l [Hl E]]. inversion E; subst. apply py_range_whole in Hl. subst l.
      apply Forall_forall. intros i Hi. apply in_map_iff in Hi as (k & <- & Hk). apply in_seq in Hk. lia.
    - destruct idx as [|[vals|items] rest]; [discriminate| |].
      + apply bindM_ok in Hids as [ids' [s5 [_ Hids]]]. apply bindM_ok in Hids as [u' [s6 [Hv Hids]]].
        apply ret_ok in Hids. inversion Hids; subst. eapply iter_validate_ok; eauto.
      + destruct items as [|[e|a b c] items']; [discriminate| |].
        * apply bindM_ok in Hids as [v [s5 [_ Hids]]]. apply bindM_ok in Hids as [i [s6 [_ Hids]]].
          apply bindM_ok in Hids as [u' [s7 [Hv Hids]]]. apply validate_index_ok in Hv as [Hi _].
          apply ret_ok in Hids. inversion Hids; subst. constructor; [exact Hi|constructor].
        * unfold range_ids in Hids.
          apply bindM_ok in Hids as [a0 [s5 [_ Hids]]]. apply bindM_ok in Hids as [b0 [s6 [_ Hids]]].
          apply bindM_ok in Hids as [st [s7 [_ Hids]]]. apply bindM_ok in Hids as [u1 [s8 [Hva Hids]]].
          apply bindM_ok in Hids as [u2 [s9 [Hvb Hids]]]. apply validate_index_ok in Hva as [Ha _]. apply validate_index_ok in Hvb as [Hb _].
          apply lift_ok in Hids as [l [Hl E]]. inversion E; subst. eapply py_range_in_register; eauto. }
  apply Forall_forall. intros b Hb. apply in_map_iff in Hb as (i & <- & Hi). split; [reflexivity|].
  eapply Forall_forall in Hr; eauto.
Qed.

Lemma get_op_bits_go_inside cr size_map is_q (P : bitref -> Prop) : forall bits acc s out s',
  (forall q, In q bits -> exists n, sget (qarg_name q) size_map = Some n /\ forall b, inside (qarg_name q) n b -> P b) ->
  Forall P acc -> get_op_bits_go cr size_map is_q bits acc s = Ok (out, s') -> Forall P out.
Proof.
  induction bits as [|q bits IH]; intros acc s out s' Hq Hacc Hgo; cbn [get_op_bits_go] in Hgo.
  - apply ret_ok in Hgo. congruence.
  - apply bindM_ok in Hgo as [new [s1 [Hr Hgo]]]. apply bindM_ok in Hgo as [u [s2 [_ Hgo]]].
    destruct (Hq q (or_introl eq_refl)) as (n & Hn & HP).
    pose proof (resolve_one_inside cr q size_map is_q s new s1 n Hn Hr) as Hin.
    apply (IH (acc ++ new) s2 out s'); [intros q' Hq'; apply Hq; now right| |exact Hgo].
    apply Forall_app. split; [exact Hacc|]. eapply Forall_impl; [|exact Hin]. exact HP.
Qed.

(* every bit an operation resolves to lies inside the register its operand names (operands naming registers directly) *)
Theorem get_op_bits_inside cr bits size_map is_q s out s' :
  (forall q, In q bits -> sget (qarg_name q) size_map <> None) ->
  get_op_bits cr bits size_map is_q s = Ok (out, s') ->
  Forall (fun b => exists n, sget (fst b) size_map = Some n /\ 0 <= snd b < n) out.
Proof.
  intros Hq H. apply (get_op_bits_go_inside cr size_map is_q _ bits [] s out s'); [|constructor|exact H].
  intros q Hin. destruct (sget (qarg_name q) size_map) as [n|] eqn:E; [|now apply Hq in Hin].
  exists n. split; [reflexivity|]. intros b [Hf Hr]. exists n. rewrite Hf. split; [exact E|exact Hr].
Qed.
