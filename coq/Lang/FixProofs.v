(* C03 (re-load and fixpoint clauses on the visitor model): a flat program that is well formed --
   registers declared once with literal sizes before they are used, operands inside their registers and
   pairwise distinct, gates of the names the operation tables lower to themselves, literal numeric
   parameters, conditions on declared classical bits -- is ACCEPTED by validate() and unroll(), and
   unroll() emits it unchanged.  For every such program, of any length and nesting depth.
   (The well-formedness predicate is decidable and is evaluated by ./check C03 on every real output.) *)
From Coq Require Import ZArith List Bool String Lia.
From Verif Require Import Aexp BGate PyVal CastPrim Ast State Arr GatesGen GateLib Unroll Depth DepthModel.
Import ListNotations.
Open Scope string_scope.
Open Scope list_scope.
Open Scope Z_scope.

Lemma bind_eq {A B} (m : M A) (f : A -> M B) s a s1 : m s = Ok (a, s1) -> bindM m f s = f a s1.
Proof. unfold bindM. intros ->. reflexivity. Qed.

(* ---------- states that differ in the depth bookkeeping only ---------- *)
Definition nodepth (s : st) : st := with_cdepth (with_qdepth s []) [].
Definition HasQ (s : st) (b : bitref) : Prop := bget b (qdepth s) <> None.
Definition HasC (s : st) (b : bitref) : Prop := bget b (cdepth s) <> None.

Record DE (s s' : st) : Prop := {
  de_core : nodepth s' = nodepth s;
  de_q : forall b, HasQ s b -> HasQ s' b;
  de_c : forall b, HasC s b -> HasC s' b;
  de_q' : forall b, HasQ s' b -> HasQ s b;      (* no node is created either *)
  de_c' : forall b, HasC s' b -> HasC s b
}.

Lemma DE_refl s : DE s s.
Proof. split; auto. Qed.
Lemma DE_trans a b c : DE a b -> DE b c -> DE a c.
Proof. intros [e1 q1 c1 q1' c1'] [e2 q2 c2 q2' c2']. split; [congruence|auto|auto|auto|auto]. Qed.

Lemma nodepth_fields s :
  qreg_sizes (nodepth s) = qreg_sizes s /\ creg_sizes (nodepth s) = creg_sizes s /\
  gates (nodepth s) = gates s /\ fn_sizes (nodepth s) = fn_sizes s /\
  label_levels (nodepth s) = label_levels s /\ scopes (nodepth s) = scopes s /\ ctxs (nodepth s) = ctxs s /\
  included (nodepth s) = included s /\ nqlabels (nodepth s) = nqlabels s /\ alias_sizes (nodepth s) = alias_sizes s /\
  subs (nodepth s) = subs s /\ num_qubits (nodepth s) = num_qubits s /\ num_clbits (nodepth s) = num_clbits s.
Proof. destruct s; cbn. repeat split. Qed.

Ltac core_eq H s s' :=
  let F := fresh "F" in let G := fresh "G" in
  pose proof (nodepth_fields s) as F; pose proof (nodepth_fields s') as G; rewrite H in G;
  destruct F as (F1 & F2 & F3 & F4 & F5 & F6 & F7 & F8 & F9 & F10 & F11 & F12 & F13);
  destruct G as (G1 & G2 & G3 & G4 & G5 & G6 & G7 & G8 & G9 & G10 & G11 & G12 & G13).

Lemma bget_bset_kept {V} b b' (v : V) l : bget b' l <> None -> bget b' (bset b v l) <> None.
Proof.
  unfold bget, bset. induction l as [|[k w] l IH]; cbn; [congruence|].
  destruct (bitref_eqb b k) eqn:E; cbn.
  - destruct (bitref_eqb b' k) eqn:E'.
    + assert (bitref_eqb b' b = true) as ->; [|congruence].
      unfold bitref_eqb in *. apply andb_true_iff in E as [E1 E2]. apply andb_true_iff in E' as [E3 E4].
      apply String.eqb_eq in E1, E3. apply Z.eqb_eq in E2, E4. rewrite E1, E2, <- E3, <- E4.
      now rewrite String.eqb_refl, Z.eqb_refl.
    + destruct (bitref_eqb b' b); [congruence|auto].
  - destruct (bitref_eqb b' k); [congruence|auto].
Qed.

Lemma bget_bset_inv {V} b b' (v : V) l : bget b' (bset b v l) <> None -> b' = b \/ bget b' l <> None.
Proof.
  destruct (bitref_eqb_spec b' b) as [->|N]; [now left|]. right. now rewrite bget_bset_other in H.
Qed.

Lemma set_qnode_DE b n s : HasQ s b -> DE s (with_qdepth s (bset b n (qdepth s))).
Proof.
  intros Hb. split; [destruct s; reflexivity| |intros b' H; destruct s; exact H| |intros b' H; destruct s; exact H].
  - intros b' H. unfold HasQ in *. destruct s; cbn in *. now apply bget_bset_kept.
  - intros b' H. unfold HasQ in *. destruct s; cbn in *. apply bget_bset_inv in H as [->|H]; assumption.
Qed.
Lemma set_cnode_DE b n s : HasC s b -> DE s (with_cdepth s (bset b n (cdepth s))).
Proof.
  intros Hb. split; [destruct s; reflexivity|intros b' H; destruct s; exact H| |intros b' H; destruct s; exact H|].
  - intros b' H. unfold HasC in *. destruct s; cbn in *. now apply bget_bset_kept.
  - intros b' H. unfold HasC in *. destruct s; cbn in *. apply bget_bset_inv in H as [->|H]; assumption.
Qed.

(* ---------- computations that succeed and touch the depth bookkeeping only ---------- *)
Definition OKDE {A} (m : M A) (s : st) : Prop := exists a s', m s = Ok (a, s') /\ DE s s'.

Lemma OKDE_bind {A B} (m : M A) (f : A -> M B) s :
  OKDE m s -> (forall a s', m s = Ok (a, s') -> DE s s' -> OKDE (f a) s') -> OKDE (bindM m f) s.
Proof.
  intros (a & s1 & E & D) H. destruct (H a s1 E D) as (b & s2 & E2 & D2).
  exists b, s2. split; [rewrite (bind_eq _ _ _ _ _ E); exact E2|eapply DE_trans; eauto].
Qed.
Lemma OKDE_ret {A} (a : A) s : OKDE (ret a) s.
Proof. exists a, s. split; [reflexivity|apply DE_refl]. Qed.

Lemma get_qnode_ok b s : HasQ s b -> exists n, get_qnode b s = Ok (n, s).
Proof.
  unfold HasQ, get_qnode, bindM, getst. intros H. destruct (bget b (qdepth s)) as [n|]; [|congruence].
  exists n. reflexivity.
Qed.
Lemma get_cnode_ok b s : HasC s b -> exists n, get_cnode b s = Ok (n, s).
Proof.
  unfold HasC, get_cnode, bindM, getst. intros H. destruct (bget b (cdepth s)) as [n|]; [|congruence].
  exists n. reflexivity.
Qed.

Lemma depth_pass1_ok upd l : forall mx s, (forall b, In b l -> HasQ s b) -> OKDE (depth_pass1 upd l mx) s.
Proof.
  induction l as [|b l IH]; intros mx s H; cbn [depth_pass1]; [apply OKDE_ret|].
  destruct (get_qnode_ok b s (H b (or_introl eq_refl))) as (n & En).
  apply OKDE_bind; [exists n, s; split; [exact En|apply DE_refl]|].
  intros a s1 E _. rewrite En in E. inversion E; subst a s1; clear E.
  apply OKDE_bind; [eexists tt, _; split; [reflexivity|apply set_qnode_DE; apply H; now left]|].
  intros [] s2 E D. apply IH. intros b' Hb'. apply (de_q _ _ D). apply H. now right.
Qed.

Lemma iter_nodes_ok (f : qnode -> qnode) l : forall s, (forall b, In b l -> HasQ s b) ->
  OKDE (iterM (fun b => qn <- get_qnode b;; set_qnode b (f qn)) l) s.
Proof.
  induction l as [|b l IH]; intros s H; cbn [iterM]; [apply OKDE_ret|].
  destruct (get_qnode_ok b s (H b (or_introl eq_refl))) as (n & En).
  apply OKDE_bind.
  - apply OKDE_bind; [exists n, s; split; [exact En|apply DE_refl]|].
    intros a s1 E _. rewrite En in E. inversion E; subst a s1.
    eexists tt, _; split; [reflexivity|apply set_qnode_DE; apply H; now left].
  - intros [] s2 E D. apply IH. intros b' Hb'. apply (de_q _ _ D). apply H. now right.
Qed.

Lemma depth_two_pass_ok upd l s : (forall b, In b l -> HasQ s b) ->
  OKDE (mx <- depth_pass1 upd l 0;; depth_pass2 mx l) s.
Proof.
  intros H. apply OKDE_bind; [now apply depth_pass1_ok|].
  intros mx s1 _ D. unfold depth_pass2. apply iter_nodes_ok. intros b Hb. apply (de_q _ _ D). auto.
Qed.

Lemma depth_measure_pair_ok q c s : HasQ s q -> HasC s c -> OKDE (depth_measure_pair (q, c)) s.
Proof.
  intros Hq Hc. unfold depth_measure_pair. cbn [fst snd].
  destruct (get_qnode_ok q s Hq) as (n & En). destruct (get_cnode_ok c s Hc) as (m & Em).
  apply OKDE_bind; [exists n, s; split; [exact En|apply DE_refl]|].
  intros a s1 E _. rewrite En in E. inversion E; subst a s1; clear E.
  apply OKDE_bind; [exists m, s; split; [exact Em|apply DE_refl]|].
  intros a s1 E _. rewrite Em in E. inversion E; subst a s1; clear E.
  apply OKDE_bind; [eexists tt, _; split; [reflexivity|apply set_qnode_DE; exact Hq]|].
  intros [] s2 _ D. eexists tt, _; split; [reflexivity|apply set_cnode_DE; apply (de_c _ _ D); exact Hc].
Qed.

(* ---------- the registers a flat program has declared so far ---------- *)
Record renv := mkEnv { e_q : list (string * Z); e_c : list (string * Z); e_inc : list string }.

(* the gate names the operation tables lower to themselves: (number of parameters, number of qubits) *)
Definition self_basis : list (string * (nat * nat)) :=
  [("id", (0, 1)); ("h", (0, 1)); ("x", (0, 1)); ("y", (0, 1)); ("z", (0, 1)); ("s", (0, 1)); ("t", (0, 1));
   ("sdg", (0, 1)); ("tdg", (0, 1)); ("sx", (0, 1)); ("rx", (1, 1)); ("ry", (1, 1)); ("rz", (1, 1));
   ("cx", (0, 2)); ("cz", (0, 2)); ("swap", (0, 2)); ("ccx", (0, 3)); ("c4x", (0, 5))]%nat.

Record Regs (env : renv) (s : st) : Prop := {
  R_q : qreg_sizes s = e_q env;
  R_c : creg_sizes s = e_c env;
  R_gates : forall name np k, assoc name self_basis = Some (np, k) -> smemk name (gates s) = false;   (* no definition shadows a basis gate *)
  R_fn : fn_sizes s = [];
  R_lvq : forall r n, sget r (e_q env) = Some n -> name_in_levels s r = true;
  R_lvc : forall r n, sget r (e_c env) = Some n -> name_in_levels s r = true;
  R_hq : forall r n i, sget r (e_q env) = Some n -> 0 <= i < n -> HasQ s (r, i);
  R_hc : forall r n i, sget r (e_c env) = Some n -> 0 <= i < n -> HasC s (r, i)
}.

Lemma Regs_DE env s s' : Regs env s -> DE s s' -> Regs env s'.
Proof.
  intros [Rq Rc Rg Rf Lq Lc Hq Hc] [E Dq Dc]. core_eq E s s'.
  split; try congruence.
  - intros name np k H. rewrite <- G3, F3. eauto.
  - intros r n H. specialize (Lq r n H). unfold name_in_levels in *. congruence.
  - intros r n H. specialize (Lc r n H). unfold name_in_levels in *. congruence.
  - intros r n i H Hi. apply Dq. eauto.
  - intros r n i H Hi. apply Dc. eauto.
Qed.

Lemma DE_counts s s' : DE s s' -> num_qubits s' = num_qubits s /\ num_clbits s' = num_clbits s.
Proof. intros [E _ _]. core_eq E s s'. split; congruence. Qed.

(* ---------- literal operands ---------- *)
Definition lit_bit (q : qarg) : option bitref :=
  match q with QIdx r [IdxList [IExpr (ELit (VInt i))]] => Some (r, i) | _ => None end.
Definition in_reg (m : list (string * Z)) (b : bitref) : bool :=
  match sget (fst b) m with Some n => (0 <=? snd b) && (snd b <? n) | None => false end.

Lemma lit_bit_qarg_of q b : lit_bit q = Some b -> q = qarg_of b.
Proof.
  unfold lit_bit. intros H.
  repeat match type of H with
         | match ?x with _ => _ end = Some _ => destruct x; try discriminate H
         end.
  inversion H; reflexivity.
Qed.

(* operands: literal, inside their registers, pairwise distinct *)
Fixpoint distinctb (acc l : list bitref) : bool :=
  match l with
  | [] => true
  | b :: l' => negb (existsb (bitref_eqb b) acc) && distinctb (acc ++ [b]) l'
  end.

(* ---------- the events of a flat program, and the depth bookkeeping as the recurrence over them ---------- *)
Lemma lit_bit_of b : lit_bit (qarg_of b) = Some b.
Proof. destruct b; reflexivity. Qed.
Lemma mapM_lit_bit_of bs : mapM lit_bit (map qarg_of bs) = Some bs.
Proof. induction bs as [|b bs IH]; [reflexivity|]. cbn [map mapM]. now rewrite lit_bit_of, IH. Qed.

Fixpoint ev_of (stm : stmt) : list (list rsrc) :=
  let fl := fix go (l : list stmt) : list (list rsrc) := match l with [] => [] | x :: l' => ev_of x ++ go l' end in
  match stm with
  | SGate _ _ _ qs => match mapM lit_bit qs with Some bs => [map Qr bs] | None => [] end
  | SMeasure q (Some t) => match lit_bit q, lit_bit t with Some a, Some b => [[Qr a; Br b]] | _, _ => [] end
  | SReset q => match lit_bit q with Some a => [[Qr a]] | None => [] end
  | SBarrier [q] => match lit_bit q with Some a => [[Qr a]] | None => [] end
  | SIf _ t e => fl t ++ fl e
  | _ => []
  end.
Definition evs_of (l : list stmt) : list (list rsrc) := flat_map ev_of l.
Lemma ev_of_block (l : list stmt) :
  (fix go (l : list stmt) : list (list rsrc) := match l with [] => [] | x :: l' => ev_of x ++ go l' end) l = evs_of l.
Proof. induction l as [|x l IH]; [reflexivity|]. unfold evs_of in *. cbn [flat_map]. now rewrite IH. Qed.

Definition run_evs (d : dmap (R := rsrc)) (evs : list (list rsrc)) : dmap (R := rsrc) := fold_left (dstep rsrc_eqb) evs d.

Lemma dstep_ext (d d' : dmap (R := rsrc)) ev : (forall r, d r = d' r) -> forall r, dstep rsrc_eqb d ev r = dstep rsrc_eqb d' ev r.
Proof. intros H r. unfold dstep. rewrite (map_ext _ _ H), (H r). reflexivity. Qed.
Lemma run_evs_ext evs : forall d d', (forall r, d r = d' r) -> forall r, run_evs d evs r = run_evs d' evs r.
Proof. unfold run_evs. induction evs as [|ev evs IH]; intros d d' H r; cbn [fold_left]; [apply H|]. apply IH. now apply dstep_ext. Qed.
Lemma run_evs_app d a b : run_evs d (a ++ b) = run_evs (run_evs d a) b.
Proof. unfold run_evs. apply fold_left_app. Qed.
Lemma run_evs_nonneg evs : forall d, (forall r, 0 <= d r) -> forall r, 0 <= run_evs d evs r.
Proof. unfold run_evs. induction evs as [|ev evs IH]; intros d H r; cbn [fold_left]; [apply H|]. apply IH. now apply dstep_nonneg. Qed.

(* the depth counters after the computation are those before it advanced by the events *)
Definition Dstep (s s' : st) (evs : list (list rsrc)) : Prop :=
  nonneg s -> forall r, dof s' r = run_evs (dof s) evs r.

Lemma Dstep_nonneg s s' evs : Dstep s s' evs -> nonneg s -> nonneg s'.
Proof. intros H N r. rewrite (H N r). now apply run_evs_nonneg. Qed.
Lemma Dstep_same s s' : (forall r, dof s' r = dof s r) -> Dstep s s' [].
Proof. intros H _ r. apply H. Qed.
Lemma Dstep_trans a b c e1 e2 : Dstep a b e1 -> Dstep b c e2 -> Dstep a c (e1 ++ e2).
Proof.
  intros H1 H2 N r. rewrite run_evs_app. rewrite (H2 (Dstep_nonneg _ _ _ H1 N) r). apply run_evs_ext. intros r'. now apply H1.
Qed.
Lemma Dstep_one s s' ev : (nonneg s -> forall r, dof s' r = dstep rsrc_eqb (dof s) ev r) -> Dstep s s' [ev].
Proof. intros H N r. exact (H N r). Qed.

Lemma distinctb_NoDup l : forall acc, distinctb acc l = true -> NoDup l /\ forall x, In x l -> ~ In x acc.
Proof.
  induction l as [|b l IH]; intros acc H; [split; [constructor|intros x []]|].
  cbn [distinctb] in H. apply andb_true_iff in H as [Hn H]. apply negb_true_iff in Hn.
  destruct (IH _ H) as [Nd Hd]. split.
  - constructor; [|exact Nd]. intros Hin. apply (Hd b Hin). apply in_or_app. right. now left.
  - intros x [<-|Hx] Hacc.
    + assert (existsb (bitref_eqb b) acc = true); [|congruence]. apply existsb_exists. exists b. split; [exact Hacc|].
      destruct (bitref_eqb_spec b b); congruence.
    + apply (Hd x Hx). apply in_or_app. now left.
Qed.

(* ---------- the gates the operation tables lower to themselves ---------- *)
Ltac len_destruct :=
  repeat match goal with
         | H : List.length ?l = S _ |- _ => destruct l; [discriminate H|cbn [List.length] in H; apply eq_add_S in H]
         | H : List.length ?l = O |- _ => destruct l; [clear H|discriminate H]
         end.

Lemma self_basis_lowering name np k : assoc name self_basis = Some (np, k) ->
  exists d np' f, lookup_op bitref name = Some (Some (d, np', f), k) /\ (0 < k)%nat /\
    forall (vs : list pyval) (bs : list bitref), List.length vs = np -> List.length bs = k ->
      f (map GA (map AVar (seq 0 (List.length vs))) ++ map GQ bs) = Some [BG name (map AVar (seq 0 (List.length vs))) bs].
Proof.
  unfold self_basis. cbn [assoc]. intros H.
  repeat match type of H with
         | (if String.eqb ?n ?c then _ else _) = Some _ =>
             destruct (String.eqb_spec n c) as [->|_];
             [ inversion H; subst; clear H;
               do 3 eexists; split; [vm_compute; reflexivity|split; [lia|]];
               intros vs bs Hv Hb; len_destruct; reflexivity
             | ]
         end.
  discriminate H.
Qed.

Definition num_val (v : pyval) : bool := match v with VInt _ | VFloat _ => true | _ => false end.

Lemma interp_vars pre : forall vs,
  mapR (interp_py (pre ++ vs)) (map AVar (seq (List.length pre) (List.length vs))) = Ok vs.
Proof.
  intros vs. revert pre. induction vs as [|v vs IH]; intros pre; [reflexivity|].
  cbn [List.length seq map mapR interp_py].
  assert (nth_error (pre ++ v :: vs) (List.length pre) = Some v) as ->.
  { rewrite nth_error_app2 by lia. now rewrite Nat.sub_diag. }
  cbn [bind]. replace (pre ++ v :: vs) with ((pre ++ [v]) ++ vs) by (now rewrite <- app_assoc).
  replace (S (List.length pre)) with (List.length (pre ++ [v])) by (rewrite app_length; cbn; lia).
  rewrite IH. reflexivity.
Qed.

Lemma chunks_single {A} (k : nat) (l : list A) : List.length l = k -> (0 < k)%nat -> chunks k k l = [l].
Proof.
  intros H Hk. destruct k as [|k]; [lia|]. destruct l as [|a l]; [discriminate|].
  cbn [chunks]. rewrite <- H at 1 3. rewrite firstn_all, skipn_all. destruct k; reflexivity.
Qed.

Section Ops.
Variable check_only : bool.
Variable visit_rec : stmt -> M (list stmt).
Variable call_rec : string -> list expr -> M (pyval * list stmt).

Lemma resolve_literal env s (is_q : bool) r i n :
  Regs env s -> sget r (if is_q then e_q env else e_c env) = Some n -> 0 <= i < n ->
  resolve_one call_rec (qarg_of (r, i)) (if is_q then qreg_sizes s else creg_sizes s) is_q s = Ok ([(r, i)], s).
Proof.
  intros R Hs Hi. unfold resolve_one, qarg_of, qarg_name. cbn [fst snd].
  rewrite (bind_eq _ _ s s s eq_refl).
  assert (Hm : sget r (if is_q then qreg_sizes s else creg_sizes s) = Some n).
  { destruct is_q; [rewrite (R_q _ _ R)|rewrite (R_c _ _ R)]; exact Hs. }
  rewrite Hm. rewrite (bind_eq _ _ s (false, if is_q then qreg_sizes s else creg_sizes s) s eq_refl).
  assert (Hl : name_in_levels s r = true).
  { destruct is_q; [eapply R_lvq|eapply R_lvc]; eauto. }
  rewrite Hl. cbn [guard]. rewrite (bind_eq _ _ s tt s eq_refl). rewrite Hm.
  unfold eval0. cbn [eval]. unfold ret at 1.
  rewrite (bind_eq _ _ s [i] s); [reflexivity|].
  assert (Hb : (0 <=? i) && (i <? n) = true) by (apply andb_true_iff; split; [apply Z.leb_le|apply Z.ltb_lt]; lia).
  cbv [bindM ret num_of_bool as_index validate_index verr fail]. rewrite Hb. reflexivity.
Qed.



Section Gob.
Variables (size_map : list (string * Z)) (is_q : bool).
Fixpoint gob (bits : list qarg) (acc : list bitref) : M (list bitref) :=
  match bits with
  | [] => ret acc
  | q :: bits' =>
      new <- resolve_one call_rec q size_map is_q;;
      guard (dedup_check acc new) EValidation;;;
      gob bits' (acc ++ new)
  end.
Lemma get_op_bits_gob bits : get_op_bits call_rec bits size_map is_q = gob bits [].
Proof. reflexivity. Qed.
End Gob.

Lemma literal_operands env s (is_q : bool) l : forall acc,
  Regs env s ->
  forallb (in_reg (if is_q then e_q env else e_c env)) l = true -> distinctb acc l = true ->
  gob (if is_q then qreg_sizes s else creg_sizes s) is_q (map qarg_of l) acc s = Ok (acc ++ l, s).
Proof.
  induction l as [|[r i] l IH]; intros acc R Hin Hd; cbn [map gob].
  - unfold ret. now rewrite app_nil_r.
  - cbn [forallb] in Hin. apply andb_true_iff in Hin as [Hb Hin]. unfold in_reg in Hb. cbn [fst snd] in Hb.
    destruct (sget r (if is_q then e_q env else e_c env)) as [n|] eqn:Hs; [|discriminate].
    apply andb_true_iff in Hb as [H0 H1]. apply Z.leb_le in H0. apply Z.ltb_lt in H1.
    cbn [distinctb] in Hd. apply andb_true_iff in Hd as [Hn Hd]. apply negb_true_iff in Hn.
    rewrite (bind_eq _ _ s [(r, i)] s) by (eapply resolve_literal; eauto; lia).
    cbn [dedup_check]. rewrite Hn. cbn [guard]. rewrite (bind_eq _ _ s tt s eq_refl).
    rewrite (IH (acc ++ [(r, i)]) R Hin Hd). now rewrite <- app_assoc.
Qed.

Lemma get_op_bits_literals env s (is_q : bool) l :
  Regs env s ->
  forallb (in_reg (if is_q then e_q env else e_c env)) l = true -> distinctb [] l = true ->
  get_op_bits call_rec (map qarg_of l) (if is_q then qreg_sizes s else creg_sizes s) is_q s = Ok (l, s).
Proof. intros R Hin Hd. rewrite get_op_bits_gob. now rewrite (literal_operands env s is_q l [] R Hin Hd). Qed.


(* ---------- reset, barrier, measurement ---------- *)
Definition emits (stm : stmt) (m : M (list stmt)) (s : st) : Prop :=
  exists s', m s = Ok ((if check_only then [] else [stm]), s') /\ DE s s' /\ Dstep s s' (ev_of stm).

Lemma in_some_function_false env s : Regs env s -> in_some_function s = false.
Proof. intros R. unfold in_some_function. now rewrite (R_fn _ _ R). Qed.

Lemma HasQ_of env s b : Regs env s -> in_reg (e_q env) b = true -> HasQ s b.
Proof.
  intros R H. unfold in_reg in H. destruct b as [r i]. cbn [fst snd] in H.
  destruct (sget r (e_q env)) as [n|] eqn:E; [|discriminate]. apply andb_true_iff in H as [H0 H1].
  apply Z.leb_le in H0. apply Z.ltb_lt in H1. eapply R_hq; eauto.
Qed.
Lemma HasC_of env s b : Regs env s -> in_reg (e_c env) b = true -> HasC s b.
Proof.
  intros R H. unfold in_reg in H. destruct b as [r i]. cbn [fst snd] in H.
  destruct (sget r (e_c env)) as [n|] eqn:E; [|discriminate]. apply andb_true_iff in H as [H0 H1].
  apply Z.leb_le in H0. apply Z.ltb_lt in H1. eapply R_hc; eauto.
Qed.

Lemma reset_fix env s b : Regs env s -> in_reg (e_q env) b = true ->
  emits (SReset (qarg_of b)) (visit_reset check_only call_rec [qarg_of b]) s.
Proof.
  intros R Hb. unfold visit_reset, emits.
  rewrite (bind_eq _ _ s s s eq_refl). rewrite (in_some_function_false env s R).
  rewrite (bind_eq _ _ s [qarg_of b] s eq_refl). rewrite (bind_eq _ _ s s s eq_refl).
  pose proof (get_op_bits_literals env s true [b] R) as G. cbn [map forallb distinctb existsb negb andb] in G.
  rewrite Hb in G. rewrite (bind_eq _ _ s [b] s (G eq_refl eq_refl)).
  destruct (iter_nodes_ok reset_upd [b] s) as ([] & s1 & E1 & D1).
  { intros b' [<-|[]]. eapply HasQ_of; eauto. }
  unfold depth_reset. rewrite (bind_eq _ _ s tt s1 E1). exists s1. split; [reflexivity|]. split; [exact D1|].
  cbn [ev_of]. rewrite lit_bit_of. apply Dstep_one. intros N. apply reset1_is_dstep; [exact N|].
  cbn [iterM] in E1. unfold upd1. unfold bindM in E1 |- *.
  destruct (get_qnode b s) as [[qn sq]|]; [|discriminate E1]. destruct (set_qnode b (reset_upd qn) sq) as [[[] sr]|]; [|discriminate E1].
  unfold ret in E1. exact E1.
Qed.

Lemma barrier_fix env s b : Regs env s -> in_reg (e_q env) b = true ->
  emits (SBarrier [qarg_of b]) (visit_barrier check_only call_rec [qarg_of b]) s.
Proof.
  intros R Hb. unfold visit_barrier, emits.
  rewrite (bind_eq _ _ s s s eq_refl). rewrite (in_some_function_false env s R).
  rewrite (bind_eq _ _ s [qarg_of b] s eq_refl). rewrite (bind_eq _ _ s s s eq_refl).
  pose proof (get_op_bits_literals env s true [b] R) as G. cbn [map forallb distinctb existsb negb andb] in G.
  rewrite Hb in G. rewrite (bind_eq _ _ s [b] s (G eq_refl eq_refl)).
  destruct (depth_two_pass_ok barrier_upd [b] s) as ([] & s1 & E1 & D1).
  { intros b' [<-|[]]. eapply HasQ_of; eauto. }
  unfold depth_barrier. rewrite (bind_eq _ _ s tt s1 E1). exists s1. split; [reflexivity|]. split; [exact D1|].
  cbn [ev_of]. rewrite lit_bit_of. apply Dstep_one. intros N.
  apply (barrier_is_dstep [b] s s1); [constructor; [intros []|constructor]|exact N|exact E1].
Qed.

Lemma smemk_of {V} x (m : list (string * V)) v : sget x m = Some v -> smemk x m = true.
Proof. unfold smemk, amem, sget. now intros ->. Qed.

Lemma measure_fix env s q c : Regs env s -> in_reg (e_q env) q = true -> in_reg (e_c env) c = true ->
  emits (SMeasure (qarg_of q) (Some (qarg_of c))) (visit_measure check_only call_rec (qarg_of q) (Some (qarg_of c))) s.
Proof.
  intros R Hq Hc. unfold visit_measure, emits.
  rewrite (bind_eq _ _ s s s eq_refl).
  assert (Mq : smemk (qarg_name (qarg_of q)) (qreg_sizes s) = true).
  { rewrite (R_q _ _ R). unfold in_reg in Hq. destruct q as [r i]; cbn in *. destruct (sget r (e_q env)) eqn:E; [|discriminate]. eapply smemk_of; eauto. }
  assert (Mc : smemk (qarg_name (qarg_of c)) (creg_sizes s) = true).
  { rewrite (R_c _ _ R). unfold in_reg in Hc. destruct c as [r i]; cbn in *. destruct (sget r (e_c env)) eqn:E; [|discriminate]. eapply smemk_of; eauto. }
  rewrite Mq, Mc. cbn [guard]. rewrite !(bind_eq _ _ s tt s eq_refl).
  pose proof (get_op_bits_literals env s true [q] R) as G. cbn [map forallb distinctb existsb negb andb] in G.
  rewrite Hq in G. rewrite (bind_eq _ _ s [q] s (G eq_refl eq_refl)).
  rewrite (bind_eq _ _ s s s eq_refl).
  pose proof (get_op_bits_literals env s false [c] R) as G2. cbn [map forallb distinctb existsb negb andb] in G2.
  rewrite Hc in G2. rewrite (bind_eq _ _ s [c] s (G2 eq_refl eq_refl)).
  cbn [List.length Nat.eqb guard combine]. rewrite (bind_eq _ _ s tt s eq_refl).
  destruct (depth_measure_pair_ok q c s) as ([] & s1 & E1 & D1); [eapply HasQ_of; eauto|eapply HasC_of; eauto|].
  cbn [iterM]. rewrite (bind_eq _ _ s tt s1); [|rewrite (bind_eq _ _ s tt s1 E1); reflexivity].
  exists s1. split; [reflexivity|]. split; [exact D1|].
  cbn [ev_of]. rewrite !lit_bit_of. apply Dstep_one. intros N. now apply measure_pair_is_dstep.
Qed.


(* ---------- global phase, gates ---------- *)
Lemma phase_fix s v : num_val v = true ->
  visit_generic_phase check_only call_rec [] (ELit v) [] s = Ok ((if check_only then [] else [SPhase [] (ELit v) []]), s).
Proof.
  intros Hv. unfold visit_generic_phase. cbn [collapse_mods]. rewrite (bind_eq _ _ s (VInt 1, false) s eq_refl).
  rewrite (bind_eq _ _ s s s eq_refl). cbn [negb andb]. rewrite (bind_eq _ _ s [] s eq_refl).
  rewrite (bind_eq _ _ s 1 s eq_refl). cbn [Z.ltb Z.leb Z.compare guard]. rewrite (bind_eq _ _ s tt s eq_refl).
  rewrite (bind_eq _ _ s v s eq_refl).
  assert (num_of_bool v = v) as -> by (destruct v; try discriminate; reflexivity).
  rewrite (bind_eq _ _ s v s eq_refl). rewrite (bind_eq _ _ s s s eq_refl).
  rewrite andb_false_r. cbn [negb guard]. rewrite (bind_eq _ _ s tt s eq_refl). reflexivity.
Qed.

Lemma op_parameters_literals vs s : forallb num_val vs = true ->
  get_op_parameters call_rec (map ELit vs) s = Ok (vs, s).
Proof.
  unfold get_op_parameters. induction vs as [|v vs IH]; intros H; [reflexivity|].
  cbn [forallb] in H. apply andb_true_iff in H as [Hv H]. cbn [map mapMM].
  rewrite (bind_eq _ _ s v s); [|destruct v; try discriminate; reflexivity].
  rewrite (bind_eq _ _ s vs s (IH H)). reflexivity.
Qed.

Lemma gate_fix env s name vs bs np k :
  Regs env s -> assoc name self_basis = Some (np, k) -> List.length vs = np -> List.length bs = k ->
  forallb num_val vs = true -> forallb (in_reg (e_q env)) bs = true -> distinctb [] bs = true ->
  emits (SGate [] name (map ELit vs) (map qarg_of bs))
        (visit_generic_gate check_only [] visit_rec call_rec [] name (map ELit vs) (map qarg_of bs)) s.
Proof.
  intros R Hn Hv Hb Hnum Hin Hd.
  destruct (self_basis_lowering name np k Hn) as (d & np' & f & Hl & Hk & Hf).
  unfold visit_generic_gate, emits. cbn [collapse_mods]. rewrite (bind_eq _ _ s (VInt 1, false) s eq_refl).
  rewrite (bind_eq _ _ s s s eq_refl). rewrite (in_some_function_false env s R), andb_false_r.
  rewrite (bind_eq _ _ s (map qarg_of bs) s eq_refl). rewrite (bind_eq _ _ s 1 s eq_refl).
  cbn [Z.ltb Z.compare guard]. rewrite (bind_eq _ _ s tt s eq_refl).
  change (Z.to_nat 1) with 1%nat. cbn [repeatM].
  (* one application: not external, not custom, the library gate *)
  assert (Hbasic : exists s1, visit_basic_gate check_only call_rec name (map ELit vs) (map qarg_of bs) false s
                              = Ok ((if check_only then [] else [SGate [] name (map ELit vs) (map qarg_of bs)]), s1) /\ DE s s1 /\
                              Dstep s s1 [map Qr bs]).
  { unfold visit_basic_gate. cbn [negb]. rewrite Hl.
    rewrite (bind_eq _ _ s (Some (d, np', f), k, false) s eq_refl).
    assert (Hp : (match map ELit vs with
                  | [] => ret []
                  | _ :: _ => ps <- get_op_parameters call_rec (map ELit vs);;
                              (if false then mapMM (fun p => lift (py_binop OpMul (VInt (-1)) p)) ps else ret ps)
                  end) s = Ok (vs, s)).
    { destruct vs as [|v vs']; [reflexivity|]. change (map ELit (v :: vs')) with (ELit v :: map ELit vs') at 1.
      cbv iota. rewrite (bind_eq _ _ s (v :: vs') s (op_parameters_literals (v :: vs') s Hnum)). reflexivity. }
    rewrite (bind_eq _ _ s vs s Hp).
    assert (Ht : unroll_targets call_rec (map qarg_of bs) k s = Ok ([bs], s)).
    { unfold unroll_targets. rewrite (bind_eq _ _ s s s eq_refl).
      pose proof (get_op_bits_literals env s true bs R Hin Hd) as G. cbn iota in G.
      rewrite (bind_eq _ _ s bs s G). destruct k as [|k']; [lia|]. rewrite Hb, Nat.mod_same by lia.
      cbn [Nat.eqb guard]. rewrite (bind_eq _ _ s tt s eq_refl). rewrite chunks_single by (auto; lia). reflexivity. }
    rewrite (bind_eq _ _ s [bs] s Ht).
    cbn [concatMM]. rewrite (Hf vs bs Hv Hb). cbn [mapR stmt_of_bgate].
    pose proof (interp_vars [] vs) as Hi. cbn [app List.length] in Hi. rewrite Hi. cbn [bind lift].
    rewrite (bind_eq _ _ s [SGate [] name (map ELit vs) (map qarg_of bs)] s eq_refl).
    destruct (depth_two_pass_ok gate_upd bs s) as ([] & s1 & E1 & D1).
    { intros b Hbn. eapply HasQ_of; eauto. eapply forallb_forall in Hin; eauto. }
    unfold update_depth_for_gate. cbn [iterM]. unfold depth_gate_subset.
    rewrite (bind_eq _ _ s tt s1); [|rewrite (bind_eq _ _ s tt s1 E1); reflexivity].
    exists s1. split; [reflexivity|]. split; [exact D1|]. apply Dstep_one. intros N.
    apply (gate_subset_is_dstep bs s s1); [exact (proj1 (distinctb_NoDup bs [] Hd))|exact N|exact E1]. }
  destruct Hbasic as (s1 & Eb & D1 & S1).
  rewrite (bind_eq _ _ s (if check_only then [] else [SGate [] name (map ELit vs) (map qarg_of bs)]) s1).
  2:{ rewrite (bind_eq _ _ s (if check_only then [] else [SGate [] name (map ELit vs) (map qarg_of bs)]) s1).
      - rewrite (bind_eq _ _ s1 [] s1 eq_refl). unfold ret. now rewrite app_nil_r.
      - rewrite (bind_eq _ _ s s s eq_refl). cbn [smem existsb]. rewrite (R_gates _ _ R name np k Hn). exact Eb. }
  exists s1. split; [unfold emit, ret; destruct check_only; reflexivity|]. split; [exact D1|].
  cbn [ev_of]. now rewrite mapM_lit_bit_of.
Qed.


(* ---------- measurement-conditioned blocks ---------- *)
Definition pushed (s : st) : st := level_push (push_scope (push_ctx CBlock s)).
Definition popped (s : st) : st := pop_ctx (pop_scope (level_pop s)).

Lemma Regs_pushed env s : Regs env s -> Regs env (pushed s).
Proof.
  intros [Rq Rc Rg Rf Lq Lc Hq Hc]. unfold pushed.
  assert (N : forall r, name_in_levels s r = true -> name_in_levels (level_push (push_scope (push_ctx CBlock s))) r = true).
  { intros r H. destruct s; unfold name_in_levels in *; cbn in *. exact H. }
  split; try (destruct s; assumption); eauto.
Qed.

Lemma DE_popped s s3 : DE (pushed s) s3 -> DE s (popped s3).
Proof.
  intros [E Dq Dc Dq' Dc']. split.
  - transitivity (popped (nodepth s3)); [destruct s3; reflexivity|]. rewrite E. destruct s; reflexivity.
  - intros b H. assert (HasQ (pushed s) b) as H' by (destruct s; exact H). apply Dq in H'. destruct s3; exact H'.
  - intros b H. assert (HasC (pushed s) b) as H' by (destruct s; exact H). apply Dc in H'. destruct s3; exact H'.
  - intros b H. assert (HasQ s3 b) as H' by (destruct s3; exact H). apply Dq' in H'. destruct s; exact H'.
  - intros b H. assert (HasC s3 b) as H' by (destruct s3; exact H). apply Dc' in H'. destruct s; exact H'.
Qed.

Lemma block_fix env l : forall s,
  (forall stm s0, In stm l -> Regs env s0 -> emits stm (visit_rec stm) s0) ->
  Regs env s ->
  exists s', visit_block visit_rec l s = Ok ((if check_only then [] else l), s') /\ DE s s' /\ Dstep s s' (evs_of l).
Proof.
  unfold visit_block. induction l as [|x l IH]; intros s H R; cbn [concatMM].
  - exists s. split; [destruct check_only; reflexivity|]. split; [apply DE_refl|apply Dstep_same; reflexivity].
  - destruct (H x s (or_introl eq_refl) R) as (s1 & E1 & D1 & S1).
    destruct (IH s1) as (s2 & E2 & D2 & S2); [intros; apply H; [now right|assumption]|eapply Regs_DE; eauto|].
    rewrite (bind_eq _ _ s _ s1 E1). rewrite (bind_eq _ _ s1 _ s2 E2).
    exists s2. split; [unfold ret; destruct check_only; reflexivity|]. split; [eapply DE_trans; eauto|].
    unfold evs_of. cbn [flat_map]. eapply Dstep_trans; eauto.
Qed.

Definition cond_ok (env : renv) (lhs : expr) (rhs : pyval) : bool :=
  match lhs, rhs with
  | EId c, VInt _ => match sget c (e_c env) with Some _ => true | None => false end
  | EIndexE (EId c) (IdxList [IExpr (ELit (VInt i))]), VBool _ => in_reg (e_c env) (c, i)
  | _, _ => false
  end.

Lemma branch_fix env s lhs rhs t e :
  Regs env s -> cond_ok env lhs rhs = true -> t <> [] ->
  (forall stm s0, In stm (t ++ e) -> Regs env s0 -> emits stm (visit_rec stm) s0) ->
  emits (SIf (EBin "==" lhs (ELit rhs)) t e) (visit_branch check_only visit_rec call_rec (EBin "==" lhs (ELit rhs)) t e) s.
Proof.
  intros R Hc Ht H. unfold visit_branch, emits. fold (pushed s).
  rewrite (bind_eq _ _ s tt (pushed s) eq_refl).
  assert (negb (match t with [] => true | _ :: _ => false end) = true) as -> by (destruct t; [congruence|reflexivity]).
  cbn [guard]. rewrite (bind_eq _ _ (pushed s) tt (pushed s) eq_refl).
  rewrite (bind_eq _ _ (pushed s) (pushed s) (pushed s) eq_refl).
  pose proof (Regs_pushed env s R) as Rp.
  (* both arms are visited in the block scope *)
  assert (Hblocks : forall s1, Regs env s1 ->
            exists s2 s3, visit_block visit_rec t s1 = Ok ((if check_only then [] else t), s2) /\
                          visit_block visit_rec e s2 = Ok ((if check_only then [] else e), s3) /\ DE s1 s3 /\
                          Dstep s1 s3 (evs_of t ++ evs_of e)).
  { intros s1 R1.
    destruct (block_fix env t s1) as (s2 & E2 & D2 & S2); [intros; apply H; [apply in_or_app; now left|assumption]|exact R1|].
    destruct (block_fix env e s2) as (s3 & E3 & D3 & S3); [intros; apply H; [apply in_or_app; now right|assumption]|eapply Regs_DE; eauto|].
    exists s2, s3. split; [exact E2|split; [exact E3|split; [eapply DE_trans; eauto|eapply Dstep_trans; eauto]]]. }
  destruct (Hblocks (pushed s) Rp) as (s2 & s3 & E2 & E3 & D3 & S3).
  assert (Spop : Dstep s (popped s3) (ev_of (SIf (EBin "==" lhs (ELit rhs)) t e))).
  { cbn [ev_of]. rewrite !ev_of_block. intros N r.
    assert (Np : nonneg (pushed s)) by (intros r'; specialize (N r'); destruct s; exact N).
    transitivity (dof s3 r); [destruct s3; reflexivity|]. rewrite (S3 Np r). apply run_evs_ext. intros r'. destruct s; reflexivity. }
  unfold cond_ok in Hc.
  destruct lhs as [| | |c|coll idx| | | | | |]; try discriminate Hc.
  - (* whole register == integer *)
    destruct rhs as [z| | |]; try discriminate Hc.
    destruct (sget c (e_c env)) as [size|] eqn:Es; [|discriminate Hc].
    assert (Ec : sget c (creg_sizes (pushed s)) = Some size) by (rewrite (R_c _ _ Rp); exact Es).
    cbn [creg_in_expr]. rewrite (smemk_of _ _ _ Ec).
    rewrite (bind_eq _ _ (pushed s) true (pushed s) eq_refl).
    rewrite (bind_eq _ _ (pushed s) [SIf (EBin "==" (EId c) (ELit (VInt z))) (if check_only then [] else t) (if check_only then [] else e)] s3).
    + rewrite (bind_eq _ _ s3 tt (popped s3) eq_refl). exists (popped s3).
      split; [unfold emit, ret; destruct check_only; reflexivity|split; [now apply DE_popped|exact Spop]].
    + rewrite (bind_eq _ _ (pushed s) (None, c, VInt z) (pushed s) eq_refl).
      rewrite (bind_eq _ _ (pushed s) (pushed s) (pushed s) eq_refl). rewrite Ec.
      rewrite (bind_eq _ _ (pushed s) None (pushed s) eq_refl).
      rewrite (bind_eq _ _ (pushed s) (ELit (VInt z)) (pushed s) eq_refl).
      rewrite (bind_eq _ _ (pushed s) _ s2 E2). rewrite (bind_eq _ _ s2 _ s3 E3). reflexivity.
  - (* one bit == boolean *)
    destruct coll as [| | |c| | | | | | |]; try discriminate Hc.
    destruct idx as [|items]; try discriminate Hc.
    destruct items as [|[ie|] items']; try discriminate Hc.
    destruct ie as [v| | | | | | | | | |]; try discriminate Hc. destruct v as [i| | |]; try discriminate Hc.
    destruct items' as [|]; try discriminate Hc.
    destruct rhs as [| |b|]; try discriminate Hc.
    unfold in_reg in Hc. cbn [fst snd] in Hc.
    destruct (sget c (e_c env)) as [size|] eqn:Es; [|discriminate Hc].
    assert (Ec : sget c (creg_sizes (pushed s)) = Some size) by (rewrite (R_c _ _ Rp); exact Es).
    cbn [creg_in_expr]. rewrite (smemk_of _ _ _ Ec).
    rewrite (bind_eq _ _ (pushed s) true (pushed s) eq_refl).
    rewrite (bind_eq _ _ (pushed s) [SIf (EBin "==" (EIndexE (EId c) (IdxList [IExpr (ELit (VInt i))])) (ELit (VBool b)))
                                         (if check_only then [] else t) (if check_only then [] else e)] s3).
    + rewrite (bind_eq _ _ s3 tt (popped s3) eq_refl). exists (popped s3).
      split; [unfold emit, ret; destruct check_only; reflexivity|split; [now apply DE_popped|exact Spop]].
    + rewrite (bind_eq _ _ (pushed s) (Some (VInt i), c, VBool b) (pushed s)) by (destruct b; reflexivity).
      rewrite (bind_eq _ _ (pushed s) (pushed s) (pushed s) eq_refl). rewrite Ec.
      rewrite (bind_eq _ _ (pushed s) (Some i) (pushed s)).
      2:{ unfold validate_index. rewrite Hc. reflexivity. }
      rewrite (bind_eq _ _ (pushed s) (ELit (VBool b)) (pushed s) eq_refl).
      rewrite (bind_eq _ _ (pushed s) _ s2 E2). rewrite (bind_eq _ _ s2 _ s3 E3). reflexivity.
Qed.

End Ops.

(* ---------- well-formed flat statements ---------- *)
Definition lit_num (e : expr) : option pyval :=
  match e with ELit v => if num_val v then Some v else None | _ => None end.

Lemma mapM_lit_bit qs bs : mapM lit_bit qs = Some bs -> qs = map qarg_of bs.
Proof.
  revert bs. induction qs as [|q qs IH]; intros bs H; cbn [mapM] in H.
  - inversion H. reflexivity.
  - destruct (lit_bit q) as [b|] eqn:Eb; [|discriminate]. destruct (mapM lit_bit qs) as [bs'|]; [|discriminate].
    inversion H; subst. cbn [map]. now rewrite (lit_bit_qarg_of q b Eb), (IH bs' eq_refl).
Qed.
Lemma mapM_lit_num args vs : mapM lit_num args = Some vs -> args = map ELit vs /\ forallb num_val vs = true.
Proof.
  revert vs. induction args as [|a args IH]; intros vs H; cbn [mapM] in H.
  - inversion H. split; reflexivity.
  - destruct (lit_num a) as [v|] eqn:Ev; [|discriminate]. destruct (mapM lit_num args) as [vs'|]; [|discriminate].
    inversion H; subst. destruct (IH vs' eq_refl) as [-> Hn]. unfold lit_num in Ev.
    destruct a; try discriminate. destruct (num_val v0) eqn:Hv; [|discriminate]. inversion Ev; subst.
    split; [reflexivity|]. cbn [forallb]. now rewrite Hv, Hn.
Qed.

Fixpoint op_ok (env : renv) (stm : stmt) : bool :=
  let fl := fix go (l : list stmt) : bool := match l with [] => true | x :: l' => op_ok env x && go l' end in
  match stm with
  | SGate [] name args qs =>
      match mapM lit_bit qs, mapM lit_num args, assoc name self_basis with
      | Some bs, Some vs, Some (np, k) =>
          Nat.eqb (List.length vs) np && Nat.eqb (List.length bs) k && forallb (in_reg (e_q env)) bs && distinctb [] bs
      | _, _, _ => false
      end
  | SPhase [] (ELit v) [] => num_val v
  | SMeasure q (Some t) =>
      match lit_bit q, lit_bit t with Some a, Some b => in_reg (e_q env) a && in_reg (e_c env) b | _, _ => false end
  | SReset q => match lit_bit q with Some a => in_reg (e_q env) a | None => false end
  | SBarrier [q] => match lit_bit q with Some a => in_reg (e_q env) a | None => false end
  | SIf (EBin op lhs (ELit rhs)) t e =>
      String.eqb op "==" && cond_ok env lhs rhs && negb (match t with [] => true | _ => false end) && fl t && fl e
  | _ => false
  end.

Lemma op_ok_block env (l : list stmt) :
  (fix go (l : list stmt) : bool := match l with [] => true | x :: l' => op_ok env x && go l' end) l = forallb (op_ok env) l.
Proof. induction l; cbn; congruence. Qed.

(* nesting depth of conditionals: the fuel a visit needs *)
Fixpoint sdepth (stm : stmt) : nat :=
  let dl := fix go (l : list stmt) : nat := match l with [] => O | x :: l' => Nat.max (sdepth x) (go l') end in
  match stm with
  | SIf _ t e => S (Nat.max (dl t) (dl e))
  | _ => O
  end.
Definition ldepth (l : list stmt) : nat := fold_right (fun x n => Nat.max (sdepth x) n) O l.
Lemma sdepth_block (l : list stmt) :
  (fix go (l : list stmt) : nat := match l with [] => O | x :: l' => Nat.max (sdepth x) (go l') end) l = ldepth l.
Proof. induction l as [|x l IH]; [reflexivity|]. unfold ldepth in *. cbn [fold_right]. now rewrite IH. Qed.
Lemma ldepth_in l x : In x l -> (sdepth x <= ldepth l)%nat.
Proof.
  induction l as [|y l IH]; [contradiction|]. unfold ldepth in *. cbn [fold_right].
  intros [->|H]; [lia|specialize (IH H); lia].
Qed.
Lemma ldepth_app a b : ldepth (a ++ b) = Nat.max (ldepth a) (ldepth b).
Proof. induction a as [|x a IH]; [reflexivity|]. unfold ldepth in *. cbn [app fold_right]. rewrite IH. lia. Qed.

(* every well-formed flat operation is accepted and emitted as it stands, whatever the mode *)
Theorem op_fix check_only fuel : forall stm env s,
  (sdepth stm < fuel)%nat -> Regs env s -> op_ok env stm = true ->
  emits check_only stm (visit_stmt check_only [] fuel stm) s.
Proof.
  induction fuel as [|f IH]; intros stm env s Hf R Hok; [lia|].
  cbn [visit_stmt]. set (vr := visit_stmt check_only [] f). set (cr := visit_call check_only [] f).
  destruct stm; try discriminate Hok; cbn [visit_stmt_body].
  - (* gate *)
    cbn [op_ok] in Hok. destruct mods; [|discriminate Hok].
    destruct (mapM lit_bit qubits) as [bs|] eqn:Eb; [|discriminate Hok].
    destruct (mapM lit_num args) as [vs|] eqn:Ev; [|discriminate Hok].
    destruct (assoc name self_basis) as [[np k]|] eqn:En; [|discriminate Hok].
    apply andb_true_iff in Hok as [Hok Hd]. apply andb_true_iff in Hok as [Hok Hin]. apply andb_true_iff in Hok as [Hv Hb].
    apply Nat.eqb_eq in Hv, Hb. apply mapM_lit_bit in Eb as ->. apply mapM_lit_num in Ev as [-> Hn].
    eapply gate_fix; eauto.
  - (* gphase *)
    cbn [op_ok] in Hok. destruct mods; [|discriminate Hok]. destruct arg; try discriminate Hok.
    destruct qubits; [|discriminate Hok]. exists s. split; [now apply phase_fix|]. split; [apply DE_refl|apply Dstep_same; reflexivity].
  - (* measure *)
    cbn [op_ok] in Hok. destruct target as [t|]; [|discriminate Hok].
    destruct (lit_bit q) as [a|] eqn:Ea; [|discriminate Hok]. destruct (lit_bit t) as [b|] eqn:Eb; [|discriminate Hok].
    apply andb_true_iff in Hok as [Ha Hb]. rewrite (lit_bit_qarg_of q a Ea), (lit_bit_qarg_of t b Eb).
    eapply measure_fix; eauto.
  - (* reset *)
    cbn [op_ok] in Hok. destruct (lit_bit q) as [a|] eqn:Ea; [|discriminate Hok].
    rewrite (lit_bit_qarg_of q a Ea). eapply reset_fix; eauto.
  - (* barrier *)
    cbn [op_ok] in Hok. destruct qs as [|q [|]]; try discriminate Hok.
    destruct (lit_bit q) as [a|] eqn:Ea; [|discriminate Hok].
    rewrite (lit_bit_qarg_of q a Ea). eapply barrier_fix; eauto.
  - (* conditional on a measured bit / register *)
    cbn [op_ok] in Hok. rewrite !op_ok_block in Hok.
    destruct cond; try discriminate Hok. destruct cond2; try discriminate Hok.
    apply andb_true_iff in Hok as [Hok He]. apply andb_true_iff in Hok as [Hok Ht]. apply andb_true_iff in Hok as [Hok Hne].
    apply andb_true_iff in Hok as [Hop Hc]. apply String.eqb_eq in Hop. subst op.
    cbn [sdepth] in Hf. rewrite (sdepth_block then_), (sdepth_block else_) in Hf.
    apply (branch_fix check_only vr cr env s cond1 v then_ else_ R Hc).
    + destruct then_; [discriminate Hne|congruence].
    + intros stm s0 Hin R0. apply (IH stm env s0); [|exact R0|].
      * assert (sdepth stm <= ldepth (then_ ++ else_))%nat by (now apply ldepth_in). rewrite ldepth_app in H. lia.
      * apply in_app_or in Hin as [Hin|Hin]; [eapply forallb_forall in Ht|eapply forallb_forall in He]; eauto.
Qed.

(* ---------- top level: includes and register declarations ---------- *)
Lemma sget_sset_eq {V} x (v : V) l : sget x (sset x v l) = Some v.
Proof. unfold sget, sset. induction l as [|[k w] l IH]; cbn; [now rewrite String.eqb_refl|].
  destruct (String.eqb x k) eqn:E; cbn; [now rewrite String.eqb_refl|now rewrite E]. Qed.
Lemma sget_sset_neq {V} x y (v : V) l : y <> x -> sget y (sset x v l) = sget y l.
Proof.
  intros N. unfold sget, sset. induction l as [|[k w] l IH]; cbn.
  - destruct (String.eqb_spec y x); [contradiction|reflexivity].
  - destruct (String.eqb_spec x k) as [->|Nk]; cbn.
    + destruct (String.eqb_spec y k); [contradiction|reflexivity].
    + destruct (String.eqb y k); [reflexivity|exact IH].
Qed.
Lemma sget_app_end {V} x y (v : V) l : sget y (l ++ [(x, v)]) = match sget y l with Some w => Some w | None => if String.eqb y x then Some v else None end.
Proof. unfold sget. induction l as [|[k w] l IH]; cbn; [reflexivity|]. destruct (String.eqb y k); [reflexivity|exact IH]. Qed.

Record Top (env : renv) (s : st) : Prop := {
  T_regs : Regs env s;
  T_sc : exists g, scopes s = [g] /\ forall x, sget x g = None <-> (sget x (e_q env) = None /\ sget x (e_c env) = None);
  T_ctx : ctxs s = [CGlobal];
  T_lv : exists lv, label_levels s = [lv];
  T_inc : included s = e_inc env;
  T_kq : forall x i, sget x (e_q env) = None -> ~ HasQ s (x, i);     (* depth nodes exist for declared registers only *)
  T_kc : forall x i, sget x (e_c env) = None -> ~ HasC s (x, i)
}.

Lemma Top_DE env s s' : Top env s -> DE s s' -> Top env s'.
Proof.
  intros [R Sc Cx Lv In Kq Kc] D. pose proof (de_core _ _ D) as E. core_eq E s s'.
  split; [eapply Regs_DE; eauto|rewrite <- G6, F6; exact Sc|congruence|rewrite <- G5, F5; exact Lv|congruence| |].
  - intros x i Hx H. apply (Kq x i Hx). now apply (de_q' _ _ D).
  - intros x i Hx H. apply (Kc x i Hx). now apply (de_c' _ _ D).
Qed.

Definition fresh_name (env : renv) (x : string) : bool :=
  match sget x (e_q env), sget x (e_c env) with None, None => negb (is_constant_name x) | _, _ => false end.

Lemma check_in_scope_fresh env s x : Top env s -> fresh_name env x = true -> check_in_scope s x = false.
Proof.
  intros [R (g & Sc & Hg) Cx Lv In _ _] F. unfold fresh_name in F.
  destruct (sget x (e_q env)) eqn:Eq; [discriminate|]. destruct (sget x (e_c env)) eqn:Ec; [discriminate|].
  unfold check_in_scope, get_visible, in_global, nscopes, top_ctx, global_scope. rewrite Sc, Cx. cbn.
  now rewrite (proj2 (Hg x) (conj Eq Ec)).
Qed.

Lemma name_in_levels_add s x r : name_in_levels s r = true -> name_in_levels (level_add s x) r = true.
Proof.
  unfold name_in_levels, level_add. destruct (label_levels s) as [|l ls] eqn:E; [now rewrite E|].
  destruct s; cbn in *. subst. cbn. intros H. apply orb_true_iff in H as [H|H]; apply orb_true_iff; [left|now right].
  unfold smem in *. cbn. now rewrite H, orb_true_r.
Qed.
Lemma name_in_levels_added s x lv : label_levels s = [lv] -> name_in_levels (level_add s x) x = true.
Proof.
  intros E. unfold name_in_levels, level_add. rewrite E. destruct s; cbn in *. unfold smem. cbn. now rewrite String.eqb_refl.
Qed.

Lemma fold_nodes_has {V} (name : string) (z0 : V) l : forall d b,
  (bget b d <> None \/ exists i, In i l /\ b = (name, i)) ->
  bget b (fold_left (fun d i => bset (name, i) z0 d) l d) <> None.
Proof.
  induction l as [|i l IH]; intros d b H; cbn [fold_left].
  - destruct H as [H|(i & [] & _)]. exact H.
  - apply IH. destruct H as [H|(j & [<-|Hj] & ->)].
    + left. now apply bget_bset_kept.
    + left. rewrite bget_bset_same. discriminate.
    + right. eauto.
Qed.
Lemma in_range_nat n i : 0 <= i < n -> In i (range_nat n).
Proof.
  intros H. unfold range_nat. apply in_map_iff. exists (Z.to_nat i). split; [lia|]. apply in_seq. lia.
Qed.

Lemma fold_nodes_other {V} (name : string) (z0 : V) l : forall d b,
  (forall j, In j l -> b <> (name, j)) -> bget b (fold_left (fun d i => bset (name, i) z0 d) l d) = bget b d.
Proof.
  induction l as [|i l IH]; intros d b H; cbn [fold_left]; [reflexivity|].
  rewrite IH by (intros j Hj; apply H; now right). apply bget_bset_other. apply H. now left.
Qed.
Lemma fold_nodes_keep {V} (name : string) (z0 : V) l : forall d b, bget b d = Some z0 ->
  bget b (fold_left (fun d i => bset (name, i) z0 d) l d) = Some z0.
Proof.
  induction l as [|i l IH]; intros d b H; cbn [fold_left]; [exact H|]. apply IH.
  destruct (bitref_eqb_spec b (name, i)) as [->|N]; [apply bget_bset_same|now rewrite bget_bset_other].
Qed.
Lemma fold_nodes_new {V} (name : string) (z0 : V) l : forall d i, In i l ->
  bget (name, i) (fold_left (fun d i => bset (name, i) z0 d) l d) = Some z0.
Proof.
  induction l as [|j l IH]; intros d i Hin; [destruct Hin|]. destruct Hin as [<-|H]; cbn [fold_left]; [apply fold_nodes_keep, bget_bset_same|now apply IH].
Qed.
Lemma fold_nodes_inv {V} (name : string) (z0 : V) l : forall d b,
  bget b (fold_left (fun d i => bset (name, i) z0 d) l d) <> None -> bget b d <> None \/ exists i, In i l /\ b = (name, i).
Proof.
  induction l as [|i l IH]; intros d b H; cbn [fold_left] in H; [now left|].
  apply IH in H as [H|(j & Hj & ->)]; [|right; exists j; split; [now right|reflexivity]].
  apply bget_bset_inv in H as [->|H]; [right; exists i; split; [now left|reflexivity]|now left].
Qed.

(* a register declaration leaves every depth counter as it was (the new nodes start at 0, where an absent node counts) *)
Lemma fold_nodes_dof_q name l d0 (b : bitref) :
  (forall i, In i l -> bget (name, i) d0 = None) ->
  match bget b (fold_left (fun d i => bset (name, i) qnode0 d) l d0) with Some n => qd n | None => 0 end
  = match bget b d0 with Some n => qd n | None => 0 end.
Proof.
  intros H. destruct b as [x i].
  destruct (String.eqb_spec x name) as [->|Nx].
  - destruct (in_dec Z.eq_dec i l) as [Hi|Hi].
    + rewrite (fold_nodes_new name qnode0 l d0 i Hi), (H i Hi). reflexivity.
    + rewrite fold_nodes_other; [reflexivity|]. intros j Hj E. inversion E; subst. contradiction.
  - rewrite fold_nodes_other; [reflexivity|]. intros j Hj E. inversion E; subst. contradiction.
Qed.
Lemma fold_nodes_dof_c name l d0 (b : bitref) :
  (forall i, In i l -> bget (name, i) d0 = None) ->
  match bget b (fold_left (fun d i => bset (name, i) cnode0 d) l d0) with Some n => cd n | None => 0 end
  = match bget b d0 with Some n => cd n | None => 0 end.
Proof.
  intros H. destruct b as [x i].
  destruct (String.eqb_spec x name) as [->|Nx].
  - destruct (in_dec Z.eq_dec i l) as [Hi|Hi].
    + rewrite (fold_nodes_new name cnode0 l d0 i Hi), (H i Hi). reflexivity.
    + rewrite fold_nodes_other; [reflexivity|]. intros j Hj E. inversion E; subst. contradiction.
  - rewrite fold_nodes_other; [reflexivity|]. intros j Hj E. inversion E; subst. contradiction.
Qed.

Section Top.
Variable check_only : bool.
Notation vst := (visit_stmt check_only []).

Definition out_of (l : list stmt) : list stmt := if check_only then [] else l.

Lemma include_fix env s f fuel : Top env s -> smem f (e_inc env) = false ->
  exists s', vst (S fuel) (SInclude f) s = Ok (out_of [SInclude f], s') /\
             Top (mkEnv (e_q env) (e_c env) (f :: e_inc env)) s' /\ num_qubits s' = num_qubits s /\ num_clbits s' = num_clbits s /\
             (forall r, dof s' r = dof s r).
Proof.
  intros T Hf. cbn [visit_stmt visit_stmt_body]. rewrite (bind_eq _ _ s s s eq_refl).
  rewrite (T_inc _ _ T), Hf. cbn [negb guard]. rewrite (bind_eq _ _ s tt s eq_refl).
  rewrite (bind_eq _ _ s tt (with_included s (f :: included s)) eq_refl).
  eexists. split; [reflexivity|]. split; [|destruct s; repeat split; reflexivity]. destruct T as [[Rq Rc Rg Rf Lq Lc Hq Hc] Sc Cx Lv In Kq Kc].
  split; [split| | | | | |]; cbn [e_q e_c e_inc]; try (destruct s; cbn in *; assumption).
  destruct s; cbn in *. congruence.
Qed.

Lemma qubit_decl_fix env s name n fuel :
  Top env s -> fresh_name env name = true -> 1 <= n < 100000 ->
  exists s', vst (S fuel) (SQubitDecl name (Some (ELit (VInt n)))) s = Ok (out_of [SQubitDecl name (Some (ELit (VInt n)))], s') /\
             Top (mkEnv (sset name n (e_q env)) (e_c env) (e_inc env)) s' /\
             num_qubits s' = num_qubits s + n /\ num_clbits s' = num_clbits s /\ (forall r, dof s' r = dof s r).
Proof.
  intros T F Hn. cbn [visit_stmt visit_stmt_body]. unfold visit_qubit_decl.
  rewrite (bind_eq _ _ s n s eq_refl). rewrite (bind_eq _ _ s s s eq_refl).
  rewrite (check_in_scope_fresh env s name T F). cbn [negb guard]. rewrite (bind_eq _ _ s tt s eq_refl).
  assert (Hc : is_constant_name name = false).
  { unfold fresh_name in F. destruct (sget name (e_q env)); [discriminate|]. destruct (sget name (e_c env)); [discriminate|].
    now apply negb_true_iff in F. }
  rewrite Hc. cbn [negb guard]. rewrite (bind_eq _ _ s tt s eq_refl).
  assert (n <? 100000 = true) as -> by (apply Z.ltb_lt; lia). cbn [guard]. rewrite (bind_eq _ _ s tt s eq_refl).
  rewrite (bind_eq _ _ s s s eq_refl).
  destruct T as [R (g & Sc & Hg) Cx (lv & Lv) In Kq Kc].
  assert (Fq : sget name (e_q env) = None /\ sget name (e_c env) = None).
  { unfold fresh_name in F. destruct (sget name (e_q env)); [discriminate|]. destruct (sget name (e_c env)); [discriminate|]. auto. }
  assert (Hg0 : sget name g = None) by (apply Hg; exact Fq).
  set (v := mkVar KQubit (Some n) None VVNone false true false).
  assert (Ha : add_var s name v = Ok (with_scopes s [g ++ [(name, v)]])).
  { unfold add_var. rewrite Sc. unfold smemk, amem. unfold sget in Hg0. now rewrite Hg0. }
  rewrite Ha. cbn [putres]. rewrite (bind_eq _ _ s tt (with_scopes s [g ++ [(name, v)]]) eq_refl).
  match goal with |- exists s', (modify ?F;;; _) _ = _ /\ _ => rewrite (bind_eq _ _ _ tt (F (with_scopes s [g ++ [(name, v)]])) eq_refl) end.
  eexists. split; [reflexivity|].
  split; [|split; [destruct s; cbn in *; unfold level_add; cbn; rewrite Lv; reflexivity|]; split; [destruct s; cbn in *; unfold level_add; cbn; rewrite Lv; reflexivity|];
           intros [[|] b]; unfold dof; cbn [fst snd]; [|destruct s; cbn in *; unfold level_add; cbn; rewrite Lv; reflexivity];
           unfold qdof;
           match goal with |- match bget b (qdepth ?S) with _ => _ end = _ =>
             assert (Q0 : qdepth S = fold_left (fun d i => bset (name, i) qnode0 d) (range_nat n) (qdepth s))
               by (destruct s; cbn in *; unfold level_add; cbn; rewrite Lv; reflexivity) end;
           rewrite Q0; apply fold_nodes_dof_q; intros i _;
           destruct (bget (name, i) (qdepth s)) eqn:Eb; [exfalso; apply (Kq name i (proj1 Fq)); unfold HasQ; congruence|reflexivity]].
  destruct R as [Rq Rc Rg Rf Lq Lc Hq Hc'].
  set (s1 := with_scopes s [g ++ [(name, v)]]).
  assert (Lv1 : label_levels s1 = [lv]) by (destruct s; exact Lv).
  split; [split| | | | | |]; cbn [e_q e_c e_inc].
  - destruct s; cbn in *. unfold level_add; cbn. rewrite Lv. cbn. congruence.
  - destruct s; cbn in *. unfold level_add; cbn. rewrite Lv. cbn. exact Rc.
  - destruct s; cbn in *. unfold level_add; cbn. rewrite Lv. cbn. exact Rg.
  - destruct s; cbn in *. unfold level_add; cbn. rewrite Lv. cbn. exact Rf.
  - intros r m Hr. destruct (String.eqb_spec r name) as [->|Nr].
    + destruct s; cbn in *. unfold level_add, name_in_levels; cbn. rewrite Lv. cbn. unfold smem. cbn. now rewrite String.eqb_refl.
    + rewrite sget_sset_neq in Hr by exact Nr. specialize (Lq r m Hr).
      destruct s; cbn in *. unfold level_add, name_in_levels in *; cbn in *. rewrite Lv in *. cbn in *.
      unfold smem in *. cbn. apply orb_true_iff in Lq as [Lq|Lq]; [|discriminate]. now rewrite Lq, !orb_true_r.
  - intros r m Hr. specialize (Lc r m Hr).
    destruct s; cbn in *. unfold level_add, name_in_levels in *; cbn in *. rewrite Lv in *. cbn in *.
    unfold smem in *. cbn. apply orb_true_iff in Lc as [Lc|Lc]; [|discriminate]. now rewrite Lc, !orb_true_r.
  - intros r m i Hr Hi. unfold HasQ.
    assert (Q : qdepth (with_modq (level_add (with_qdepth (with_nqlabels (with_qreg_sizes s1 (sset name n (qreg_sizes s1))) (nqlabels (with_qreg_sizes s1 (sset name n (qreg_sizes s1))) + Z.max 0 n))
                 (fold_left (fun d i => bset (name, i) qnode0 d) (range_nat n) (qdepth (with_nqlabels (with_qreg_sizes s1 (sset name n (qreg_sizes s1))) (nqlabels (with_qreg_sizes s1 (sset name n (qreg_sizes s1))) + Z.max 0 n))))) name)
                 (sset name n (mod_qregs (level_add (with_qdepth (with_nqlabels (with_qreg_sizes s1 (sset name n (qreg_sizes s1))) (nqlabels (with_qreg_sizes s1 (sset name n (qreg_sizes s1))) + Z.max 0 n))
                 (fold_left (fun d i => bset (name, i) qnode0 d) (range_nat n) (qdepth (with_nqlabels (with_qreg_sizes s1 (sset name n (qreg_sizes s1))) (nqlabels (with_qreg_sizes s1 (sset name n (qreg_sizes s1))) + Z.max 0 n))))) name)))
                 (num_qubits (level_add (with_qdepth (with_nqlabels (with_qreg_sizes s1 (sset name n (qreg_sizes s1))) (nqlabels (with_qreg_sizes s1 (sset name n (qreg_sizes s1))) + Z.max 0 n))
                 (fold_left (fun d i => bset (name, i) qnode0 d) (range_nat n) (qdepth (with_nqlabels (with_qreg_sizes s1 (sset name n (qreg_sizes s1))) (nqlabels (with_qreg_sizes s1 (sset name n (qreg_sizes s1))) + Z.max 0 n))))) name) + n))
              = fold_left (fun d i => bset (name, i) qnode0 d) (range_nat n) (qdepth s)).
    { subst s1. destruct s; cbn in *. unfold level_add; cbn. rewrite Lv. reflexivity. }
    rewrite Q. apply fold_nodes_has.
    destruct (String.eqb_spec r name) as [->|Nr].
    + rewrite sget_sset_eq in Hr. inversion Hr; subst m. right. exists i. split; [now apply in_range_nat|reflexivity].
    + rewrite sget_sset_neq in Hr by exact Nr. left. exact (Hq r m i Hr Hi).
  - intros r m i Hr Hi. specialize (Hc' r m i Hr Hi). unfold HasC in *.
    destruct s; cbn in *. unfold level_add; cbn. rewrite Lv. cbn. exact Hc'.
  - exists (g ++ [(name, v)]). split; [destruct s; cbn in *; unfold level_add; cbn; rewrite Lv; reflexivity|].
    intros x. rewrite sget_app_end. destruct (String.eqb_spec x name) as [->|Nx].
    + rewrite Hg0, sget_sset_eq. split; [discriminate|intros [H _]; discriminate].
    + rewrite sget_sset_neq by exact Nx. destruct (sget x g) eqn:Ex.
      * split; [discriminate|]. intros H. apply Hg in H. congruence.
      * split; [intros _; now apply Hg|reflexivity].
  - destruct s; cbn in *. unfold level_add; cbn. rewrite Lv. exact Cx.
  - exists (name :: lv). destruct s; cbn in *. unfold level_add; cbn. rewrite Lv. reflexivity.
  - destruct s; cbn in *. unfold level_add; cbn. rewrite Lv. exact In.
  - intros x i Hx H. destruct (String.eqb_spec x name) as [->|Nx]; [rewrite sget_sset_eq in Hx; discriminate|].
    rewrite sget_sset_neq in Hx by exact Nx. apply (Kq x i Hx). unfold HasQ in *.
    match type of H with bget _ (qdepth ?S) <> None =>
      assert (Q0 : qdepth S = fold_left (fun d i => bset (name, i) qnode0 d) (range_nat n) (qdepth s))
        by (destruct s; cbn in *; unfold level_add; cbn; rewrite Lv; reflexivity) end.
    rewrite Q0 in H. apply fold_nodes_inv in H as [H|(j & _ & E)]; [exact H|inversion E; congruence].
  - intros x i Hx H. apply (Kc x i Hx). unfold HasC in *. destruct s; cbn in *. unfold level_add in H; cbn in H. rewrite Lv in H. exact H.
Qed.


Definition bit_init_ok (init : option expr) : bool :=
  match init with None => true | Some (ELit (VInt _)) | Some (ELit (VBool _)) => true | _ => false end.

Lemma bit_decl_fix env s name n init fuel :
  Top env s -> fresh_name env name = true -> 1 <= n < 100000 -> bit_init_ok init = true ->
  exists s', vst (S fuel) (SClassicalDecl (TBit (Some (ELit (VInt n)))) name init) s
             = Ok (out_of [SClassicalDecl (TBit (Some (ELit (VInt n)))) name init], s') /\
             Top (mkEnv (e_q env) (sset name n (e_c env)) (e_inc env)) s' /\
             num_qubits s' = num_qubits s /\ num_clbits s' = num_clbits s + n /\ (forall r, dof s' r = dof s r).
Proof.
  intros T F Hn Hi. cbn [visit_stmt visit_stmt_body]. unfold visit_classical_decl.
  assert (Hc : is_constant_name name = false).
  { unfold fresh_name in F. destruct (sget name (e_q env)); [discriminate|]. destruct (sget name (e_c env)); [discriminate|].
    now apply negb_true_iff in F. }
  rewrite Hc. cbn [negb guard]. rewrite (bind_eq _ _ s tt s eq_refl). rewrite (bind_eq _ _ s s s eq_refl).
  rewrite (check_in_scope_fresh env s name T F). cbn [negb orb guard]. rewrite (bind_eq _ _ s tt s eq_refl).
  rewrite (bind_eq _ _ s (VInt n) s eq_refl).
  assert (n <=? 0 = false) as -> by (apply Z.leb_gt; lia). rewrite (bind_eq _ _ s n s eq_refl).
  rewrite (bind_eq _ _ s tt s eq_refl).
  assert (Hinit : exists val, (match init with
            | None => ret (VVBits n, [], None)
            | Some (EArrayLit _) => unm "array initialiser"
            | Some e => '(iv, stmts) <- eval (visit_call check_only [] fuel) e false None;;
                        cv <- assign_value (kind_of_ctype (TBit (Some (ELit (VInt n))))) (Some n) iv;;
                        (let lit := match e, iv with
                                    | ELit (VInt _), _ | ELit (VBool _), _ => Some e
                                    | _, _ => Some (ELit iv)
                                    end in ret (VVScalar cv, stmts, lit))
            end) s = Ok ((val, [], init), s)).
  { destruct init as [e|]; [|exists (VVBits n); reflexivity]. destruct e; try discriminate Hi.
    destruct v as [z| |b|]; try discriminate Hi;
      [exists (VVScalar (VBool (negb (z =? 0))))|exists (VVScalar (VBool b))]; reflexivity. }
  destruct Hinit as (val & Ev). rewrite (bind_eq _ _ s (val, [], init) s Ev).
  rewrite (bind_eq _ _ s s s eq_refl).
  destruct T as [R (g & Sc & Hg) Cx (lv & Lv) In Kq Kc].
  assert (Fq : sget name (e_q env) = None /\ sget name (e_c env) = None).
  { unfold fresh_name in F. destruct (sget name (e_q env)); [discriminate|]. destruct (sget name (e_c env)); [discriminate|]. auto. }
  assert (Hg0 : sget name g = None) by (apply Hg; exact Fq).
  set (v := mkVar (kind_of_ctype (TBit (Some (ELit (VInt n))))) (Some n) (Some [n]) val false true false).
  assert (Ha : add_var s name v = Ok (with_scopes s [g ++ [(name, v)]])).
  { unfold add_var. rewrite Sc. unfold smemk, amem. unfold sget in Hg0. now rewrite Hg0. }
  rewrite Ha. cbn [putres]. rewrite (bind_eq _ _ s tt (with_scopes s [g ++ [(name, v)]]) eq_refl).
  assert (n <? 100000 = true) as -> by (apply Z.ltb_lt; lia). cbn [guard]. rewrite (bind_eq _ _ _ tt _ eq_refl).
  match goal with |- exists s', (modify ?F;;; _) _ = _ /\ _ => rewrite (bind_eq _ _ _ tt (F (with_scopes s [g ++ [(name, v)]])) eq_refl) end.
  eexists. split; [reflexivity|].
  split; [|split; [destruct s; cbn in *; unfold level_add; cbn; rewrite Lv; reflexivity|]; split; [destruct s; cbn in *; unfold level_add; cbn; rewrite Lv; reflexivity|];
           intros [[|] b]; unfold dof; cbn [fst snd]; [destruct s; cbn in *; unfold level_add; cbn; rewrite Lv; reflexivity|];
           unfold cdof;
           match goal with |- match bget b (cdepth ?S) with _ => _ end = _ =>
             assert (Q0 : cdepth S = fold_left (fun d i => bset (name, i) cnode0 d) (range_nat n) (cdepth s))
               by (destruct s; cbn in *; unfold level_add; cbn; rewrite Lv; reflexivity) end;
           rewrite Q0; apply fold_nodes_dof_c; intros i _;
           destruct (bget (name, i) (cdepth s)) eqn:Eb; [exfalso; apply (Kc name i (proj2 Fq)); unfold HasC; congruence|reflexivity]].
  destruct R as [Rq Rc Rg Rf Lq Lc Hq Hc'].
  set (s1 := with_scopes s [g ++ [(name, v)]]).
  split; [split| | | | | |]; cbn [e_q e_c e_inc].
  - destruct s; cbn in *. unfold level_add; cbn. rewrite Lv. cbn. exact Rq.
  - destruct s; cbn in *. unfold level_add; cbn. rewrite Lv. cbn. congruence.
  - destruct s; cbn in *. unfold level_add; cbn. rewrite Lv. cbn. exact Rg.
  - destruct s; cbn in *. unfold level_add; cbn. rewrite Lv. cbn. exact Rf.
  - intros r m Hr. specialize (Lq r m Hr).
    destruct s; cbn in *. unfold level_add, name_in_levels in *; cbn in *. rewrite Lv in *. cbn in *.
    unfold smem in *. cbn. apply orb_true_iff in Lq as [Lq|Lq]; [|discriminate]. now rewrite Lq, !orb_true_r.
  - intros r m Hr. destruct (String.eqb_spec r name) as [->|Nr].
    + destruct s; cbn in *. unfold level_add, name_in_levels; cbn. rewrite Lv. cbn. unfold smem. cbn. now rewrite String.eqb_refl.
    + rewrite sget_sset_neq in Hr by exact Nr. specialize (Lc r m Hr).
      destruct s; cbn in *. unfold level_add, name_in_levels in *; cbn in *. rewrite Lv in *. cbn in *.
      unfold smem in *. cbn. apply orb_true_iff in Lc as [Lc|Lc]; [|discriminate]. now rewrite Lc, !orb_true_r.
  - intros r m i Hr Hi'. specialize (Hq r m i Hr Hi'). unfold HasQ in *.
    destruct s; cbn in *. unfold level_add; cbn. rewrite Lv. cbn. exact Hq.
  - intros r m i Hr Hi'. unfold HasC.
    match goal with |- bget _ (cdepth ?S) <> None =>
      assert (Q : cdepth S = fold_left (fun d i => bset (name, i) cnode0 d) (range_nat n) (cdepth s))
        by (subst s1; destruct s; cbn in *; unfold level_add; cbn; rewrite Lv; reflexivity) end.
    rewrite Q. apply fold_nodes_has.
    destruct (String.eqb_spec r name) as [->|Nr].
    + rewrite sget_sset_eq in Hr. inversion Hr; subst m. right. exists i. split; [now apply in_range_nat|reflexivity].
    + rewrite sget_sset_neq in Hr by exact Nr. left. exact (Hc' r m i Hr Hi').
  - exists (g ++ [(name, v)]). split; [destruct s; cbn in *; unfold level_add; cbn; rewrite Lv; reflexivity|].
    intros x. rewrite sget_app_end. destruct (String.eqb_spec x name) as [->|Nx].
    + rewrite Hg0, sget_sset_eq. split; [discriminate|intros [_ H]; discriminate].
    + rewrite sget_sset_neq by exact Nx. destruct (sget x g) eqn:Ex.
      * split; [discriminate|]. intros H. apply Hg in H. congruence.
      * split; [intros _; now apply Hg|reflexivity].
  - destruct s; cbn in *. unfold level_add; cbn. rewrite Lv. exact Cx.
  - exists (name :: lv). destruct s; cbn in *. unfold level_add; cbn. rewrite Lv. reflexivity.
  - destruct s; cbn in *. unfold level_add; cbn. rewrite Lv. exact In.
  - intros x i Hx H. apply (Kq x i Hx). unfold HasQ in *. destruct s; cbn in *. unfold level_add in H; cbn in H. rewrite Lv in H. exact H.
  - intros x i Hx H. destruct (String.eqb_spec x name) as [->|Nx]; [rewrite sget_sset_eq in Hx; discriminate|].
    rewrite sget_sset_neq in Hx by exact Nx. apply (Kc x i Hx). unfold HasC in *.
    match type of H with bget _ (cdepth ?S) <> None =>
      assert (Q0 : cdepth S = fold_left (fun d i => bset (name, i) cnode0 d) (range_nat n) (cdepth s))
        by (destruct s; cbn in *; unfold level_add; cbn; rewrite Lv; reflexivity) end.
    rewrite Q0 in H. apply fold_nodes_inv in H as [H|(j & _ & E)]; [exact H|inversion E; congruence].
Qed.

End Top.

(* ---------- whole programs ---------- *)
Definition top_step (env : renv) (stm : stmt) : option renv :=
  match stm with
  | SInclude f => if smem f (e_inc env) then None else Some (mkEnv (e_q env) (e_c env) (f :: e_inc env))
  | SQubitDecl name (Some (ELit (VInt n))) =>
      if fresh_name env name && (1 <=? n) && (n <? 100000) then Some (mkEnv (sset name n (e_q env)) (e_c env) (e_inc env)) else None
  | SClassicalDecl (TBit (Some (ELit (VInt n)))) name init =>
      if fresh_name env name && (1 <=? n) && (n <? 100000) && bit_init_ok init
      then Some (mkEnv (e_q env) (sset name n (e_c env)) (e_inc env)) else None
  | _ => if op_ok env stm then Some env else None
  end.

(* well-formed flat program: every statement is an include, a register declaration with a literal size under a fresh
   name, or a flat operation on registers declared BEFORE it *)
Fixpoint wf_flat (env : renv) (l : list stmt) : bool :=
  match l with
  | [] => true
  | stm :: l' => match top_step env stm with Some env' => wf_flat env' l' | None => false end
  end.

Definition env0 : renv := mkEnv [] [] [].

Lemma Top_init : Top env0 init_st.
Proof.
  split; [split; try reflexivity; cbn; intros; discriminate| | | | | |]; cbn.
  - exists []. split; [reflexivity|]. intros x. split; auto.
  - reflexivity.
  - exists []. reflexivity.
  - reflexivity.
  - intros x i _ H. apply H. reflexivity.
  - intros x i _ H. apply H. reflexivity.
Qed.

Definition decl_q (stm : stmt) : Z := match stm with SQubitDecl _ (Some (ELit (VInt n))) => n | _ => 0 end.
Definition decl_c (stm : stmt) : Z := match stm with SClassicalDecl (TBit (Some (ELit (VInt n)))) _ _ => n | _ => 0 end.
Definition total_qubits (l : list stmt) : Z := fold_right (fun x a => decl_q x + a) 0 l.
Definition total_clbits (l : list stmt) : Z := fold_right (fun x a => decl_c x + a) 0 l.

Lemma op_ok_no_decl env stm : op_ok env stm = true -> decl_q stm = 0 /\ decl_c stm = 0.
Proof. destruct stm; cbn [op_ok]; try discriminate; intros _; split; reflexivity. Qed.

Lemma top_fix check_only fuel stm env env' s :
  (sdepth stm < fuel)%nat -> Top env s -> top_step env stm = Some env' ->
  exists s', visit_stmt check_only [] fuel stm s = Ok ((if check_only then [] else [stm]), s') /\ Top env' s' /\
             num_qubits s' = num_qubits s + decl_q stm /\ num_clbits s' = num_clbits s + decl_c stm /\
             Dstep s s' (ev_of stm).
Proof.
  intros Hf T Hs. destruct fuel as [|f]; [lia|].
  assert (Hop : forall e, top_step env stm = (if op_ok env stm then Some env else None) -> e = env' ->
                 exists s', visit_stmt check_only [] (S f) stm s = Ok ((if check_only then [] else [stm]), s') /\ Top env' s' /\
                            num_qubits s' = num_qubits s + decl_q stm /\ num_clbits s' = num_clbits s + decl_c stm /\
                            Dstep s s' (ev_of stm)).
  { intros e Ht _. rewrite Ht in Hs. destruct (op_ok env stm) eqn:Ho; [|discriminate]. inversion Hs; subst env'.
    destruct (op_fix check_only (S f) stm env s Hf (T_regs _ _ T) Ho) as (s' & E & D & Sd).
    destruct (op_ok_no_decl env stm Ho) as [-> ->]. destruct (DE_counts s s' D) as [Nq Nc].
    exists s'. split; [exact E|]. split; [eapply Top_DE; eauto|]. split; [lia|]. split; [lia|exact Sd]. }
  destruct stm; try (apply (Hop env' eq_refl eq_refl)).
  - (* include *)
    cbn [top_step] in Hs. destruct (smem file (e_inc env)) eqn:Ef; [discriminate|]. inversion Hs; subst env'.
    destruct (include_fix check_only env s file f T Ef) as (s' & E & T' & Nq & Nc & Hd).
    exists s'. cbn [decl_q decl_c ev_of]. split; [exact E|]. split; [exact T'|]. split; [lia|]. split; [lia|now apply Dstep_same].
  - (* qubit register *)
    cbn [top_step] in Hs. destruct size as [e|]; [|apply (Hop env' eq_refl eq_refl)].
    destruct e; try (apply (Hop env' eq_refl eq_refl)). destruct v; try (apply (Hop env' eq_refl eq_refl)).
    destruct (fresh_name env name && (1 <=? z) && (z <? 100000)) eqn:Ec; [|discriminate]. inversion Hs; subst env'.
    apply andb_true_iff in Ec as [Ec H2]. apply andb_true_iff in Ec as [H0 H1].
    apply Z.leb_le in H1. apply Z.ltb_lt in H2.
    destruct (qubit_decl_fix check_only env s name z f T H0 (conj H1 H2)) as (s' & E & T' & Nq & Nc & Hd).
    exists s'. cbn [decl_q decl_c ev_of]. split; [exact E|]. split; [exact T'|]. split; [lia|]. split; [lia|now apply Dstep_same].
  - (* bit register *)
    cbn [top_step] in Hs. destruct t; try (apply (Hop env' eq_refl eq_refl)).
    destruct size as [e|]; [|apply (Hop env' eq_refl eq_refl)].
    destruct e; try (apply (Hop env' eq_refl eq_refl)). destruct v; try (apply (Hop env' eq_refl eq_refl)).
    destruct (fresh_name env name && (1 <=? z) && (z <? 100000) && bit_init_ok init) eqn:Ec; [|discriminate]. inversion Hs; subst env'.
    apply andb_true_iff in Ec as [Ec H3]. apply andb_true_iff in Ec as [Ec H2]. apply andb_true_iff in Ec as [H0 H1].
    apply Z.leb_le in H1. apply Z.ltb_lt in H2.
    destruct (bit_decl_fix check_only env s name z init f T H0 (conj H1 H2) H3) as (s' & E & T' & Nq & Nc & Hd).
    exists s'. cbn [decl_q decl_c ev_of]. split; [exact E|]. split; [exact T'|]. split; [lia|]. split; [lia|now apply Dstep_same].
Qed.

Lemma program_fix check_only fuel l : forall env s,
  (ldepth l < fuel)%nat -> Top env s -> wf_flat env l = true ->
  exists s', concatMM (visit_stmt check_only [] fuel) l s = Ok ((if check_only then [] else l), s') /\
             num_qubits s' = num_qubits s + total_qubits l /\ num_clbits s' = num_clbits s + total_clbits l /\
             Dstep s s' (evs_of l).
Proof.
  induction l as [|stm l IH]; intros env s Hf T Hw; cbn [concatMM].
  - exists s. split; [destruct check_only; reflexivity|]. cbn. split; [lia|]. split; [lia|apply Dstep_same; reflexivity].
  - cbn [wf_flat] in Hw. destruct (top_step env stm) as [env'|] eqn:Es; [|discriminate].
    unfold ldepth in Hf. cbn [fold_right] in Hf. fold (ldepth l) in Hf.
    destruct (top_fix check_only fuel stm env env' s) as (s1 & E1 & T1 & Nq1 & Nc1 & S1); [lia|exact T|exact Es|].
    destruct (IH env' s1) as (s2 & E2 & Nq2 & Nc2 & S2); [lia|exact T1|exact Hw|].
    rewrite (bind_eq _ _ s _ s1 E1), (bind_eq _ _ s1 _ s2 E2). exists s2.
    split; [unfold ret; destruct check_only; reflexivity|]. unfold total_qubits, total_clbits in *. cbn [fold_right].
    split; [lia|]. split; [lia|]. unfold evs_of. cbn [flat_map]. eapply Dstep_trans; eauto.
Qed.

(* a global phase of a well-formed flat program has no operands: finalize leaves the program as it is *)
Lemma wf_flat_finalize s l : forall env, wf_flat env l = true -> finalize s l = l.
Proof.
  unfold finalize. induction l as [|stm l IH]; intros env Hw; [reflexivity|].
  cbn [wf_flat] in Hw. destruct (top_step env stm) as [env'|] eqn:Es; [|discriminate].
  cbn [map]. rewrite (IH env' Hw). f_equal.
  destruct stm; try reflexivity. cbn [top_step op_ok] in Es.
  destruct mods; [|discriminate]. destruct arg; try discriminate. destruct qubits; [|discriminate]. cbn.
  destruct (nqlabels s); reflexivity.
Qed.

(* C03, re-load and fixpoint clauses on the model: a well-formed flat program is accepted by validate() and by unroll(),
   and unroll() emits exactly the program itself *)
Theorem wf_flat_is_accepted_and_a_fixpoint fuel p :
  wf_flat env0 p = true -> (ldepth p < fuel)%nat ->
  (exists o, run_visit false true [] fuel p = Ok o /\
             num_qubits (o_state o) = total_qubits p /\ num_clbits (o_state o) = total_clbits p /\
             forall r, dof (o_state o) r = depth_after rsrc_eqb (evs_of p) r) /\
  (exists o, run_visit false false [] fuel p = Ok o /\ o_stmts o = p /\
             num_qubits (o_state o) = total_qubits p /\ num_clbits (o_state o) = total_clbits p /\
             forall r, dof (o_state o) r = depth_after rsrc_eqb (evs_of p) r).
Proof.
  intros Hw Hf. unfold run_visit. cbn [andb].
  destruct (program_fix true fuel p env0 init_st Hf Top_init Hw) as (s1 & E1 & Nq1 & Nc1 & S1).
  destruct (program_fix false fuel p env0 init_st Hf Top_init Hw) as (s2 & E2 & Nq2 & Nc2 & S2).
  rewrite E1, E2. cbn in Nq1, Nc1, Nq2, Nc2.
  assert (N0 : nonneg init_st) by (intros r; destruct r as [[|] b]; cbn; lia).
  assert (D0 : forall evs r, run_evs (dof init_st) evs r = depth_after rsrc_eqb evs r).
  { intros evs r. unfold depth_after. apply run_evs_ext. intros [[|] b]; reflexivity. }
  split; [eexists; split; [reflexivity|cbn [o_state]; split; [assumption|split; [assumption|]]]|].
  - intros r. rewrite (S1 N0 r). apply D0.
  - eexists. split; [reflexivity|]. cbn [o_stmts o_state]. split; [eapply wf_flat_finalize; eauto|].
    split; [assumption|split; [assumption|]]. intros r. rewrite (S2 N0 r). apply D0.
Qed.
