(* Whole-program theorem for programs with FOR LOOPS: a top-level loop  for int i in [a:b] { ops }  over flat operations whose
   qubit / bit indices are literals or the loop variable is unrolled to the operations instantiated at a, a+1, ..., b, in
   order; the result is a well-formed flat program (Lang/FixProofs.v), so everything proved there (re-acceptance,
   fixpoint, counts, depth) applies to what unroll() emitted.  No bound on the number of loops, of iterations (below the
   model's 100000 cap) or of operations. *)
From Coq Require Import ZArith List Bool String Lia.
From Verif Require Import Aexp BGate PyVal CastPrim Ast State GatesGen GateLib Unroll Depth DepthModel ExprProofs FixProofs.
Import ListNotations.
Open Scope Z_scope.

(* ---------- the state inside a loop body: one block scope holding the loop variable ---------- *)
Definition loop_var (v : Z) : var := mkVar KInt (Some 32) (Some []) (VVScalar (VInt v)) false false false.

Record InLoop (x : string) (v : Z) (s : st) : Prop := {
  IL_sc : exists g, scopes s = [[(x, loop_var v)]; g];
  IL_cx : ctxs s = [CBlock; CGlobal];
  IL_nc : is_constant_name x = false
}.

Lemma InLoop_DE x v s s' : InLoop x v s -> DE s s' -> InLoop x v s'.
Proof.
  intros [Sc Cx Nc] D. pose proof (de_core _ _ D) as E. core_eq E s s'.
  split; [rewrite <- G6, F6; exact Sc|congruence|exact Nc].
Qed.

Lemma get_visible_loop x v s : InLoop x v s -> get_visible s x = Some (loop_var v).
Proof.
  intros [[g Sc] Cx Nc]. unfold get_visible, in_global, in_function, in_gate, in_block, nscopes, top_ctx, curr_scope, global_scope.
  rewrite Sc, Cx. cbn [List.length Nat.eqb Nat.ltb Nat.leb hd andb orb ctx_eqb combine block_walk negb].
  unfold sget. cbn [aget]. now rewrite String.eqb_refl.
Qed.

Section Ops.
Variable check_only : bool.
Variable visit_rec : stmt -> M (list stmt).
Variable call_rec : string -> list expr -> M (pyval * list stmt).

Lemma eval_loop_var x v s : InLoop x v s -> eval0 call_rec (EId x) false None s = Ok (VInt v, s).
Proof.
  intros L. unfold eval0. cbn [eval]. rewrite (IL_nc _ _ _ L).
  unfold process_variable. rewrite (bind_eq _ _ s (VInt v, []) s); [reflexivity|].
  rewrite (bind_eq _ _ s (VInt v) s); [reflexivity|].
  rewrite (bind_eq _ _ s s s eq_refl). unfold check_in_scope. rewrite (get_visible_loop x v s L).
  cbn [guard]. rewrite (bind_eq _ _ s tt s eq_refl). cbn [loop_var v_const v_kind v_val andb negb guard].
  rewrite !(bind_eq _ _ s tt s eq_refl). reflexivity.
Qed.

(* an operand indexed by the loop variable resolves to the bit the variable's value names *)
Lemma resolve_loop_var env s (is_q : bool) x v r n :
  Regs env s -> InLoop x v s -> sget r (if is_q then e_q env else e_c env) = Some n -> 0 <= v < n ->
  resolve_one call_rec (QIdx r [IdxList [IExpr (EId x)]]) (if is_q then qreg_sizes s else creg_sizes s) is_q s = Ok ([(r, v)], s).
Proof.
  intros R L Hs Hi. unfold resolve_one, qarg_name.
  rewrite (bind_eq _ _ s s s eq_refl).
  assert (Hm : sget r (if is_q then qreg_sizes s else creg_sizes s) = Some n).
  { destruct is_q; [rewrite (R_q _ _ R)|rewrite (R_c _ _ R)]; exact Hs. }
  rewrite Hm. rewrite (bind_eq _ _ s (false, if is_q then qreg_sizes s else creg_sizes s) s eq_refl).
  assert (Hl : name_in_levels s r = true).
  { destruct is_q; [eapply R_lvq|eapply R_lvc]; eauto. }
  rewrite Hl. cbn [guard]. rewrite (bind_eq _ _ s tt s eq_refl). rewrite Hm.
  rewrite (bind_eq _ _ s [v] s); [reflexivity|].
  rewrite (bind_eq _ _ s (VInt v) s (eval_loop_var x v s L)).
  assert (Hb : (0 <=? v) && (v <? n) = true) by (apply andb_true_iff; split; [apply Z.leb_le|apply Z.ltb_lt]; lia).
  cbv [bindM ret num_of_bool as_index validate_index verr fail]. rewrite Hb. reflexivity.
Qed.

(* instantiation of an operand at a value of the loop variable *)
Definition inst_q (x : string) (v : Z) (q : qarg) : qarg :=
  match q with
  | QIdx r [IdxList [IExpr (EId y)]] => if String.eqb y x then qarg_of (r, v) else q
  | _ => q
  end.

Lemma inst_q_cases x v q b : lit_bit (inst_q x v q) = Some b ->
  q = qarg_of b \/ (q = QIdx (fst b) [IdxList [IExpr (EId x)]] /\ snd b = v).
Proof.
  intros H.
  assert (K : inst_q x v q = q -> q = qarg_of b) by (intros E; rewrite E in H; now apply lit_bit_qarg_of).
  destruct q as [y|r idx]; [discriminate H|].
  destruct idx as [|[vals|items] idx']; try solve [left; apply K; reflexivity].
  destruct items as [|[e|a0 b0 c0] items']; try solve [left; apply K; reflexivity].
  destruct e; try solve [left; apply K; reflexivity].
  destruct items' as [|it' items']; [|left; apply K; reflexivity].
  destruct idx' as [|i1 idx']; [|left; apply K; reflexivity].
  cbn [inst_q] in H, K. destruct (String.eqb x0 x) eqn:E; [|left; apply K; reflexivity].
  apply String.eqb_eq in E. subst x0. rewrite lit_bit_of in H. injection H as <-. right. split; reflexivity.
Qed.

Lemma loop_operands env s (is_q : bool) x v qs : forall bs acc,
  Regs env s -> InLoop x v s -> mapM lit_bit (map (inst_q x v) qs) = Some bs ->
  forallb (in_reg (if is_q then e_q env else e_c env)) bs = true -> distinctb acc bs = true ->
  gob call_rec (if is_q then qreg_sizes s else creg_sizes s) is_q qs acc s = Ok (acc ++ bs, s).
Proof.
  induction qs as [|q qs IH]; intros bs acc R L Hm Hin Hd; cbn [map mapM] in Hm.
  - injection Hm as <-. cbn [gob]. unfold ret. now rewrite app_nil_r.
  - destruct (lit_bit (inst_q x v q)) as [b|] eqn:Eb; [|discriminate Hm].
    destruct (mapM lit_bit (map (inst_q x v) qs)) as [bs'|] eqn:Em; [|discriminate Hm]. injection Hm as <-.
    cbn [forallb] in Hin. apply andb_true_iff in Hin as [Hb Hin]. destruct b as [r i]. unfold in_reg in Hb. cbn [fst snd] in Hb.
    destruct (sget r (if is_q then e_q env else e_c env)) as [n|] eqn:Hs; [|discriminate].
    apply andb_true_iff in Hb as [H0 H1]. apply Z.leb_le in H0. apply Z.ltb_lt in H1.
    cbn [distinctb] in Hd. apply andb_true_iff in Hd as [Hn Hd]. apply negb_true_iff in Hn.
    cbn [gob].
    assert (Er : resolve_one call_rec q (if is_q then qreg_sizes s else creg_sizes s) is_q s = Ok ([(r, i)], s)).
    { destruct (inst_q_cases x v q (r, i) Eb) as [->|[-> Hv]].
      - eapply resolve_literal; eauto; lia.
      - cbn [fst snd] in *. subst i. eapply resolve_loop_var; eauto; lia. }
    rewrite (bind_eq _ _ s [(r, i)] s Er).
    cbn [dedup_check]. rewrite Hn. cbn [guard]. rewrite (bind_eq _ _ s tt s eq_refl).
    rewrite (IH bs' (acc ++ [(r, i)]) R L eq_refl Hin Hd). now rewrite <- app_assoc.
Qed.

Lemma get_op_bits_loop env s (is_q : bool) x v qs bs :
  Regs env s -> InLoop x v s -> mapM lit_bit (map (inst_q x v) qs) = Some bs ->
  forallb (in_reg (if is_q then e_q env else e_c env)) bs = true -> distinctb [] bs = true ->
  get_op_bits call_rec qs (if is_q then qreg_sizes s else creg_sizes s) is_q s = Ok (bs, s).
Proof. intros R L Hm Hin Hd. rewrite get_op_bits_gob. now rewrite (loop_operands env s is_q x v qs bs [] R L Hm Hin Hd). Qed.
End Ops.

(* ---------- the operations of a loop body: emitted instantiated at the variable's value ---------- *)
Section BodyOps.
Variable check_only : bool.
Variable visit_rec : stmt -> M (list stmt).
Variable call_rec : string -> list expr -> M (pyval * list stmt).

Lemma one_operand x v q b : lit_bit (inst_q x v q) = Some b -> mapM lit_bit (map (inst_q x v) [q]) = Some [b].
Proof. intros H. cbn [map mapM]. now rewrite H. Qed.

Lemma reset_loop env s x v q b : Regs env s -> InLoop x v s -> lit_bit (inst_q x v q) = Some b -> in_reg (e_q env) b = true ->
  emits check_only (SReset (qarg_of b)) (visit_reset check_only call_rec [q]) s.
Proof.
  intros R L Hq Hb. unfold visit_reset, emits.
  rewrite (bind_eq _ _ s s s eq_refl). rewrite (in_some_function_false env s R).
  rewrite (bind_eq _ _ s [q] s eq_refl). rewrite (bind_eq _ _ s s s eq_refl).
  pose proof (get_op_bits_loop call_rec env s true x v [q] [b] R L (one_operand x v q b Hq)) as G.
  cbn [map forallb distinctb existsb negb andb] in G.
  rewrite Hb in G. rewrite (bind_eq _ _ s [b] s (G eq_refl eq_refl)).
  destruct (iter_nodes_ok reset_upd [b] s) as ([] & s1 & E1 & D1).
  { intros b' [<-|[]]. eapply HasQ_of; eauto. }
  unfold depth_reset. rewrite (bind_eq _ _ s tt s1 E1). exists s1. split; [reflexivity|]. split; [exact D1|].
  cbn [ev_of]. rewrite lit_bit_of. apply Dstep_one. intros N. apply reset1_is_dstep; [exact N|].
  cbn [iterM] in E1. unfold upd1. unfold bindM in E1 |- *.
  destruct (get_qnode b s) as [[qn sq]|]; [|discriminate E1]. destruct (set_qnode b (reset_upd qn) sq) as [[[] sr]|]; [|discriminate E1].
  unfold ret in E1. exact E1.
Qed.

Lemma barrier_loop env s x v q b : Regs env s -> InLoop x v s -> lit_bit (inst_q x v q) = Some b -> in_reg (e_q env) b = true ->
  emits check_only (SBarrier [qarg_of b]) (visit_barrier check_only call_rec [q]) s.
Proof.
  intros R L Hq Hb. unfold visit_barrier, emits.
  rewrite (bind_eq _ _ s s s eq_refl). rewrite (in_some_function_false env s R).
  rewrite (bind_eq _ _ s [q] s eq_refl). rewrite (bind_eq _ _ s s s eq_refl).
  pose proof (get_op_bits_loop call_rec env s true x v [q] [b] R L (one_operand x v q b Hq)) as G.
  cbn [map forallb distinctb existsb negb andb] in G.
  rewrite Hb in G. rewrite (bind_eq _ _ s [b] s (G eq_refl eq_refl)).
  destruct (depth_two_pass_ok barrier_upd [b] s) as ([] & s1 & E1 & D1).
  { intros b' [<-|[]]. eapply HasQ_of; eauto. }
  unfold depth_barrier. rewrite (bind_eq _ _ s tt s1 E1). exists s1. split; [reflexivity|]. split; [exact D1|].
  cbn [ev_of]. rewrite lit_bit_of. apply Dstep_one. intros N.
  apply (barrier_is_dstep [b] s s1); [constructor; [intros []|constructor]|exact N|exact E1].
Qed.

Lemma inst_q_name x v q : qarg_name (inst_q x v q) = qarg_name q.
Proof.
  destruct q as [y|r idx]; [reflexivity|].
  destruct idx as [|[vals|items] idx']; try reflexivity.
  destruct items as [|[e|a0 b0 c0] items']; try reflexivity.
  destruct e; try reflexivity.
  destruct items' as [|it' items']; [|reflexivity].
  destruct idx' as [|i1 idx']; [|reflexivity].
  cbn [inst_q]. destruct (String.eqb x0 x); reflexivity.
Qed.

Lemma lit_bit_name q b : lit_bit q = Some b -> qarg_name q = fst b.
Proof. intros H. apply lit_bit_qarg_of in H. subst q. destruct b; reflexivity. Qed.

Lemma measure_loop env s x v q c bq bc : Regs env s -> InLoop x v s ->
  lit_bit (inst_q x v q) = Some bq -> lit_bit (inst_q x v c) = Some bc ->
  in_reg (e_q env) bq = true -> in_reg (e_c env) bc = true ->
  emits check_only (SMeasure (qarg_of bq) (Some (qarg_of bc))) (visit_measure check_only call_rec q (Some c)) s.
Proof.
  intros R L Lq Lc Hq Hc. unfold visit_measure, emits.
  rewrite (bind_eq _ _ s s s eq_refl).
  assert (Mq : smemk (qarg_name q) (qreg_sizes s) = true).
  { rewrite <- (inst_q_name x v q), (lit_bit_name _ _ Lq). rewrite (R_q _ _ R). unfold in_reg in Hq.
    destruct (sget (fst bq) (e_q env)) eqn:E; [|discriminate]. eapply smemk_of; eauto. }
  assert (Mc : smemk (qarg_name c) (creg_sizes s) = true).
  { rewrite <- (inst_q_name x v c), (lit_bit_name _ _ Lc). rewrite (R_c _ _ R). unfold in_reg in Hc.
    destruct (sget (fst bc) (e_c env)) eqn:E; [|discriminate]. eapply smemk_of; eauto. }
  rewrite Mq, Mc. cbn [guard]. rewrite !(bind_eq _ _ s tt s eq_refl).
  pose proof (get_op_bits_loop call_rec env s true x v [q] [bq] R L (one_operand x v q bq Lq)) as G.
  cbn [map forallb distinctb existsb negb andb] in G.
  rewrite Hq in G. rewrite (bind_eq _ _ s [bq] s (G eq_refl eq_refl)).
  rewrite (bind_eq _ _ s s s eq_refl).
  pose proof (get_op_bits_loop call_rec env s false x v [c] [bc] R L (one_operand x v c bc Lc)) as G2.
  cbn [map forallb distinctb existsb negb andb] in G2.
  rewrite Hc in G2. rewrite (bind_eq _ _ s [bc] s (G2 eq_refl eq_refl)).
  cbn [List.length Nat.eqb guard combine]. rewrite (bind_eq _ _ s tt s eq_refl).
  destruct (depth_measure_pair_ok bq bc s) as ([] & s1 & E1 & D1); [eapply HasQ_of; eauto|eapply HasC_of; eauto|].
  cbn [iterM]. rewrite (bind_eq _ _ s tt s1); [|rewrite (bind_eq _ _ s tt s1 E1); reflexivity].
  exists s1. split; [reflexivity|]. split; [exact D1|].
  cbn [ev_of]. rewrite !lit_bit_of. apply Dstep_one. intros N. now apply measure_pair_is_dstep.
Qed.

Lemma gate_loop env s x v name vs qs bs np k :
  Regs env s -> InLoop x v s -> assoc name self_basis = Some (np, k) -> List.length vs = np -> List.length bs = k ->
  forallb num_val vs = true -> mapM lit_bit (map (inst_q x v) qs) = Some bs ->
  forallb (in_reg (e_q env)) bs = true -> distinctb [] bs = true ->
  emits check_only (SGate [] name (map ELit vs) (map qarg_of bs))
        (visit_generic_gate check_only [] visit_rec call_rec [] name (map ELit vs) qs) s.
Proof.
  intros R L Hn Hv Hb Hnum Hm Hin Hd.
  destruct (self_basis_lowering name np k Hn) as (d & np' & f & Hl & Hk & Hf).
  unfold visit_generic_gate, emits. cbn [collapse_mods]. rewrite (bind_eq _ _ s (VInt 1, false) s eq_refl).
  rewrite (bind_eq _ _ s s s eq_refl). rewrite (in_some_function_false env s R), andb_false_r.
  rewrite (bind_eq _ _ s qs s eq_refl). rewrite (bind_eq _ _ s 1 s eq_refl).
  cbn [Z.ltb Z.compare guard]. rewrite (bind_eq _ _ s tt s eq_refl).
  change (Z.to_nat 1) with 1%nat. cbn [repeatM].
  assert (Hbasic : exists s1, visit_basic_gate check_only call_rec name (map ELit vs) qs false s
                              = Ok ((if check_only then [] else [SGate [] name (map ELit vs) (map qarg_of bs)]), s1) /\ DE s s1 /\
                              Dstep s s1 [map Qr bs]).
  { unfold visit_basic_gate. cbn [negb]. rewrite Hl.
    rewrite (bind_eq _ _ s (Some (d, np', f), k, false) s eq_refl).
    assert (Hp : (match map ELit vs with
                  | [] => ret []
                  | _ :: _ => ps <- get_op_parameters call_rec (map ELit vs);;
                              (if false then mapMM (fun p => lift (py_binop OpMul (VInt (-1)) p)) ps else ret ps)
                  end) s = Ok (vs, s)).
    { destruct vs as [|v0 vs']; [reflexivity|]. change (map ELit (v0 :: vs')) with (ELit v0 :: map ELit vs') at 1.
      cbv iota. rewrite (bind_eq _ _ s (v0 :: vs') s (op_parameters_literals call_rec (v0 :: vs') s Hnum)). reflexivity. }
    rewrite (bind_eq _ _ s vs s Hp).
    assert (Ht : unroll_targets call_rec qs k s = Ok ([bs], s)).
    { unfold unroll_targets. rewrite (bind_eq _ _ s s s eq_refl).
      pose proof (get_op_bits_loop call_rec env s true x v qs bs R L Hm Hin Hd) as G. cbn iota in G.
      rewrite (bind_eq _ _ s bs s G). destruct k as [|k']; [lia|]. rewrite Hb, Nat.mod_same by lia.
      cbn [Nat.eqb guard]. rewrite (bind_eq _ _ s tt s eq_refl). rewrite chunks_single by (auto; lia). reflexivity. }
    rewrite (bind_eq _ _ s [bs] s Ht).
    cbn [concatMM]. rewrite (Hf vs bs Hv Hb). cbn [mapR stmt_of_bgate].
    pose proof (interp_vars [] vs) as Hi. cbn [app List.length] in Hi. rewrite Hi. cbn [bind lift].
    rewrite (bind_eq _ _ s [SGate [] name (map ELit vs) (map qarg_of bs)] s eq_refl).
    destruct (depth_two_pass_ok gate_upd bs s) as ([] & s1 & E1 & D1).
    { intros b Hbn. eapply HasQ_of; eauto. eapply forallb_forall in Hin; eauto. }
    unfold update_depth_for_gate. cbn [iterM]. unfold depth_gate_subset.
    rewrite (bind_eq _ _ s tt s1); [|rewrite (bind_eq _ _ s tt s1 E1); reflexivity].
    exists s1. split; [reflexivity|]. split; [exact D1|]. apply Dstep_one. intros N.
    apply (gate_subset_is_dstep bs s s1); [exact (proj1 (distinctb_NoDup bs [] Hd))|exact N|exact E1]. }
  destruct Hbasic as (s1 & Eb & D1 & S1).
  rewrite (bind_eq _ _ s (if check_only then [] else [SGate [] name (map ELit vs) (map qarg_of bs)]) s1).
  2:{ rewrite (bind_eq _ _ s (if check_only then [] else [SGate [] name (map ELit vs) (map qarg_of bs)]) s1).
      - rewrite (bind_eq _ _ s1 [] s1 eq_refl). unfold ret. now rewrite app_nil_r.
      - rewrite (bind_eq _ _ s s s eq_refl). cbn [smem existsb]. rewrite (R_gates _ _ R name np k Hn). exact Eb. }
  exists s1. split; [unfold emit, ret; destruct check_only; reflexivity|]. split; [exact D1|].
  cbn [ev_of]. now rewrite mapM_lit_bit_of.
Qed.
End BodyOps.

(* ---------- a statement of the body, instantiated ---------- *)
Definition inst (x : string) (v : Z) (stm : stmt) : stmt :=
  match stm with
  | SGate mods name args qs => SGate mods name args (map (inst_q x v) qs)
  | SReset q => SReset (inst_q x v q)
  | SBarrier qs => SBarrier (map (inst_q x v) qs)
  | SMeasure q (Some c) => SMeasure (inst_q x v q) (Some (inst_q x v c))
  | _ => stm
  end.

Definition simple_op (stm : stmt) : bool :=
  match stm with SGate _ _ _ _ | SPhase _ _ _ | SReset _ | SBarrier _ | SMeasure _ _ => true | _ => false end.

Lemma body_op check_only f stm env s x v :
  Regs env s -> InLoop x v s -> simple_op stm = true -> op_ok env (inst x v stm) = true ->
  emits check_only (inst x v stm) (visit_stmt check_only [] (S f) stm) s.
Proof.
  intros R L Hs Hok. cbn [visit_stmt]. set (vr := visit_stmt check_only [] f). set (cr := visit_call check_only [] f).
  destruct stm; try discriminate Hs; cbn [visit_stmt_body inst] in *.
  - (* gate *)
    cbn [op_ok] in Hok. destruct mods; [|discriminate Hok].
    destruct (mapM lit_bit (map (inst_q x v) qubits)) as [bs|] eqn:Eb; [|discriminate Hok].
    destruct (mapM lit_num args) as [vs|] eqn:Ev; [|discriminate Hok].
    destruct (assoc name self_basis) as [[np k]|] eqn:En; [|discriminate Hok].
    apply andb_true_iff in Hok as [Hok Hd]. apply andb_true_iff in Hok as [Hok Hin]. apply andb_true_iff in Hok as [Hv Hb].
    apply Nat.eqb_eq in Hv, Hb. rewrite (mapM_lit_bit _ _ Eb). apply mapM_lit_num in Ev as [-> Hn].
    eapply gate_loop; eauto.
  - (* gphase *)
    cbn [op_ok] in Hok. destruct mods; [|discriminate Hok]. destruct arg; try discriminate Hok.
    destruct qubits; [|discriminate Hok]. exists s. split; [now apply phase_fix|]. split; [apply DE_refl|apply Dstep_same; reflexivity].
  - (* measure *)
    destruct target as [t|]; [|discriminate Hok]. cbn [op_ok] in Hok.
    destruct (lit_bit (inst_q x v q)) as [a|] eqn:Ea; [|discriminate Hok]. destruct (lit_bit (inst_q x v t)) as [b|] eqn:Eb; [|discriminate Hok].
    apply andb_true_iff in Hok as [Ha Hb]. rewrite (lit_bit_qarg_of _ a Ea), (lit_bit_qarg_of _ b Eb).
    eapply measure_loop; eauto.
  - (* reset *)
    cbn [op_ok] in Hok. destruct (lit_bit (inst_q x v q)) as [a|] eqn:Ea; [|discriminate Hok].
    rewrite (lit_bit_qarg_of _ a Ea). eapply reset_loop; eauto.
  - (* barrier *)
    cbn [op_ok] in Hok. destruct qs as [|q [|]]; try discriminate Hok. cbn [map] in *.
    destruct (lit_bit (inst_q x v q)) as [a|] eqn:Ea; [|discriminate Hok].
    rewrite (lit_bit_qarg_of _ a Ea). eapply barrier_loop; eauto.
Qed.

(* the body: every statement emitted instantiated, in order *)
Lemma body_block check_only f x v env body : forall s,
  Regs env s -> InLoop x v s -> forallb simple_op body = true -> forallb (fun stm => op_ok env (inst x v stm)) body = true ->
  exists s', concatMM (visit_stmt check_only [] (S f)) body s = Ok ((if check_only then [] else map (inst x v) body), s') /\
             DE s s' /\ Dstep s s' (evs_of (map (inst x v) body)).
Proof.
  induction body as [|stm body IH]; intros s R L Hs Hok.
  - exists s. split; [destruct check_only; reflexivity|]. split; [apply DE_refl|apply Dstep_same; reflexivity].
  - cbn [forallb] in Hs, Hok. apply andb_true_iff in Hs as [Hs1 Hs]. apply andb_true_iff in Hok as [Hok1 Hok].
    destruct (body_op check_only f stm env s x v R L Hs1 Hok1) as (s1 & E1 & D1 & S1).
    destruct (IH s1 (Regs_DE _ _ _ R D1) (InLoop_DE _ _ _ _ L D1) Hs Hok) as (s2 & E2 & D2 & S2).
    cbn [concatMM]. rewrite (bind_eq _ _ s _ s1 E1), (bind_eq _ _ s1 _ s2 E2). exists s2.
    split; [unfold ret; destruct check_only; reflexivity|]. split; [eapply DE_trans; eauto|].
    cbn [map]. unfold evs_of. cbn [flat_map]. eapply Dstep_trans; eauto.
Qed.

(* ---------- the loop ---------- *)
Definition zrange (a b : Z) : list Z := map (fun k => a + Z.of_nat k) (seq 0 (Z.to_nat (b - a + 1))).

Lemma py_range_literal a b : b - a + 1 <= 100000 -> py_range a (b + 1) 1 = Ok (zrange a b).
Proof.
  intros H. unfold py_range, zrange. cbn [Z.eqb Z.ltb Z.compare].
  replace ((b + 1 - a + 1 - 1) / 1) with (b - a + 1) by (rewrite Z.div_1_r; lia).
  destruct (Z.max_spec 0 (b - a + 1)) as [[Hlt ->]|[Hge ->]].
  - assert (100000 <? b - a + 1 = false) as -> by (apply Z.ltb_ge; lia).
    f_equal. apply map_ext. intros k. lia.
  - cbn [Z.ltb Z.compare]. replace (Z.to_nat (b - a + 1)) with O by lia. reflexivity.
Qed.

Lemma for_values_literal call_rec a b s : b - a + 1 <= 100000 ->
  for_values call_rec (FRange (Some (ELit (VInt a))) (Some (ELit (VInt b))) None) s
  = Ok ((Some (ELit (VInt a)), map VInt (zrange a b)), s).
Proof.
  intros H. unfold for_values, eval_opt, eval0. cbn [eval].
  rewrite (bind_eq _ _ s (VInt a) s eq_refl). rewrite (bind_eq _ _ s (VInt 1) s eq_refl).
  rewrite (bind_eq _ _ s (VInt b) s eq_refl). rewrite (bind_eq _ _ s (VBool true) s eq_refl).
  rewrite (bind_eq _ _ s (VInt (b + 1)) s eq_refl).
  rewrite (bind_eq _ _ s a s eq_refl). rewrite (bind_eq _ _ s (b + 1) s eq_refl). rewrite (bind_eq _ _ s 1 s eq_refl).
  unfold lift. rewrite (py_range_literal a b H). reflexivity.
Qed.

Definition int32 (z : Z) : bool := (-2147483648 <=? z) && (z <=? 2147483647).
Lemma int32_store z : int32 z = true -> cast_value KInt (Some 32) (VInt z) = Ok (VInt z).
Proof.
  intros H. apply andb_true_iff in H as [H0 H1]. apply Z.leb_le in H0, H1.
  apply store_int_in_range; [lia|]. change (2 ^ (32 - 1)) with 2147483648. lia.
Qed.

Definition lpush (s : st) (x : string) (v : Z) : st := with_scopes (push_ctx CBlock s) ([(x, loop_var v)] :: scopes s).
Definition lpop (s : st) : st := pop_ctx (pop_scope s).

Lemma decl_loop_var co call_rec env x a s : Top env s -> is_constant_name x = false -> int32 a = true ->
  visit_classical_decl co call_rec (TInt None) x (Some (ELit (VInt a))) (push_scope (push_ctx CBlock s)) = Ok ([], lpush s x a).
Proof.
  intros T Nc Ha. destruct (T_sc _ _ T) as (g & Sc & _). pose proof (T_ctx _ _ T) as Cx.
  set (s1 := push_scope (push_ctx CBlock s)).
  assert (Sc1 : scopes s1 = [[]; g]) by (unfold s1, push_scope, push_ctx; destruct s; cbn in *; now rewrite Sc).
  assert (Cx1 : ctxs s1 = [CBlock; CGlobal]) by (unfold s1, push_scope, push_ctx; destruct s; cbn in *; now rewrite Cx).
  unfold visit_classical_decl. rewrite Nc. cbn [negb guard]. rewrite (bind_eq _ _ s1 tt s1 eq_refl).
  rewrite (bind_eq _ _ s1 s1 s1 eq_refl).
  assert (G : negb (check_in_scope s1 x) || in_block s1 && negb (smemk x (curr_scope s1)) = true).
  { apply orb_true_iff. right. unfold in_block, nscopes, top_ctx, curr_scope. rewrite Sc1, Cx1. reflexivity. }
  rewrite G. cbn [guard]. rewrite (bind_eq _ _ s1 tt s1 eq_refl).
  unfold eval_base_size. cbn [size_of_ctype]. rewrite (bind_eq _ _ s1 (VInt 32) s1 eq_refl).
  cbn [Z.leb Z.compare]. rewrite (bind_eq _ _ s1 32 s1 eq_refl). rewrite (bind_eq _ _ s1 tt s1 eq_refl).
  cbn [kind_of_ctype].
  rewrite (bind_eq _ _ s1 (VVScalar (VInt a), [], Some (ELit (VInt a))) s1).
  2:{ cbn [eval]. rewrite (bind_eq _ _ s1 (VInt a, []) s1 eq_refl).
      unfold assign_value, lift. rewrite (int32_store a Ha). reflexivity. }
  rewrite (bind_eq _ _ s1 s1 s1 eq_refl).
  rewrite (bind_eq _ _ s1 tt (lpush s x a)).
  2:{ unfold putres, add_var. rewrite Sc1. cbn [smemk amem aget app]. unfold lpush, loop_var.
      unfold s1, push_scope, push_ctx. destruct s; cbn in *. now rewrite Sc. }
  unfold emit, ret. destruct co; reflexivity.
Qed.

Lemma scopes_lpush s x v : scopes (lpush s x v) = [(x, loop_var v)] :: scopes s.
Proof. destruct s; reflexivity. Qed.
Lemma ctxs_lpush s x v : ctxs (lpush s x v) = CBlock :: ctxs s.
Proof. destruct s; reflexivity. Qed.
Lemma lpush_rescope s x a v : with_scopes (lpush s x a) ([(x, loop_var v)] :: scopes s) = lpush s x v.
Proof. destruct s; reflexivity. Qed.

Lemma InLoop_lpush env s x v : Top env s -> is_constant_name x = false -> InLoop x v (lpush s x v).
Proof.
  intros T Nc. destruct (T_sc _ _ T) as (g & Sc & _). pose proof (T_ctx _ _ T) as Cx.
  split; [exists g; rewrite scopes_lpush, Sc; reflexivity|rewrite ctxs_lpush, Cx; reflexivity|exact Nc].
Qed.

Lemma Regs_lpush env s x v : Regs env s -> Regs env (lpush s x v).
Proof.
  intros [Rq Rc Rg Rf Lq Lc Hq Hc]. unfold lpush, push_ctx.
  split; try (destruct s; assumption); eauto.
Qed.

Lemma bind_loop_var env s x a v : Top env s -> is_constant_name x = false -> int32 v = true ->
  (match get_visible (lpush s x a) x with
   | Some x0 => cv <- assign_value (v_kind x0) (v_size x0) (VInt v);; modify (fun s1 => update_var s1 x (set_val x0 (VVScalar cv)))
   | None => ret tt
   end) (lpush s x a) = Ok (tt, lpush s x v).
Proof.
  intros T Nc Hv.
  rewrite (get_visible_loop x a _ (InLoop_lpush env s x a T Nc)). cbn [loop_var v_kind v_size].
  rewrite (bind_eq _ _ (lpush s x a) (VInt v) (lpush s x a)); [|unfold assign_value, lift; now rewrite (int32_store v Hv)].
  unfold modify. f_equal. f_equal.
  destruct (T_sc _ _ T) as (g & Sc & _). pose proof (T_ctx _ _ T) as Cx.
  unfold update_var, in_global, in_function, in_gate, in_block, nscopes, top_ctx.
  rewrite scopes_lpush, ctxs_lpush, Sc, Cx. cbn [List.length Nat.eqb Nat.ltb Nat.leb hd andb orb ctx_eqb block_update negb].
  unfold smemk, amem, sset. cbn [aget aset]. rewrite String.eqb_refl. cbn [aset set_val loop_var v_kind v_size v_dims v_const v_reg v_ro].
  rewrite <- Sc. apply lpush_rescope.
Qed.

Lemma DE_lpop s x v s4 : DE (lpush s x v) s4 -> DE s (lpop s4).
Proof.
  intros [E Dq Dc Dq' Dc']. split.
  - transitivity (lpop (nodepth s4)); [destruct s4; reflexivity|]. rewrite E. destruct s; reflexivity.
  - intros b H. assert (HasQ (lpush s x v) b) as H' by (destruct s; exact H). apply Dq in H'. destruct s4; exact H'.
  - intros b H. assert (HasC (lpush s x v) b) as H' by (destruct s; exact H). apply Dc in H'. destruct s4; exact H'.
  - intros b H. assert (HasQ s4 b) as H' by (destruct s4; exact H). apply Dq' in H'. destruct s; exact H'.
  - intros b H. assert (HasC s4 b) as H' by (destruct s4; exact H). apply Dc' in H'. destruct s; exact H'.
Qed.

Lemma dof_lpush s x v r : dof (lpush s x v) r = dof s r.
Proof. destruct s; reflexivity. Qed.
Lemma dof_lpop s r : dof (lpop s) r = dof s r.
Proof. destruct s; reflexivity. Qed.

Definition instances (x : string) (body : list stmt) (vals : list Z) : list stmt :=
  flat_map (fun v => map (inst x v) body) vals.

(* unroll(): the iterations, one after the other, each in a fresh block scope that is dropped afterwards *)
Lemma loop_iterations f x a env body : forall vals s,
  Top env s -> is_constant_name x = false -> int32 a = true -> forallb simple_op body = true ->
  (forall v, In v vals -> int32 v = true /\ forallb (fun stm => op_ok env (inst x v stm)) body = true) ->
  exists s',
    (fix go (vals0 : list pyval) : M (list stmt) :=
       match vals0 with
       | [] => ret []
       | v :: vals' =>
           modify (fun s0 : st => push_scope (push_ctx CBlock s0));;;
           d <- visit_classical_decl false (visit_call false [] (S f)) (TInt None) x (Some (ELit (VInt a)));;
           s0 <- getst;;
           match get_visible s0 x with
           | Some x0 => cv <- assign_value (v_kind x0) (v_size x0) v;; modify (fun s1 : st => update_var s1 x (set_val x0 (VVScalar cv)))
           | None => ret tt
           end;;;
           b0 <- visit_block (visit_stmt false [] (S f)) body;;
           modify (fun s1 : st => pop_ctx (pop_scope s1));;;
           rest <- go vals';; ret (d ++ b0 ++ rest)
       end) (map VInt vals) s = Ok (instances x body vals, s') /\
    DE s s' /\ Dstep s s' (evs_of (instances x body vals)).
Proof.
  induction vals as [|v vals IH]; intros s T Nc Ha Hs Hv.
  - exists s. split; [reflexivity|]. split; [apply DE_refl|apply Dstep_same; reflexivity].
  - destruct (Hv v (or_introl eq_refl)) as [Iv Okv].
    cbn [map]. cbv beta iota.
    rewrite (bind_eq _ _ s tt (push_scope (push_ctx CBlock s)) eq_refl).
    rewrite (bind_eq _ _ _ [] (lpush s x a) (decl_loop_var false _ env x a s T Nc Ha)).
    rewrite (bind_eq _ _ (lpush s x a) (lpush s x a) (lpush s x a) eq_refl).
    rewrite (bind_eq _ _ (lpush s x a) tt (lpush s x v) (bind_loop_var env s x a v T Nc Iv)).
    pose proof (Regs_lpush env s x v (T_regs _ _ T)) as R1. pose proof (InLoop_lpush env s x v T Nc) as L1.
    destruct (body_block false f x v env body (lpush s x v) R1 L1 Hs Okv) as (s4 & E4 & D4 & S4).
    unfold visit_block. rewrite (bind_eq _ _ (lpush s x v) _ s4 E4).
    rewrite (bind_eq _ _ s4 tt (lpop s4) eq_refl).
    pose proof (DE_lpop s x v s4 D4) as D5.
    destruct (IH (lpop s4) (Top_DE _ _ _ T D5) Nc Ha Hs (fun w Hw => Hv w (or_intror Hw))) as (s' & E' & D' & S').
    rewrite (bind_eq _ _ (lpop s4) _ s' E'). exists s'. split; [reflexivity|]. split; [eapply DE_trans; eauto|].
    unfold instances. cbn [flat_map]. unfold evs_of. rewrite flat_map_app. fold (evs_of (map (inst x v) body)).
    eapply Dstep_trans; [|exact S'].
    intros N r. rewrite dof_lpop. rewrite (S4 (fun r0 => eq_ind_r (fun z => 0 <= z) (N r0) (dof_lpush s x v r0)) r).
    apply run_evs_ext. intros r0. apply dof_lpush.
Qed.

(* ---------- the loop statement ---------- *)
Definition loop_ok (env : renv) (stm : stmt) : option (list stmt) :=
  match stm with
  | SFor (TInt None) x (FRange (Some (ELit (VInt a))) (Some (ELit (VInt b))) None) body =>
      if negb (is_constant_name x) && int32 a && int32 b && (b - a + 1 <=? 100000) && forallb simple_op body &&
         forallb (fun v => forallb (fun stm => op_ok env (inst x v stm)) body) (zrange a b)
      then Some (instances x body (zrange a b)) else None
  | _ => None
  end.

Lemma zrange_in a b v : In v (zrange a b) -> a <= v <= b.
Proof.
  unfold zrange. intros H. apply in_map_iff in H as (k & <- & Hk). apply in_seq in Hk. lia.
Qed.

Lemma loop_fix f env s stm out : Top env s -> loop_ok env stm = Some out ->
  exists s', visit_stmt false [] (S (S f)) stm s = Ok (out, s') /\ Top env s' /\
             num_qubits s' = num_qubits s /\ num_clbits s' = num_clbits s /\ Dstep s s' (evs_of out) /\ DE s s'.
Proof.
  intros T H. destruct stm; try discriminate H. cbn [loop_ok] in H.
  destruct t; try discriminate H. destruct size; [discriminate H|].
  destruct set as [start stop step|vals|]; try discriminate H.
  destruct start as [[]|]; try discriminate H. destruct v; try discriminate H.
  destruct stop as [[]|]; try discriminate H. destruct v; try discriminate H.
  destruct step; [discriminate H|].
  match type of H with (if ?c then _ else _) = _ => destruct c eqn:C; [|discriminate H] end. injection H as <-.
  apply andb_true_iff in C as [C Hall]. apply andb_true_iff in C as [C Hs]. apply andb_true_iff in C as [C Hn].
  apply andb_true_iff in C as [C Hb]. apply andb_true_iff in C as [Nc Ha]. apply negb_true_iff in Nc. apply Z.leb_le in Hn.
  cbn [visit_stmt visit_stmt_body]. unfold visit_for.
  rewrite (bind_eq _ _ s _ s (for_values_literal _ z z0 s Hn)).
  destruct (loop_iterations f var z env body (zrange z z0) s T Nc Ha Hs) as (s' & E & D & S').
  { intros v Hv. split.
    - pose proof (zrange_in _ _ _ Hv) as R. unfold int32 in *. apply andb_true_iff in Ha as [A0 A1]. apply andb_true_iff in Hb as [B0 B1].
      apply Z.leb_le in A0, A1, B0, B1. apply andb_true_iff. split; apply Z.leb_le; lia.
    - eapply forallb_forall in Hall; eauto. }
  exists s'. split; [exact E|]. split; [eapply Top_DE; eauto|]. destruct (DE_counts _ _ D) as [Nq Ncl]. auto 6.
Qed.

(* ---------- programs with loops ---------- *)
Definition ltop_step (env : renv) (stm : stmt) : option (renv * list stmt) :=
  match loop_ok env stm with
  | Some out => Some (env, out)
  | None => match top_step env stm with Some env' => Some (env', [stm]) | None => None end
  end.

(* the flat program a program with loops stands for (None: outside the fragment) *)
Fixpoint expand (env : renv) (l : list stmt) : option (list stmt) :=
  match l with
  | [] => Some []
  | stm :: l' =>
      match ltop_step env stm with
      | Some (env', out) => match expand env' l' with Some r => Some (out ++ r) | None => None end
      | None => None
      end
  end.

Lemma top_step_of_op env stm : op_ok env stm = true -> top_step env stm = Some env.
Proof. intros H. destruct stm; cbn [op_ok] in H; try discriminate H; cbn [top_step]; cbn [op_ok]; now rewrite H. Qed.

Lemma wf_flat_ops env out r : forallb (op_ok env) out = true -> wf_flat env (out ++ r) = wf_flat env r.
Proof.
  induction out as [|stm out IH]; intros H; [reflexivity|]. cbn [forallb] in H. apply andb_true_iff in H as [H1 H].
  cbn [app wf_flat]. rewrite (top_step_of_op env stm H1). now apply IH.
Qed.

Lemma forallb_map_ {A B} (f : A -> B) (p : B -> bool) l : forallb p (map f l) = forallb (fun a => p (f a)) l.
Proof. induction l as [|a l IH]; [reflexivity|]. cbn. now rewrite IH. Qed.

Lemma instances_ops env x body vals :
  forallb (fun v => forallb (fun stm => op_ok env (inst x v stm)) body) vals = true -> forallb (op_ok env) (instances x body vals) = true.
Proof.
  induction vals as [|v vals IH]; intros H; [reflexivity|]. cbn [forallb] in H. apply andb_true_iff in H as [H1 H].
  unfold instances. cbn [flat_map]. rewrite forallb_app. fold (instances x body vals). rewrite (IH H), andb_true_r.
  rewrite forallb_map_. exact H1.
Qed.

Lemma loop_ok_ops env stm out : loop_ok env stm = Some out -> forallb (op_ok env) out = true.
Proof.
  intros H. destruct stm; try discriminate H. cbn [loop_ok] in H.
  destruct t; try discriminate H. destruct size; [discriminate H|].
  destruct set as [start stop step|vals|]; try discriminate H.
  destruct start as [[]|]; try discriminate H. destruct v; try discriminate H.
  destruct stop as [[]|]; try discriminate H. destruct v; try discriminate H.
  destruct step; [discriminate H|].
  match type of H with (if ?c then _ else _) = _ => destruct c eqn:C; [|discriminate H] end. injection H as <-.
  apply andb_true_iff in C as [_ Hall]. now apply instances_ops.
Qed.

Lemma total_ops env out : forallb (op_ok env) out = true -> total_qubits out = 0 /\ total_clbits out = 0.
Proof.
  induction out as [|stm out IH]; intros H; [split; reflexivity|]. cbn [forallb] in H. apply andb_true_iff in H as [H1 H].
  destruct (IH H) as [Iq Ic]. destruct (op_ok_no_decl env stm H1) as [Dq Dc].
  unfold total_qubits, total_clbits in *. cbn [fold_right]. lia.
Qed.
Lemma total_app a b : total_qubits (a ++ b) = total_qubits a + total_qubits b /\ total_clbits (a ++ b) = total_clbits a + total_clbits b.
Proof. induction a as [|x a [Iq Ic]]; [split; reflexivity|]. unfold total_qubits, total_clbits in *. cbn [app fold_right]. lia. Qed.

Lemma loop_program_fix fuel l : forall env s q,
  (ldepth l + 1 < fuel)%nat -> Top env s -> expand env l = Some q ->
  exists s', concatMM (visit_stmt false [] fuel) l s = Ok (q, s') /\
             num_qubits s' = num_qubits s + total_qubits q /\ num_clbits s' = num_clbits s + total_clbits q /\
             Dstep s s' (evs_of q) /\ wf_flat env q = true.
Proof.
  induction l as [|stm l IH]; intros env s q Hf T Hx; cbn [concatMM expand] in *.
  - injection Hx as <-. exists s. split; [reflexivity|]. cbn. split; [lia|]. split; [lia|]. split; [apply Dstep_same; reflexivity|reflexivity].
  - destruct (ltop_step env stm) as [[env' out]|] eqn:Es; [|discriminate Hx].
    destruct (expand env' l) as [r|] eqn:Er; [|discriminate Hx]. injection Hx as <-.
    unfold ldepth in Hf. cbn [fold_right] in Hf. fold (ldepth l) in Hf.
    assert (Hstep : exists s1, visit_stmt false [] fuel stm s = Ok (out, s1) /\ Top env' s1 /\
                               num_qubits s1 = num_qubits s + total_qubits out /\ num_clbits s1 = num_clbits s + total_clbits out /\
                               Dstep s s1 (evs_of out) /\ forall r0, wf_flat env (out ++ r0) = wf_flat env' r0).
    { unfold ltop_step in Es. destruct (loop_ok env stm) as [out'|] eqn:El.
      - injection Es as <- <-. destruct fuel as [|[|f]]; try lia.
        destruct (loop_fix f env s stm out' T El) as (s1 & E1 & T1 & Nq & Nc & S1 & _).
        pose proof (loop_ok_ops env stm out' El) as Ops. destruct (total_ops env out' Ops) as [Tq Tc].
        exists s1. split; [exact E1|]. split; [exact T1|]. split; [lia|]. split; [lia|]. split; [exact S1|].
        intros r0. now apply wf_flat_ops.
      - destruct (top_step env stm) as [env''|] eqn:Et; [|discriminate Es]. injection Es as <- <-.
        destruct (top_fix false fuel stm env env'' s) as (s1 & E1 & T1 & Nq & Nc & S1); [lia|exact T|exact Et|].
        exists s1. split; [exact E1|]. split; [exact T1|]. unfold total_qubits, total_clbits. cbn [fold_right].
        split; [lia|]. split; [lia|]. split; [unfold evs_of; cbn [flat_map]; now rewrite app_nil_r|].
        intros r0. cbn [app wf_flat]. now rewrite Et. }
    destruct Hstep as (s1 & E1 & T1 & Nq1 & Nc1 & S1 & W1).
    destruct (IH env' s1 r) as (s2 & E2 & Nq2 & Nc2 & S2 & W2); [lia|exact T1|exact Er|].
    rewrite (bind_eq _ _ s _ s1 E1), (bind_eq _ _ s1 _ s2 E2). exists s2. split; [reflexivity|].
    destruct (total_app out r) as [Aq Ac].
    split; [lia|]. split; [lia|]. split; [unfold evs_of; rewrite flat_map_app; eapply Dstep_trans; eauto|].
    rewrite W1. exact W2.
Qed.

(* unroll() of a program whose top level holds declarations, flat operations and such loops emits the flat program the
   loops stand for -- every iteration's operations in order -- and that program is a well-formed flat program; the
   counts are its register sizes and the depth counters the recurrence over its operations *)
Theorem loops_unroll_to_their_instances fuel p q :
  expand env0 p = Some q -> (ldepth p + 1 < fuel)%nat ->
  exists o, run_visit false false [] fuel p = Ok o /\ o_stmts o = q /\ wf_flat env0 q = true /\
            num_qubits (o_state o) = total_qubits q /\ num_clbits (o_state o) = total_clbits q /\
            forall r, dof (o_state o) r = depth_after rsrc_eqb (evs_of q) r.
Proof.
  intros Hx Hf. unfold run_visit. cbn [andb].
  destruct (loop_program_fix fuel p env0 init_st q Hf Top_init Hx) as (s2 & E2 & Nq2 & Nc2 & S2 & W).
  rewrite E2. cbn in Nq2, Nc2.
  assert (N0 : nonneg init_st) by (intros r; destruct r as [[|] b]; cbn; lia).
  eexists. split; [reflexivity|]. cbn [o_stmts o_state]. split; [eapply wf_flat_finalize; eauto|].
  split; [exact W|]. split; [assumption|]. split; [assumption|].
  intros r. rewrite (S2 N0 r). unfold depth_after. apply run_evs_ext. intros [[|] b]; reflexivity.
Qed.
