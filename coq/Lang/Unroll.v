(* MODEL of pyqasm.visitor.QasmVisitor (with expressions.py, transformer.py, validator.py,
   analyzer.py, subroutines.py as it calls them): a total interpreter on fuel that mirrors the
   code's mechanism, including its error behaviour (ValidationError vs any other exception).
   Library gates are lowered through GatesGen.v (regenerated from maps.py).
   Not modelled (EUnmodelled): arrays and sizeof on arrays, reading bit registers in
   expressions, float %, bool/float register indices, ints beyond 2^53 converted to float. *)
From Coq Require Import ZArith List Bool String PrimFloat Lia.
From Verif Require Import Aexp BGate PyVal CastPrim Ast State Arr GatesGen GateLib.
Import ListNotations.
Open Scope string_scope.
Open Scope list_scope.
Open Scope Z_scope.

(* ---------- state/error monad ---------- *)
Definition M (A : Type) := st -> res (A * st).
Definition ret {A} (a : A) : M A := fun s => Ok (a, s).
Definition bindM {A B} (m : M A) (f : A -> M B) : M B :=
  fun s => match m s with Ok (a, s') => f a s' | Err e => Err e end.
Definition fail {A} (e : err) : M A := fun _ => Err e.
Definition getst : M st := fun s => Ok (s, s).
Definition modify (f : st -> st) : M unit := fun s => Ok (tt, f s).
Definition lift {A} (r : res A) : M A := fun s => match r with Ok a => Ok (a, s) | Err e => Err e end.
Definition putres (r : res st) : M unit := fun _ => match r with Ok s' => Ok (tt, s') | Err e => Err e end.
Notation "x <- m ;; k" := (bindM m (fun x => k)) (at level 61, m at next level, k at level 200).
Notation "' p <- m ;; k" := (bindM m (fun p => k)) (at level 61, p pattern, m at next level, k at level 200).
Notation "m ;;; k" := (bindM m (fun _ => k)) (at level 61, k at level 200).

Definition verr {A} : M A := fail EValidation.
Definition ierr {A} (k : ikind) : M A := fail (EInternal k).
Definition unm {A} (why : string) : M A := fail (EUnmodelled why).
Definition guard (b : bool) (e : err) : M unit := if b then ret tt else fail e.

Fixpoint mapMM {A B} (f : A -> M B) (l : list A) : M (list B) :=
  match l with
  | [] => ret []
  | x :: l' => y <- f x;; ys <- mapMM f l';; ret (y :: ys)
  end.
Fixpoint iterM {A} (f : A -> M unit) (l : list A) : M unit :=
  match l with
  | [] => ret tt
  | x :: l' => f x;;; iterM f l'
  end.
Fixpoint concatMM {A B} (f : A -> M (list B)) (l : list A) : M (list B) :=
  match l with
  | [] => ret []
  | x :: l' => y <- f x;; ys <- concatMM f l';; ret (y ++ ys)
  end.

(* ---------- small helpers ---------- *)
Definition is_constant_name (x : string) : bool := smem x constant_names.

Definition float_of_Q (q : QArith_base.Q) : res float :=
  do n <- float_of_Z (QArith_base.Qnum q);; do d <- float_of_Z (Zpos (QArith_base.Qden q));; Ok (PrimFloat.div n d).

Definition constant_value (x : string) : res pyval :=
  if smem x ["pi"; "π"] then do f <- float_of_Q CONST_pi;; Ok (VFloat f)
  else if smem x ["tau"; "τ"] then do f <- float_of_Q CONST_tau;; Ok (VFloat f)
  else do f <- float_of_Q CONST_euler;; Ok (VFloat f).

(* Python evaluation of a decomposition angle expression *)
Fixpoint interp_py (env : list pyval) (a : aexp) : res pyval :=
  match a with
  | AVar n => match nth_error env n with Some v => Ok v | None => Err (EInternal KOther) end
  | AInt z => Ok (VInt z)
  | AFlt q => do f <- float_of_Q q;; Ok (VFloat f)
  | APi => constant_value "pi"
  | ATau => constant_value "tau"
  | AEuler => constant_value "euler"
  | ANeg x => do v <- interp_py env x;; py_unop OpNeg v
  | AAdd x y => do u <- interp_py env x;; do v <- interp_py env y;; py_binop OpAdd u v
  | ASub x y => do u <- interp_py env x;; do v <- interp_py env y;; py_binop OpSub u v
  | AMul x y => do u <- interp_py env x;; do v <- interp_py env y;; py_binop OpMul u v
  | ADiv x y => do u <- interp_py env x;; do v <- interp_py env y;; py_binop OpDiv u v
  end.

Definition qarg_of (b : bitref) : qarg := QIdx (fst b) [IdxList [IExpr (ELit (VInt (snd b)))]].

Definition stmt_of_bgate (env : list pyval) (g : bgate bitref) : res stmt :=
  match g with
  | BG name args qs =>
      do vs <- mapR (interp_py env) args;;
      Ok (SGate [] name (map ELit vs) (map qarg_of qs))
  | BPhase a qs =>
      do v <- interp_py env a;;
      Ok (SPhase [] (ELit v) (map qarg_of qs))
  end.

(* list(range(a, b, s)) *)
Definition py_range (a b s : Z) : res (list Z) :=
  if s =? 0 then Err (EInternal KValue)
  else
    let n := if 0 <? s then (b - a + s - 1) / s else (a - b + (- s) - 1) / (- s) in
    let n := Z.max 0 n in
    if 100000 <? n then Err (EUnmodelled "huge range")
    else Ok (map (fun k => a + Z.of_nat k * s) (seq 0 (Z.to_nat n))).

(* a boolean parameter / index is emitted as 0 / 1 *)
Definition num_of_bool (v : pyval) : pyval := match v with VBool b => VInt (if b then 1 else 0) | _ => v end.

Definition as_index (v : pyval) : M Z :=
  match v with
  | VInt z => ret z
  | VNone => ierr KType
  | _ => unm "non-int index"
  end.

Definition kind_of_ctype (t : ctype) : vkind :=
  match t with
  | TInt _ => KInt | TUint _ => KUint | TFloat _ => KFloat | TBool => KBool | TBit _ => KBit
  | TAngle _ => KAngle | TComplex => KComplex | _ => KOtherT
  end.
Definition size_of_ctype (t : ctype) : option (option expr) :=   (* None: the type has no .size *)
  match t with
  | TInt s | TUint s | TFloat s | TBit s | TAngle s => Some s
  | _ => None
  end.

Definition qnode0 : qnode := mkQ 0 0 0 0 0.
Definition cnode0 : cnode := mkC 0 0.

Definition get_qnode (b : bitref) : M qnode :=
  s <- getst;; match bget b (qdepth s) with Some n => ret n | None => ierr KKey end.
Definition set_qnode (b : bitref) (n : qnode) : M unit :=
  modify (fun s => with_qdepth s (bset b n (qdepth s))).
Definition get_cnode (b : bitref) : M cnode :=
  s <- getst;; match bget b (cdepth s) with Some n => ret n | None => ierr KKey end.
Definition set_cnode (b : bitref) (n : cnode) : M unit :=
  modify (fun s => with_cdepth s (bset b n (cdepth s))).

(* validator.validate_register_index *)
Definition validate_index (i size : Z) : M unit :=
  if (0 <=? i) && (i <? size) then ret tt else verr.

(* validator.validate_variable_assignment_value + maps.qasm_variable_type_cast *)
Definition ten308 : Z := 10 ^ 308.
Definition float32_limit : float := 0x1.ffffffe8c0932p+126%float.   (* 1.70141183 * (10**38), as CPython evaluates it *)

Definition float_exceeds_ten308 (f : float) : bool := fz_gt f ten308.   (* exact: f > 10**308 (an int) *)

Definition cast_value (k : vkind) (size : option Z) (v : pyval) : res pyval :=
  match k with
  | KBool => match v with VNone => Err EValidation | _ => Ok (VBool (truthy v)) end
  | KInt | KUint =>
      do z <- match v with
              | VInt z => Ok z
              | VBool b => Ok (if b then 1 else 0)
              | VFloat f => match float_trunc f with
                            | Some z => Ok z
                            | None => Err (EInternal (if PrimFloat.is_nan f then KValue else KOverflow))
                            end
              | VNone => Err EValidation
              end;;
      match size with
      | None => Err (EInternal KType)
      | Some n =>
          if n <? 1 then Err (EUnmodelled "non-positive base size")
          else
          match k with
          | KInt => if (z <? - 2 ^ (n - 1)) || (2 ^ (n - 1) - 1 <? z) then Err EValidation else Ok (VInt z)
          | _ => Ok (VInt (z mod 2 ^ n))
          end
      end
  | KFloat =>
      do f <- match v with
              | VFloat f => Ok f
              | VInt z => float_of_Z z
              | VBool b => Ok (if b then one else zero)
              | VNone => Err EValidation
              end;;
      if match size with Some n => n =? 32 | None => false end
      then
          if PrimFloat.ltb f (-0x1.ffffffe8c0932p+126)%float || PrimFloat.ltb float32_limit f
          then Err EValidation else Ok (VFloat f)
      else
          if PrimFloat.ltb f (-0x1.1ccf385ebc8ap+1023)%float || float_exceeds_ten308 f
          then Err EValidation else Ok (VFloat f)
  | KBit =>
      match v with
      | VInt z => Ok (VBool (negb (z =? 0)))
      | VBool b => Ok (VBool b)
      | _ => Err EValidation      (* float / None not castable to bit *)
      end
  | KComplex => Err (EInternal KKey)   (* in VARIABLE_TYPE_MAP, but VARIABLE_TYPE_CAST_MAP has no entry *)
  | _ => Err EValidation          (* VARIABLE_TYPE_MAP has no entry: qubit, angle, ... *)
  end.

Section Open.
Variable check_only : bool.
Variable externals : list string.
(* recursion through the fuel-indexed knot *)
Variable visit_rec : stmt -> M (list stmt).
Variable call_rec : string -> list expr -> M (pyval * list stmt).

Definition emit (l : list stmt) : M (list stmt) := ret (if check_only then [] else l).

(* ---------- expressions.py: evaluate_expression ---------- *)
Fixpoint base_name (e : expr) : option string :=
  match e with
  | EId x => Some x
  | EIndexE c (IdxList _) => base_name c
  | _ => None
  end.

(* scalar read of a variable: _process_variable without indices *)
Definition process_variable (x : string) (indexed : bool) (cst : bool) (reqd : option vkind) : M pyval :=
  s <- getst;;
  guard (check_in_scope s x) EValidation;;;
  match get_visible s x with
  | None => ierr KAttr
  | Some v =>
      guard (negb (cst && negb (v_const v))) EValidation;;;
      guard (match reqd with None => true | Some k => vkind_eqb (v_kind v) k end) EValidation;;;
      if indexed then
        match v_dims v with
        | None | Some [] => verr
        | _ => unm "array element"
        end
      else
        match v_val v with
        | VVNone => verr
        | VVScalar p => ret p
        | _ => unm "array value"
        end
  end.

(* maps.qasm3_expression_op_map: ArithmeticError / TypeError / ValueError raised by the operator
   are re-raised as ValidationError *)
Definition op_error {A} (r : res A) : res A :=
  match r with
  | Err (EInternal (KZeroDiv | KType | KValue | KOverflow)) => Err EValidation
  | _ => r
  end.
Definition apply_op (name : string) (args : list pyval) : M pyval :=
  match assoc name OPERATOR_MAP, args with
  | None, _ => verr
  | Some (Un o), [x] => lift (op_error (py_unop o x))
  | Some (Bin o), [x; y] => lift (op_error (py_binop o x y))
  | Some _, _ => verr
  end.

(* expressions used as array indices: evaluated with reqd_type = int; the fragment without
   calls, nested indexing and sizeof (anything else is outside the model) *)
Fixpoint eval_simple (e : expr) (cst : bool) (reqd : option vkind) {struct e} : M pyval :=
  match e with
  | ELit v =>
      match reqd, v with
      | None, _ => ret v
      | Some KBool, VBool _ | Some KInt, VInt _ | Some KFloat, VFloat _ => ret v
      | _, _ => verr
      end
  | EId x =>
      if is_constant_name x then
        match reqd with
        | None | Some KFloat => lift (constant_value x)
        | _ => verr
        end
      else process_variable x false cst reqd
  | EUn op x =>
      v <- eval_simple x cst reqd;;
      guard (negb (String.eqb op "~") || match v with VInt _ | VBool _ => true | _ => false end) EValidation;;;
      apply_op (if String.eqb op "-" then "UMINUS" else op) [v]
  | EBin op l r =>
      a <- eval_simple l cst reqd;;
      b <- eval_simple r cst reqd;;
      apply_op op [a; b]
  | EImag | EDuration | EArrayLit _ | EOther _ => verr
  | _ => unm "index expression with a call, nested indexing or sizeof"
  end.

(* Qasm3Analyzer.analyze_index_expression: variable name and index items of a[i, j] / a[i][j] *)
Fixpoint nested_items (e : expr) (acc : list idxitem) : option (string * list idxitem) :=
  match e with
  | EId x => Some (x, acc)
  | EIndexE c (IdxList (it :: _)) => nested_items c (it :: acc)
  | _ => None
  end.
Definition index_items (e : expr) : M (string * list idxitem) :=
  match e with
  | EIndexE (EId x) (IdxList items) => ret (x, items)
  | EIndexE (EId x) (IdxSet vals) => ret (x, map IExpr vals)
  | EIndexE (EIndexE _ _) _ =>
      match nested_items e [] with Some r => ret r | None => unm "nested index expression shape" end
  | _ => ierr KAttr
  end.

Definition as_int_index (v : pyval) : M Z :=
  match v with VInt z => ret z | VBool b => ret (if b then 1 else 0) | _ => unm "non-int array index" end.

(* Qasm3Analyzer.analyze_classical_indices *)
Definition analyze_indices (items : list idxitem) (dims : option (list Z)) : M (list (Z * Z * Z)) :=
  match dims with
  | None | Some [] => verr
  | Some ds =>
      guard (Nat.eqb (List.length items) (List.length ds)) EValidation;;;
      mapMM (fun p =>
               let '(it, d) := p in
               let inb i := (0 <=? i) && (i <? d) in
               match it with
               | IRange a b c =>
                   s0 <- (match a with None => ret 0 | Some e => v <- eval_simple e false (Some KInt);; as_int_index v end);;
                   e0 <- (match b with None => ret (d - 1) | Some e => v <- eval_simple e false (Some KInt);; as_int_index v end);;
                   st <- (match c with None => ret 1 | Some e => v <- eval_simple e false (Some KInt);; as_int_index v end);;
                   guard (inb s0) EValidation;;;
                   guard (inb e0) EValidation;;;
                   guard (negb (((st <? 0) && (s0 <? e0)) || ((0 <? st) && (e0 <? s0)))) EValidation;;;
                   guard (negb (st =? 0)) (EInternal KValue);;;      (* slice step cannot be zero *)
                   ret (s0, e0, st)
               | IExpr e =>
                   v <- eval_simple e false (Some KInt);;
                   i <- as_int_index v;;
                   guard (inb i) EValidation;;;
                   ret (i, i, 1)
               end) (combine items ds)
  end.

(* _process_variable with indices: the selected cell or sub-array *)
Definition process_indexed (x : string) (items : list idxitem) (cst : bool) (reqd : option vkind) : M arr :=
  s <- getst;;
  guard (check_in_scope s x) EValidation;;;
  match get_visible s x with
  | None => ierr KAttr
  | Some v =>
      guard (negb (cst && negb (v_const v))) EValidation;;;
      guard (match reqd with None => true | Some k => vkind_eqb (v_kind v) k end) EValidation;;;
      specs <- analyze_indices items (v_dims v);;
      match v_val v with
      | VVArr a =>
          match arr_get a specs with
          | Some (ALeaf None) => verr                    (* uninitialised element *)
          | Some r => ret r
          | None => unm "array shape"
          end
      | _ => unm "indexed non-array value"
      end
  end.

Fixpoint eval (e : expr) (cst : bool) (reqd : option vkind) {struct e} : M (pyval * list stmt) :=
  match e with
  | EImag | EDuration => verr
  | EId x =>
      if is_constant_name x then
        match reqd with
        | None | Some KFloat => v <- lift (constant_value x);; ret (v, [])
        | _ => verr
        end
      else v <- process_variable x false cst reqd;; ret (v, [])
  | EIndexE c idx =>
      '(x, items) <- index_items e;;
      r <- process_indexed x items cst reqd;;
      match r with
      | ALeaf (Some v) => ret (v, [])
      | ALeaf None => verr
      | ANode _ => unm "array-valued expression"
      end
  | ESizeOf target idx =>
      match target with
      | EId x =>
          s <- getst;;
          guard (check_in_scope s x) EValidation;;;
          match get_visible s x with
          | None => ierr KAttr
          | Some v => match v_dims v with
                      | None | Some [] => verr
                      | Some (d0 :: ds) =>
                          match idx with
                          | None => ret (VInt d0, [])
                          | Some ie =>
                              iv <- eval_simple ie cst (Some KInt);;
                              i <- as_int_index iv;;
                              guard ((0 <=? i) && (i <? Z.of_nat (S (List.length ds)))) EValidation;;;
                              match nth_error (d0 :: ds) (Z.to_nat i) with
                              | Some d => ret (VInt d, [])
                              | None => verr
                              end
                          end
                      end
          end
      | _ => verr
      end
  | ELit v =>
      match reqd, v with
      | None, _ => ret (v, [])
      | Some KBool, VBool _ | Some KInt, VInt _ | Some KFloat, VFloat _ => ret (v, [])
      | _, _ => verr
      end
  | EUn op x =>
      '(v, st1) <- eval x cst reqd;;
      guard (negb (String.eqb op "~") || match v with VInt _ | VBool _ => true | _ => false end) EValidation;;;
      r <- apply_op (if String.eqb op "-" then "UMINUS" else op) [v];;
      ret (r, st1)
  | EBin op l r =>
      '(a, st1) <- eval l cst reqd;;
      '(b, st2) <- eval r cst reqd;;
      v <- apply_op op [a; b];;
      ret (v, st1 ++ st2)
  | ECall f args => call_rec f args
  | EArrayLit _ | EOther _ => verr
  end.

Definition eval0 (e : expr) (cst : bool) (reqd : option vkind) : M pyval :=
  '(v, _) <- eval e cst reqd;; ret v.
Definition eval_opt (e : option expr) (cst : bool) (reqd : option vkind) : M pyval :=
  match e with None => ret VNone | Some x => eval0 x cst reqd end.

(* classical_register_in_expr *)
Fixpoint creg_in_expr (s : st) (e : expr) : M bool :=
  match e with
  | EId x => ret (smemk x (creg_sizes s))
  | EIndexE c _ =>
      match e with
      | EIndexE (EId x) _ => ret (smemk x (creg_sizes s))
      | _ => match base_name e with Some x => ret (smemk x (creg_sizes s)) | None => ierr KAttr end
      end
  | EBin _ l r => a <- creg_in_expr s l;; if a then ret true else creg_in_expr s r
  | EUn _ x => creg_in_expr s x
  | _ => ret false
  end.

(* ---------- transformer.py ---------- *)
Definition discrete_set_values (vals : list expr) : M (list Z) :=
  mapMM (fun e => match e with ELit (VInt z) => ret z | _ => verr end) vals.

Definition range_ids (start stop step : option expr) (size : Z) : M (list Z) :=
  a <- match start with None => ret 0 | Some e => v <- eval0 e false None;; as_index v end;;
  b <- match stop with None => ret size | Some e => v <- eval0 e false None;; as_index v end;;
  st <- match step with None => ret 1 | Some e => v <- eval0 e false None;; as_index v end;;
  validate_index a size;;;
  validate_index (b - 1) size;;;
  lift (py_range a b st).

(* ---------- visitor._get_op_bits ---------- *)
Definition qarg_name (q : qarg) : string := match q with QId x | QIdx x _ => x end.

Definition resolve_one (q : qarg) (size_map : list (string * Z)) (is_q : bool) : M (list bitref) :=
  s <- getst;;
  let x := qarg_name q in
  '(alias, smap) <-
     match sget x size_map with
     | Some _ => ret (false, size_map)
     | None => if is_q && smemk x (alias_sizes s) then ret (true, alias_sizes s) else verr
     end;;
  guard (name_in_levels s x) EValidation;;;
  let size := match sget x smap with Some n => n | None => 0 end in
  ids <-
    match q with
    | QId _ => lift (py_range 0 size 1)
    | QIdx _ [] => ierr KIndex
    | QIdx _ (IdxSet vals :: _) =>
        ids <- discrete_set_values vals;; iterM (fun i => validate_index i size) ids;;; ret ids
    | QIdx _ (IdxList [] :: _) => ierr KIndex
    | QIdx _ (IdxList (IRange a b c :: _) :: _) => range_ids a b c size
    | QIdx _ (IdxList (IExpr e :: _) :: _) =>
        (* a boolean index is the integer 0 / 1 *)
        v <- eval0 e false None;; i <- as_index (num_of_bool v);; validate_index i size;;; ret [i]
    end;;
  if alias then
    match ids with
    | [] => ierr KIndex
    | i0 :: _ =>
        match bget (x, i0) (alias_labels s) with
        | None => ierr KKey
        | Some (orig, _) =>
            ids' <- mapMM (fun i => match bget (x, i) (alias_labels s) with
                                    | Some (_, j) => ret j | None => ierr KKey end) ids;;
            ret (map (fun j => (orig, j)) ids')
        end
    end
  else ret (map (fun i => (x, i)) ids).

Fixpoint dedup_check (seen : list bitref) (l : list bitref) : bool :=
  match l with
  | [] => true
  | b :: l' => if existsb (bitref_eqb b) seen then false else dedup_check (b :: seen) l'
  end.

Definition get_op_bits (bits : list qarg) (size_map : list (string * Z)) (is_q : bool) : M (list bitref) :=
  (fix go (bits : list qarg) (acc : list bitref) : M (list bitref) :=
     match bits with
     | [] => ret acc
     | q :: bits' =>
         new <- resolve_one q size_map is_q;;
         guard (dedup_check acc new) EValidation;;;
         go bits' (acc ++ new)
     end) bits [].

(* transformer.transform_function_qubits *)
Definition transform_function_qubits (bits : list qarg) : M (list qarg) :=
  s <- getst;;
  match fn_sizes s, fn_maps s with
  | fsz :: _, fmap :: _ =>
      expanded <- get_op_bits bits fsz true;;
      mapMM (fun b => match bget b fmap with Some a => ret (qarg_of a) | None => ierr KKey end) expanded
  | _, _ => ierr KIndex
  end.

(* ---------- declarations ---------- *)
Definition range_nat (n : Z) : list Z := map Z.of_nat (seq 0 (Z.to_nat n)).

Definition visit_qubit_decl (name : string) (size : option expr) : M (list stmt) :=
  n <- match size with
       | None => ret 1
       | Some e => v <- eval0 e true None;;
                   match v with
                   | VInt z => ret z
                   | VFloat _ | VNone => ierr KType
                   | VBool _ => unm "bool register size"
                   end
       end;;
  s <- getst;;
  guard (negb (check_in_scope s name)) EValidation;;;
  guard (negb (is_constant_name name)) EValidation;;;
  guard (n <? 100000) (EUnmodelled "huge register");;;
  s <- getst;;
  putres (add_var s name (mkVar KQubit (Some n) None VVNone false true false));;;
  modify (fun s =>
    let s := with_qreg_sizes s (sset name n (qreg_sizes s)) in
    let s := with_nqlabels s (nqlabels s + Z.max 0 n) in
    let s := with_qdepth s (fold_left (fun d i => bset (name, i) qnode0 d) (range_nat n) (qdepth s)) in
    let s := level_add s name in
    with_modq s (sset name n (mod_qregs s)) (num_qubits s + n));;;
  emit [SQubitDecl name (Some (ELit (VInt n)))].

Definition eval_base_size (t : ctype) (default : Z) : M pyval :=
  match size_of_ctype t with
  | None | Some None => ret (VInt default)
  | Some (Some e) => eval0 e true None
  end.

(* validator.validate_variable_assignment_value on a Variable of kind k and base size sz *)
Definition assign_value (k : vkind) (sz : option Z) (v : pyval) : M pyval := lift (cast_value k sz v).

Definition visit_const_decl (t : ctype) (name : string) (init : expr) : M (list stmt) :=
  guard (negb (is_constant_name name)) EValidation;;;
  s <- getst;;
  guard (negb (check_in_scope s name)) EValidation;;;
  '(iv, stmts) <- eval init true None;;
  sz <-
    match t with
    | TBool => ret 1
    | _ => match size_of_ctype t with
           | None => ierr KOther                       (* base_size unbound *)
           | Some None => ret 32
           | Some (Some e) =>
               v <- eval0 e true None;;
               match v with
               | VInt z => if z <=? 0 then verr else ret z
               | VBool _ => unm "bool base size"
               | _ => verr
               end
           end
    end;;
  match t with TArray _ _ | TArrayRef _ _ _ => unm "const array" | _ => ret tt end;;;
  cv <- assign_value (kind_of_ctype t) (Some sz) iv;;
  s <- getst;;
  putres (add_var s name (mkVar (kind_of_ctype t) (Some sz) (Some []) (VVScalar cv) true false false));;;
  emit stmts.

(* visitor._evaluate_array_initialization + np.array(values, dtype): the literal as an array of
   evaluated leaves.  Leaves whose Python type numpy would convert (float into an int array, a
   negative value into a uint array, ...) and ragged literals are outside the model. *)
Fixpoint array_literal (k : vkind) (e : expr) {struct e} : M arr :=
  match e with
  | EArrayLit vals =>
      l <- (fix go (l : list expr) : M (list arr) :=
              match l with
              | [] => ret []
              | x :: l' => a <- array_literal k x;; r <- go l';; ret (a :: r)
              end) vals;;
      ret (ANode l)
  | _ =>
      v <- eval_simple e false None;;
      match k, v with
      | KInt, VInt _ | KFloat, VFloat _ | KBool, VBool _ => ret (ALeaf (Some v))
      | KUint, VInt z => if z <? 0 then unm "negative value in a uint array literal" else ret (ALeaf (Some v))
      | KFloat, VInt z => f <- lift (float_of_Z z);; ret (ALeaf (Some (VFloat f)))
      | _, _ => unm "array literal leaf converted by numpy"
      end
  end.

Fixpoint arr_rect (a : arr) (shape : list Z) : bool :=
  match shape, a with
  | [], ALeaf _ => true
  | d :: ds, ANode l => (Z.of_nat (List.length l) =? d) && forallb (fun x => arr_rect x ds) l
  | _, _ => false
  end.

(* validator.validate_array_assignment_values: shape against dims, every value converted *)
Fixpoint validate_array (k : vkind) (sz : option Z) (dims : list Z) (a : arr) {struct a} : res arr :=
  match a with
  | ALeaf _ => Err (EInternal KAttr)                  (* values.shape on a scalar *)
  | ANode l =>
      match dims with
      | [] => Err (EInternal KIndex)                  (* dimensions[0] *)
      | d :: ds =>
          if negb (Z.of_nat (List.length l) =? d) then Err EValidation
          else
            do l' <- (fix go (l : list arr) : res (list arr) :=
                        match l with
                        | [] => Ok []
                        | x :: l0 =>
                            do x' <- (match x with
                                      | ANode _ => validate_array k sz ds x
                                      | ALeaf None => Err (EUnmodelled "None in an assigned array")
                                      | ALeaf (Some v) =>
                                          match ds with
                                          | [] => do v' <- cast_value k sz v;; Ok (ALeaf (Some v'))
                                          | _ => Err EValidation
                                          end
                                      end);;
                            do r <- go l0;; Ok (x' :: r)
                        end) l;;
            Ok (ANode l')
      end
  end.

Definition visit_array_decl (base : ctype) (dimexprs : list expr) (name : string) (init : option expr) : M (list stmt) :=
  let k := kind_of_ctype base in
  szv <- (match base with
          | TBool => ret (VInt 1)
          | TBit _ => eval_base_size base 1
          | _ => eval_base_size base 32
          end);;
  sz <- (match szv with
         | VInt z => if z <=? 0 then verr else ret z
         | VBool _ => unm "bool base size"
         | _ => verr
         end);;
  match base with
  | TFloat _ => guard ((sz =? 32) || (sz =? 64)) EValidation
  | _ => ret tt
  end;;;
  match base with TBit _ => verr | _ => ret tt end;;;                 (* arrays of bit are not allowed *)
  guard (Nat.leb (List.length dimexprs) 7) EValidation;;;
  dims <- mapMM (fun e => v <- eval_simple e true None;;
                          match v with
                          | VInt z => if z <=? 0 then verr else ret z
                          | VBool _ => unm "bool array dimension"
                          | _ => verr
                          end) dimexprs;;
  guard (forallb (fun d => d <? 64) dims) (EUnmodelled "huge array");;;
  match k with KInt | KUint | KFloat | KBool => ret tt | _ => unm "array base type" end;;;
  val <- (match init with
          | None => ret (arr_full dims)
          | Some (EArrayLit vals) =>
              a <- array_literal k (EArrayLit vals);;
              guard (arr_rect a (arr_shape 8 a)) (EUnmodelled "ragged array literal");;;
              lift (validate_array k (Some sz) dims a)
          | Some (EIndexE _ _ as e) =>
              (* the new variable becomes a VIEW of the selected sub-array: the selection and the
                 validation of its values are modelled (they can reject), the aliasing is not *)
              '(x2, items2) <- index_items e;;
              r <- process_indexed x2 items2 false None;;
              match r with
              | ANode _ => _ <- lift (validate_array k (Some sz) dims r);;
                           unm "array initialised with a view of another array"
              | _ => unm "array initialised with a scalar"
              end
          | Some _ => unm "array initialised with a non-literal"
          end);;
  s <- getst;;
  putres (add_var s name (mkVar k (Some sz) (Some dims) (VVArr val) false false false));;;
  ret [].

Definition visit_classical_decl (t : ctype) (name : string) (init : option expr) : M (list stmt) :=
  guard (negb (is_constant_name name)) EValidation;;;
  s <- getst;;
  guard (negb (check_in_scope s name) || (in_block s && negb (smemk name (curr_scope s)))) EValidation;;;
  match t with
  | TArray base dimexprs => visit_array_decl base dimexprs name init
  | TArrayRef _ _ _ => unm "array reference declaration"
  | _ =>
  szv <- match t with
         | TBool => ret (VInt 1)
         | TBit _ => eval_base_size t 1
         | _ => eval_base_size t 32
         end;;
  sz <- match szv with
        | VInt z => if z <=? 0 then verr else ret z
        | VBool _ => unm "bool base size"
        | _ => verr
        end;;
  match t with
  | TFloat _ => guard ((sz =? 32) || (sz =? 64)) EValidation
  | _ => ret tt
  end;;;
  let k := kind_of_ctype t in
  let is_bit := match t with TBit _ => true | _ => false end in
  '(val, stmts, folded) <-
     match init with
     | None => ret ((if is_bit then VVBits sz else VVNone), [], None)
     | Some (EArrayLit _) => unm "array initialiser"
     | Some e =>
         '(iv, stmts) <- eval e false None;;
         cv <- assign_value k (Some sz) iv;;
         (* the initialiser a bit declaration is emitted with: a literal stays, anything else is folded to its value *)
         let lit := match e, iv with
                    | ELit (VInt _), _ | ELit (VBool _), _ => Some e
                    | _, _ => Some (ELit iv)
                    end in
         ret (VVScalar cv, stmts, lit)
     end;;
  s <- getst;;
  putres (add_var s name (mkVar k (Some sz) (Some (if is_bit then [sz] else [])) val false is_bit false));;;
  if is_bit then
    guard (sz <? 100000) (EUnmodelled "huge register");;;
    modify (fun s =>
      let s := with_creg_sizes s (sset name sz (creg_sizes s)) in
      let s := with_nclabels s (nclabels s + sz) in
      let s := with_cdepth s (fold_left (fun d i => bset (name, i) cnode0 d) (range_nat sz) (cdepth s)) in
      let s := level_add s name in
      with_modc s (sset name sz (mod_cregs s)) (num_clbits s + sz));;;
    let lit := match t with TBit None => 1 | _ => sz end in
    emit (stmts ++ [SClassicalDecl (TBit (Some (ELit (VInt lit)))) name folded])
  else emit stmts
  end.

Definition binop_of_assign (op : string) : M (option string) :=
  if String.eqb op "=" then ret None
  else
    let b := substring 0 (Nat.pred (String.length op)) op in
    (* BinaryOperator[...] lookup: KeyError for names that are not binary operators *)
    if smem b ["+"; "-"; "*"; "/"; "%"; "**"; "&"; "|"; "^"; "<<"; ">>"; "<"; ">"; "<="; ">="; "=="; "!="; "&&"; "||"]
    then ret (Some b) else ierr KKey.

Definition visit_assignment (lv : qarg) (op : string) (rv : expr) : M (list stmt) :=
  s <- getst;;
  let x := qarg_name lv in
  match get_visible s x with
  | None => verr
  | Some v =>
      guard (negb (v_const v)) EValidation;;;
      bop <- binop_of_assign op;;
      (* the right-hand side may be a slice of an array: an array value *)
      rhs_arr <- (match bop, rv with
                  | None, EIndexE _ _ =>
                      '(x2, items2) <- index_items rv;;
                      r <- process_indexed x2 items2 false None;;
                      match r with
                      | ANode _ =>
                          s2 <- getst;;
                          (* validate_array_assignment_values writes the converted values back into the
                             source view: only modelled when source and target have the same element type *)
                          match get_visible s2 x2 with
                          | Some v2 => guard (vkind_eqb (v_kind v2) (v_kind v) && match v_size v2, v_size v with
                                                                                  | Some a, Some b => a =? b
                                                                                  | _, _ => false
                                                                                  end)
                                             (EUnmodelled "slice assigned across element types");;;
                                       ret (Some r)
                          | None => ret (Some r)
                          end
                      | _ => ret None
                      end
                  | _, _ => ret None
                  end);;
      match rhs_arr with
      | Some src =>
          src' <- lift (validate_array (v_kind v) (v_size v) (arr_shape 8 src) src);;
          guard (negb (v_ro v)) EValidation;;;
          match lv with
          | QId _ => unm "whole-array assignment (aliasing)"
          | QIdx _ idxs =>
              items <- (match idxs with
                        | IdxList (i1 :: i2 :: rest) :: _ => ret (i1 :: i2 :: rest)
                        | _ => mapMM (fun ix => match ix with
                                                | IdxList (it :: _) => ret it
                                                | IdxList [] => ierr KIndex
                                                | IdxSet _ => unm "discrete set as an assignment index"
                                                end) idxs
                        end);;
              specs <- analyze_indices items (v_dims v);;
              s' <- getst;;
              match get_visible s' x with
              | Some v' =>
                  match v_val v' with
                  | VVArr a =>
                      (* the selected cells and the assigned array must have the same shape *)
                      match arr_get a specs with
                      | Some tgt =>
                          guard (list_eqb Z.eqb (arr_shape 8 tgt) (arr_shape 8 src')) EValidation;;;
                          match arr_set_arr a specs src' with
                          | Some a' => modify (fun s => update_var s x (set_val v' (VVArr a')))
                          | None => unm "array shapes in a slice assignment"
                          end
                      | None => unm "array shape"
                      end
                  | _ => unm "indexed assignment to a non-array value"
                  end
              | None => ret tt
              end;;;
              emit []
          end
      | None =>
      '(raw, stmts) <-
         match bop with
         | None => eval rv false None
         | Some b =>
             match lv with
             | QId _ => eval (EBin b (EId x) rv) false None
             | QIdx _ _ => verr            (* IndexedIdentifier is not an evaluable expression *)
             end
         end;;
      cv <- assign_value (v_kind v) (v_size v) raw;;
      guard (negb (v_ro v)) EValidation;;;
      match lv with
      | QIdx _ idxs =>
          items <- (match idxs with
                    | IdxList (i1 :: i2 :: rest) :: _ => ret (i1 :: i2 :: rest)
                    | _ => mapMM (fun ix => match ix with
                                            | IdxList (it :: _) => ret it
                                            | IdxList [] => ierr KIndex
                                            | IdxSet _ => unm "discrete set as an assignment index"
                                            end) idxs
                    end);;
          specs <- analyze_indices items (v_dims v);;
          s' <- getst;;
          match get_visible s' x with
          | Some v' =>
              match v_val v' with
              | VVArr a =>
                  match arr_set_scalar a specs cv with
                  | Some a' => modify (fun s => update_var s x (set_val v' (VVArr a')))
                  | None => unm "array shape"
                  end
              | _ => unm "indexed assignment to a non-array value"
              end
          | None => ret tt
          end;;;
          emit stmts
      | QId _ =>
          (* the Variable object found by the lookup is mutated in place; re-read it after the
             evaluation of the right-hand side (a subroutine call may have run meanwhile) *)
          s' <- getst;;
          match get_visible s' x with
          | Some v' => modify (fun s => update_var s x (set_val v' (VVScalar cv)))
          | None => ret tt
          end;;;
          emit stmts
      end
      end
  end.

(* ---------- depth bookkeeping ---------- *)
(* first pass of the two-pass depth updates (barrier, gate): rewrite each node, return the
   maximum of (old depth + 1); second pass: every touched node gets that maximum *)
Fixpoint depth_pass1 (upd : qnode -> qnode) (l : list bitref) (mx : Z) : M Z :=
  match l with
  | [] => ret mx
  | b :: l' =>
      qn <- get_qnode b;;
      set_qnode b (upd qn);;;
      depth_pass1 upd l' (Z.max mx (qd qn + 1))
  end.
Definition set_depth (m : Z) (qn : qnode) : qnode := mkQ m (q_resets qn) (q_meas qn) (q_gates qn) (q_barriers qn).
Definition depth_pass2 (mx : Z) (l : list bitref) : M unit :=
  iterM (fun b => qn <- get_qnode b;; set_qnode b (set_depth mx qn)) l.
Definition barrier_upd (qn : qnode) : qnode := mkQ (qd qn + 1) (q_resets qn) (q_meas qn) (q_gates qn) (q_barriers qn + 1).
Definition gate_upd (qn : qnode) : qnode := mkQ (qd qn) (q_resets qn) (q_meas qn) (q_gates qn + 1) (q_barriers qn).
Definition reset_upd (qn : qnode) : qnode := mkQ (qd qn + 1) (q_resets qn + 1) (q_meas qn) (q_gates qn) (q_barriers qn).
Definition depth_barrier (ids : list bitref) : M unit :=
  mx <- depth_pass1 barrier_upd ids 0;; depth_pass2 mx ids.
Definition depth_gate_subset (subset : list bitref) : M unit :=
  mx <- depth_pass1 gate_upd subset 0;; depth_pass2 mx subset.
Definition depth_reset (ids : list bitref) : M unit :=
  iterM (fun b => qn <- get_qnode b;; set_qnode b (reset_upd qn)) ids.
Definition depth_measure_pair (p : bitref * bitref) : M unit :=
  qn <- get_qnode (fst p);;
  cn <- get_cnode (snd p);;
  let m := Z.max (qd qn + 1) (cd cn + 1) in
  set_qnode (fst p) (mkQ m (q_resets qn) (q_meas qn + 1) (q_gates qn) (q_barriers qn));;;
  set_cnode (snd p) (mkC m (c_meas cn + 1)).

(* ---------- quantum statements ---------- *)
Definition visit_measure (q : qarg) (target : option qarg) : M (list stmt) :=
  match target with
  | None => verr
  | Some t =>
      s <- getst;;
      guard (smemk (qarg_name q) (qreg_sizes s)) EValidation;;;
      guard (smemk (qarg_name t) (creg_sizes s)) EValidation;;;
      src <- get_op_bits [q] (qreg_sizes s) true;;
      s <- getst;;
      tgt <- get_op_bits [t] (creg_sizes s) false;;
      guard (Nat.eqb (List.length src) (List.length tgt)) EValidation;;;
      iterM depth_measure_pair (combine src tgt);;;
      emit (map (fun p => SMeasure (qarg_of (fst p)) (Some (qarg_of (snd p)))) (combine src tgt))
  end.

Definition in_some_function (s : st) : bool := match fn_sizes s with [] => false | _ => true end.

Definition visit_reset (q : list qarg) : M (list stmt) :=
  s <- getst;;
  qs <- (if in_some_function s then transform_function_qubits q else ret q);;
  s <- getst;;
  ids <- get_op_bits qs (qreg_sizes s) true;;
  depth_reset ids;;;
  emit (map (fun b => SReset (qarg_of b)) ids).

Definition visit_barrier (q : list qarg) : M (list stmt) :=
  s <- getst;;
  qs <- (if in_some_function s then transform_function_qubits q else ret q);;
  s <- getst;;
  ids <- get_op_bits qs (qreg_sizes s) true;;
  depth_barrier ids;;;
  emit (map (fun b => SBarrier [qarg_of b]) ids).

Fixpoint chunks {A} (fuel : nat) (k : nat) (l : list A) : list (list A) :=
  match fuel, l with
  | _, [] => []
  | O, _ => []
  | S f, _ => firstn k l :: chunks f k (skipn k l)
  end.

Definition unroll_targets (qubits : list qarg) (count : nat) : M (list (list bitref)) :=
  s <- getst;;
  bits <- get_op_bits qubits (qreg_sizes s) true;;
  match count with
  | O => ierr KZeroDiv
  | _ => guard (Nat.eqb (Nat.modulo (List.length bits) count) 0) EValidation;;;
         ret (chunks (List.length bits) count bits)
  end.

Definition update_depth_for_gate (targets : list (list bitref)) : M unit :=
  iterM depth_gate_subset targets.

Definition get_op_parameters (args : list expr) : M (list pyval) :=
  mapMM (fun e => v <- eval0 e false None;; ret (num_of_bool v)) args.

(* visitor._visit_basic_gate_operation *)
Definition visit_basic_gate (name : string) (args : list expr) (qubits : list qarg) (inverse : bool)
  : M (list stmt) :=
  '(entry, arity, invert) <-
     (if negb inverse then
        match lookup_op bitref name with
        | Some (e, n) => ret (e, n, false)
        | None => verr
        end
      else
        match lookup_inv bitref name with
        | InvFound e n inv => ret (e, n, inv)
        | InvKeyError => ierr KKey
        | InvUnsupported => verr
        end);;
  params <- (match args with
             | [] => ret []
             | _ => ps <- get_op_parameters args;;
                    if invert then mapMM (fun p => lift (py_binop OpMul (VInt (-1)) p)) ps else ret ps
             end);;
  targets <- unroll_targets qubits arity;;
  out <- concatMM (fun tg =>
           match entry with
           | None => unm "opaque library gate"
           | Some (_, _, f) =>
               let gargs := map GA (map AVar (seq 0 (List.length params))) ++ map GQ tg in
               (* a TypeError raised while the decomposition callable runs is re-raised as
                  ValidationError *)
               match f gargs with
               | None => verr
               | Some bgs => lift (match mapR (stmt_of_bgate params) bgs with
                                   | Err (EInternal KType) => Err EValidation
                                   | r => r
                                   end)
               end
           end) targets;;
  update_depth_for_gate targets;;;
  emit out.

(* transformer.transform_expression: substitute gate parameters *)
Fixpoint subst_params (pm : list (string * pyval)) (e : expr) : expr :=
  match e with
  | EBin op l r => EBin op (subst_params pm l) (subst_params pm r)
  | EUn op x => EUn op (subst_params pm x)
  | EId x => match sget x pm with
             | Some VNone => e
             | Some v => ELit v
             | None => e
             end
  | _ => e
  end.

Definition dedup_names_last (l : list (string * bitref)) : list (string * bitref) :=
  fold_left (fun acc p => sset (fst p) (snd p) acc) l [].

(* visitor._visit_custom_gate_operation *)
Definition visit_custom_gate (name : string) (args : list expr) (qubits : list qarg) (inverse : bool)
  : M (list stmt) :=
  s <- getst;;
  match sget name (gates s) with
  | None => ierr KKey
  | Some gd =>
      bits <- get_op_bits qubits (qreg_sizes s) true;;
      guard (Nat.eqb (List.length args) (List.length (g_params gd))) EValidation;;;
      guard (Nat.eqb (List.length bits) (List.length (g_qubits gd))) EValidation;;;
      let qmap := dedup_names_last (combine (g_qubits gd) bits) in
      pvals <- mapMM (fun e => eval0 e false None) args;;
      let pmap := fold_left (fun acc p => sset (fst p) (snd p) acc) (combine (g_params gd) pvals) [] in
      let body := if inverse then rev (g_body gd) else g_body gd in
      s <- getst;;
      guard (negb (smem name (gstack s))) EValidation;;;
      modify (fun s => with_gstack s (name :: gstack s));;;
      (* the body has a scope of its own: global constants only, nothing of the caller *)
      modify (fun s => push_scope (push_ctx CGate s));;;
      out <- concatMM (fun op =>
               match op with
               | SGate mods gname gargs gqs =>
                   guard (negb (String.eqb gname name)) EValidation;;;
                   let gargs' := map (subst_params pmap) gargs in
                   gqs' <- mapMM (fun q => match q with
                                           | QIdx _ _ => verr
                                           | QId x => match sget x qmap with
                                                      | Some b => ret (qarg_of b)
                                                      | None => verr
                                                      end
                                           end) gqs;;
                   visit_rec (SGate (if inverse then mods ++ [MInv] else mods) gname gargs' gqs')
               | SPhase mods arg gqs =>
                   let arg' := subst_params pmap arg in
                   gqs' <- (match gqs with
                            | [] => ret (map (fun p => qarg_of (snd p)) qmap)
                            | _ => mapMM (fun q => match q with
                                                   | QIdx _ _ => verr
                                                   | QId x => match sget x qmap with
                                                              | Some b => ret (qarg_of b)
                                                              | None => verr
                                                              end
                                                   end) gqs
                            end);;
                   visit_rec (SPhase (if inverse then mods ++ [MInv] else mods) arg' gqs')
               | _ => verr
               end) body;;
      modify (fun s => pop_ctx (pop_scope s));;;
      modify (fun s => with_gstack s (tl (gstack s)));;;
      emit out
  end.

(* visitor._visit_external_gate_operation *)
Definition visit_external_gate (name : string) (args : list expr) (qubits : list qarg) (inverse : bool)
  : M (list stmt) :=
  s <- getst;;
  count <-
    (match sget name (gates s) with
     | Some gd => visit_custom_gate name args qubits inverse;;; ret (List.length (g_qubits gd))
     | None =>
         visit_basic_gate name args qubits inverse;;;
         match lookup_op bitref name with Some (_, n) => ret n | None => verr end
     end);;
  params <- get_op_parameters args;;
  targets <- unroll_targets qubits count;;          (* resolved where the call stands *)
  emit (map (fun tg => SGate (if inverse then [MInv] else []) name (map ELit params) (map qarg_of tg)) targets).

(* visitor._collapse_gate_modifiers *)
Fixpoint collapse_mods (mods : list gmod) (power : pyval) (inv : bool) : M (pyval * bool) :=
  match mods with
  | [] => ret (power, inv)
  | MInv :: ms => collapse_mods ms power (negb inv)
  | MPow None :: ms => collapse_mods ms power inv
  | MPow (Some e) :: ms =>
      c <- eval0 e false None;;
      (* a power that is not an int is rejected *)
      absc <- (match c with
               | VInt z => ret (VInt (Z.abs z))
               | VBool b => ret (VInt (if b then 1 else 0))
               | VFloat _ | VNone => verr
               end);;
      neg <- lift (py_binop OpLt c (VInt 0));;
      p <- lift (py_binop OpMul power absc);;
      collapse_mods ms p (if truthy neg then negb inv else inv)
  | (MCtrl _ | MNegCtrl _) :: _ => ierr KNotImpl
  end.

Fixpoint repeatM {A} (n : nat) (m : M (list A)) : M (list A) :=
  match n with
  | O => ret []
  | S n' => x <- m;; xs <- repeatM n' m;; ret (x ++ xs)
  end.

(* visitor._visit_generic_gate_operation for a QuantumGate *)
Definition visit_generic_gate (mods : list gmod) (name : string) (args : list expr) (qubits : list qarg)
  : M (list stmt) :=
  '(power, inv) <- collapse_mods mods (VInt 1) false;;
  s <- getst;;
  qubits' <- (if negb (match qubits with [] => true | _ => false end) && negb (in_gate s) && in_some_function s
              then transform_function_qubits qubits else ret qubits);;
  n <- (match power with
        | VInt z => ret z
        | VBool b => ret (if b then 1 else 0)
        | _ => ierr KType
        end);;
  guard (n <? 10000) (EUnmodelled "huge power");;;
  out <- repeatM (Z.to_nat n)
           (s <- getst;;
            if smem name externals then visit_external_gate name args qubits' inv
            else if smemk name (gates s) then visit_custom_gate name args qubits' inv
            else visit_basic_gate name args qubits' inv);;
  emit out.

(* visitor._visit_generic_gate_operation for a QuantumPhase (+ _visit_phase_operation).
   The copied operation is mutated by each repetition and the same object is appended each time,
   so every emitted copy carries the argument of the last repetition. *)
Definition visit_generic_phase (mods : list gmod) (arg : expr) (qubits : list qarg) : M (list stmt) :=
  '(power, inv) <- collapse_mods mods (VInt 1) false;;
  s <- getst;;
  qubits' <- (if negb (match qubits with [] => true | _ => false end) && negb (in_gate s) && in_some_function s
              then transform_function_qubits qubits else ret qubits);;
  n <- (match power with
        | VInt z => ret z
        | VBool b => ret (if b then 1 else 0)
        | _ => ierr KType
        end);;
  guard (n <? 10000) (EUnmodelled "huge power");;;
  if n <=? 0 then emit []
  else
    v00 <- eval0 arg false None;;
    let v0 := num_of_bool v00 in
    (* every application folds the (unchanged) argument of its own copy of the statement *)
    final <- (if inv then lift (py_binop OpMul (VInt (-1)) v0) else ret v0);;
    s <- getst;;
    guard (negb (enclosing_global s && negb (match qubits' with [] => true | _ => false end))) EValidation;;;
    emit (repeat (SPhase [] (ELit final) qubits') (Z.to_nat n)).

(* ---------- control flow ---------- *)
Definition visit_block (l : list stmt) : M (list stmt) := concatMM visit_rec l.

(* transformer.get_branch_params *)
Definition literal_index (idx : index) : M pyval :=
  match idx with
  | IdxList (IExpr (ELit v) :: _) => ret v
  | IdxList (IExpr _ :: _) => ierr KAttr
  | IdxList (IRange _ _ _ :: _) => ierr KAttr
  | IdxList [] => ierr KIndex
  | IdxSet _ => ierr KType
  end.

Definition branch_params (cond : expr) : M (option pyval * string * pyval) :=
  match cond with
  | EId _ => verr
  | EUn op x =>
      guard (String.eqb op "!") EValidation;;;
      match x with
      | EIndexE (EId r) idx => i <- literal_index idx;; ret (Some i, r, VBool false)
      | _ => ierr KAttr
      end
  | EBin op l r =>
      guard (String.eqb op "==") EValidation;;;
      match l with
      | EId reg => v <- eval0 r false (Some KInt);; ret (None, reg, v)
      | EIndexE c0 idx =>
          (* a single bit only: sets and ranges are rejected as in the bare form below *)
          match idx with
          | IdxSet _ | IdxList (IRange _ _ _ :: _) => verr
          | _ => ret tt
          end;;;
          i <- literal_index idx;;
          reg <- (match c0 with EId reg => ret reg | _ => ierr KAttr end);;
          v <- eval0 r false None;;
          ne <- lift (py_binop OpNe v (VInt 0));;
          ret (Some i, reg, ne)
      | _ => ierr KAttr
      end
  | EIndexE c idx =>
      match idx with
      | IdxSet _ => verr
      | IdxList (IRange _ _ _ :: _) => verr
      | IdxList (IExpr (ELit v) :: _) =>
          match c with EId reg => ret (Some v, reg, VBool true) | _ => ierr KAttr end
      | IdxList (IExpr _ :: _) => ierr KAttr
      | IdxList [] => ierr KIndex
      end
  | _ => ret (None, "", VNone)
  end.

Definition visit_branch (cond : expr) (then_ else_ : list stmt) : M (list stmt) :=
  modify (fun s => level_push (push_scope (push_ctx CBlock s)));;;
  guard (negb (match then_ with [] => true | _ => false end)) EValidation;;;
  s <- getst;;
  isreg <- creg_in_expr s cond;;
  out <-
    (if isreg then
       '(rid, rname, rhs) <- branch_params cond;;
       s <- getst;;
       match sget rname (creg_sizes s) with
       | None => verr
       | Some size =>
           rid' <- (match rid with
                    | None => ret None
                    | Some VNone => ret None
                    | Some (VInt i) => validate_index i size;;; ret (Some i)
                    | Some _ => unm "non-int condition index"
                    end);;
           rhs_lit <- (match rhs with
                       | VBool _ | VInt _ => ret (ELit rhs)
                       | _ => ierr KAssert
                       end);;
           t <- visit_block then_;;
           e <- visit_block else_;;
           let lhs := match rid' with
                      | Some i => EIndexE (EId rname) (IdxList [IExpr (ELit (VInt i))])
                      | None => EId rname
                      end in
           ret [SIf (EBin "==" lhs rhs_lit) t e]
       end
     else
       v <- eval0 cond false None;;
       ne <- lift (py_binop OpNe v (VInt 0));;
       visit_block (if truthy ne then then_ else else_));;
  modify (fun s => pop_ctx (pop_scope (level_pop s)));;;
  emit out.

Definition for_values (set : forset) : M (option expr * list pyval) :=
  match set with
  | FRange start stop step =>
      a <- eval_opt start false None;;
      st <- (match step with None => ret (VInt 1) | Some e => eval0 e false None end);;
      b <- eval_opt stop false None;;
      let toz v := match v with
                   | VInt z => ret z
                   | VBool b => ret (if b then 1 else 0)
                   | _ => ierr KType
                   end in
      (* endval + (1 if stepval > 0 else -1) is computed before range() checks its arguments *)
      pos <- lift (py_binop OpGt st (VInt 0));;
      b' <- lift (py_binop OpAdd b (VInt (if truthy pos then 1 else -1)));;
      az <- toz a;; bz <- toz b';; sz <- toz st;;
      l <- lift (py_range az bz sz);;
      ret (start, map VInt l)
  | FSet vals =>
      match vals with
      | [] => ierr KIndex
      | v0 :: _ => l <- mapMM (fun e => eval0 e false None) vals;; ret (Some v0, l)
      end
  | FOtherSet => verr
  end.

Definition visit_for (t : ctype) (var : string) (set : forset) (body : list stmt)
  (decl : ctype -> string -> option expr -> M (list stmt)) : M (list stmt) :=
  '(init, vals) <- for_values set;;
  (fix go (vals : list pyval) : M (list stmt) :=
     match vals with
     | [] => ret []
     | v :: vals' =>
         modify (fun s => push_scope (push_ctx CBlock s));;;
         d <- decl t var init;;
         s <- getst;;
         match get_visible s var with
         | Some x =>
             (* the element is stored as an assignment to the loop variable's declared type stores it *)
             cv <- assign_value (v_kind x) (v_size x) v;;
             modify (fun s => update_var s var (set_val x (VVScalar cv)))
         | None => ret tt
         end;;;
         b <- visit_block body;;
         modify (fun s => pop_ctx (pop_scope s));;;
         if check_only then ret []
         else rest <- go vals';; ret (d ++ b ++ rest)
     end) vals.

Definition stmt_blacklisted_in_switch (s : stmt) : bool :=
  match s with
  | SQubitDecl _ _ | SSubDef _ _ _ _ | SGateDef _ _ _ _ => true
  | SClassicalDecl (TArray _ _) _ _ => true
  | _ => false
  end.

Definition eval_case (stmts : list stmt) : M (list stmt) :=
  modify (fun s => push_scope (push_ctx CBlock s));;;
  out <- concatMM (fun st => guard (negb (stmt_blacklisted_in_switch st)) EValidation;;; visit_rec st) stmts;;
  modify (fun s => pop_ctx (pop_scope s));;;
  emit out.

Definition visit_switch (target : expr) (cases : list (list expr * list stmt)) (default : option (list stmt))
  : M (list stmt) :=
  tname <- (match target with
            | EId x => ret x
            | EIndexE _ _ => match base_name target with Some x => ret x | None => ierr KAttr end
            | _ => ret ""
            end);;
  s <- getst;;
  guard (match get_visible s tname with Some v => vkind_eqb (v_kind v) KInt | None => false end) EValidation;;;
  tv <- eval0 target false None;;
  guard (negb (match cases with [] => true | _ => false end)) EValidation;;;
  (fix go (cs : list (list expr * list stmt)) : M (list stmt) :=
     match cs with
     | [] => match default with Some d => eval_case d | None => ret [] end
     | (vals, body) :: cs' =>
         hit <- (fix chk (vs : list expr) (seen : list pyval) (hit : bool) : M bool :=
                   match vs with
                   | [] => ret hit
                   | e :: vs' =>
                       cv <- eval0 e true (Some KInt);;
                       guard (negb (existsb (pyval_eqb cv) seen)) EValidation;;;
                       eqv <- lift (py_binop OpEq cv tv);;
                       chk vs' (cv :: seen) (hit || truthy eqv)
                   end) vals [] false;;
         if hit then eval_case body else go cs'
     end) cases.

(* visitor._visit_alias_statement *)
Definition visit_alias (name : string) (value : expr) : M (list stmt) :=
  s <- getst;;
  guard (negb (in_some_function s)) EValidation;;;       (* aliases are global: not inside a subroutine body *)
  guard (negb (check_in_scope s name)) EValidation;;;
  modify (fun s => level_add s name);;;
  '(aliased, idx) <- (match value with
                      | EId x => ret (x, None)
                      | EIndexE (EId x) i => ret (x, Some i)
                      | _ => verr
                      end);;
  s <- getst;;
  match sget aliased (qreg_sizes s) with
  | None => verr
  | Some size =>
      ids <- (match idx with
              | None => lift (py_range 0 size 1)
              | Some (IdxSet vals) =>
                  ids <- discrete_set_values vals;;
                  (* labels are written while the elements are validated one by one *)
                  (fix go (l : list Z) (k : Z) : M unit :=
                     match l with
                     | [] => ret tt
                     | i :: l' =>
                         validate_index i size;;;
                         modify (fun s => with_alias_labels s (bset (name, k) (aliased, i) (alias_labels s)));;;
                         go l' (k + 1)
                     end) ids 0;;;
                  ret ids
              | Some (IdxList [IRange a b c]) => range_ids a b c size
              | Some (IdxList [IExpr e]) => v <- eval0 e false None;; i <- as_index v;; validate_index i size;;; ret [i]
              | Some (IdxList _) => verr
              end);;
      modify (fun s =>
        let labels := fold_left (fun acc p => bset (name, fst p) (aliased, snd p) acc)
                                (combine (range_nat (Z.of_nat (List.length ids))) ids) (alias_labels s) in
        with_alias_sizes (with_alias_labels s labels) (sset name (Z.of_nat (List.length ids)) (alias_sizes s)));;;
      ret []
  end.

(* ---------- dispatch (visit_statement) ---------- *)
Definition visit_stmt_body (stm : stmt) : M (list stmt) :=
  match stm with
  | SInclude f =>
      s <- getst;;
      guard (negb (smem f (included s))) EValidation;;;
      modify (fun s => with_included s (f :: included s));;;
      emit [SInclude f]
  | SQubitDecl name size => visit_qubit_decl name size
  | SClassicalDecl t name init => visit_classical_decl t name init
  | SConstDecl t name init => visit_const_decl t name init
  | SAssign lv op rv => visit_assignment lv op rv
  | SGateDef name params qubits body =>
      s <- getst;;
      guard (negb (smemk name (gates s))) EValidation;;;
      modify (fun s => with_gates s (sset name (mkGate params qubits body) (gates s)));;;
      ret []
  | SGate mods name args qubits => visit_generic_gate mods name args qubits
  | SPhase mods arg qubits => visit_generic_phase mods arg qubits
  | SMeasure q t => visit_measure q t
  | SReset q => visit_reset [q]
  | SBarrier qs => visit_barrier qs
  | SIf c t e => visit_branch c t e
  | SFor t v set body => visit_for t v set body visit_classical_decl
  | SSwitch t cases d => visit_switch t cases d
  | SAlias n v => visit_alias n v
  | SSubDef name args ret_ body =>
      guard (negb (is_constant_name name)) EValidation;;;
      s <- getst;;
      guard (negb (smemk name (subs s))) EValidation;;;
      guard (negb (check_in_scope s name)) EValidation;;;
      modify (fun s => with_subs s (sset name (mkSub args ret_ body) (subs s)));;;
      ret []
  | SExprStmt e =>
      match e with
      | ECall f args => '(_, stmts) <- call_rec f args;; ret stmts
      | _ => ierr KAttr
      end
  | SIODecl => ret []
  | SReturn _ | SOther _ => verr
  end.

(* ---------- subroutines.py + visitor._visit_function_call ---------- *)
Definition actual_arg_name (e : expr) : option string :=
  match e with
  | EId x => Some x
  | EIndexE (EId x) _ => Some x
  | EIndexE (EIndexE (EId x) _) _ => Some x
  | _ => None
  end.

(* subroutines._process_classical_arg_by_reference: the formal is bound to (a view of) the actual array *)
Definition lit_item (it : idxitem) : bool :=
  let lit e := match e with ELit (VInt _) => true | _ => false end in
  let olit o := match o with None => true | Some e => lit e end in
  match it with
  | IExpr e => lit e
  | IRange a b c => olit a && olit b && olit c
  end.

Definition actual_items (e : expr) : option (list idxitem) :=
  match e with
  | EIndexE (EId _) (IdxList items) => Some items
  | EIndexE (EId _) (IdxSet vals) => Some (map IExpr vals)
  | EIndexE (EIndexE _ _) _ => option_map snd (nested_items e [])
  | _ => None
  end.

Definition process_array_ref_arg (base : ctype) (fdims : list expr) (ndim : option expr) (fname : string)
  (readonly : bool) (actual : expr) : M (string * var) :=
  fsz <- (match size_of_ctype base with
          | None => ierr KAttr
          | Some None => ret VNone
          | Some (Some e) => eval_simple e false None
          end);;
  match actual_arg_name actual with
  | None => verr
  | Some a =>
      s <- getst;;
      guard (negb (smemk a (qreg_sizes s))) EValidation;;;
      guard (check_in_scope s a) EValidation;;;
      match get_visible s a with
      | None => ierr KAttr
      | Some av =>
          match v_dims av with
          | None | Some [] => verr
          | Some adims =>
              (* base types and sizes of the elements must match *)
              guard (vkind_eqb (kind_of_ctype base) (v_kind av) &&
                     match fsz, v_size av with VInt z, Some z' => z =? z' | _, _ => false end) EValidation;;;
              n <- (match ndim with
                    | Some e => v <- eval_simple e true (Some KInt);; as_int_index v
                    | None => ret (Z.of_nat (List.length fdims))
                    end);;
              guard (0 <? n) EValidation;;;
              guard (n <=? Z.of_nat (List.length adims)) EValidation;;;
              dims <- (match ndim with
                       | Some _ => ret (firstn (Z.to_nat n) adims)
                       | None =>
                           mapMM (fun p => v <- eval_simple (fst p) true (Some KInt);;
                                           d <- as_int_index v;;
                                           guard (0 <? d) EValidation;;;
                                           guard (d <=? snd p) EValidation;;;
                                           ret d) (combine fdims adims)
                       end);;
              match actual with
              | EId _ => ret (fname, mkVar (v_kind av) (v_size av) (Some dims) (v_val av) false false readonly)
              | EIndexE _ _ =>
                  (* the formal is a numpy VIEW of the selected sub-array *)
                  '(_, items) <- index_items actual;;
                  guard (forallb lit_item items) (EUnmodelled "non-literal index in an array actual");;;
                  specs <- analyze_indices items (v_dims av);;
                  match v_val av with
                  | VVArr a =>
                      match arr_get a specs with
                      | Some (ANode l) =>
                          ret (fname, mkVar (v_kind av) (v_size av) (Some dims) (VVArr (ANode l)) false false readonly)
                      | Some (ALeaf _) => unm "array element passed by reference"
                      | None => unm "array shape"
                      end
                  | _ => unm "indexed non-array value"
                  end
              | _ => unm "array actual shape"
              end
          end
      end
  end.

Definition process_classical_arg (t : ctype) (fname : string) (actual : expr) : M (string * var) :=
  match t with
  | TArrayRef _ _ _ => unm "array reference argument"
  | _ =>
      s <- getst;;
      match actual_arg_name actual with
      | Some a =>
          if is_constant_name a then ret tt
          else
            guard (negb (smemk a (qreg_sizes s))) EValidation;;;
            guard (check_in_scope s a) EValidation
      | None => ret tt
      end;;;
      v <- eval0 actual false None;;
      (* a type without a width has the width of a declaration: bool 1, otherwise 32 *)
      sz <- (match size_of_ctype t with
             | None | Some None => ret (match t with TBool => 1 | _ => 32 end)
             | Some (Some e) => z <- eval0 e false None;;
                                match z with VInt n => ret n | _ => unm "non-int formal size" end
             end);;
      (* the actual is assigned to the formal: converted to and range-checked against its type *)
      cv <- assign_value (kind_of_ctype t) (Some sz) v;;
      ret (fname, mkVar (kind_of_ctype t) (Some sz) None (VVScalar cv) false false false)
  end.

(* transformer.get_target_qubits *)
Definition target_qubits (actual : expr) (name : string) : M (option (list Z)) :=
  s <- getst;;
  let size := match sget name (qreg_sizes s) with Some n => n | None => 0 end in
  match actual with
  | EId _ => l <- lift (py_range 0 size 1);; ret (Some l)
  | EIndexE _ (IdxSet vals) =>
      ids <- discrete_set_values vals;;
      iterM (fun i => validate_index i size) ids;;;
      ret (Some ids)
  | EIndexE _ (IdxList (IExpr ((ELit (VInt _) | EId _) as e) :: _)) =>
      v <- eval0 e false None;; i <- as_index v;; validate_index i size;;; ret (Some [i])
  | EIndexE _ (IdxList (IRange a b c :: _)) => l <- range_ids a b c size;; ret (Some l)
  | EIndexE _ (IdxList []) => ierr KIndex
  | _ => ret None
  end.

Definition call_body (f : string) (args : list expr) : M (pyval * list stmt) :=
  s <- getst;;
  match sget f (subs s) with
  | None => verr
  | Some sd =>
      guard (Nat.eqb (List.length args) (List.length (s_args sd))) EValidation;;;
      (* arguments are processed in order; quantum and classical variables collected separately *)
      '(qvars, cvars, fsz, fmap, _) <-
         (fix go (l : list (expr * farg)) (qv cv : list (string * var)) (fsz : list (string * Z))
                 (fmap : list (bitref * bitref)) (dup : list (string * list Z))
            : M (list (string * var) * list (string * var) * list (string * Z) * list (bitref * bitref) * list (string * list Z)) :=
            match l with
            | [] => ret (qv, cv, fsz, fmap, dup)
            | (actual, FClassical (TArrayRef base fdims ndim) fname ro) :: l' =>
                x <- process_array_ref_arg base fdims ndim fname ro actual;;
                go l' qv (cv ++ [x]) fsz fmap dup
            | (actual, FClassical t fname _) :: l' =>
                x <- process_classical_arg t fname actual;;
                go l' qv (cv ++ [x]) fsz fmap dup
            | (actual, FQubit fname size) :: l' =>
                szv <- eval_opt size true (Some KInt);;
                n <- (match szv with
                      | VNone => ret 1
                      | VInt z => ret z
                      | _ => unm "non-int qubit formal size"
                      end);;
                guard (0 <? n) EValidation;;;
                let fsz' := sset fname n fsz in
                s <- getst;;
                let aname := match actual_arg_name actual with Some a => a | None => "" end in
                guard (smemk aname (qreg_sizes s)) EValidation;;;
                modify (fun s => level_add s fname);;;
                tq <- target_qubits actual aname;;
                match tq with
                | None => verr
                | Some ids =>
                    guard (Z.of_nat (List.length ids) =? n) EValidation;;;
                    (* validator.validate_unique_qubits *)
                    dup' <- (match sget aname dup with
                             | None => ret (sset aname ids dup)
                             | Some seen =>
                                 guard (negb (existsb (fun i => existsb (Z.eqb i) seen) ids)) EValidation;;;
                                 ret (sset aname (seen ++ ids) dup)
                             end);;
                    let fmap' := fold_left (fun acc p => bset (fname, fst p) (aname, snd p) acc)
                                           (combine (range_nat (Z.of_nat (List.length ids))) ids) fmap in
                    go l' (qv ++ [(fname, mkVar KQubit (Some n) None VVNone false false false)]) cv fsz' fmap' dup'
                end
            end) (combine args (s_args sd)) [] [] [] [] [];;
      (* two views of one array alias each other inside the body: outside the model *)
      (let refs := flat_map (fun p => match p with
                                      | (actual, FClassical (TArrayRef _ _ _) _ _) =>
                                          match actual_arg_name actual with Some a => [a] | None => [] end
                                      | _ => []
                                      end) (combine args (s_args sd)) in
       guard (Nat.eqb (List.length (nodup string_dec refs)) (List.length refs))
             (EUnmodelled "one array passed by reference twice"));;;
      modify (fun s => push_ctx CFunction (level_push (push_scope s)));;;
      iterM (fun p => s <- getst;; putres (add_var s (fst p) (snd p))) (qvars ++ cvars);;;
      modify (fun s => with_fn s (fsz :: fn_sizes s) (fmap :: fn_maps s));;;
      '(out, retstmt) <-
         (fix go (body : list stmt) : M (list stmt * option (option expr)) :=
            match body with
            | [] => ret ([], None)
            | SReturn e :: _ => ret ([], Some e)
            | st :: body' => o <- visit_rec st;; '(os, r) <- go body';; ret (o ++ os, r)
            end) (s_body sd);;
      '(rv, rstmts) <-
         (match retstmt with
          | None => ret (VNone, [])
          | Some e =>
              '(v, stmts) <- (match e with None => ret (VNone, []) | Some x => eval x false None end);;
              (* validator.validate_return_statement *)
              v' <- (match s_ret sd with
                     | None => match v with VNone => ret VNone | _ => verr end
                     | Some t =>
                         match v with
                         | VNone => verr
                         | _ =>
                             sz <- (match size_of_ctype t with
                                    | None => ret 1
                                    | Some None => ret 32               (* no width: that of a declaration *)
                                    | Some (Some (ELit (VInt n))) => ret n
                                    | Some (Some _) => ierr KAttr
                                    end);;
                             assign_value (kind_of_ctype t) (Some sz) v
                         end
                     end);;
              ret (v', stmts)
          end);;
      (* array formals are views of the actual arrays: what the body wrote is visible to the caller *)
      sf <- getst;;
      let backs := flat_map (fun p => match p with
                                      | (actual, FClassical (TArrayRef _ _ _) fname false) =>
                                          match actual_arg_name actual, sget fname (curr_scope sf) with
                                          | Some a, Some fv => [(a, actual_items actual, v_val fv)]
                                          | _, _ => []
                                          end
                                      | _ => []
                                      end) (combine args (s_args sd)) in
      modify (fun s => pop_scope (level_pop (pop_ctx (with_fn s (tl (fn_sizes s)) (tl (fn_maps s))))));;;
      iterM (fun b => let '(a, oitems, val) := b in
                      s <- getst;;
                      match get_visible s a with
                      | Some av =>
                          match oitems with
                          | None => modify (fun s => update_var s a (set_val av val))
                          | Some items =>
                              specs <- analyze_indices items (v_dims av);;
                              match v_val av, val with
                              | VVArr a0, VVArr src =>
                                  match arr_set_arr a0 specs src with
                                  | Some a' => modify (fun s => update_var s a (set_val av (VVArr a')))
                                  | None => unm "array shapes in a view write-back"
                                  end
                              | _, _ => unm "view write-back of a non-array value"
                              end
                          end
                      | None => ret tt
                      end) backs;;;
      if check_only then ret (rv, []) else ret (rv, out ++ rstmts)
  end.

End Open.

(* ---------- tying the knot on fuel ---------- *)
Fixpoint visit_stmt (check_only : bool) (externals : list string) (fuel : nat) (s : stmt) : M (list stmt) :=
  match fuel with
  | O => fail EFuel
  | S f => visit_stmt_body check_only externals (visit_stmt check_only externals f)
             (visit_call check_only externals f) s
  end
with visit_call (check_only : bool) (externals : list string) (fuel : nat) (f : string) (args : list expr)
  : M (pyval * list stmt) :=
  match fuel with
  | O => fail EFuel
  | S f' => call_body check_only (visit_stmt check_only externals f')
              (visit_call check_only externals f') f args
  end.

(* visitor.finalize: drop the operand list of a top-level gphase that names every qubit *)
Definition finalize (s : st) (l : list stmt) : list stmt :=
  map (fun x => match x with
                | SPhase m a qs => if Z.of_nat (List.length qs) =? nqlabels s then SPhase m a [] else x
                | _ => x
                end) l.

Record outcome := mkOut { o_stmts : list stmt; o_state : st }.

(* Qasm2Module._filter_statements: top-level statement kinds allowed in an OpenQASM 2 module *)
Definition qasm2_allowed (s : stmt) : bool :=
  match s with
  | SIf _ _ _ | SQubitDecl _ _ | SClassicalDecl (TBit _) _ _ | SInclude _ | SGateDef _ _ _ _
  | SGate _ _ _ _ | SMeasure _ _ | SReset _ | SBarrier _ => true
  | _ => false
  end.

(* QasmModule.accept with a fresh visitor: (whitelist;) visit_basic_block + finalize *)
Definition run_visit (qasm2 : bool) (check_only : bool) (externals : list string) (fuel : nat)
  (prog : list stmt) : res outcome :=
  if qasm2 && negb (forallb qasm2_allowed prog) then Err EValidation
  else
  match concatMM (visit_stmt check_only externals fuel) prog init_st with
  | Ok (out, s) => Ok (mkOut (finalize s out) s)
  | Err e => Err e
  end.

Definition default_fuel : nat := 200.
Definition unroll_v (qasm2 : bool) (externals : list string) (prog : list stmt) : res outcome :=
  run_visit qasm2 false externals default_fuel prog.
Definition validate_v (qasm2 : bool) (prog : list stmt) : res outcome :=
  run_visit qasm2 true [] default_fuel prog.
Definition unroll := unroll_v false.
Definition validate := validate_v false.
