(* The checked errors of property C04 as lemmas about the visitor model: each situation makes the
   corresponding visit function fail with EValidation (never an internal error), and errors are
   propagated, not swallowed, by blocks. *)
From Coq Require Import ZArith List Bool String Lia.
From Verif Require Import Aexp BGate PyVal Ast State GatesGen GateLib Unroll ResolveProofs.
Import ListNotations.
Open Scope Z_scope.

Section WithParams.
Variable check_only : bool.
Variable externals : list string.
Variable visit_rec : stmt -> M (list stmt).
Variable call_rec : string -> list expr -> M (pyval * list stmt).

(* undeclared / out-of-scope name in an expression *)
Lemma undeclared_name_rejected x indexed cst reqd s :
  check_in_scope s x = false -> process_variable x indexed cst reqd s = Err EValidation.
Proof.
  intros H. unfold process_variable, bindM, getst, guard. rewrite H. reflexivity.
Qed.

(* use of an uninitialised variable *)
Lemma uninitialised_rejected x cst reqd s v :
  get_visible s x = Some v -> v_val v = VVNone ->
  (cst && negb (v_const v)) = false ->
  (match reqd with None => true | Some k => vkind_eqb (v_kind v) k end) = true ->
  process_variable x false cst reqd s = Err EValidation.
Proof.
  intros Hg Hv Hc Ht. unfold process_variable, bindM, getst, guard, check_in_scope.
  rewrite Hg. simpl. unfold ret. rewrite Hc, Ht. simpl. rewrite Hv. reflexivity.
Qed.

(* a non-constant where a constant is required *)
Lemma non_constant_rejected x indexed reqd s v :
  get_visible s x = Some v -> v_const v = false ->
  process_variable x indexed true reqd s = Err EValidation.
Proof.
  intros Hg Hc. unfold process_variable, bindM, getst, guard, check_in_scope.
  rewrite Hg. simpl. unfold ret. rewrite Hc. reflexivity.
Qed.

(* redeclaration of a visible name (outside the one shadowing a block allows) *)
Lemma redeclaration_rejected t name init s :
  is_constant_name name = false ->
  check_in_scope s name = true ->
  (in_block s && negb (smemk name (curr_scope s))) = false ->
  visit_classical_decl check_only call_rec t name init s = Err EValidation.
Proof.
  intros Hk Hc Hb. unfold visit_classical_decl, bindM, getst, guard. rewrite Hk. simpl.
  unfold ret. rewrite Hc, Hb. reflexivity.
Qed.

Lemma keyword_name_rejected t name init s :
  is_constant_name name = true ->
  visit_classical_decl check_only call_rec t name init s = Err EValidation.
Proof. intros Hk. unfold visit_classical_decl, bindM, guard. rewrite Hk. reflexivity. Qed.

Lemma qubit_redeclaration_rejected name s :
  check_in_scope s name = true ->
  visit_qubit_decl check_only call_rec name None s = Err EValidation.
Proof.
  intros Hc. unfold visit_qubit_decl, bindM, getst, guard, ret. rewrite Hc. reflexivity.
Qed.

(* assignment to a constant *)
Lemma assign_to_constant_rejected lv op rv s v :
  get_visible s (qarg_name lv) = Some v -> v_const v = true ->
  visit_assignment check_only call_rec lv op rv s = Err EValidation.
Proof.
  intros Hg Hc. unfold visit_assignment, bindM, getst. rewrite Hg.
  unfold guard. rewrite Hc. reflexivity.
Qed.

Lemma assign_to_undeclared_rejected lv op rv s :
  get_visible s (qarg_name lv) = None ->
  visit_assignment check_only call_rec lv op rv s = Err EValidation.
Proof. intros Hg. unfold visit_assignment, bindM, getst. rewrite Hg. reflexivity. Qed.

(* duplicate definitions *)
Lemma duplicate_gate_rejected name ps qs body s :
  smemk name (gates s) = true ->
  visit_stmt_body check_only externals visit_rec call_rec (SGateDef name ps qs body) s = Err EValidation.
Proof. intros H. unfold visit_stmt_body, bindM, getst, guard. rewrite H. reflexivity. Qed.

Lemma duplicate_include_rejected f s :
  smem f (included s) = true ->
  visit_stmt_body check_only externals visit_rec call_rec (SInclude f) s = Err EValidation.
Proof. intros H. unfold visit_stmt_body, bindM, getst, guard. rewrite H. reflexivity. Qed.

Lemma duplicate_subroutine_rejected name args r body s :
  is_constant_name name = false -> smemk name (subs s) = true ->
  visit_stmt_body check_only externals visit_rec call_rec (SSubDef name args r body) s = Err EValidation.
Proof.
  intros Hk H. unfold visit_stmt_body, bindM, getst, guard. rewrite Hk. simpl. unfold ret.
  rewrite H. reflexivity.
Qed.

(* unsupported statements *)
Lemma unsupported_statement_rejected k s :
  visit_stmt_body check_only externals visit_rec call_rec (SOther k) s = Err EValidation.
Proof. reflexivity. Qed.

Lemma stray_return_rejected e s :
  visit_stmt_body check_only externals visit_rec call_rec (SReturn e) s = Err EValidation.
Proof. reflexivity. Qed.

(* undeclared subroutine / wrong argument count *)
Lemma undeclared_subroutine_rejected f args s :
  sget f (subs s) = None -> call_body check_only visit_rec call_rec f args s = Err EValidation.
Proof. intros H. unfold call_body, bindM, getst. rewrite H. reflexivity. Qed.

Lemma subroutine_arg_count_rejected f args sd s :
  sget f (subs s) = Some sd -> Nat.eqb (List.length args) (List.length (s_args sd)) = false ->
  call_body check_only visit_rec call_rec f args s = Err EValidation.
Proof. intros H Hn. unfold call_body, bindM, getst. rewrite H. unfold guard. rewrite Hn. reflexivity. Qed.

(* measurement on undeclared registers *)
Lemma measure_undeclared_source_rejected q t s :
  smemk (qarg_name q) (qreg_sizes s) = false ->
  visit_measure check_only call_rec q (Some t) s = Err EValidation.
Proof. intros H. unfold visit_measure, bindM, getst, guard. rewrite H. reflexivity. Qed.

Lemma measure_without_target_rejected q s :
  visit_measure check_only call_rec q None s = Err EValidation.
Proof. reflexivity. Qed.

(* errors are propagated by statement sequences: if the k-th statement of a block fails, the
   block fails with the same error (nothing is swallowed) *)
Lemma concatMM_propagates {A B} (f : A -> M (list B)) : forall l1 x l2 s o s1 e,
  concatMM f l1 s = Ok (o, s1) -> f x s1 = Err e ->
  concatMM f (l1 ++ x :: l2) s = Err e.
Proof.
  induction l1 as [|y l1 IH]; intros x l2 s o s1 e H1 Hx; simpl in *.
  - apply ret_ok in H1. inversion H1; subst. unfold bindM. rewrite Hx. reflexivity.
  - apply bindM_ok in H1 as [oy [sy [Hy H1]]].
    apply bindM_ok in H1 as [os [s2 [Hrest H1]]].
    apply ret_ok in H1. inversion H1; subst.
    unfold bindM at 1. rewrite Hy.
    unfold bindM at 1. rewrite (IH x l2 sy os s2 e Hrest Hx). reflexivity.
Qed.


(* ---- wrong argument / qubit / size counts, duplicate case values, read-only arguments ---- *)
Lemma bind_eq' {A B} (m : M A) (f : A -> M B) s a s1 : m s = Ok (a, s1) -> bindM m f s = f a s1.
Proof. unfold bindM. intros ->. reflexivity. Qed.

(* a library gate applied to a number of qubits that is not a multiple of its arity *)
Lemma gate_qubit_count_rejected qubits count s bits s1 :
  get_op_bits call_rec qubits (qreg_sizes s) true s = Ok (bits, s1) -> count <> O ->
  Nat.modulo (List.length bits) count <> O ->
  unroll_targets call_rec qubits count s = Err EValidation.
Proof.
  intros Hb Hc Hm. unfold unroll_targets. rewrite (bind_eq' _ _ s s s eq_refl), (bind_eq' _ _ s bits s1 Hb).
  destruct count; [congruence|]. destruct (Nat.eqb_spec (Nat.modulo (List.length bits) (S count)) 0); [contradiction|]. reflexivity.
Qed.

(* a custom gate applied with the wrong number of parameters / of qubits *)
Lemma custom_gate_param_count_rejected name gd args qubits inverse s bits s1 :
  sget name (gates s) = Some gd -> get_op_bits call_rec qubits (qreg_sizes s) true s = Ok (bits, s1) ->
  List.length args <> List.length (g_params gd) ->
  visit_custom_gate check_only visit_rec call_rec name args qubits inverse s = Err EValidation.
Proof.
  intros Hg Hb Hn. unfold visit_custom_gate. rewrite (bind_eq' _ _ s s s eq_refl), Hg, (bind_eq' _ _ s bits s1 Hb).
  destruct (Nat.eqb_spec (List.length args) (List.length (g_params gd))); [contradiction|]. reflexivity.
Qed.
Lemma custom_gate_qubit_count_rejected name gd args qubits inverse s bits s1 :
  sget name (gates s) = Some gd -> get_op_bits call_rec qubits (qreg_sizes s) true s = Ok (bits, s1) ->
  List.length args = List.length (g_params gd) -> List.length bits <> List.length (g_qubits gd) ->
  visit_custom_gate check_only visit_rec call_rec name args qubits inverse s = Err EValidation.
Proof.
  intros Hg Hb Ha Hn. unfold visit_custom_gate. rewrite (bind_eq' _ _ s s s eq_refl), Hg, (bind_eq' _ _ s bits s1 Hb).
  rewrite Ha, Nat.eqb_refl. cbn [guard]. rewrite (bind_eq' _ _ s1 tt s1 eq_refl).
  destruct (Nat.eqb_spec (List.length bits) (List.length (g_qubits gd))); [contradiction|]. reflexivity.
Qed.

(* a measurement whose source and target have different sizes *)
Lemma measurement_size_mismatch_rejected q t s src s1 tgt s2 :
  smemk (qarg_name q) (qreg_sizes s) = true -> smemk (qarg_name t) (creg_sizes s) = true ->
  get_op_bits call_rec [q] (qreg_sizes s) true s = Ok (src, s1) ->
  get_op_bits call_rec [t] (creg_sizes s1) false s1 = Ok (tgt, s2) ->
  List.length src <> List.length tgt ->
  visit_measure check_only call_rec q (Some t) s = Err EValidation.
Proof.
  intros Mq Mc Hs Ht Hn. unfold visit_measure. rewrite (bind_eq' _ _ s s s eq_refl), Mq, Mc. cbn [guard].
  rewrite !(bind_eq' _ _ s tt s eq_refl), (bind_eq' _ _ s src s1 Hs), (bind_eq' _ _ s1 s1 s1 eq_refl), (bind_eq' _ _ s1 tgt s2 Ht).
  destruct (Nat.eqb_spec (List.length src) (List.length tgt)); [contradiction|]. reflexivity.
Qed.

(* a recursive gate definition (the gate is already being expanded) *)
Lemma recursive_gate_rejected name gd args qubits inverse s bits s1 pvals s2 :
  sget name (gates s) = Some gd -> get_op_bits call_rec qubits (qreg_sizes s) true s = Ok (bits, s1) ->
  List.length args = List.length (g_params gd) -> List.length bits = List.length (g_qubits gd) ->
  mapMM (fun e => eval0 call_rec e false None) args s1 = Ok (pvals, s2) -> smem name (gstack s2) = true ->
  visit_custom_gate check_only visit_rec call_rec name args qubits inverse s = Err EValidation.
Proof.
  intros Hg Hb Ha Hq Hp Hr. unfold visit_custom_gate. rewrite (bind_eq' _ _ s s s eq_refl), Hg, (bind_eq' _ _ s bits s1 Hb).
  rewrite Ha, Hq, !Nat.eqb_refl. cbn [guard]. rewrite !(bind_eq' _ _ s1 tt s1 eq_refl), (bind_eq' _ _ s1 pvals s2 Hp).
  rewrite (bind_eq' _ _ s2 s2 s2 eq_refl), Hr. reflexivity.
Qed.

End WithParams.

(* values outside the declared type's range *)
Lemma int_out_of_range_rejected n z :
  1 <= n -> (z < - 2 ^ (n - 1) \/ 2 ^ (n - 1) - 1 < z) ->
  cast_value KInt (Some n) (VInt z) = Err EValidation.
Proof.
  intros Hn Hz. unfold cast_value. simpl.
  destruct (Z.ltb_spec n 1); [lia|].
  destruct (Z.ltb_spec z (- 2 ^ (n - 1))); simpl; [reflexivity|].
  destruct (Z.ltb_spec (2 ^ (n - 1) - 1) z); [reflexivity | lia].
Qed.

Lemma int_in_range_stored n z :
  1 <= n -> - 2 ^ (n - 1) <= z <= 2 ^ (n - 1) - 1 ->
  cast_value KInt (Some n) (VInt z) = Ok (VInt z).
Proof.
  intros Hn Hz. unfold cast_value. simpl.
  destruct (Z.ltb_spec n 1); [lia|].
  destruct (Z.ltb_spec z (- 2 ^ (n - 1))); simpl; [lia|].
  destruct (Z.ltb_spec (2 ^ (n - 1) - 1) z); [lia | reflexivity].
Qed.

(* OpenQASM 2 modules reject statements outside the whitelist *)
Lemma qasm2_whitelist_rejects co ext fuel prog :
  forallb qasm2_allowed prog = false -> run_visit true co ext fuel prog = Err EValidation.
Proof. intros H. unfold run_visit. rewrite H. reflexivity. Qed.
