(* numpy arrays as pyqasm uses them for classical array variables (analyzer.py, transformer.py,
   validator.py): nested lists of cells, indexed by one (start, end, step) triple per dimension
   where start = end selects an element (the dimension is dropped) and otherwise the Python slice
   slice(start, end + 1, step). *)
From Coq Require Import ZArith List Bool String.
From Verif Require Import BGate PyVal Ast State.
Import ListNotations.
Open Scope Z_scope.

(* np.full(dims, None) *)
Fixpoint arr_full (dims : list Z) : arr :=
  match dims with
  | [] => ALeaf None
  | d :: ds => ANode (repeat (arr_full ds) (Z.to_nat d))
  end.

(* shape of a (rectangular) array *)
Fixpoint arr_shape (fuel : nat) (a : arr) : list Z :=
  match fuel, a with
  | _, ALeaf _ => []
  | O, _ => []
  | S f, ANode [] => [0]
  | S f, ANode (x :: l) => Z.of_nat (S (List.length l)) :: arr_shape f x
  end.

(* positions selected by slice(start, stop, step) of Python on a sequence of length n, for the
   in-range non-negative starts and ends pyqasm produces *)
Definition slice_positions (start stop step : Z) (fuel : nat) : list Z :=
  if step =? 0 then []
  else if 0 <? step then
    (fix go (k : nat) (i : Z) : list Z :=
       match k with O => [] | S k' => if i <? stop then i :: go k' (i + step) else [] end) fuel start
  else
    (fix go (k : nat) (i : Z) : list Z :=
       match k with O => [] | S k' => if stop <? i then (if 0 <=? i then i :: go k' (i + step) else []) else [] end) fuel start.

Definition nthZ {A} (l : list A) (i : Z) : option A := if i <? 0 then None else nth_error l (Z.to_nat i).

Fixpoint set_nthZ {A} (l : list A) (i : nat) (x : A) : list A :=
  match l, i with
  | [], _ => []
  | _ :: t, O => x :: t
  | h :: t, S i' => h :: set_nthZ t i' x
  end.

Fixpoint mapO {A B} (f : A -> option B) (l : list A) : option (list B) :=
  match l with
  | [] => Some []
  | x :: l' => match f x, mapO f l' with Some y, Some ys => Some (y :: ys) | _, _ => None end
  end.

(* Qasm3Analyzer.find_array_element: arr[slicing] *)
Fixpoint arr_get (a : arr) (ix : list (Z * Z * Z)) : option arr :=
  match ix with
  | [] => Some a
  | (s, e, st) :: ix' =>
      match a with
      | ALeaf _ => None
      | ANode l =>
          if s =? e then match nthZ l s with Some x => arr_get x ix' | None => None end
          else
            match mapO (fun i => match nthZ l i with Some x => arr_get x ix' | None => None end)
                       (slice_positions s (e + 1) st (S (List.length l))) with
            | Some xs => Some (ANode xs)
            | None => None
            end
      end
  end.

(* arr[slicing] = scalar : every selected cell gets the value *)
Fixpoint arr_fill (a : arr) (v : pyval) : arr :=
  match a with
  | ALeaf _ => ALeaf (Some v)
  | ANode l => ANode (map (fun x => arr_fill x v) l)
  end.

Fixpoint arr_set_scalar (a : arr) (ix : list (Z * Z * Z)) (v : pyval) : option arr :=
  match ix with
  | [] => Some (arr_fill a v)
  | (s, e, st) :: ix' =>
      match a with
      | ALeaf _ => None
      | ANode l =>
          let pos := if s =? e then [s] else slice_positions s (e + 1) st (S (List.length l)) in
          match fold_left (fun acc i =>
                       match acc with
                       | None => None
                       | Some l' =>
                           match nthZ l' i with
                           | Some x => match arr_set_scalar x ix' v with
                                       | Some x' => Some (set_nthZ l' (Z.to_nat i) x')
                                       | None => None
                                       end
                           | None => None
                           end
                       end) pos (Some l) with
          | Some l' => Some (ANode l')
          | None => None
          end
      end
  end.

(* arr[slicing] = array of exactly the selected shape *)
Fixpoint arr_set_arr (a : arr) (ix : list (Z * Z * Z)) (src : arr) : option arr :=
  match ix with
  | [] => Some src
  | (s, e, st) :: ix' =>
      match a with
      | ALeaf _ => None
      | ANode l =>
          if s =? e then
            match nthZ l s with
            | Some x => match arr_set_arr x ix' src with
                        | Some x' => Some (ANode (set_nthZ l (Z.to_nat s) x'))
                        | None => None
                        end
            | None => None
            end
          else
            match src with
            | ANode srcs =>
                let pos := slice_positions s (e + 1) st (S (List.length l)) in
                if negb (Nat.eqb (List.length pos) (List.length srcs)) then None
                else
                  match fold_left (fun acc p =>
                                     match acc with
                                     | None => None
                                     | Some l' =>
                                         match nthZ l' (fst p) with
                                         | Some x => match arr_set_arr x ix' (snd p) with
                                                     | Some x' => Some (set_nthZ l' (Z.to_nat (fst p)) x')
                                                     | None => None
                                                     end
                                         | None => None
                                         end
                                     end) (combine pos srcs) (Some l) with
                  | Some l' => Some (ANode l')
                  | None => None
                  end
            | ALeaf _ => None
            end
      end
  end.

(* apply a cell-wise conversion (validate_array_assignment_values writes the validated value back) *)
Fixpoint arr_mapR (f : pyval -> res pyval) (a : arr) : res arr :=
  match a with
  | ALeaf None => Ok (ALeaf None)
  | ALeaf (Some v) => match f v with Ok v' => Ok (ALeaf (Some v')) | Err e => Err e end
  | ANode l =>
      match (fix go (l : list arr) : res (list arr) :=
               match l with
               | [] => Ok []
               | x :: l' => match arr_mapR f x, go l' with
                            | Ok x', Ok l'' => Ok (x' :: l'')
                            | Err e, _ => Err e
                            | _, Err e => Err e
                            end
               end) l with
      | Ok l' => Ok (ANode l')
      | Err e => Err e
      end
  end.

Fixpoint arr_has_none (a : arr) : bool :=
  match a with
  | ALeaf None => true
  | ALeaf (Some _) => false
  | ANode l => existsb arr_has_none l
  end.
