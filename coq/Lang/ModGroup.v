(* Meaning of modified gate calls over an arbitrary group of circuit meanings (C06).
   A call tree is a library gate or a custom gate whose body is a list of calls (nested to any
   depth).  The unroller expands `inv @` on a custom gate by reversing the body and pushing `inv`
   down to every member (visitor.py:788-811); on a library gate it emits the inverse circuit
   (InvCheck.v proves that circuit undoes the gate).  Theorem: the expansion of `inv @ c` denotes
   the group inverse of the expansion of c, for every call tree; pow(k) is k-fold repetition; the
   collapsed (power, parity) form denotes (c^-1 or c)^|k|. *)
From Coq Require Import List Arith Lia.
Import ListNotations.

Section Group.
Variable G : Type.
Variable op : G -> G -> G.
Variable e : G.
Variable ginv : G -> G.
Hypothesis op_assoc : forall a b c, op a (op b c) = op (op a b) c.
Hypothesis op_e_l : forall a, op e a = a.
Hypothesis op_e_r : forall a, op a e = a.
Hypothesis op_inv_l : forall a, op (ginv a) a = e.
Hypothesis op_inv_r : forall a, op a (ginv a) = e.

(* circuits compose left to right in time *)
Definition prod (l : list G) : G := fold_right op e l.

Lemma prod_app a b : prod (a ++ b) = op (prod a) (prod b).
Proof. induction a as [|x a IH]; simpl; [now rewrite op_e_l|]. now rewrite IH, op_assoc. Qed.

Lemma inv_unique a b : op a b = e -> b = ginv a.
Proof.
  intros H. rewrite <- (op_e_l b), <- (op_inv_l a), <- op_assoc, H. now rewrite op_e_r.
Qed.

Lemma ginv_op a b : ginv (op a b) = op (ginv b) (ginv a).
Proof.
  symmetry. apply inv_unique.
  rewrite op_assoc, <- (op_assoc a b (ginv b)), op_inv_r, op_e_r. apply op_inv_r.
Qed.
Lemma ginv_e : ginv e = e.
Proof. symmetry. apply inv_unique. apply op_e_l. Qed.
Lemma ginv_ginv a : ginv (ginv a) = a.
Proof. symmetry. apply inv_unique. apply op_inv_l. Qed.

(* a circuit reversed with every member inverted denotes the inverse *)
Theorem prod_rev_inv l : prod (rev (map ginv l)) = ginv (prod l).
Proof.
  induction l as [|x l IH]; simpl; [now rewrite ginv_e|].
  now rewrite prod_app, IH, ginv_op; simpl; rewrite op_e_r.
Qed.

(* ---------- call trees ---------- *)
Inductive call :=
| Lib (g : G) (g_inverse_circuit : G)      (* a library gate and the meaning of what `inv @` emits for it *)
| Custom (body : list call).

Fixpoint expand (c : call) : list G :=
  match c with
  | Lib g _ => [g]
  | Custom body => flat_map expand body
  end.

(* what the unroller does under `inv @` *)
Fixpoint expand_inv (c : call) : list G :=
  match c with
  | Lib _ gi => [gi]
  | Custom body =>
      (fix go (l : list call) : list G :=
         match l with [] => [] | x :: l' => go l' ++ expand_inv x end) body
  end.

(* every library inverse circuit undoes its gate (the obligation InvCheck.v discharges) *)
Fixpoint lib_ok (c : call) : Prop :=
  match c with
  | Lib g gi => gi = ginv g
  | Custom body => (fix all (l : list call) : Prop := match l with [] => True | x :: l' => lib_ok x /\ all l' end) body
  end.

Fixpoint call_ind' (P : call -> Prop) (Hl : forall g gi, P (Lib g gi))
  (Hc : forall body, Forall P body -> P (Custom body)) (c : call) : P c :=
  match c with
  | Lib g gi => Hl g gi
  | Custom body =>
      Hc body ((fix go (l : list call) : Forall P l :=
                  match l with [] => Forall_nil _ | x :: l' => Forall_cons _ (call_ind' P Hl Hc x) (go l') end) body)
  end.

Theorem expand_inv_is_inverse c : lib_ok c -> prod (expand_inv c) = ginv (prod (expand c)).
Proof.
  induction c as [g gi|body IH] using call_ind'; intros Hok.
  - simpl in *. subst gi. now rewrite !op_e_r.
  - cbn [expand expand_inv]. cbn [lib_ok] in Hok.
    induction IH as [|x l Hx _ IHl]; [simpl; now rewrite ginv_e|].
    destruct Hok as [Hx_ok Hl_ok]. cbn [flat_map].
    rewrite !prod_app, IHl by exact Hl_ok. rewrite Hx by exact Hx_ok. now rewrite ginv_op.
Qed.

(* inverting twice gives back the call's meaning: modifiers compose independently of order *)
Corollary inv_inv c : lib_ok c -> ginv (prod (expand_inv c)) = prod (expand c).
Proof. intros H. now rewrite expand_inv_is_inverse, ginv_ginv. Qed.

(* pow(k): repetition *)
Fixpoint gpow (a : G) (n : nat) : G := match n with O => e | S n' => op a (gpow a n') end.

Theorem repeat_is_power (l : list G) n : prod (concat (repeat l n)) = gpow (prod l) n.
Proof. induction n as [|n IH]; simpl; [reflexivity|]. now rewrite prod_app, IH. Qed.

Corollary pow_zero_is_identity (l : list G) : prod (concat (repeat l 0)) = e.
Proof. reflexivity. Qed.

(* the collapsed form (n, inverted?) of a modifier stack applied to call c *)
Definition modified (c : call) (n : nat) (inverted : bool) : list G :=
  concat (repeat (if inverted then expand_inv c else expand c) n).

Theorem modified_meaning c n inverted : lib_ok c ->
  prod (modified c n inverted) = gpow (if inverted then ginv (prod (expand c)) else prod (expand c)) n.
Proof.
  intros H. unfold modified. rewrite repeat_is_power. destruct inverted; [now rewrite expand_inv_is_inverse|reflexivity].
Qed.

Lemma gpow_inv a n : gpow (ginv a) n = ginv (gpow a n).
Proof.
  induction n as [|n IH]; simpl; [now rewrite ginv_e|].
  rewrite IH, ginv_op.
  (* a^n commutes with a *)
  assert (Hc : forall m, op (gpow a m) a = op a (gpow a m)).
  { induction m as [|m IHm]; simpl; [now rewrite op_e_l, op_e_r|]. now rewrite <- op_assoc, IHm. }
  rewrite <- (ginv_op a (gpow a n)), <- Hc, ginv_op. reflexivity.
Qed.

(* pow(-k) @ c = (inv @ c)^k = inverse of c^k *)
Corollary negative_power c n : lib_ok c ->
  prod (modified c n true) = ginv (prod (modified c n false)).
Proof. intros H. rewrite !modified_meaning by exact H. apply gpow_inv. Qed.
End Group.
