(* Python runtime values as pyqasm's evaluator manipulates them, and the Python semantics of the
   operators in maps.OPERATOR_MAP.  bool is an int subtype; `/` is true division to binary64;
   floats are IEEE binary64 (PrimFloat, bit-exact with CPython for + - * / and comparisons).
   Modelling limits: ints converted to float are assumed |z| < 2^53 (else EUnmodelled);
   float % and float // are EUnmodelled. *)
From Coq Require Import ZArith List Bool String PrimFloat Uint63 Lia.
From Verif Require Import BGate.
Import ListNotations.
Open Scope Z_scope.

Inductive ikind := KType | KKey | KIndex | KAttr | KAssert | KZeroDiv | KValue | KOverflow
                 | KNotImpl | KRecursion | KOther.
Inductive err :=
| EValidation                 (* pyqasm.ValidationError *)
| EInternal (k : ikind)       (* any other Python exception *)
| EFuel                       (* model ran out of fuel *)
| EUnmodelled (why : string). (* the model does not cover this construct *)

Inductive res (A : Type) := Ok (a : A) | Err (e : err).
Arguments Ok {A} a.
Arguments Err {A} e.

Definition bind {A B} (r : res A) (f : A -> res B) : res B :=
  match r with Ok a => f a | Err e => Err e end.
Notation "'do' x <- r ;; k" := (bind r (fun x => k)) (at level 200, x pattern, r at level 100, k at level 200).
Notation "'do_' r ;; k" := (bind r (fun _ => k)) (at level 200, r at level 100, k at level 200).

Fixpoint mapR {A B} (f : A -> res B) (l : list A) : res (list B) :=
  match l with
  | [] => Ok []
  | x :: l' => do y <- f x;; do ys <- mapR f l';; Ok (y :: ys)
  end.

Inductive pyval := VInt (z : Z) | VFloat (f : float) | VBool (b : bool) | VNone.

(* ---------- floats ---------- *)
Definition two53 : Z := 9007199254740992.

Definition float_of_Z (z : Z) : res float :=
  if Z.abs z <? two53 then
    let m := of_uint63 (Uint63.of_Z (Z.abs z)) in
    Ok (if z <? 0 then PrimFloat.opp m else m)
  else Err (EUnmodelled "int -> float beyond 2^53").

(* bit-exact equality: distinguishes +0/-0, equates NaNs *)
Definition fclass_eqb (x y : float) : bool :=
  match classify x, classify y with
  | FloatClass.PNormal, FloatClass.PNormal | FloatClass.NNormal, FloatClass.NNormal
  | FloatClass.PSubn, FloatClass.PSubn | FloatClass.NSubn, FloatClass.NSubn
  | FloatClass.PZero, FloatClass.PZero | FloatClass.NZero, FloatClass.NZero
  | FloatClass.PInf, FloatClass.PInf | FloatClass.NInf, FloatClass.NInf
  | FloatClass.NaN, FloatClass.NaN => true
  | _, _ => false
  end.
Definition feqb (x y : float) : bool :=
  fclass_eqb x y && (PrimFloat.is_nan x || PrimFloat.eqb x y).

Definition f_is_zero (x : float) : bool := PrimFloat.eqb x zero.

(* int(x) for a float: truncation toward zero; None for inf / nan *)
Definition float_trunc (x : float) : option Z :=
  if PrimFloat.is_nan x || PrimFloat.is_infinity x then None
  else if f_is_zero x then Some 0
  else
    let ax := PrimFloat.abs x in
    let '(m, e) := frshiftexp ax in             (* ax = m * 2^(e - shift), 0.5 <= m < 1 *)
    let mant := Uint63.to_Z (normfr_mantissa m) in (* m * 2^53 *)
    let ex := Uint63.to_Z e - 2101 - 53 in
    let mag := if 0 <=? ex then Z.shiftl mant ex else Z.shiftr mant (- ex) in
    Some (if PrimFloat.ltb x zero then - mag else mag).

(* ---------- Python semantics ---------- *)
Definition truthy (v : pyval) : bool :=
  match v with
  | VInt z => negb (z =? 0)
  | VFloat f => negb (f_is_zero f)
  | VBool b => b
  | VNone => false
  end.

Inductive num := NI (z : Z) | NF (f : float).
Definition as_num (v : pyval) : option num :=
  match v with
  | VInt z => Some (NI z)
  | VBool b => Some (NI (if b then 1 else 0))
  | VFloat f => Some (NF f)
  | VNone => None
  end.
Definition as_int (v : pyval) : option Z :=
  match v with VInt z => Some z | VBool b => Some (if b then 1 else 0) | _ => None end.

Definition num_to_float (n : num) : res float :=
  match n with NI z => float_of_Z z | NF f => Ok f end.

Definition terr {A} : res A := Err (EInternal KType).

Definition arith (fi : Z -> Z -> res pyval) (ff : float -> float -> res pyval) (x y : pyval) : res pyval :=
  match as_num x, as_num y with
  | Some (NI a), Some (NI b) => fi a b
  | Some a, Some b => do fa <- num_to_float a;; do fb <- num_to_float b;; ff fa fb
  | _, _ => terr
  end.

Definition cmp (ci : Z -> Z -> bool) (cf : float -> float -> bool) (x y : pyval) : res pyval :=
  match as_num x, as_num y with
  | Some (NI a), Some (NI b) => Ok (VBool (ci a b))
  | Some a, Some b => do fa <- num_to_float a;; do fb <- num_to_float b;; Ok (VBool (cf fa fb))
  | _, _ => terr
  end.

Definition pyeq (x y : pyval) : res pyval :=
  match x, y with
  | VNone, VNone => Ok (VBool true)
  | VNone, _ | _, VNone => Ok (VBool false)
  | _, _ => cmp Z.eqb PrimFloat.eqb x y
  end.

Definition intop (f : Z -> Z -> res pyval) (x y : pyval) : res pyval :=
  match as_int x, as_int y with
  | Some a, Some b => f a b
  | _, _ => terr
  end.

(* & | ^ on two bools stay bool in Python *)
Definition bitop (fz : Z -> Z -> Z) (fb : bool -> bool -> bool) (x y : pyval) : res pyval :=
  match x, y with
  | VBool a, VBool b => Ok (VBool (fb a b))
  | _, _ => intop (fun a b => Ok (VInt (fz a b))) x y
  end.

Definition py_binop (o : binop) (x y : pyval) : res pyval :=
  match o with
  | OpAdd => arith (fun a b => Ok (VInt (a + b))) (fun a b => Ok (VFloat (PrimFloat.add a b))) x y
  | OpSub => arith (fun a b => Ok (VInt (a - b))) (fun a b => Ok (VFloat (PrimFloat.sub a b))) x y
  | OpMul => arith (fun a b => Ok (VInt (a * b))) (fun a b => Ok (VFloat (PrimFloat.mul a b))) x y
  | OpDiv =>
      arith (fun a b => if b =? 0 then Err (EInternal KZeroDiv)
                        else do fa <- float_of_Z a;; do fb <- float_of_Z b;; Ok (VFloat (PrimFloat.div fa fb)))
            (fun a b => if f_is_zero b then Err (EInternal KZeroDiv) else Ok (VFloat (PrimFloat.div a b))) x y
  | OpMod =>
      arith (fun a b => if b =? 0 then Err (EInternal KZeroDiv) else Ok (VInt (a mod b)))
            (fun a b => if f_is_zero b then Err (EInternal KZeroDiv) else Err (EUnmodelled "float %")) x y
  | OpFloorDiv =>
      arith (fun a b => if b =? 0 then Err (EInternal KZeroDiv) else Ok (VInt (a / b)))
            (fun a b => if f_is_zero b then Err (EInternal KZeroDiv) else Err (EUnmodelled "float //")) x y
  | OpPow => Err (EUnmodelled "**")
  | OpEq => pyeq x y
  | OpNe => do r <- pyeq x y;; Ok (VBool (negb (truthy r)))
  | OpLt => cmp Z.ltb PrimFloat.ltb x y
  | OpGt => cmp Z.gtb (fun a b => PrimFloat.ltb b a) x y
  | OpLe => cmp Z.leb PrimFloat.leb x y
  | OpGe => cmp Z.geb (fun a b => PrimFloat.leb b a) x y
  | OpAnd => Ok (if truthy x then y else x)
  | OpOr => Ok (if truthy x then x else y)
  | OpLAnd => Ok (VBool (truthy x && truthy y))      (* bool(x and y) *)
  | OpLOr => Ok (VBool (truthy x || truthy y))       (* bool(x or y) *)
  | OpXor => bitop Z.lxor xorb x y
  | OpBitAnd => bitop Z.land andb x y
  | OpBitOr => bitop Z.lor orb x y
  | OpShl => intop (fun a b => if b <? 0 then Err (EInternal KValue)
                               else if 4096 <? b then Err (EUnmodelled "huge shift") else Ok (VInt (Z.shiftl a b))) x y
  | OpShr => intop (fun a b => if b <? 0 then Err (EInternal KValue) else Ok (VInt (Z.shiftr a b))) x y
  end.

Definition py_unop (o : unop) (x : pyval) : res pyval :=
  match o with
  | OpNot => Ok (VBool (negb (truthy x)))
  | OpNeg => match as_num x with
             | Some (NI a) => Ok (VInt (- a))
             | Some (NF f) => Ok (VFloat (PrimFloat.opp f))
             | None => terr
             end
  | OpPos => match as_num x with
             | Some (NI a) => Ok (VInt a)
             | Some (NF f) => Ok (VFloat f)
             | None => terr
             end
  | OpInvert => match as_int x with Some a => Ok (VInt (- a - 1)) | None => terr end
  end.

Definition pyval_eqb (x y : pyval) : bool :=
  match x, y with
  | VInt a, VInt b => a =? b
  | VFloat a, VFloat b => feqb a b
  | VBool a, VBool b => Bool.eqb a b
  | VNone, VNone => true
  | _, _ => false
  end.
