(* Python builtins and operators as they occur in maps.qasm_variable_type_cast and
   validator.validate_variable_assignment_value, over the evaluator's values.  The generated file
   CastGen.v (translator/cast2coq.py, regenerated from /repo on every run) is written in this
   vocabulary; every primitive takes and returns [res pyval] so that Python's left-to-right
   evaluation order and its exceptions are part of the term. *)
From Coq Require Import ZArith List Bool String PrimFloat.
From Verif Require Import BGate PyVal.
Import ListNotations.
Open Scope Z_scope.

(* the Python type of a value, as the cast tables see it (numpy scalars read out of arrays count
   as their Python counterparts: the translator checks that the tables list them together) *)
Inductive pytag := TgInt | TgFloat | TgBool | TgNone.
Definition tag_eqb (a b : pytag) : bool :=
  match a, b with
  | TgInt, TgInt | TgFloat, TgFloat | TgBool, TgBool | TgNone, TgNone => true
  | _, _ => false
  end.
Definition tag_of (v : pyval) : pytag :=
  match v with VInt _ => TgInt | VFloat _ => TgFloat | VBool _ => TgBool | VNone => TgNone end.
Definition tag_mem (t : pytag) (l : list pytag) : bool := existsb (tag_eqb t) l.

Definition size_val (size : option Z) : pyval := match size with Some n => VInt n | None => VNone end.

(* exact comparison of a float with an int (CPython compares them without rounding) *)
Definition fz_gt (f : float) (z : Z) : bool :=       (* f > z *)
  if PrimFloat.is_nan f then false
  else if PrimFloat.is_infinity f then PrimFloat.ltb zero f
  else match float_trunc f with
       | Some t => (z <? t) || ((z =? t) && match float_of_Z t with Ok ft => PrimFloat.ltb ft f | Err _ => false end)
       | None => false
       end.
Definition fz_lt (f : float) (z : Z) : bool :=       (* f < z *)
  if PrimFloat.is_nan f then false
  else if PrimFloat.is_infinity f then PrimFloat.ltb f zero
  else match float_trunc f with
       | Some t => (t <? z) || ((z =? t) && match float_of_Z t with Ok ft => PrimFloat.ltb f ft | Err _ => false end)
       | None => false
       end.

Definition int_of_bool (b : bool) : Z := if b then 1 else 0.

(* bool(x) *)
Definition b_bool (x : res pyval) : res pyval := do v <- x;; Ok (VBool (truthy v)).
(* int(x) *)
Definition b_int (x : res pyval) : res pyval :=
  do v <- x;;
  match v with
  | VInt z => Ok (VInt z)
  | VBool b => Ok (VInt (int_of_bool b))
  | VFloat f => match float_trunc f with
                | Some z => Ok (VInt z)
                | None => Err (EInternal (if PrimFloat.is_nan f then KValue else KOverflow))
                end
  | VNone => Err (EInternal KType)
  end.
(* float(x) *)
Definition b_float (x : res pyval) : res pyval :=
  do v <- x;;
  match v with
  | VFloat f => Ok (VFloat f)
  | VInt z => do f <- float_of_Z z;; Ok (VFloat f)
  | VBool b => Ok (VFloat (if b then one else zero))
  | VNone => Err (EInternal KType)
  end.

(* integer view of an operand of an arithmetic operator (bool is an int) *)
Definition int_operand (v : pyval) : option Z :=
  match v with VInt z => Some z | VBool b => Some (int_of_bool b) | _ => None end.

Definition b_arith (fi : Z -> Z -> res pyval) (ff : float -> float -> float) (x y : res pyval) : res pyval :=
  do a <- x;; do b <- y;;
  match a, b with
  | VNone, _ | _, VNone => Err (EInternal KType)
  | VFloat fa, VFloat fb => Ok (VFloat (ff fa fb))
  | VFloat fa, _ => match int_operand b with
                    | Some zb => do fb <- float_of_Z zb;; Ok (VFloat (ff fa fb))
                    | None => Err (EInternal KType)
                    end
  | _, VFloat fb => match int_operand a with
                    | Some za => do fa <- float_of_Z za;; Ok (VFloat (ff fa fb))
                    | None => Err (EInternal KType)
                    end
  | _, _ => match int_operand a, int_operand b with
            | Some za, Some zb => fi za zb
            | _, _ => Err (EInternal KType)
            end
  end.

Definition b_add := b_arith (fun a b => Ok (VInt (a + b))) PrimFloat.add.
Definition b_sub := b_arith (fun a b => Ok (VInt (a - b))) PrimFloat.sub.
Definition b_mul := b_arith (fun a b => Ok (VInt (a * b))) PrimFloat.mul.
(* x % y : Python's floor modulo on ints (sign of the divisor, as Z.modulo); float % is outside *)
Definition b_mod (x y : res pyval) : res pyval :=
  do a <- x;; do b <- y;;
  match a, b with
  | VNone, _ | _, VNone => Err (EInternal KType)
  | VFloat _, _ | _, VFloat _ => Err (EUnmodelled "float %")
  | _, _ => match int_operand a, int_operand b with
            | Some za, Some zb => if zb =? 0 then Err (EInternal KZeroDiv) else Ok (VInt (za mod zb))
            | _, _ => Err (EInternal KType)
            end
  end.
(* x ** y on ints with a non-negative exponent (a negative one gives a float: outside) *)
Definition b_pow (x y : res pyval) : res pyval :=
  do a <- x;; do b <- y;;
  match a, b with
  | VNone, _ | _, VNone => Err (EInternal KType)
  | VFloat _, _ | _, VFloat _ => Err (EUnmodelled "float **")
  | _, _ => match int_operand a, int_operand b with
            | Some za, Some zb => if zb <? 0 then Err (EUnmodelled "negative exponent") else Ok (VInt (za ^ zb))
            | _, _ => Err (EInternal KType)
            end
  end.
Definition b_neg (x : res pyval) : res pyval :=
  do a <- x;;
  match a with
  | VInt z => Ok (VInt (- z))
  | VBool b => Ok (VInt (- int_of_bool b))
  | VFloat f => Ok (VFloat (PrimFloat.opp f))
  | VNone => Err (EInternal KType)
  end.

(* x < y, x > y : exact on every mix of int, bool and float *)
Definition lt_val (a b : pyval) : res bool :=
  match a, b with
  | VNone, _ | _, VNone => Err (EInternal KType)
  | VFloat fa, VFloat fb => Ok (PrimFloat.ltb fa fb)
  | VFloat fa, _ => match int_operand b with Some zb => Ok (fz_lt fa zb) | None => Err (EInternal KType) end
  | _, VFloat fb => match int_operand a with Some za => Ok (fz_gt fb za) | None => Err (EInternal KType) end
  | _, _ => match int_operand a, int_operand b with
            | Some za, Some zb => Ok (za <? zb)
            | _, _ => Err (EInternal KType)
            end
  end.
Definition b_lt (x y : res pyval) : res pyval := do a <- x;; do b <- y;; do r <- lt_val a b;; Ok (VBool r).
Definition b_gt (x y : res pyval) : res pyval := do a <- x;; do b <- y;; do r <- lt_val b a;; Ok (VBool r).

(* x == y and x != y between numbers (None compares unequal to everything but itself) *)
Definition eq_val (a b : pyval) : bool :=
  match a, b with
  | VNone, VNone => true
  | VNone, _ | _, VNone => false
  | VFloat fa, VFloat fb => PrimFloat.eqb fa fb
  | VFloat fa, _ => match int_operand b with
                    | Some zb => negb (fz_lt fa zb) && negb (fz_gt fa zb) && negb (PrimFloat.is_nan fa)
                    | None => false
                    end
  | _, VFloat fb => match int_operand a with
                    | Some za => negb (fz_lt fb za) && negb (fz_gt fb za) && negb (PrimFloat.is_nan fb)
                    | None => false
                    end
  | _, _ => match int_operand a, int_operand b with Some za, Some zb => za =? zb | _, _ => false end
  end.
Definition b_eq (x y : res pyval) : res pyval := do a <- x;; do b <- y;; Ok (VBool (eq_val a b)).
Definition b_ne (x y : res pyval) : res pyval := do a <- x;; do b <- y;; Ok (VBool (negb (eq_val a b))).

(* x or y, x and y : short-circuit, the value of the deciding operand *)
Definition b_or (x y : res pyval) : res pyval := do a <- x;; if truthy a then Ok a else y.
Definition b_and (x y : res pyval) : res pyval := do a <- x;; if truthy a then y else Ok a.
Definition b_not (x : res pyval) : res pyval := do a <- x;; Ok (VBool (negb (truthy a))).

(* isinstance(x, T): bool is a subclass of int *)
Definition b_isinstance (x : res pyval) (l : list pytag) : res pyval :=
  do a <- x;;
  Ok (VBool (tag_mem (tag_of a) l || (tag_eqb (tag_of a) TgBool && tag_mem TgInt l))).

(* x if c else y *)
Definition b_ifexp (c x y : res pyval) : res pyval := do t <- c;; if truthy t then x else y.

(* the test of an if statement *)
Definition b_test (c : res pyval) (x y : res pyval) : res pyval := do t <- c;; if truthy t then x else y.
