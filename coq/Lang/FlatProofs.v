(* C03 (flatness): whatever the visitor model emits is flat -- includes, register declarations with
   literal sizes, gate calls without modifiers (or a single `inv` on a kept external gate) whose
   parameters are literals and whose operands are literally indexed single qubits, single-bit
   measurements, resets, single-qubit barriers, global phases with a literal angle, and
   measurement-conditioned blocks `if (reg[i] == lit)` / `if (reg == lit)` of the same.
   Proved for every program, every fuel, every state, by induction over the interpreter. *)
From Coq Require Import ZArith List Bool String Lia.
From Verif Require Import Aexp BGate PyVal Ast State GatesGen GateLib Unroll.
Import ListNotations.
Open Scope Z_scope.

Definition is_lit (e : expr) : bool := match e with ELit _ => true | _ => false end.
Definition lit_qarg (q : qarg) : bool :=
  match q with QIdx _ [IdxList [IExpr (ELit (VInt _))]] => true | _ => false end.
Definition lit_cond_lhs (e : expr) : bool :=
  match e with
  | EId _ => true
  | EIndexE (EId _) (IdxList [IExpr (ELit (VInt _))]) => true
  | _ => false
  end.

Fixpoint flatb (s : stmt) : bool :=
  let fl := fix go (l : list stmt) : bool := match l with [] => true | x :: l' => flatb x && go l' end in
  match s with
  | SInclude _ => true
  | SQubitDecl _ (Some (ELit (VInt _))) => true
  | SClassicalDecl (TBit (Some (ELit (VInt _)))) _ None => true
  | SClassicalDecl (TBit (Some (ELit (VInt _)))) _ (Some (ELit _)) => true   (* an initial value, never an expression *)
  | SGate [] _ args qs | SGate [MInv] _ args qs => forallb is_lit args && forallb lit_qarg qs
  | SPhase [] (ELit _) _ => true        (* operands of gphase are not constrained here: see gphase_operands_literal *)
  | SMeasure q (Some t) => lit_qarg q && lit_qarg t
  | SReset q => lit_qarg q
  | SBarrier [q] => lit_qarg q
  | SIf (EBin "==" lhs (ELit _)) t e => lit_cond_lhs lhs && fl t && fl e
  | _ => false
  end.

Definition FL (l : list stmt) : Prop := forallb flatb l = true.

Lemma FL_nil : FL []. Proof. reflexivity. Qed.
Lemma FL_app a b : FL a -> FL b -> FL (a ++ b).
Proof. unfold FL. intros. rewrite forallb_app. now rewrite H, H0. Qed.
Lemma FL_cons x l : flatb x = true -> FL l -> FL (x :: l).
Proof. unfold FL. simpl. intros -> ->. reflexivity. Qed.
Lemma FL_concat ls : Forall FL ls -> FL (List.concat ls).
Proof. induction 1; simpl; [apply FL_nil|now apply FL_app]. Qed.
Lemma FL_repeat_concat l n : FL l -> FL (List.concat (repeat l n)).
Proof. intros H. induction n; simpl; [apply FL_nil|now apply FL_app]. Qed.
Lemma flatb_block (l : list stmt) :
  (fix go (l : list stmt) : bool := match l with [] => true | x :: l' => flatb x && go l' end) l = forallb flatb l.
Proof. induction l; simpl; congruence. Qed.
Lemma flatb_if lhs v t e :
  flatb (SIf (EBin "==" lhs (ELit v)) t e) = lit_cond_lhs lhs && forallb flatb t && forallb flatb e.
Proof. simpl. now rewrite !flatb_block. Qed.
Lemma lit_qarg_of b : lit_qarg (qarg_of b) = true.
Proof. destruct b; reflexivity. Qed.
Lemma forallb_lit_qarg_of l : forallb lit_qarg (map qarg_of l) = true.
Proof. induction l as [|b l IH]; [reflexivity|]. cbn [map forallb]. now rewrite lit_qarg_of, IH. Qed.
Lemma forallb_is_lit l : forallb is_lit (map ELit l) = true.
Proof. induction l; simpl; auto. Qed.

(* computations that emit flat statements *)
Definition FM (m : M (list stmt)) : Prop := forall s r s', m s = Ok (r, s') -> FL r.
Definition FE (m : M (pyval * list stmt)) : Prop := forall s v r s', m s = Ok ((v, r), s') -> FL r.

Lemma bind_ok {A B} (m : M A) (f : A -> M B) s r : bindM m f s = Ok r ->
  exists a s1, m s = Ok (a, s1) /\ f a s1 = Ok r.
Proof. unfold bindM. destruct (m s) as [[a s1]|]; [eauto|discriminate]. Qed.

Lemma FM_ret l : FL l -> FM (ret l).
Proof. intros H s r s' E. unfold ret in E. inversion E; subst; exact H. Qed.
Lemma FM_fail e : FM (fail e).
Proof. intros s r s' E. discriminate. Qed.
Lemma FM_bind {A} (m : M A) f : (forall a, FM (f a)) -> FM (bindM m f).
Proof. intros H s r s' E. apply bind_ok in E as (a & s1 & _ & E). eapply H; eauto. Qed.
Lemma FM_emit co l : FL l -> FM (emit co l).
Proof. intros H. unfold emit. apply FM_ret. destruct co; [apply FL_nil|exact H]. Qed.
Lemma FM_if (b : bool) m1 m2 : FM m1 -> FM m2 -> FM (if b then m1 else m2).
Proof. destruct b; auto. Qed.

Lemma FM_concatMM {A} (f : A -> M (list stmt)) l : (forall x, FM (f x)) -> FM (concatMM f l).
Proof.
  intros Hf. induction l as [|x l IH]; simpl; [apply FM_ret, FL_nil|].
  intros s r s' E. apply bind_ok in E as (y & s1 & Ey & E). apply bind_ok in E as (ys & s2 & Eys & E).
  unfold ret in E. inversion E; subst. apply FL_app; [eapply Hf; eauto|eapply IH; eauto].
Qed.

Lemma FM_repeatM n (m : M (list stmt)) : FM m -> FM (repeatM n m).
Proof.
  intros Hm. induction n as [|n IH]; simpl; [apply FM_ret, FL_nil|].
  intros s r s' E. apply bind_ok in E as (y & s1 & Ey & E). apply bind_ok in E as (ys & s2 & Eys & E).
  unfold ret in E. inversion E; subst. apply FL_app; [eapply Hm; eauto|eapply IH; eauto].
Qed.

(* library lowering is flat *)
Lemma stmt_of_bgate_flat env g st : stmt_of_bgate env g = Ok st -> flatb st = true.
Proof.
  destruct g as [name args qs|a qs]; simpl.
  - destruct (mapR (interp_py env) args); simpl; [|discriminate]. intros E; inversion E; subst. simpl.
    now rewrite forallb_is_lit, forallb_lit_qarg_of.
  - destruct (interp_py env a); simpl; [|discriminate]. intros E; inversion E; subst. reflexivity.
Qed.

Lemma mapR_flat env bgs l : mapR (stmt_of_bgate env) bgs = Ok l -> FL l.
Proof.
  revert l; induction bgs as [|g bgs IH]; simpl; intros l E.
  - inversion E; subst. apply FL_nil.
  - destruct (stmt_of_bgate env g) eqn:Eg; simpl in E; [|discriminate].
    destruct (mapR (stmt_of_bgate env) bgs) eqn:Er; simpl in E; [|discriminate].
    inversion E; subst. apply FL_cons; [eapply stmt_of_bgate_flat; eauto|now apply IH].
Qed.

Lemma FM_bind_dep {A} (m : M A) f :
  (forall a s s1, m s = Ok (a, s1) -> FM (f a)) -> FM (bindM m f).
Proof. intros H s r s' E. apply bind_ok in E as (a & s1 & Ea & E). eapply H; eauto. Qed.

Lemma FM_lift_flat env bgs :
  FM (lift (match mapR (stmt_of_bgate env) bgs with
            | Err (EInternal KType) => Err EValidation
            | r => r
            end)).
Proof.
  intros s r s' E. unfold lift in E. destruct (mapR (stmt_of_bgate env) bgs) as [l|e] eqn:El.
  - inversion E; subst. eapply mapR_flat; eauto.
  - destruct e as [| [] | |]; discriminate.
Qed.

Ltac mdec H :=
  lazymatch type of H with
  | bindM _ _ _ = Ok _ =>
      let a := fresh "a" in let s1 := fresh "s" in let E1 := fresh "E" in
      apply bind_ok in H as (a & s1 & E1 & H);
      try (lazymatch type of a with (_ * _)%type => destruct a end);
      try (lazymatch type of a with (_ * _)%type => destruct a end); mdec H
  | ret _ _ = Ok _ => unfold ret in H; inversion H; subst; clear H
  | fail _ _ = Ok _ => discriminate H
  | verr _ = Ok _ => discriminate H
  | ierr _ _ = Ok _ => discriminate H
  | unm _ _ = Ok _ => discriminate H
  | (match ?x with _ => _ end) _ = Ok _ => destruct x; mdec H
  | (if ?b then _ else _) _ = Ok _ => destruct b; mdec H
  | (let '(_, _) := ?x in _) _ = Ok _ => destruct x; mdec H
  | _ => idtac
  end.

Ltac mdec_for l :=
  match goal with
  | H : _ = Ok ((_, l), _) |- _ => mdec H
  | H : _ = Ok ((_, l, _), _) |- _ => mdec H
  | H : _ = Ok (l, _) |- _ => mdec H
  end.

Section Flat.
Variable check_only : bool.
Variable externals : list string.
Variable visit_rec : stmt -> M (list stmt).
Variable call_rec : string -> list expr -> M (pyval * list stmt).
Hypothesis Hvr : forall st, FM (visit_rec st).
Hypothesis Hcr : forall f args, FE (call_rec f args).

(* ---------- expressions ---------- *)
Lemma FE_eval e : forall cst reqd, FE (eval call_rec e cst reqd).
Proof.
  induction e as [lv| | |x|c IHc idx|op e IHe|op l IHl r0 IHr|f args|t IHt idx|vals|k];
    intros cst reqd s val r s' E; cbn [eval] in E;
    try (unfold verr, ierr, unm, fail in E; discriminate).
  - (* ELit *) destruct reqd as [[]|], lv; unfold ret, verr, fail in E; try discriminate; inversion E; subst; apply FL_nil.
  - (* EId *)
    destruct (is_constant_name x).
    + destruct reqd as [[]|]; try (unfold verr, fail in E; discriminate);
        apply bind_ok in E as (? & ? & _ & E); unfold ret in E; inversion E; subst; apply FL_nil.
    + apply bind_ok in E as (? & ? & _ & E). unfold ret in E; inversion E; subst; apply FL_nil.
  - (* EIndexE *) mdec E; apply FL_nil.
  - (* EUn *)
    apply bind_ok in E as ([v1 st1] & s1 & E1 & E). apply bind_ok in E as (? & ? & _ & E).
    apply bind_ok in E as (? & ? & _ & E). unfold ret in E; inversion E; subst. eapply IHe; eauto.
  - (* EBin *)
    apply bind_ok in E as ([v1 st1] & s1 & E1 & E). apply bind_ok in E as ([v2 st2] & s2 & E2 & E).
    apply bind_ok in E as (? & ? & _ & E). unfold ret in E; inversion E; subst.
    apply FL_app; [eapply IHl; eauto|eapply IHr; eauto].
  - (* ECall *) eapply Hcr; eauto.
  - (* ESizeOf *) mdec E; apply FL_nil.
Qed.

(* ---------- automation ---------- *)
Ltac fm_step :=
  lazymatch goal with
  | |- FM (bindM _ _) => apply FM_bind_dep; intros ? ? ? ?
  | |- FM (emit _ _) => apply FM_emit
  | |- FM (ret _) => apply FM_ret
  | |- FM (fail _) => apply FM_fail
  | |- FM verr => apply FM_fail
  | |- FM (ierr _) => apply FM_fail
  | |- FM (unm _) => apply FM_fail
  | |- FM (if ?b then _ else _) => first [apply FM_if | destruct b]
  | |- FM (let '(_, _) := ?x in _) => destruct x
  | |- FM (match ?x with _ => _ end) => destruct x
  end.

Ltac fl_solve :=
  repeat first [ apply FL_nil | apply FL_app | apply FL_cons ];
  try reflexivity;
  try match goal with
      | E : eval _ _ _ _ _ = Ok ((_, ?l), _) |- FL ?l => eapply FE_eval; eassumption
      | E : visit_rec _ _ = Ok (?l, _) |- FL ?l => eapply Hvr; eassumption
      end.

(* ---------- declarations and assignments ---------- *)
Lemma FM_qubit_decl name size : FM (visit_qubit_decl check_only call_rec name size).
Proof. unfold visit_qubit_decl. repeat fm_step. fl_solve. Qed.

Lemma FM_const_decl t name init : FM (visit_const_decl check_only call_rec t name init).
Proof. unfold visit_const_decl. repeat fm_step; fl_solve. Qed.



Lemma FM_array_decl base dims name init : FM (visit_array_decl call_rec base dims name init).
Proof. unfold visit_array_decl; cbv zeta. repeat fm_step; fl_solve. Qed.

Lemma FM_classical_decl t name init : FM (visit_classical_decl check_only call_rec t name init).
Proof.
  unfold visit_classical_decl. repeat fm_step; fl_solve; try apply FM_array_decl.
  all: try (match goal with |- FL ?l => mdec_for l end; fl_solve).
  (* the emitted bit declaration: its initialiser is absent or a literal (the folded value), never an expression *)
  match goal with
  | H : match init with _ => _ end _ = Ok (_, _, ?o, _) |- flatb (SClassicalDecl _ _ ?o) = true =>
      assert (Ho : o = None \/ exists v0, o = Some (ELit v0));
      [ destruct init as [e|]; [|unfold ret in H; inversion H; auto];
        destruct e; try discriminate H;
        apply bind_ok in H as ([iv st0] & sa & _ & H); apply bind_ok in H as (cv & sb & _ & H);
        unfold ret in H; inversion H; subst;
        first [ right; eexists; reflexivity
              | match goal with |- context [match ?v with VInt _ => _ | _ => _ end] => destruct v end; right; eexists; reflexivity ]
      | destruct Ho as [->|[v0 ->]]; reflexivity ]
  end.
Qed.

Ltac fm_leftover := try (match goal with |- FL ?l => mdec_for l end; fl_solve).

Lemma FM_assignment lv op rv : FM (visit_assignment check_only call_rec lv op rv).
Proof. unfold visit_assignment. repeat fm_step; fl_solve; fm_leftover. Qed.

(* ---------- quantum statements ---------- *)
Lemma FL_map_measure l : FL (map (fun p : bitref * bitref => SMeasure (qarg_of (fst p)) (Some (qarg_of (snd p)))) l).
Proof. induction l as [|p l IH]; [apply FL_nil|]. apply FL_cons; [cbn [flatb]; now rewrite !lit_qarg_of|exact IH]. Qed.
Lemma FL_map_reset l : FL (map (fun b => SReset (qarg_of b)) l).
Proof. induction l as [|p l IH]; [apply FL_nil|]. apply FL_cons; [cbn [flatb]; now rewrite lit_qarg_of|exact IH]. Qed.
Lemma FL_map_barrier l : FL (map (fun b => SBarrier [qarg_of b]) l).
Proof. induction l as [|p l IH]; [apply FL_nil|]. apply FL_cons; [cbn [flatb]; now rewrite lit_qarg_of|exact IH]. Qed.
Lemma FL_map_ext inv name params (l : list (list bitref)) :
  FL (map (fun tg => SGate (if inv : bool then [MInv] else []) name (map ELit params) (map qarg_of tg)) l).
Proof.
  induction l as [|p l IH]; [apply FL_nil|]. apply FL_cons; [|exact IH].
  destruct inv; cbn [flatb]; now rewrite forallb_is_lit, forallb_lit_qarg_of.
Qed.

Lemma FM_measure q t : FM (visit_measure check_only call_rec q t).
Proof. unfold visit_measure. repeat fm_step; try apply FL_map_measure; fl_solve. Qed.
Lemma FM_reset q : FM (visit_reset check_only call_rec q).
Proof. unfold visit_reset. repeat fm_step; try apply FL_map_reset; fl_solve. Qed.
Lemma FM_barrier q : FM (visit_barrier check_only call_rec q).
Proof. unfold visit_barrier. repeat fm_step; try apply FL_map_barrier; fl_solve. Qed.

Ltac use_concat :=
  match goal with
  | H : concatMM ?f ?l _ = Ok (?o, _) |- FL ?o => refine (FM_concatMM f l _ _ _ _ H); intros ?
  end.

Lemma FM_basic_gate name args qubits inverse : FM (visit_basic_gate check_only call_rec name args qubits inverse).
Proof.
  unfold visit_basic_gate. repeat fm_step; fl_solve.
  all: use_concat; repeat fm_step; try apply FM_lift_flat; fl_solve.
Qed.

Lemma FM_custom_gate name args qubits inverse : FM (visit_custom_gate check_only visit_rec call_rec name args qubits inverse).
Proof.
  unfold visit_custom_gate. repeat fm_step; fl_solve.
  all: use_concat; repeat fm_step; fl_solve; try apply Hvr.
Qed.

Lemma FM_external_gate name args qubits inverse : FM (visit_external_gate check_only visit_rec call_rec name args qubits inverse).
Proof. unfold visit_external_gate. repeat fm_step; try apply FL_map_ext; fl_solve. Qed.

Lemma FM_generic_gate mods name args qubits : FM (visit_generic_gate check_only externals visit_rec call_rec mods name args qubits).
Proof.
  unfold visit_generic_gate. repeat fm_step; fl_solve.
  all: match goal with
       | H : repeatM ?n ?m _ = Ok (?o, _) |- FL ?o => refine (FM_repeatM n m _ _ _ _ H)
       end.
  all: repeat fm_step; first [apply FM_external_gate | apply FM_custom_gate | apply FM_basic_gate].
Qed.

Lemma FL_repeat_phase v qs n : FL (repeat (SPhase [] (ELit v) qs) n).
Proof. induction n; [apply FL_nil|]. apply FL_cons; [reflexivity|exact IHn]. Qed.

Lemma FM_generic_phase mods arg qubits : FM (visit_generic_phase check_only call_rec mods arg qubits).
Proof. unfold visit_generic_phase. repeat fm_step; try apply FL_repeat_phase; fl_solve. Qed.

(* ---------- control flow ---------- *)
Lemma FM_block l : FM (visit_block visit_rec l).
Proof. unfold visit_block. apply FM_concatMM. exact Hvr. Qed.

Ltac use_block :=
  match goal with
  | H : visit_block _ ?l _ = Ok (?o, _) |- FL ?o => exact (FM_block l _ _ _ H)
  end.

Lemma forallb_FL l : FL l -> forallb flatb l = true.
Proof. auto. Qed.

Lemma FM_branch cond t e : FM (visit_branch check_only visit_rec call_rec cond t e).
Proof.
  unfold visit_branch. repeat fm_step; fl_solve.
  all: match goal with |- FL ?l => mdec_for l end; fl_solve; try use_block.
  destruct p0; try discriminate E2; unfold ret in E2; inversion E2; subst a6;
    pose proof (forallb_FL _ (FM_block _ _ _ _ E3)) as F3; pose proof (forallb_FL _ (FM_block _ _ _ _ E4)) as F4;
    rewrite flatb_if, F3, F4; destruct a5; reflexivity.
Qed.

Lemma FM_for t var set body : FM (visit_for check_only visit_rec call_rec t var set body (visit_classical_decl check_only call_rec)).
Proof.
  unfold visit_for. apply FM_bind_dep. intros [init vals] s0 s1 _.
  induction vals as [|v vals IH]; [apply FM_ret, FL_nil|].
  repeat fm_step; fl_solve.
  all: try match goal with
       | H : visit_classical_decl _ _ _ _ _ _ = Ok (?o, _) |- FL ?o => exact (FM_classical_decl _ _ _ _ _ _ H)
       end.
  all: try use_block.
  all: try match goal with
       | H : _ = Ok (?o, _), IH' : FM _ |- FL ?o => exact (IH' _ _ _ H)
       end.
Qed.

Lemma FM_eval_case stmts : FM (eval_case check_only visit_rec stmts).
Proof.
  unfold eval_case. repeat fm_step; fl_solve.
  use_concat. repeat fm_step. apply Hvr.
Qed.

Lemma FM_switch target cases default : FM (visit_switch check_only visit_rec call_rec target cases default).
Proof.
  unfold visit_switch. repeat (apply FM_bind; intros ?).
  induction cases as [|[vals body] cs IH].
  - destruct default; [apply FM_eval_case|apply FM_ret, FL_nil].
  - apply FM_bind_dep. intros hit ? ? ?. destruct hit; [apply FM_eval_case|].
    (* the guard on the non-empty case list was consumed above; the recursion is on the tail *)
    exact IH.
Qed.

Lemma FM_alias name value : FM (visit_alias call_rec name value).
Proof. unfold visit_alias. repeat fm_step; fl_solve. Qed.

(* ---------- dispatch ---------- *)
Lemma FM_stmt_body stm : FM (visit_stmt_body check_only externals visit_rec call_rec stm).
Proof.
  destruct stm; cbn [visit_stmt_body];
    first [ apply FM_qubit_decl | apply FM_classical_decl | apply FM_const_decl | apply FM_assignment
          | apply FM_generic_gate | apply FM_generic_phase | apply FM_measure | apply FM_reset | apply FM_barrier
          | apply FM_branch | apply FM_for | apply FM_switch | apply FM_alias | idtac ].
  all: repeat fm_step; fl_solve.
  all: try match goal with
       | H : call_rec _ _ _ = Ok ((_, ?l), _) |- FL ?l => exact (Hcr _ _ _ _ _ _ H)
       end.
Qed.

(* ---------- subroutine calls ---------- *)
Definition body_loop :=
  fix go (body : list stmt) : M (list stmt * option (option expr)) :=
    match body with
    | [] => ret ([], None)
    | SReturn e :: _ => ret ([], Some e)
    | st :: body' => o <- visit_rec st;; '(os, r) <- go body';; ret (o ++ os, r)
    end.

Lemma body_loop_flat body : forall s out r s', body_loop body s = Ok ((out, r), s') -> FL out.
Proof.
  induction body as [|st body IH]; intros s out r s' E.
  - unfold body_loop, ret in E. inversion E; subst. apply FL_nil.
  - assert (Hgen : (o <- visit_rec st;; '(os, r) <- body_loop body;; ret (o ++ os, r)) s = Ok ((out, r), s') -> FL out).
    { intros E'. apply bind_ok in E' as (o & s6 & Eo & E'). apply bind_ok in E' as ([os r0] & s7 & Eos & E').
      unfold ret in E'. inversion E'; subst. apply FL_app; [eapply Hvr; eauto|eapply IH; eauto]. }
    destruct st; try (apply Hgen; exact E).
    unfold body_loop, ret in E. inversion E; subst. apply FL_nil.
Qed.

Lemma FE_call_body f args : FE (call_body check_only visit_rec call_rec f args).
Proof.
  unfold call_body. intros s v r s' E.
  apply bind_ok in E as (s0 & s1 & _ & E).
  destruct (sget f (subs s0)) as [sd|]; [|discriminate E].
  apply bind_ok in E as (? & ? & _ & E).
  apply bind_ok in E as ([[[[qvars cvars] fsz] fmap] dup] & ? & _ & E).
  apply bind_ok in E as (? & ? & _ & E).
  apply bind_ok in E as (? & ? & _ & E).
  apply bind_ok in E as (? & ? & _ & E).
  apply bind_ok in E as (? & ? & _ & E).
  apply bind_ok in E as ([out retstmt] & sb & Ebody & E).
  apply bind_ok in E as ([rv rstmts] & sr & Eret & E).
  apply bind_ok in E as (sf & ? & _ & E).
  apply bind_ok in E as (? & ? & _ & E).
  apply bind_ok in E as (? & ? & _ & E).
  assert (Hout : FL out) by (eapply body_loop_flat; exact Ebody).
  assert (Hr : FL rstmts).
  { destruct retstmt as [e|].
    - apply bind_ok in Eret as ([v0 stmts] & ? & Ev & Eret). apply bind_ok in Eret as (? & ? & _ & Eret).
      unfold ret in Eret. inversion Eret; subst.
      destruct e as [rx|]; [eapply FE_eval; eauto|unfold ret in Ev; inversion Ev; subst; apply FL_nil].
    - unfold ret in Eret. inversion Eret; subst. apply FL_nil. }
  destruct check_only; unfold ret in E; inversion E; subst; [apply FL_nil|now apply FL_app].
Qed.
End Flat.

(* ---------- tying the knot: every fuel ---------- *)
Theorem visit_flat check_only externals fuel :
  (forall st, FM (visit_stmt check_only externals fuel st)) /\
  (forall f args, FE (visit_call check_only externals fuel f args)).
Proof.
  induction fuel as [|fuel [IHs IHc]]; split.
  - intros st s r s' E. discriminate E.
  - intros f args s v r s' E. discriminate E.
  - intros st. cbn [visit_stmt]. now apply FM_stmt_body.
  - intros f args. cbn [visit_call]. now apply FE_call_body.
Qed.

Lemma finalize_flat s l : FL l -> FL (finalize s l).
Proof.
  unfold finalize, FL. induction l as [|x l IH]; simpl; [auto|]. intros H. apply andb_true_iff in H as [Hx Hl].
  rewrite IH by exact Hl. rewrite andb_true_r.
  destruct x; try exact Hx. destruct mods; try discriminate. destruct arg; try discriminate.
  destruct (_ =? _); reflexivity.
Qed.

(* whatever unroll() (the model of QasmModule.unroll with or without external gates, for
   OpenQASM 2 or 3 modules) returns is flat *)
Theorem unroll_flat qasm2 externals prog o :
  unroll_v qasm2 externals prog = Ok o -> FL (o_stmts o).
Proof.
  unfold unroll_v, run_visit. destruct (qasm2 && negb (forallb qasm2_allowed prog)); [discriminate|].
  destruct (concatMM _ prog init_st) as [[out s]|] eqn:E; [|discriminate].
  intros H. inversion H; subst. simpl. apply finalize_flat.
  eapply (FM_concatMM _ prog); [|exact E]. intros st. apply (visit_flat false externals default_fuel).
Qed.

(* the custom-gate expansion hands literal operands to the gphase statements of the body *)
Lemma gphase_operands_literal (qmap : list (string * bitref)) :
  forallb lit_qarg (map (fun p : string * bitref => qarg_of (snd p)) qmap) = true.
Proof. induction qmap as [|p l IH]; [reflexivity|]. cbn [map forallb]. now rewrite lit_qarg_of, IH. Qed.
