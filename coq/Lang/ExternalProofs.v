(* C18: external_gates keeps the named gates opaque and changes nothing else (visitor model). *)
From Coq Require Import ZArith List Bool String Lia.
From Verif Require Import Aexp BGate PyVal Ast State GatesGen GateLib Unroll.
Import ListNotations.
Open Scope Z_scope.

Section Ext.
Variable check_only : bool.
Variable visit_rec : stmt -> M (list stmt).
Variable call_rec : string -> list expr -> M (pyval * list stmt).

(* a gate call whose name is not in E is treated exactly as by plain unroll() *)
Theorem not_named_is_plain ext mods name args qs :
  smem name ext = false ->
  visit_generic_gate check_only ext visit_rec call_rec mods name args qs
  = visit_generic_gate check_only [] visit_rec call_rec mods name args qs.
Proof. intros H. unfold visit_generic_gate. rewrite H. reflexivity. Qed.

(* with E empty every call is treated as by plain unroll() *)
Corollary empty_is_plain mods name args qs ext :
  ext = [] ->
  visit_generic_gate check_only ext visit_rec call_rec mods name args qs
  = visit_generic_gate check_only [] visit_rec call_rec mods name args qs.
Proof. intros ->. reflexivity. Qed.

(* shape of what a kept call emits: one call of the same gate per broadcast group, literal
   parameters, resolved single qubits, `inv @` iff the collapsed inverse flag is set *)
Definition kept_call (name : string) (inverse : bool) (params : list pyval) (st : stmt) : Prop :=
  exists tg : list bitref,
    st = SGate (if inverse then [MInv] else []) name (map ELit params) (map qarg_of tg).

Lemma bind_ok {A B} (m : M A) (f : A -> M B) s r : bindM m f s = Ok r ->
  exists a s1, m s = Ok (a, s1) /\ f a s1 = Ok r.
Proof. unfold bindM. destruct (m s) as [[a s1]|]; [eauto|discriminate]. Qed.

Theorem external_shape name args qs inverse out s s' :
  check_only = false ->
  visit_external_gate check_only visit_rec call_rec name args qs inverse s = Ok (out, s') ->
  exists params, Forall (kept_call name inverse params) out.
Proof.
  intros Hco H. unfold visit_external_gate in H.
  apply bind_ok in H as (s0 & s1 & _ & H).
  apply bind_ok in H as (count & s2 & _ & H).
  apply bind_ok in H as (params & s3 & _ & H).
  apply bind_ok in H as (targets & s5 & _ & H).
  unfold emit, ret in H. rewrite Hco in H. inversion H; subst. exists params.
  apply Forall_forall. intros st Hin. apply in_map_iff in Hin as (tg & <- & _). exists tg. reflexivity.
Qed.

(* the call is still validated against the gate's definition: if the plain expansion of the call
   fails, the kept call fails with the same error *)
Theorem external_validates_custom name gd args qs inverse s e :
  sget name (gates s) = Some gd ->
  visit_custom_gate check_only visit_rec call_rec name args qs inverse s = Err e ->
  visit_external_gate check_only visit_rec call_rec name args qs inverse s = Err e.
Proof.
  intros Hg He. unfold visit_external_gate, bindM at 1, getst. rewrite Hg.
  unfold bindM at 1. unfold bindM at 1. rewrite He. reflexivity.
Qed.

Theorem external_validates_library name args qs inverse s e :
  sget name (gates s) = None ->
  visit_basic_gate check_only call_rec name args qs inverse s = Err e ->
  visit_external_gate check_only visit_rec call_rec name args qs inverse s = Err e.
Proof.
  intros Hg He. unfold visit_external_gate, bindM at 1, getst. rewrite Hg.
  unfold bindM at 1. unfold bindM at 1. rewrite He. reflexivity.
Qed.
End Ext.

(* ---------- C01 (inlining clause, library gates): what a call of a library gate emits ---------- *)
Section BasicGate.
Variable call_rec : string -> list expr -> M (pyval * list stmt).

Definition group_args (params : list pyval) (tg : list bitref) : list (garg bitref) :=
  map GA (map AVar (seq 0 (List.length params))) ++ map GQ tg.

(* one broadcast group: the table's decomposition callable at the evaluated parameters and the resolved operands *)
Definition group_lowers (f : list (garg bitref) -> option (list (bgate bitref))) (params : list pyval)
  (tg : list bitref) (o : list stmt) : Prop :=
  exists bgs, f (group_args params tg) = Some bgs /\ mapR (stmt_of_bgate params) bgs = Ok o.

Lemma concat_groups f params targets : forall s out s1,
  concatMM (fun tg =>
     match f (group_args params tg) with
     | None => verr
     | Some bgs => lift (match mapR (stmt_of_bgate params) bgs with
                         | Err (EInternal KType) => Err EValidation
                         | r => r
                         end)
     end) targets s = Ok (out, s1) ->
  exists groups, Forall2 (group_lowers f params) targets groups /\ out = List.concat groups.
Proof.
  induction targets as [|tg targets IH]; intros s out s1 E.
  - cbn in E. unfold ret in E. inversion E; subst. exists []. split; [constructor|reflexivity].
  - cbn [concatMM] in E. apply bind_ok in E as (o & s2 & Eo & E). apply bind_ok in E as (os & s3 & Eos & E).
    unfold ret in E. inversion E; subst.
    destruct (IH _ _ _ Eos) as (groups & HF & ->).
    exists (o :: groups). split; [|reflexivity]. constructor; [|exact HF].
    destruct (f (group_args params tg)) as [bgs|] eqn:Ef; [|discriminate Eo].
    exists bgs. split; [exact Ef|].
    unfold lift in Eo. destruct (mapR (stmt_of_bgate params) bgs) as [l|e] eqn:Em.
    + inversion Eo; subst. reflexivity.
    + destruct e as [| [] | |]; discriminate Eo.
Qed.

(* a (non-inverted) call of a library gate emits, for every broadcast group of its resolved operands in order,
   exactly the statements of the decomposition that GatesGen.v (regenerated from maps.py) holds for that name *)
Theorem basic_gate_emits_table_decomposition name args qubits out s s' d np f arity :
  lookup_op bitref name = Some (Some (d, np, f), arity) ->
  visit_basic_gate false call_rec name args qubits false s = Ok (out, s') ->
  exists params targets groups,
    Forall2 (group_lowers f params) targets groups /\ out = List.concat groups.
Proof.
  intros El H. unfold visit_basic_gate in H. cbn [negb] in H. rewrite El in H.
  apply bind_ok in H as ([[entry arity0] invert] & s1 & E1 & H).
  unfold ret in E1. inversion E1; subst. clear E1.
  apply bind_ok in H as (params & s2 & _ & H).
  apply bind_ok in H as (targets & s3 & _ & H).
  apply bind_ok in H as (out0 & s4 & Ec & H).
  apply bind_ok in H as (u & s5 & _ & H).
  unfold emit, ret in H. inversion H; subst.
  apply concat_groups in Ec as (groups & HF & ->).
  exists params, targets, groups. auto.
Qed.
End BasicGate.

(* ---------- C01 / C06 (inlining clause, custom gates): what a call of a custom gate expands to ---------- *)
Section CustomGate.
Variable visit_rec : stmt -> M (list stmt).
Variable call_rec : string -> list expr -> M (pyval * list stmt).

(* a formal qubit of the definition replaced by the actual qubit bound to it *)
Definition actual_of (qmap : list (string * bitref)) (q q' : qarg) : Prop :=
  exists x b, q = QId x /\ sget x qmap = Some b /\ q' = qarg_of b.

Lemma map_formals qmap gqs : forall s gqs' s1,
  mapMM (fun q => match q with
                  | QIdx _ _ => verr
                  | QId x => match sget x qmap with Some b => ret (qarg_of b) | None => verr end
                  end) gqs s = Ok (gqs', s1) ->
  s1 = s /\ Forall2 (actual_of qmap) gqs gqs'.
Proof.
  induction gqs as [|q gqs IH]; intros s gqs' s1 E.
  - cbn in E. unfold ret in E. inversion E; subst. split; [reflexivity|constructor].
  - cbn [mapMM] in E. apply bind_ok in E as (y & s2 & Ey & E). apply bind_ok in E as (ys & s3 & Eys & E).
    unfold ret in E. inversion E; subst.
    destruct q as [x|x idx]; [|discriminate Ey].
    destruct (sget x qmap) as [b|] eqn:Ex; [|discriminate Ey].
    unfold ret in Ey. inversion Ey; subst.
    destruct (IH _ _ _ Eys) as [-> HF]. split; [reflexivity|].
    constructor; [|exact HF]. exists x, b. auto.
Qed.

(* the member [op'] visited for a member [op] of the definition's body *)
Inductive expands (name : string) (pmap : list (string * pyval)) (qmap : list (string * bitref)) (inverse : bool)
  : stmt -> stmt -> Prop :=
| ex_gate mods gname gargs gqs gqs' :
    gname <> name -> Forall2 (actual_of qmap) gqs gqs' ->
    expands name pmap qmap inverse (SGate mods gname gargs gqs)
            (SGate (if inverse then mods ++ [MInv] else mods) gname (map (subst_params pmap) gargs) gqs')
| ex_phase mods arg gqs gqs' :
    (gqs = [] -> gqs' = map (fun p => qarg_of (snd p)) qmap) ->
    (gqs <> [] -> Forall2 (actual_of qmap) gqs gqs') ->
    expands name pmap qmap inverse (SPhase mods arg gqs)
            (SPhase (if inverse then mods ++ [MInv] else mods) (subst_params pmap arg) gqs').

(* a call of a custom gate visits, for the members of the definition's body in order -- in REVERSE order with
   `inv` appended to each when the call is inverted --, the member with the call's parameter values substituted
   and its formal qubits replaced by the actual ones, and emits what those visits emit, concatenated *)
Theorem custom_gate_expands_its_body name args qubits inverse out s s' :
  visit_custom_gate false visit_rec call_rec name args qubits inverse s = Ok (out, s') ->
  exists gd pmap qmap outs,
    sget name (gates s) = Some gd /\
    out = List.concat outs /\
    Forall2 (fun op o => exists op' s1 s2, expands name pmap qmap inverse op op' /\ visit_rec op' s1 = Ok (o, s2))
            (if inverse then rev (g_body gd) else g_body gd) outs.
Proof.
  intros H. unfold visit_custom_gate in H.
  apply bind_ok in H as (s0 & s0' & E0 & H). unfold getst in E0. inversion E0; subst. clear E0.
  destruct (sget name (gates s0')) as [gd|] eqn:Eg; [|discriminate H].
  apply bind_ok in H as (bits & s1 & _ & H).
  apply bind_ok in H as (u1 & s2 & _ & H).
  apply bind_ok in H as (u2 & s3 & _ & H).
  cbv zeta in H.
  apply bind_ok in H as (pvals & s4 & _ & H).
  apply bind_ok in H as (s5 & s5' & _ & H).
  apply bind_ok in H as (u3 & s6 & _ & H).
  apply bind_ok in H as (u4 & s7 & _ & H).
  apply bind_ok in H as (u5 & s8 & _ & H).
  apply bind_ok in H as (out0 & s9 & Ec & H).
  apply bind_ok in H as (u6 & s10 & _ & H).
  apply bind_ok in H as (u7 & s11 & _ & H).
  unfold emit, ret in H. inversion H; subst. clear H.
  set (pmap := fold_left (fun acc p => sset (fst p) (snd p) acc) (combine (g_params gd) pvals) []) in *.
  set (qmap := dedup_names_last (combine (g_qubits gd) bits)) in *.
  exists gd, pmap, qmap.
  revert Ec. generalize (if inverse then rev (g_body gd) else g_body gd) as body. generalize s8 as sa. generalize s9 as sb.
  intros sb sa body. revert sa sb out. induction body as [|op body IH]; intros sa sb out Ec.
  - cbn in Ec. unfold ret in Ec. inversion Ec; subst. exists []. split; [reflexivity|]. split; [reflexivity|constructor].
  - cbn [concatMM] in Ec. apply bind_ok in Ec as (o & sc & Eo & Ec). apply bind_ok in Ec as (os & sd & Eos & Ec).
    unfold ret in Ec. inversion Ec; subst.
    destruct (IH _ _ _ Eos) as (outs & _ & -> & HF).
    exists (o :: outs). split; [reflexivity|]. split; [reflexivity|]. constructor; [|exact HF].
    destruct op; try discriminate Eo.
    + (* SGate *)
      apply bind_ok in Eo as (u & se & Eu & Eo). unfold guard in Eu.
      destruct (negb (String.eqb name0 name)) eqn:En; [|discriminate Eu]. unfold ret in Eu; inversion Eu; subst.
      cbv zeta in Eo. apply bind_ok in Eo as (gqs' & sf & Eq & Eo).
      apply map_formals in Eq as [-> HQ].
      eexists _, _, _. split; [|exact Eo]. constructor; [|exact HQ].
      intros ->. rewrite String.eqb_refl in En. discriminate.
    + (* SPhase *)
      cbv zeta in Eo. apply bind_ok in Eo as (gqs' & sf & Eq & Eo).
      eexists _, _, _. split; [|exact Eo]. constructor.
      * intros ->. unfold ret in Eq. inversion Eq; subst. reflexivity.
      * intros Hne. destruct qubits0 as [|q0 qs0]; [congruence|]. apply map_formals in Eq as [_ HQ]. exact HQ.
Qed.
End CustomGate.
