(* C18: external_gates keeps the named gates opaque and changes nothing else (visitor model). *)
From Coq Require Import ZArith List Bool String Lia.
From Verif Require Import BGate PyVal Ast State Unroll.
Import ListNotations.
Open Scope Z_scope.

Section Ext.
Variable check_only : bool.
Variable visit_rec : stmt -> M (list stmt).
Variable call_rec : string -> list expr -> M (pyval * list stmt).

(* a gate call whose name is not in E is treated exactly as by plain unroll() *)
Theorem not_named_is_plain ext mods name args qs :
  smem name ext = false ->
  visit_generic_gate check_only ext visit_rec call_rec mods name args qs
  = visit_generic_gate check_only [] visit_rec call_rec mods name args qs.
Proof. intros H. unfold visit_generic_gate. rewrite H. reflexivity. Qed.

(* with E empty every call is treated as by plain unroll() *)
Corollary empty_is_plain mods name args qs ext :
  ext = [] ->
  visit_generic_gate check_only ext visit_rec call_rec mods name args qs
  = visit_generic_gate check_only [] visit_rec call_rec mods name args qs.
Proof. intros ->. reflexivity. Qed.

(* shape of what a kept call emits: one call of the same gate per broadcast group, literal
   parameters, resolved single qubits, `inv @` iff the collapsed inverse flag is set *)
Definition kept_call (name : string) (inverse : bool) (params : list pyval) (st : stmt) : Prop :=
  exists tg : list bitref,
    st = SGate (if inverse then [MInv] else []) name (map ELit params) (map qarg_of tg).

Lemma bind_ok {A B} (m : M A) (f : A -> M B) s r : bindM m f s = Ok r ->
  exists a s1, m s = Ok (a, s1) /\ f a s1 = Ok r.
Proof. unfold bindM. destruct (m s) as [[a s1]|]; [eauto|discriminate]. Qed.

Theorem external_shape name args qs inverse out s s' :
  check_only = false ->
  visit_external_gate check_only visit_rec call_rec name args qs inverse s = Ok (out, s') ->
  exists params, Forall (kept_call name inverse params) out.
Proof.
  intros Hco H. unfold visit_external_gate in H.
  apply bind_ok in H as (s0 & s1 & _ & H).
  apply bind_ok in H as (count & s2 & _ & H).
  apply bind_ok in H as (params & s3 & _ & H).
  apply bind_ok in H as (targets & s5 & _ & H).
  unfold emit, ret in H. rewrite Hco in H. inversion H; subst. exists params.
  apply Forall_forall. intros st Hin. apply in_map_iff in Hin as (tg & <- & _). exists tg. reflexivity.
Qed.

(* the call is still validated against the gate's definition: if the plain expansion of the call
   fails, the kept call fails with the same error *)
Theorem external_validates_custom name gd args qs inverse s e :
  sget name (gates s) = Some gd ->
  visit_custom_gate check_only visit_rec call_rec name args qs inverse s = Err e ->
  visit_external_gate check_only visit_rec call_rec name args qs inverse s = Err e.
Proof.
  intros Hg He. unfold visit_external_gate, bindM at 1, getst. rewrite Hg.
  unfold bindM at 1. unfold bindM at 1. rewrite He. reflexivity.
Qed.

Theorem external_validates_library name args qs inverse s e :
  sget name (gates s) = None ->
  visit_basic_gate check_only call_rec name args qs inverse s = Err e ->
  visit_external_gate check_only visit_rec call_rec name args qs inverse s = Err e.
Proof.
  intros Hg He. unfold visit_external_gate, bindM at 1, getst. rewrite Hg.
  unfold bindM at 1. unfold bindM at 1. rewrite He. reflexivity.
Qed.
End Ext.
