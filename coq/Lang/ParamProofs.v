(* Closed parameter expressions: literals, the constants pi / tau / euler, unary and binary operators over them.  A pure
   evaluator (built from the very operator functions the visitor model applies) computes the value the model's evaluator
   returns, in any state and without emitting anything -- so gate statements whose parameters are such expressions can be
   part of the whole-program judgement, their parameters folded to the computed literals. *)
From Coq Require Import ZArith List Bool String Lia.
From Verif Require Import Aexp BGate PyVal CastPrim Ast State GatesGen GateLib Unroll FixProofs.
Import ListNotations.
Open Scope Z_scope.

Definition papply (name : string) (args : list pyval) : res pyval :=
  match assoc name OPERATOR_MAP, args with
  | None, _ => Err EValidation
  | Some (Un o), [x] => op_error (py_unop o x)
  | Some (Bin o), [x; y] => op_error (py_binop o x y)
  | Some _, _ => Err EValidation
  end.

Lemma apply_op_papply name args s :
  apply_op name args s = match papply name args with Ok v => Ok (v, s) | Err e => Err e end.
Proof.
  unfold apply_op, papply. destruct (assoc name OPERATOR_MAP) as [[o|o]|]; [| |reflexivity].
  - destruct args as [|x [|y [|z l]]]; reflexivity.
  - destruct args as [|x [|y l]]; reflexivity.
Qed.

Fixpoint ceval (e : expr) : option pyval :=
  match e with
  | ELit v => Some v
  | EId x => if is_constant_name x then match constant_value x with Ok v => Some v | Err _ => None end else None
  | EUn op x =>
      match ceval x with
      | Some v =>
          if negb (String.eqb op "~") || match v with VInt _ | VBool _ => true | _ => false end
          then match papply (if String.eqb op "-" then "UMINUS" else op) [v] with Ok r => Some r | Err _ => None end
          else None
      | None => None
      end
  | EBin op l r =>
      match ceval l, ceval r with
      | Some a, Some b => match papply op [a; b] with Ok v => Some v | Err _ => None end
      | _, _ => None
      end
  | _ => None
  end.

Lemma ceval_eval call_rec e : forall v s, ceval e = Some v -> eval call_rec e false None s = Ok ((v, []), s).
Proof.
  induction e; intros v0 s H; cbn [ceval] in H; try discriminate H.
  - injection H as <-. reflexivity.
  - cbn [eval]. destruct (is_constant_name x); [|discriminate H]. destruct (constant_value x) as [c|] eqn:Ec; [|discriminate H].
    injection H as <-. rewrite (bind_eq _ _ s c s eq_refl). reflexivity.
  - destruct (ceval e) as [v|] eqn:Ev; [|discriminate H].
    match type of H with (if ?c then _ else _) = _ => destruct c eqn:C; [|discriminate H] end.
    destruct (papply (if String.eqb op "-" then "UMINUS" else op) [v]) as [r|] eqn:Ep; [|discriminate H]. injection H as <-.
    cbn [eval]. rewrite (bind_eq _ _ s (v, []) s (IHe v s eq_refl)). rewrite C. cbn [guard]. rewrite (bind_eq _ _ s tt s eq_refl).
    rewrite (bind_eq _ _ s r s); [reflexivity|]. rewrite apply_op_papply, Ep. reflexivity.
  - destruct (ceval e1) as [a|] eqn:Ea; [|discriminate H]. destruct (ceval e2) as [b|] eqn:Eb; [|discriminate H].
    destruct (papply op [a; b]) as [r|] eqn:Ep; [|discriminate H]. injection H as <-.
    cbn [eval]. rewrite (bind_eq _ _ s (a, []) s (IHe1 a s eq_refl)). rewrite (bind_eq _ _ s (b, []) s (IHe2 b s eq_refl)).
    rewrite (bind_eq _ _ s r s); [reflexivity|]. rewrite apply_op_papply, Ep. reflexivity.
Qed.

(* the parameters of a gate call: each a closed expression; a boolean counts as 0 / 1 *)
Definition cparams (args : list expr) : option (list pyval) :=
  mapM (fun e => match ceval e with Some v => Some (num_of_bool v) | None => None end) args.

Lemma cparams_eval call_rec args : forall vs s, cparams args = Some vs -> get_op_parameters call_rec args s = Ok (vs, s).
Proof.
  unfold cparams, get_op_parameters. induction args as [|e args IH]; intros vs s H; cbn [mapM] in H.
  - injection H as <-. reflexivity.
  - destruct (ceval e) as [v|] eqn:Ev; [|discriminate H]. destruct (mapM _ args) as [r|] eqn:Em; [|discriminate H]. injection H as <-.
    cbn [mapMM]. rewrite (bind_eq _ _ s (num_of_bool v) s).
    + rewrite (bind_eq _ _ s r s (IH r s eq_refl)). reflexivity.
    + assert (E0 : eval0 call_rec e false None s = Ok (v, s)).
      { unfold eval0. rewrite (bind_eq _ _ s (v, []) s (ceval_eval call_rec e v s Ev)). reflexivity. }
      rewrite (bind_eq _ _ s v s E0). reflexivity.
Qed.

Lemma cparams_literals vs : forallb num_val vs = true -> cparams (map ELit vs) = Some vs.
Proof.
  unfold cparams. induction vs as [|v vs IH]; intros H; [reflexivity|]. cbn [forallb] in H. apply andb_true_iff in H as [Hv H].
  cbn [map mapM ceval]. rewrite (IH H). destruct v; try discriminate Hv; reflexivity.
Qed.

Lemma cparams_nil vs : cparams [] = Some vs -> vs = [].
Proof. cbn. intros H. now injection H. Qed.
