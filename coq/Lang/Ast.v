(* The subset of openqasm3.ast that pyqasm inspects, constructor for constructor.  The harness
   converts the real parser's AST into these terms (harness/ir.py), for source programs and for
   unrolled output alike.  Literals carry the Python value (bool/int/float), not the node class. *)
From Coq Require Import ZArith List Bool String PrimFloat.
From Verif Require Import BGate PyVal.
Import ListNotations.

Inductive expr :=
| ELit (v : pyval)                         (* IntegerLiteral / FloatLiteral / BooleanLiteral *)
| EImag                                    (* ImaginaryLiteral *)
| EDuration                                (* DurationLiteral *)
| EId (x : string)
| EIndexE (coll : expr) (idx : index)      (* IndexExpression *)
| EUn (op : string) (e : expr)
| EBin (op : string) (l r : expr)
| ECall (f : string) (args : list expr)
| ESizeOf (target : expr) (idx : option expr)
| EArrayLit (vals : list expr)
| EOther (kind : string)                   (* Cast, Concatenation, BitstringLiteral, ... *)
with index :=
| IdxSet (vals : list expr)                (* DiscreteSet *)
| IdxList (items : list idxitem)           (* list of Expression | RangeDefinition *)
with idxitem :=
| IExpr (e : expr)
| IRange (start stop step : option expr).

(* Identifier | IndexedIdentifier(name, indices) *)
Inductive qarg :=
| QId (x : string)
| QIdx (x : string) (indices : list index).

Inductive ctype :=
| TInt (size : option expr) | TUint (size : option expr) | TFloat (size : option expr)
| TBool | TBit (size : option expr) | TAngle (size : option expr) | TComplex
| TArray (base : ctype) (dims : list expr)
| TArrayRef (base : ctype) (dims : list expr) (ndim : option expr)   (* ArrayReferenceType *)
| TOtherType (kind : string).

Inductive gmod := MInv | MPow (e : option expr) | MCtrl (e : option expr) | MNegCtrl (e : option expr).

Inductive farg :=
| FClassical (t : ctype) (name : string) (readonly : bool)
| FQubit (name : string) (size : option expr).

Inductive forset :=
| FRange (start stop step : option expr)
| FSet (vals : list expr)
| FOtherSet.

Inductive stmt :=
| SInclude (file : string)
| SQubitDecl (name : string) (size : option expr)
| SClassicalDecl (t : ctype) (name : string) (init : option expr)
| SConstDecl (t : ctype) (name : string) (init : expr)
| SAssign (lv : qarg) (op : string) (rv : expr)
| SGateDef (name : string) (params : list string) (qubits : list string) (body : list stmt)
| SGate (mods : list gmod) (name : string) (args : list expr) (qubits : list qarg)
| SPhase (mods : list gmod) (arg : expr) (qubits : list qarg)
| SMeasure (q : qarg) (target : option qarg)
| SReset (q : qarg)
| SBarrier (qs : list qarg)
| SIf (cond : expr) (then_ else_ : list stmt)
| SFor (t : ctype) (var : string) (set : forset) (body : list stmt)
| SSwitch (target : expr) (cases : list (list expr * list stmt)) (default : option (list stmt))
| SAlias (name : string) (value : expr)
| SSubDef (name : string) (args : list farg) (ret : option ctype) (body : list stmt)
| SExprStmt (e : expr)
| SReturn (e : option expr)
| SIODecl
| SOther (kind : string).                  (* WhileLoop, Box, End, Break, ... *)

(* ---------- structural equality (floats bit-exact) ---------- *)
Section ListEq.
Context {A : Type} (eqb : A -> A -> bool).
Fixpoint list_eqb (a b : list A) : bool :=
  match a, b with
  | [], [] => true
  | x :: a', y :: b' => eqb x y && list_eqb a' b'
  | _, _ => false
  end.
Definition opt_eqb (a b : option A) : bool :=
  match a, b with
  | None, None => true
  | Some x, Some y => eqb x y
  | _, _ => false
  end.
End ListEq.

Fixpoint expr_eqb (a b : expr) {struct a} : bool :=
  match a, b with
  | ELit x, ELit y => pyval_eqb x y
  | EImag, EImag | EDuration, EDuration => true
  | EId x, EId y => String.eqb x y
  | EIndexE c1 i1, EIndexE c2 i2 => expr_eqb c1 c2 && index_eqb i1 i2
  | EUn o1 e1, EUn o2 e2 => String.eqb o1 o2 && expr_eqb e1 e2
  | EBin o1 l1 r1, EBin o2 l2 r2 => String.eqb o1 o2 && expr_eqb l1 l2 && expr_eqb r1 r2
  | ECall f1 a1, ECall f2 a2 =>
      String.eqb f1 f2 &&
      (fix go (x y : list expr) : bool :=
         match x, y with
         | [], [] => true
         | e1 :: x', e2 :: y' => expr_eqb e1 e2 && go x' y'
         | _, _ => false
         end) a1 a2
  | ESizeOf t1 i1, ESizeOf t2 i2 =>
      expr_eqb t1 t2 &&
      match i1, i2 with None, None => true | Some x, Some y => expr_eqb x y | _, _ => false end
  | EArrayLit a1, EArrayLit a2 =>
      (fix go (x y : list expr) : bool :=
         match x, y with
         | [], [] => true
         | e1 :: x', e2 :: y' => expr_eqb e1 e2 && go x' y'
         | _, _ => false
         end) a1 a2
  | EOther k1, EOther k2 => String.eqb k1 k2
  | _, _ => false
  end
with index_eqb (a b : index) {struct a} : bool :=
  match a, b with
  | IdxSet v1, IdxSet v2 =>
      (fix go (x y : list expr) : bool :=
         match x, y with
         | [], [] => true
         | e1 :: x', e2 :: y' => expr_eqb e1 e2 && go x' y'
         | _, _ => false
         end) v1 v2
  | IdxList l1, IdxList l2 =>
      (fix go (x y : list idxitem) : bool :=
         match x, y with
         | [], [] => true
         | e1 :: x', e2 :: y' => idxitem_eqb e1 e2 && go x' y'
         | _, _ => false
         end) l1 l2
  | _, _ => false
  end
with idxitem_eqb (a b : idxitem) {struct a} : bool :=
  match a, b with
  | IExpr e1, IExpr e2 => expr_eqb e1 e2
  | IRange s1 e1 t1, IRange s2 e2 t2 =>
      let oe x y := match x, y with None, None => true | Some u, Some v => expr_eqb u v | _, _ => false end in
      oe s1 s2 && oe e1 e2 && oe t1 t2
  | _, _ => false
  end.

Definition qarg_eqb (a b : qarg) : bool :=
  match a, b with
  | QId x, QId y => String.eqb x y
  | QIdx x i1, QIdx y i2 => String.eqb x y && list_eqb index_eqb i1 i2
  | _, _ => false
  end.

Fixpoint ctype_eqb (a b : ctype) : bool :=
  match a, b with
  | TInt x, TInt y | TUint x, TUint y | TFloat x, TFloat y | TBit x, TBit y | TAngle x, TAngle y =>
      opt_eqb expr_eqb x y
  | TBool, TBool | TComplex, TComplex => true
  | TArray b1 d1, TArray b2 d2 => ctype_eqb b1 b2 && list_eqb expr_eqb d1 d2
  | TArrayRef b1 d1 n1, TArrayRef b2 d2 n2 =>
      ctype_eqb b1 b2 && list_eqb expr_eqb d1 d2 && opt_eqb expr_eqb n1 n2
  | TOtherType k1, TOtherType k2 => String.eqb k1 k2
  | _, _ => false
  end.

Definition gmod_eqb (a b : gmod) : bool :=
  match a, b with
  | MInv, MInv => true
  | MPow x, MPow y | MCtrl x, MCtrl y | MNegCtrl x, MNegCtrl y => opt_eqb expr_eqb x y
  | _, _ => false
  end.

Definition farg_eqb (a b : farg) : bool :=
  match a, b with
  | FClassical t1 n1 r1, FClassical t2 n2 r2 => ctype_eqb t1 t2 && String.eqb n1 n2 && Bool.eqb r1 r2
  | FQubit n1 s1, FQubit n2 s2 => String.eqb n1 n2 && opt_eqb expr_eqb s1 s2
  | _, _ => false
  end.

Definition forset_eqb (a b : forset) : bool :=
  match a, b with
  | FRange s1 e1 t1, FRange s2 e2 t2 => opt_eqb expr_eqb s1 s2 && opt_eqb expr_eqb e1 e2 && opt_eqb expr_eqb t1 t2
  | FSet v1, FSet v2 => list_eqb expr_eqb v1 v2
  | FOtherSet, FOtherSet => true
  | _, _ => false
  end.

Fixpoint stmt_eqb (a b : stmt) {struct a} : bool :=
  let stmts_eqb :=
    fix go (x y : list stmt) : bool :=
      match x, y with
      | [], [] => true
      | s1 :: x', s2 :: y' => stmt_eqb s1 s2 && go x' y'
      | _, _ => false
      end in
  match a, b with
  | SInclude f1, SInclude f2 => String.eqb f1 f2
  | SQubitDecl n1 s1, SQubitDecl n2 s2 => String.eqb n1 n2 && opt_eqb expr_eqb s1 s2
  | SClassicalDecl t1 n1 i1, SClassicalDecl t2 n2 i2 =>
      ctype_eqb t1 t2 && String.eqb n1 n2 && opt_eqb expr_eqb i1 i2
  | SConstDecl t1 n1 i1, SConstDecl t2 n2 i2 => ctype_eqb t1 t2 && String.eqb n1 n2 && expr_eqb i1 i2
  | SAssign l1 o1 r1, SAssign l2 o2 r2 => qarg_eqb l1 l2 && String.eqb o1 o2 && expr_eqb r1 r2
  | SGateDef n1 p1 q1 b1, SGateDef n2 p2 q2 b2 =>
      String.eqb n1 n2 && list_eqb String.eqb p1 p2 && list_eqb String.eqb q1 q2 && stmts_eqb b1 b2
  | SGate m1 n1 a1 q1, SGate m2 n2 a2 q2 =>
      list_eqb gmod_eqb m1 m2 && String.eqb n1 n2 && list_eqb expr_eqb a1 a2 && list_eqb qarg_eqb q1 q2
  | SPhase m1 a1 q1, SPhase m2 a2 q2 => list_eqb gmod_eqb m1 m2 && expr_eqb a1 a2 && list_eqb qarg_eqb q1 q2
  | SMeasure q1 t1, SMeasure q2 t2 => qarg_eqb q1 q2 && opt_eqb qarg_eqb t1 t2
  | SReset q1, SReset q2 => qarg_eqb q1 q2
  | SBarrier q1, SBarrier q2 => list_eqb qarg_eqb q1 q2
  | SIf c1 t1 e1, SIf c2 t2 e2 => expr_eqb c1 c2 && stmts_eqb t1 t2 && stmts_eqb e1 e2
  | SFor t1 v1 s1 b1, SFor t2 v2 s2 b2 =>
      ctype_eqb t1 t2 && String.eqb v1 v2 && forset_eqb s1 s2 && stmts_eqb b1 b2
  | SSwitch t1 c1 d1, SSwitch t2 c2 d2 =>
      expr_eqb t1 t2 &&
      (fix go (x y : list (list expr * list stmt)) : bool :=
         match x, y with
         | [], [] => true
         | (v1, b1) :: x', (v2, b2) :: y' => list_eqb expr_eqb v1 v2 && stmts_eqb b1 b2 && go x' y'
         | _, _ => false
         end) c1 c2 &&
      match d1, d2 with None, None => true | Some x, Some y => stmts_eqb x y | _, _ => false end
  | SAlias n1 v1, SAlias n2 v2 => String.eqb n1 n2 && expr_eqb v1 v2
  | SSubDef n1 a1 r1 b1, SSubDef n2 a2 r2 b2 =>
      String.eqb n1 n2 && list_eqb farg_eqb a1 a2 && opt_eqb ctype_eqb r1 r2 && stmts_eqb b1 b2
  | SExprStmt e1, SExprStmt e2 => expr_eqb e1 e2
  | SReturn e1, SReturn e2 => opt_eqb expr_eqb e1 e2
  | SIODecl, SIODecl => true
  | SOther k1, SOther k2 => String.eqb k1 k2
  | _, _ => false
  end.

Definition stmts_eqb := list_eqb stmt_eqb.
