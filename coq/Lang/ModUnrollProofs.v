(* Gate modifiers on basis gates: `inv @`, `pow(k) @` (k an integer literal, any sign) and their compositions collapse to a
   repetition count and an inversion flag; the statement is unrolled to that many copies of the gate or of its inverse
   (self-inverse gates stay, s <-> sdg, t <-> tdg, rotations negate their angle).  Added to the whole-program judgement. *)
From Coq Require Import ZArith List Bool String Lia.
From Verif Require Import Aexp BGate PyVal CastPrim Ast State GatesGen GateLib Unroll ResolveProofs Depth DepthModel ExprProofs FixProofs ParamProofs.
Import ListNotations.
Open Scope Z_scope.

(* an integer literal, possibly negated (the parser reads `pow(-2)` as a unary minus applied to 2) *)
Definition pow_lit (e : expr) : option Z :=
  match e with
  | ELit (VInt z) => Some z
  | EUn op (ELit (VInt z)) => if String.eqb op "-" then Some (- z) else None
  | _ => None
  end.

Fixpoint cmods (mods : list gmod) (p : Z) (i : bool) : option (Z * bool) :=
  match mods with
  | [] => Some (p, i)
  | MInv :: ms => cmods ms p (negb i)
  | MPow (Some e) :: ms => match pow_lit e with
                           | Some z => cmods ms (p * Z.abs z) (if z <? 0 then negb i else i)
                           | None => None
                           end
  | _ => None
  end.

Lemma pow_lit_eval call_rec e z s : pow_lit e = Some z -> eval0 call_rec e false None s = Ok (VInt z, s).
Proof.
  destruct e; try discriminate; cbn [pow_lit].
  - destruct v; try discriminate. intros H. injection H as <-. reflexivity.
  - destruct e; try discriminate. destruct v; try discriminate.
    destruct (String.eqb_spec op "-") as [->|]; [|discriminate]. intros H. injection H as <-. reflexivity.
Qed.

Lemma collapse_mods_literal call_rec mods : forall p i r s, cmods mods p i = Some r ->
  collapse_mods call_rec mods (VInt p) i s = Ok ((VInt (fst r), snd r), s).
Proof.
  induction mods as [|m mods IH]; intros p i r s H; cbn [cmods] in H.
  - injection H as <-. reflexivity.
  - destruct m as [| e | |]; try discriminate H.
    + cbn [collapse_mods]. now apply IH.
    + destruct e as [e|]; [|discriminate H]. destruct (pow_lit e) as [z|] eqn:Ez; [|discriminate H].
      cbn [collapse_mods]. rewrite (bind_eq _ _ s (VInt z) s (pow_lit_eval call_rec e z s Ez)). rewrite (bind_eq _ _ s (VInt (Z.abs z)) s eq_refl).
      rewrite (bind_eq _ _ s (VBool (z <? 0)) s eq_refl). rewrite (bind_eq _ _ s (VInt (p * Z.abs z)) s eq_refl).
      cbn [truthy]. now apply IH.
Qed.

Definition negate_all (vs : list pyval) : option (list pyval) :=
  mapM (fun v => match py_binop OpMul (VInt (-1)) v with Ok r => Some r | Err _ => None end) vs.

Lemma negate_all_mapMM vs : forall vs' s, negate_all vs = Some vs' ->
  mapMM (fun p => lift (py_binop OpMul (VInt (-1)) p)) vs s = Ok (vs', s).
Proof.
  unfold negate_all. induction vs as [|v vs IH]; intros vs' s H; cbn [mapM] in H.
  - injection H as <-. reflexivity.
  - destruct (py_binop OpMul (VInt (-1)) v) as [r|] eqn:E; [|discriminate H].
    destruct (mapM _ vs) as [rs|] eqn:Em; [|discriminate H]. injection H as <-.
    cbn [mapMM]. rewrite (bind_eq _ _ s r s); [|unfold lift; now rewrite E]. rewrite (bind_eq _ _ s rs s (IH rs s eq_refl)). reflexivity.
Qed.

Lemma negate_all_length vs vs' : negate_all vs = Some vs' -> List.length vs' = List.length vs.
Proof.
  unfold negate_all. revert vs'. induction vs as [|v vs IH]; intros vs' H; cbn [mapM] in H.
  - injection H as <-. reflexivity.
  - destruct (py_binop OpMul (VInt (-1)) v); [|discriminate H]. destruct (mapM _ vs) as [rs|]; [|discriminate H].
    injection H as <-. cbn. now rewrite (IH rs eq_refl).
Qed.

Lemma DE_gates s s' : DE s s' -> gates s' = gates s.
Proof.
  intros D. pose proof (de_core _ _ D) as E.
  transitivity (gates (nodepth s')); [destruct s'; reflexivity|]. rewrite E. destruct s; reflexivity.
Qed.

(* what one application of a library gate (or of its inverse) emits: computed from the operation tables exactly as the
   visitor model does -- the table entry applied to the parameters and the qubits, its angle expressions evaluated.  Any
   library gate, not only the basis gates: cnot gives cx, u3 its rz / rx sequence, ... *)
Definition lower_app (name : string) (vs : list pyval) (bs : list bitref) (inv : bool) : option (list stmt) :=
  let entry := if negb inv
               then match lookup_op bitref name with Some (e, n) => Some (e, n, false) | None => None end
               else match lookup_inv bitref name with InvFound e n i => Some (e, n, i) | _ => None end in
  match entry with
  | Some (Some (_, _, f), k, neg) =>
      if Nat.eqb (List.length bs) k && negb (Nat.eqb k 0) then
        match (if neg then negate_all vs else Some vs) with
        | Some vs' =>
            match f (map GA (map AVar (seq 0 (List.length vs'))) ++ map GQ bs) with
            | Some bgs => match mapR (stmt_of_bgate vs') bgs with Ok stmts => Some stmts | Err _ => None end
            | None => None
            end
        | None => None
        end
      else None
  | _ => None
  end.

Section Mods.
Variable check_only : bool.
Variable visit_rec : stmt -> M (list stmt).
Variable call_rec : string -> list expr -> M (pyval * list stmt).

Lemma basic_apply env s name args vs bs inv stmts :
  Regs env s -> lower_app name vs bs inv = Some stmts -> cparams args = Some vs ->
  forallb (in_reg (e_q env)) bs = true -> distinctb [] bs = true ->
  exists s1, visit_basic_gate check_only call_rec name args (map qarg_of bs) inv s
             = Ok ((if check_only then [] else stmts), s1) /\ DE s s1 /\ Dstep s s1 [map Qr bs].
Proof.
  intros R Hl Hargs Hin Hd. unfold lower_app in Hl. unfold visit_basic_gate.
  set (entry := if negb inv
                then match lookup_op bitref name with Some (e, n) => Some (e, n, false) | None => None end
                else match lookup_inv bitref name with InvFound e n i => Some (e, n, i) | _ => None end) in Hl.
  destruct entry as [[[e k] neg]|] eqn:Ee; [|discriminate Hl].
  destruct e as [[[d np'] f]|]; [|discriminate Hl].
  destruct (Nat.eqb (List.length bs) k && negb (Nat.eqb k 0)) eqn:C; [|discriminate Hl].
  apply andb_true_iff in C as [Hb Hk]. apply Nat.eqb_eq in Hb. apply negb_true_iff in Hk. apply Nat.eqb_neq in Hk.
  destruct (if neg then negate_all vs else Some vs) as [vs'|] eqn:Eneg; [|discriminate Hl].
  destruct (f (map GA (map AVar (seq 0 (List.length vs'))) ++ map GQ bs)) as [bgs|] eqn:Ef; [|discriminate Hl].
  destruct (mapR (stmt_of_bgate vs') bgs) as [st|] eqn:Em; [|discriminate Hl]. injection Hl as <-.
  assert (Hent : (if negb inv
                  then match lookup_op bitref name with Some (e, n) => ret (e, n, false) | None => verr end
                  else match lookup_inv bitref name with
                       | InvFound e n inv0 => ret (e, n, inv0) | InvKeyError => ierr KKey | InvUnsupported => verr end) s
                 = Ok ((Some (d, np', f), k, neg), s)).
  { unfold entry in Ee. destruct (negb inv).
    - destruct (lookup_op bitref name) as [[e0 n0]|]; [|discriminate Ee]. injection Ee as -> -> <-. reflexivity.
    - destruct (lookup_inv bitref name) as [e0 n0 i0| |]; try discriminate Ee. injection Ee as -> -> ->. reflexivity. }
  rewrite (bind_eq _ _ s (Some (d, np', f), k, neg) s Hent).
  assert (Hp : (match args with
                | [] => ret []
                | _ :: _ => ps <- get_op_parameters call_rec args;;
                            (if neg then mapMM (fun p => lift (py_binop OpMul (VInt (-1)) p)) ps else ret ps)
                end) s = Ok (vs', s)).
  { destruct args as [|a0 args0].
    - apply cparams_nil in Hargs. subst vs. destruct neg; [cbn in Eneg|]; injection Eneg as <-; reflexivity.
    - rewrite (bind_eq _ _ s vs s (cparams_eval call_rec (a0 :: args0) vs s Hargs)).
      destruct neg; [now apply negate_all_mapMM|injection Eneg as <-; reflexivity]. }
  rewrite (bind_eq _ _ s vs' s Hp).
  assert (Ht : unroll_targets call_rec (map qarg_of bs) k s = Ok ([bs], s)).
  { unfold unroll_targets. rewrite (bind_eq _ _ s s s eq_refl).
    pose proof (get_op_bits_literals call_rec env s true bs R Hin Hd) as G. cbn iota in G.
    rewrite (bind_eq _ _ s bs s G). destruct k as [|k']; [lia|]. rewrite Hb, Nat.mod_same by lia.
    cbn [Nat.eqb guard]. rewrite (bind_eq _ _ s tt s eq_refl). rewrite chunks_single by (auto; lia). reflexivity. }
  rewrite (bind_eq _ _ s [bs] s Ht).
  cbn [concatMM]. rewrite Ef, Em.
  rewrite (bind_eq _ _ s (st ++ []) s).
  2:{ rewrite (bind_eq _ _ s st s eq_refl). rewrite (bind_eq _ _ s [] s eq_refl). reflexivity. }
  destruct (depth_two_pass_ok gate_upd bs s) as ([] & s1 & E1 & D1).
  { intros b Hbn. eapply HasQ_of; eauto. eapply forallb_forall in Hin; eauto. }
  unfold update_depth_for_gate. cbn [iterM]. unfold depth_gate_subset.
  rewrite (bind_eq _ _ s tt s1); [|rewrite (bind_eq _ _ s tt s1 E1); reflexivity].
  exists s1. split; [unfold emit, ret; rewrite app_nil_r; reflexivity|]. split; [exact D1|]. apply Dstep_one. intros N.
  apply (gate_subset_is_dstep bs s s1); [exact (proj1 (distinctb_NoDup bs [] Hd))|exact N|exact E1].
Qed.

Lemma one_application env s name args vs bs inv stmts :
  Regs env s -> smemk name (gates s) = false -> lower_app name vs bs inv = Some stmts -> cparams args = Some vs ->
  forallb (in_reg (e_q env)) bs = true -> distinctb [] bs = true ->
  exists s1, (s0 <- getst;;
              if smem name [] then visit_external_gate check_only visit_rec call_rec name args (map qarg_of bs) inv
              else if smemk name (gates s0) then visit_custom_gate check_only visit_rec call_rec name args (map qarg_of bs) inv
              else visit_basic_gate check_only call_rec name args (map qarg_of bs) inv) s
             = Ok ((if check_only then [] else stmts), s1) /\ DE s s1 /\ Dstep s s1 [map Qr bs].
Proof.
  intros R Hng Ha Hargs Hin Hd. rewrite (bind_eq _ _ s s s eq_refl). cbn [smem existsb]. rewrite Hng.
  eapply basic_apply; eauto.
Qed.

Fixpoint copies {A} (n : nat) (l : list A) : list A := match n with O => [] | S n' => l ++ copies n' l end.

Lemma repeated_applications env name args vs bs inv stmts n : forall s,
  Regs env s -> smemk name (gates s) = false -> lower_app name vs bs inv = Some stmts -> cparams args = Some vs ->
  forallb (in_reg (e_q env)) bs = true -> distinctb [] bs = true ->
  exists s1, repeatM n (s0 <- getst;;
              if smem name [] then visit_external_gate check_only visit_rec call_rec name args (map qarg_of bs) inv
              else if smemk name (gates s0) then visit_custom_gate check_only visit_rec call_rec name args (map qarg_of bs) inv
              else visit_basic_gate check_only call_rec name args (map qarg_of bs) inv) s
             = Ok ((if check_only then [] else copies n stmts), s1) /\ DE s s1 /\ Dstep s s1 (repeat (map Qr bs) n).
Proof.
  induction n as [|n IH]; intros s R Hng Ha Hargs Hin Hd; cbn [repeatM repeat copies].
  - exists s. split; [destruct check_only; reflexivity|]. split; [apply DE_refl|apply Dstep_same; reflexivity].
  - destruct (one_application env s name args vs bs inv stmts R Hng Ha Hargs Hin Hd) as (s1 & E1 & D1 & S1).
    assert (Hng1 : smemk name (gates s1) = false) by (now rewrite (DE_gates _ _ D1)).
    destruct (IH s1 (Regs_DE _ _ _ R D1) Hng1 Ha Hargs Hin Hd) as (s2 & E2 & D2 & S2).
    rewrite (bind_eq _ _ s (if check_only then [] else stmts) s1 E1).
    rewrite (bind_eq _ _ s1 (if check_only then [] else copies n stmts) s2 E2).
    exists s2. split; [unfold ret; destruct check_only; reflexivity|]. split; [eapply DE_trans; eauto|].
    change (map Qr bs :: repeat (map Qr bs) n) with ([map Qr bs] ++ repeat (map Qr bs) n). eapply Dstep_trans; eauto.
Qed.

(* the modified gate statement *)
Lemma modified_gate_fix env s mods name args vs bs p inv stmts :
  Regs env s -> smemk name (gates s) = false -> cmods mods 1 false = Some (p, inv) -> p < 10000 ->
  lower_app name vs bs inv = Some stmts -> cparams args = Some vs ->
  forallb (in_reg (e_q env)) bs = true -> distinctb [] bs = true ->
  exists s1, visit_generic_gate check_only [] visit_rec call_rec mods name args (map qarg_of bs) s
             = Ok ((if check_only then [] else copies (Z.to_nat p) stmts), s1) /\ DE s s1 /\ Dstep s s1 (repeat (map Qr bs) (Z.to_nat p)).
Proof.
  intros R Hng Hc Hp Ha Hargs Hin Hd. unfold visit_generic_gate.
  rewrite (bind_eq _ _ s (VInt p, inv) s (collapse_mods_literal call_rec mods 1 false (p, inv) s Hc)).
  rewrite (bind_eq _ _ s s s eq_refl). rewrite (in_some_function_false env s R), andb_false_r.
  rewrite (bind_eq _ _ s (map qarg_of bs) s eq_refl). rewrite (bind_eq _ _ s p s eq_refl).
  assert (p <? 10000 = true) as -> by (apply Z.ltb_lt; lia). cbn [guard]. rewrite (bind_eq _ _ s tt s eq_refl).
  destruct (repeated_applications env name args vs bs inv stmts (Z.to_nat p) s R Hng Ha Hargs Hin Hd) as (s1 & E1 & D1 & S1).
  rewrite (bind_eq _ _ s (if check_only then [] else copies (Z.to_nat p) stmts) s1 E1).
  exists s1. split; [unfold emit, ret; destruct check_only; reflexivity|]. split; assumption.
Qed.
End Mods.

(* ---------- the statement: expansion and events ---------- *)
Definition mod_ok (env : renv) (G : list (string * gatedef)) (stm : stmt) : option (list stmt * list (list rsrc)) :=
  match stm with
  | SGate mods name args qs =>
      match cmods mods 1 false, mapM lit_bit qs, cparams args with
      | Some (p, inv), Some bs, Some vs =>
          if negb (smemk name G) && (p <? 10000) && forallb (in_reg (e_q env)) bs && distinctb [] bs then
            match lower_app name vs bs inv with
            | Some stmts => if forallb (op_ok env) stmts
                            then Some (copies (Z.to_nat p) stmts, repeat (map Qr bs) (Z.to_nat p)) else None
            | None => None
            end
          else None
      | _, _, _ => None
      end
  | _ => None
  end.

Lemma mod_fix check_only f env G s stm out evs : Regs env s -> gates s = G -> mod_ok env G stm = Some (out, evs) ->
  exists s1, visit_stmt check_only [] (S f) stm s = Ok ((if check_only then [] else out), s1) /\ DE s s1 /\ Dstep s s1 evs.
Proof.
  intros R HG H. destruct stm; try discriminate H. cbn [mod_ok] in H.
  destruct (cmods mods 1 false) as [[p inv]|] eqn:Ec; [|discriminate H].
  destruct (mapM lit_bit qubits) as [bs|] eqn:Eb; [|discriminate H]. destruct (cparams args) as [vs|] eqn:Ev; [|discriminate H].
  match type of H with (if ?c then _ else _) = _ => destruct c eqn:C; [|discriminate H] end.
  destruct (lower_app name vs bs inv) as [stmts|] eqn:Ea; [|discriminate H]. destruct (forallb (op_ok env) stmts); [|discriminate H].
  injection H as <- <-.
  apply andb_true_iff in C as [C Hd]. apply andb_true_iff in C as [C Hin]. apply andb_true_iff in C as [Hng Hp].
  apply Z.ltb_lt in Hp. apply negb_true_iff in Hng. apply mapM_lit_bit in Eb as ->.
  cbn [visit_stmt visit_stmt_body]. eapply modified_gate_fix; eauto. now rewrite HG.
Qed.

Lemma copies_forallb {A} (P : A -> bool) n l : forallb P l = true -> forallb P (copies n l) = true.
Proof. intros H. induction n as [|n IH]; [reflexivity|]. cbn [copies]. now rewrite forallb_app, H, IH. Qed.

Lemma mod_ok_ops env G stm out evs : mod_ok env G stm = Some (out, evs) -> forallb (op_ok env) out = true.
Proof.
  intros H. destruct stm; try discriminate H. cbn [mod_ok] in H.
  destruct (cmods mods 1 false) as [[p inv]|]; [|discriminate H].
  destruct (mapM lit_bit qubits) as [bs|]; [|discriminate H]. destruct (cparams args) as [vs|]; [|discriminate H].
  match type of H with (if ?c then _ else _) = _ => destruct c; [|discriminate H] end.
  destruct (lower_app name vs bs inv) as [stmts|]; [|discriminate H]. destruct (forallb (op_ok env) stmts) eqn:Eo; [|discriminate H].
  injection H as <- <-. now apply copies_forallb.
Qed.
