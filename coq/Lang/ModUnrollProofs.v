(* Gate modifiers on basis gates: `inv @`, `pow(k) @` (k an integer literal, any sign) and their compositions collapse to a
   repetition count and an inversion flag; the statement is unrolled to that many copies of the gate or of its inverse
   (self-inverse gates stay, s <-> sdg, t <-> tdg, rotations negate their angle).  Added to the whole-program judgement. *)
From Coq Require Import ZArith List Bool String Lia.
From Verif Require Import Aexp BGate PyVal CastPrim Ast State GatesGen GateLib Unroll ResolveProofs Depth DepthModel ExprProofs FixProofs ParamProofs.
Import ListNotations.
Open Scope Z_scope.

(* name -> (parameters, qubits, name of the inverse, inverse negates the parameters) *)
Definition inv_basis : list (string * (nat * nat * string * bool)) :=
  [("id", (0, 1, "id", false)); ("h", (0, 1, "h", false)); ("x", (0, 1, "x", false)); ("y", (0, 1, "y", false));
   ("z", (0, 1, "z", false)); ("s", (0, 1, "sdg", false)); ("t", (0, 1, "tdg", false)); ("sdg", (0, 1, "s", false));
   ("tdg", (0, 1, "t", false)); ("rx", (1, 1, "rx", true)); ("ry", (1, 1, "ry", true)); ("rz", (1, 1, "rz", true));
   ("cx", (0, 2, "cx", false)); ("cz", (0, 2, "cz", false)); ("swap", (0, 2, "swap", false)); ("ccx", (0, 3, "ccx", false))]%nat%string.

Lemma inv_basis_lowering name np k name' neg : assoc name inv_basis = Some (np, k, name', neg) ->
  exists d np' f, lookup_inv bitref name = InvFound (Some (d, np', f)) k neg /\ (0 < k)%nat /\
    forall (vs : list pyval) (bs : list bitref), List.length vs = np -> List.length bs = k ->
      f (map GA (map AVar (seq 0 (List.length vs))) ++ map GQ bs) = Some [BG name' (map AVar (seq 0 (List.length vs))) bs].
Proof.
  unfold inv_basis. cbn [assoc]. intros H.
  repeat match type of H with
         | (if String.eqb ?n ?c then _ else _) = Some _ =>
             destruct (String.eqb_spec n c) as [->|_];
             [ inversion H; subst; clear H;
               do 3 eexists; split; [vm_compute; reflexivity|split; [lia|]];
               intros vs bs Hv Hb; len_destruct; reflexivity
             | ]
         end.
  discriminate H.
Qed.

(* ---------- the modifiers ---------- *)
(* an integer literal, possibly negated (the parser reads `pow(-2)` as a unary minus applied to 2) *)
Definition pow_lit (e : expr) : option Z :=
  match e with
  | ELit (VInt z) => Some z
  | EUn op (ELit (VInt z)) => if String.eqb op "-" then Some (- z) else None
  | _ => None
  end.

Fixpoint cmods (mods : list gmod) (p : Z) (i : bool) : option (Z * bool) :=
  match mods with
  | [] => Some (p, i)
  | MInv :: ms => cmods ms p (negb i)
  | MPow (Some e) :: ms => match pow_lit e with
                           | Some z => cmods ms (p * Z.abs z) (if z <? 0 then negb i else i)
                           | None => None
                           end
  | _ => None
  end.

Lemma pow_lit_eval call_rec e z s : pow_lit e = Some z -> eval0 call_rec e false None s = Ok (VInt z, s).
Proof.
  destruct e; try discriminate; cbn [pow_lit].
  - destruct v; try discriminate. intros H. injection H as <-. reflexivity.
  - destruct e; try discriminate. destruct v; try discriminate.
    destruct (String.eqb_spec op "-") as [->|]; [|discriminate]. intros H. injection H as <-. reflexivity.
Qed.

Lemma collapse_mods_literal call_rec mods : forall p i r s, cmods mods p i = Some r ->
  collapse_mods call_rec mods (VInt p) i s = Ok ((VInt (fst r), snd r), s).
Proof.
  induction mods as [|m mods IH]; intros p i r s H; cbn [cmods] in H.
  - injection H as <-. reflexivity.
  - destruct m as [| e | |]; try discriminate H.
    + cbn [collapse_mods]. now apply IH.
    + destruct e as [e|]; [|discriminate H]. destruct (pow_lit e) as [z|] eqn:Ez; [|discriminate H].
      cbn [collapse_mods]. rewrite (bind_eq _ _ s (VInt z) s (pow_lit_eval call_rec e z s Ez)). rewrite (bind_eq _ _ s (VInt (Z.abs z)) s eq_refl).
      rewrite (bind_eq _ _ s (VBool (z <? 0)) s eq_refl). rewrite (bind_eq _ _ s (VInt (p * Z.abs z)) s eq_refl).
      cbn [truthy]. now apply IH.
Qed.

Definition negate_all (vs : list pyval) : option (list pyval) :=
  mapM (fun v => match py_binop OpMul (VInt (-1)) v with Ok r => Some r | Err _ => None end) vs.

Lemma negate_all_mapMM vs : forall vs' s, negate_all vs = Some vs' ->
  mapMM (fun p => lift (py_binop OpMul (VInt (-1)) p)) vs s = Ok (vs', s).
Proof.
  unfold negate_all. induction vs as [|v vs IH]; intros vs' s H; cbn [mapM] in H.
  - injection H as <-. reflexivity.
  - destruct (py_binop OpMul (VInt (-1)) v) as [r|] eqn:E; [|discriminate H].
    destruct (mapM _ vs) as [rs|] eqn:Em; [|discriminate H]. injection H as <-.
    cbn [mapMM]. rewrite (bind_eq _ _ s r s); [|unfold lift; now rewrite E]. rewrite (bind_eq _ _ s rs s (IH rs s eq_refl)). reflexivity.
Qed.

Lemma negate_all_length vs vs' : negate_all vs = Some vs' -> List.length vs' = List.length vs.
Proof.
  unfold negate_all. revert vs'. induction vs as [|v vs IH]; intros vs' H; cbn [mapM] in H.
  - injection H as <-. reflexivity.
  - destruct (py_binop OpMul (VInt (-1)) v); [|discriminate H]. destruct (mapM _ vs) as [rs|]; [|discriminate H].
    injection H as <-. cbn. now rewrite (IH rs eq_refl).
Qed.

Section Mods.
Variable check_only : bool.
Variable visit_rec : stmt -> M (list stmt).
Variable call_rec : string -> list expr -> M (pyval * list stmt).

(* one application of the inverse of a basis gate *)
Lemma basic_inverse_fix env s name args vs vs' bs np k name' neg :
  Regs env s -> assoc name inv_basis = Some (np, k, name', neg) -> List.length vs = np -> List.length bs = k ->
  cparams args = Some vs -> (if neg then negate_all vs = Some vs' else vs' = vs) ->
  forallb (in_reg (e_q env)) bs = true -> distinctb [] bs = true ->
  exists s1, visit_basic_gate check_only call_rec name args (map qarg_of bs) true s
             = Ok ((if check_only then [] else [SGate [] name' (map ELit vs') (map qarg_of bs)]), s1) /\ DE s s1 /\
             Dstep s s1 [map Qr bs].
Proof.
  intros R Hn Hv Hb Hnum Hneg Hin Hd.
  destruct (inv_basis_lowering name np k name' neg Hn) as (d & np' & f & Hl & Hk & Hf).
  assert (Hlen : List.length vs' = List.length vs) by (destruct neg; [now apply negate_all_length|now subst]).
  unfold visit_basic_gate. cbn [negb]. rewrite Hl.
  rewrite (bind_eq _ _ s (Some (d, np', f), k, neg) s eq_refl).
  assert (Hp : (match args with
                | [] => ret []
                | _ :: _ => ps <- get_op_parameters call_rec args;;
                            (if neg then mapMM (fun p => lift (py_binop OpMul (VInt (-1)) p)) ps else ret ps)
                end) s = Ok (vs', s)).
  { destruct args as [|a0 args0].
    - apply cparams_nil in Hnum. subst vs. destruct vs'; [|discriminate Hlen]. reflexivity.
    - rewrite (bind_eq _ _ s vs s (cparams_eval call_rec (a0 :: args0) vs s Hnum)).
      destruct neg; [now apply negate_all_mapMM|now subst]. }
  rewrite (bind_eq _ _ s vs' s Hp).
  assert (Ht : unroll_targets call_rec (map qarg_of bs) k s = Ok ([bs], s)).
  { unfold unroll_targets. rewrite (bind_eq _ _ s s s eq_refl).
    pose proof (get_op_bits_literals call_rec env s true bs R Hin Hd) as G. cbn iota in G.
    rewrite (bind_eq _ _ s bs s G). destruct k as [|k']; [lia|]. rewrite Hb, Nat.mod_same by lia.
    cbn [Nat.eqb guard]. rewrite (bind_eq _ _ s tt s eq_refl). rewrite chunks_single by (auto; lia). reflexivity. }
  rewrite (bind_eq _ _ s [bs] s Ht).
  cbn [concatMM]. rewrite Hlen. rewrite (Hf vs bs Hv Hb). cbn [mapR stmt_of_bgate].
  pose proof (interp_vars [] vs') as Hi. cbn [app List.length] in Hi. rewrite <- Hlen. rewrite Hi. cbn [bind lift].
  rewrite (bind_eq _ _ s [SGate [] name' (map ELit vs') (map qarg_of bs)] s eq_refl).
  destruct (depth_two_pass_ok gate_upd bs s) as ([] & s1 & E1 & D1).
  { intros b Hbn. eapply HasQ_of; eauto. eapply forallb_forall in Hin; eauto. }
  unfold update_depth_for_gate. cbn [iterM]. unfold depth_gate_subset.
  rewrite (bind_eq _ _ s tt s1); [|rewrite (bind_eq _ _ s tt s1 E1); reflexivity].
  exists s1. split; [reflexivity|]. split; [exact D1|]. apply Dstep_one. intros N.
  apply (gate_subset_is_dstep bs s s1); [exact (proj1 (distinctb_NoDup bs [] Hd))|exact N|exact E1].
Qed.
End Mods.

Section Mods2.
Variable check_only : bool.
Variable visit_rec : stmt -> M (list stmt).
Variable call_rec : string -> list expr -> M (pyval * list stmt).

Lemma basic_forward_fix env s name args vs bs np k :
  Regs env s -> assoc name self_basis = Some (np, k) -> List.length vs = np -> List.length bs = k ->
  cparams args = Some vs -> forallb (in_reg (e_q env)) bs = true -> distinctb [] bs = true ->
  exists s1, visit_basic_gate check_only call_rec name args (map qarg_of bs) false s
             = Ok ((if check_only then [] else [SGate [] name (map ELit vs) (map qarg_of bs)]), s1) /\ DE s s1 /\
             Dstep s s1 [map Qr bs].
Proof.
  intros R Hn Hv Hb Hnum Hin Hd.
  destruct (self_basis_lowering name np k Hn) as (d & np' & f & Hl & Hk & Hf).
  unfold visit_basic_gate. cbn [negb]. rewrite Hl.
  rewrite (bind_eq _ _ s (Some (d, np', f), k, false) s eq_refl).
  assert (Hp : (match args with
                | [] => ret []
                | _ :: _ => ps <- get_op_parameters call_rec args;;
                            (if false then mapMM (fun p => lift (py_binop OpMul (VInt (-1)) p)) ps else ret ps)
                end) s = Ok (vs, s)).
  { destruct args as [|a0 args0]; [apply cparams_nil in Hnum; subst vs; reflexivity|].
    rewrite (bind_eq _ _ s vs s (cparams_eval call_rec (a0 :: args0) vs s Hnum)). reflexivity. }
  rewrite (bind_eq _ _ s vs s Hp).
  assert (Ht : unroll_targets call_rec (map qarg_of bs) k s = Ok ([bs], s)).
  { unfold unroll_targets. rewrite (bind_eq _ _ s s s eq_refl).
    pose proof (get_op_bits_literals call_rec env s true bs R Hin Hd) as G. cbn iota in G.
    rewrite (bind_eq _ _ s bs s G). destruct k as [|k']; [lia|]. rewrite Hb, Nat.mod_same by lia.
    cbn [Nat.eqb guard]. rewrite (bind_eq _ _ s tt s eq_refl). rewrite chunks_single by (auto; lia). reflexivity. }
  rewrite (bind_eq _ _ s [bs] s Ht).
  cbn [concatMM]. rewrite (Hf vs bs Hv Hb). cbn [mapR stmt_of_bgate].
  pose proof (interp_vars [] vs) as Hi. cbn [app List.length] in Hi. rewrite Hi. cbn [bind lift].
  rewrite (bind_eq _ _ s [SGate [] name (map ELit vs) (map qarg_of bs)] s eq_refl).
  destruct (depth_two_pass_ok gate_upd bs s) as ([] & s1 & E1 & D1).
  { intros b Hbn. eapply HasQ_of; eauto. eapply forallb_forall in Hin; eauto. }
  unfold update_depth_for_gate. cbn [iterM]. unfold depth_gate_subset.
  rewrite (bind_eq _ _ s tt s1); [|rewrite (bind_eq _ _ s tt s1 E1); reflexivity].
  exists s1. split; [reflexivity|]. split; [exact D1|]. apply Dstep_one. intros N.
  apply (gate_subset_is_dstep bs s s1); [exact (proj1 (distinctb_NoDup bs [] Hd))|exact N|exact E1].
Qed.

(* the gate one application emits: the gate itself, or its inverse *)
Definition applied (name : string) (vs : list pyval) (bs : list bitref) (inv : bool) : option stmt :=
  if inv then
    match assoc name inv_basis with
    | Some (np, k, name', neg) =>
        if Nat.eqb (List.length vs) np && Nat.eqb (List.length bs) k then
          match (if neg then negate_all vs else Some vs) with
          | Some vs' => Some (SGate [] name' (map ELit vs') (map qarg_of bs))
          | None => None
          end
        else None
    | None => None
    end
  else
    match assoc name self_basis with
    | Some (np, k) => if Nat.eqb (List.length vs) np && Nat.eqb (List.length bs) k
                      then Some (SGate [] name (map ELit vs) (map qarg_of bs)) else None
    | None => None
    end.

Lemma inv_basis_in_self name np k name' neg : assoc name inv_basis = Some (np, k, name', neg) -> assoc name self_basis = Some (np, k).
Proof.
  unfold inv_basis, self_basis. cbn [assoc]. intros H.
  repeat match type of H with
         | (if String.eqb ?n ?c then _ else _) = Some _ =>
             destruct (String.eqb_spec n c) as [->|_]; [inversion H; subst; reflexivity|]
         end.
  discriminate H.
Qed.

Lemma one_application env s name args vs bs inv g :
  Regs env s -> applied name vs bs inv = Some g -> cparams args = Some vs ->
  forallb (in_reg (e_q env)) bs = true -> distinctb [] bs = true ->
  exists s1, (s0 <- getst;;
              if smem name [] then visit_external_gate check_only visit_rec call_rec name args (map qarg_of bs) inv
              else if smemk name (gates s0) then visit_custom_gate check_only visit_rec call_rec name args (map qarg_of bs) inv
              else visit_basic_gate check_only call_rec name args (map qarg_of bs) inv) s
             = Ok ((if check_only then [] else [g]), s1) /\ DE s s1 /\ Dstep s s1 [map Qr bs].
Proof.
  intros R Ha Hnum Hin Hd. rewrite (bind_eq _ _ s s s eq_refl). cbn [smem existsb].
  unfold applied in Ha. destruct inv.
  - destruct (assoc name inv_basis) as [[[[np k] name'] neg]|] eqn:En; [|discriminate Ha].
    destruct (Nat.eqb (List.length vs) np && Nat.eqb (List.length bs) k) eqn:C; [|discriminate Ha].
    apply andb_true_iff in C as [Hv Hb]. apply Nat.eqb_eq in Hv, Hb.
    rewrite (R_gates _ _ R name np k (inv_basis_in_self _ _ _ _ _ En)).
    destruct neg.
    + destruct (negate_all vs) as [vs'|] eqn:Eg; [|discriminate Ha]. injection Ha as <-.
      eapply basic_inverse_fix; eauto.
    + injection Ha as <-. eapply basic_inverse_fix; eauto. reflexivity.
  - destruct (assoc name self_basis) as [[np k]|] eqn:En; [|discriminate Ha].
    destruct (Nat.eqb (List.length vs) np && Nat.eqb (List.length bs) k) eqn:C; [|discriminate Ha]. injection Ha as <-.
    apply andb_true_iff in C as [Hv Hb]. apply Nat.eqb_eq in Hv, Hb.
    rewrite (R_gates _ _ R name np k En). eapply basic_forward_fix; eauto.
Qed.

Lemma repeated_applications env name args vs bs inv g n : forall s,
  Regs env s -> applied name vs bs inv = Some g -> cparams args = Some vs ->
  forallb (in_reg (e_q env)) bs = true -> distinctb [] bs = true ->
  exists s1, repeatM n (s0 <- getst;;
              if smem name [] then visit_external_gate check_only visit_rec call_rec name args (map qarg_of bs) inv
              else if smemk name (gates s0) then visit_custom_gate check_only visit_rec call_rec name args (map qarg_of bs) inv
              else visit_basic_gate check_only call_rec name args (map qarg_of bs) inv) s
             = Ok ((if check_only then [] else repeat g n), s1) /\ DE s s1 /\ Dstep s s1 (repeat (map Qr bs) n).
Proof.
  induction n as [|n IH]; intros s R Ha Hnum Hin Hd; cbn [repeatM repeat].
  - exists s. split; [destruct check_only; reflexivity|]. split; [apply DE_refl|apply Dstep_same; reflexivity].
  - destruct (one_application env s name args vs bs inv g R Ha Hnum Hin Hd) as (s1 & E1 & D1 & S1).
    destruct (IH s1 (Regs_DE _ _ _ R D1) Ha Hnum Hin Hd) as (s2 & E2 & D2 & S2).
    rewrite (bind_eq _ _ s (if check_only then [] else [g]) s1 E1).
    rewrite (bind_eq _ _ s1 (if check_only then [] else repeat g n) s2 E2).
    exists s2. split; [unfold ret; destruct check_only; reflexivity|]. split; [eapply DE_trans; eauto|].
    change (map Qr bs :: repeat (map Qr bs) n) with ([map Qr bs] ++ repeat (map Qr bs) n). eapply Dstep_trans; eauto.
Qed.

(* the modified gate statement *)
Lemma modified_gate_fix env s mods name args vs bs p inv g :
  Regs env s -> cmods mods 1 false = Some (p, inv) -> p < 10000 ->
  applied name vs bs inv = Some g -> cparams args = Some vs ->
  forallb (in_reg (e_q env)) bs = true -> distinctb [] bs = true ->
  exists s1, visit_generic_gate check_only [] visit_rec call_rec mods name args (map qarg_of bs) s
             = Ok ((if check_only then [] else repeat g (Z.to_nat p)), s1) /\ DE s s1 /\ Dstep s s1 (repeat (map Qr bs) (Z.to_nat p)).
Proof.
  intros R Hc Hp Ha Hnum Hin Hd. unfold visit_generic_gate.
  rewrite (bind_eq _ _ s (VInt p, inv) s (collapse_mods_literal call_rec mods 1 false (p, inv) s Hc)).
  rewrite (bind_eq _ _ s s s eq_refl). rewrite (in_some_function_false env s R), andb_false_r.
  rewrite (bind_eq _ _ s (map qarg_of bs) s eq_refl). rewrite (bind_eq _ _ s p s eq_refl).
  assert (p <? 10000 = true) as -> by (apply Z.ltb_lt; lia). cbn [guard]. rewrite (bind_eq _ _ s tt s eq_refl).
  destruct (repeated_applications env name args vs bs inv g (Z.to_nat p) s R Ha Hnum Hin Hd) as (s1 & E1 & D1 & S1).
  rewrite (bind_eq _ _ s (if check_only then [] else repeat g (Z.to_nat p)) s1 E1).
  exists s1. split; [unfold emit, ret; destruct check_only; reflexivity|]. split; assumption.
Qed.
End Mods2.

(* ---------- the statement: expansion and events ---------- *)
Definition mod_ok (env : renv) (stm : stmt) : option (list stmt * list (list rsrc)) :=
  match stm with
  | SGate mods name args qs =>
      match cmods mods 1 false, mapM lit_bit qs, cparams args with
      | Some (p, inv), Some bs, Some vs =>
          if (p <? 10000) && forallb (in_reg (e_q env)) bs && distinctb [] bs then
            match applied name vs bs inv with
            | Some g => if op_ok env g then Some (repeat g (Z.to_nat p), repeat (map Qr bs) (Z.to_nat p)) else None
            | None => None
            end
          else None
      | _, _, _ => None
      end
  | _ => None
  end.

Lemma mod_fix check_only f env s stm out evs : Regs env s -> mod_ok env stm = Some (out, evs) ->
  exists s1, visit_stmt check_only [] (S f) stm s = Ok ((if check_only then [] else out), s1) /\ DE s s1 /\ Dstep s s1 evs.
Proof.
  intros R H. destruct stm; try discriminate H. cbn [mod_ok] in H.
  destruct (cmods mods 1 false) as [[p inv]|] eqn:Ec; [|discriminate H].
  destruct (mapM lit_bit qubits) as [bs|] eqn:Eb; [|discriminate H]. destruct (cparams args) as [vs|] eqn:Ev; [|discriminate H].
  match type of H with (if ?c then _ else _) = _ => destruct c eqn:C; [|discriminate H] end.
  destruct (applied name vs bs inv) as [g|] eqn:Ea; [|discriminate H]. destruct (op_ok env g); [|discriminate H]. injection H as <- <-.
  apply andb_true_iff in C as [C Hd]. apply andb_true_iff in C as [Hp Hin]. apply Z.ltb_lt in Hp.
  apply mapM_lit_bit in Eb as ->.
  cbn [visit_stmt visit_stmt_body]. eapply modified_gate_fix; eauto.
Qed.

Lemma mod_ok_ops env stm out evs : mod_ok env stm = Some (out, evs) -> forallb (op_ok env) out = true.
Proof.
  intros H. destruct stm; try discriminate H. cbn [mod_ok] in H.
  destruct (cmods mods 1 false) as [[p inv]|]; [|discriminate H].
  destruct (mapM lit_bit qubits) as [bs|]; [|discriminate H]. destruct (cparams args) as [vs|]; [|discriminate H].
  match type of H with (if ?c then _ else _) = _ => destruct c; [|discriminate H] end.
  destruct (applied name vs bs inv) as [g|]; [|discriminate H]. destruct (op_ok env g) eqn:Eo; [|discriminate H]. injection H as <- <-.
  apply forallb_forall. intros x Hx. apply repeat_spec in Hx. now subst.
Qed.
