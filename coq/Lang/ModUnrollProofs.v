(* Gate modifiers on basis gates: `inv @`, `pow(k) @` (k an integer literal, any sign) and their compositions collapse to a
   repetition count and an inversion flag; the statement is unrolled to that many copies of the gate or of its inverse
   (self-inverse gates stay, s <-> sdg, t <-> tdg, rotations negate their angle).  Added to the whole-program judgement. *)
From Coq Require Import ZArith List Bool String Lia.
From Verif Require Import Aexp BGate PyVal CastPrim Ast State GatesGen GateLib Unroll ResolveProofs Depth DepthModel ExprProofs FixProofs ParamProofs LoopProofs BroadcastProofs.
Import ListNotations.
Open Scope Z_scope.

(* an integer literal, possibly negated (the parser reads `pow(-2)` as a unary minus applied to 2) *)
Definition pow_lit (e : expr) : option Z :=
  match e with
  | ELit (VInt z) => Some z
  | EUn op (ELit (VInt z)) => if String.eqb op "-" then Some (- z) else None
  | _ => None
  end.

Fixpoint cmods (mods : list gmod) (p : Z) (i : bool) : option (Z * bool) :=
  match mods with
  | [] => Some (p, i)
  | MInv :: ms => cmods ms p (negb i)
  | MPow (Some e) :: ms => match pow_lit e with
                           | Some z => cmods ms (p * Z.abs z) (if z <? 0 then negb i else i)
                           | None => None
                           end
  | _ => None
  end.

Lemma pow_lit_eval call_rec e z s : pow_lit e = Some z -> eval0 call_rec e false None s = Ok (VInt z, s).
Proof.
  destruct e; try discriminate; cbn [pow_lit].
  - destruct v; try discriminate. intros H. injection H as <-. reflexivity.
  - destruct e; try discriminate. destruct v; try discriminate.
    destruct (String.eqb_spec op "-") as [->|]; [|discriminate]. intros H. injection H as <-. reflexivity.
Qed.

Lemma collapse_mods_literal call_rec mods : forall p i r s, cmods mods p i = Some r ->
  collapse_mods call_rec mods (VInt p) i s = Ok ((VInt (fst r), snd r), s).
Proof.
  induction mods as [|m mods IH]; intros p i r s H; cbn [cmods] in H.
  - injection H as <-. reflexivity.
  - destruct m as [| e | |]; try discriminate H.
    + cbn [collapse_mods]. now apply IH.
    + destruct e as [e|]; [|discriminate H]. destruct (pow_lit e) as [z|] eqn:Ez; [|discriminate H].
      cbn [collapse_mods]. rewrite (bind_eq _ _ s (VInt z) s (pow_lit_eval call_rec e z s Ez)). rewrite (bind_eq _ _ s (VInt (Z.abs z)) s eq_refl).
      rewrite (bind_eq _ _ s (VBool (z <? 0)) s eq_refl). rewrite (bind_eq _ _ s (VInt (p * Z.abs z)) s eq_refl).
      cbn [truthy]. now apply IH.
Qed.

Definition negate_all (vs : list pyval) : option (list pyval) :=
  mapM (fun v => match py_binop OpMul (VInt (-1)) v with Ok r => Some r | Err _ => None end) vs.

Lemma negate_all_mapMM vs : forall vs' s, negate_all vs = Some vs' ->
  mapMM (fun p => lift (py_binop OpMul (VInt (-1)) p)) vs s = Ok (vs', s).
Proof.
  unfold negate_all. induction vs as [|v vs IH]; intros vs' s H; cbn [mapM] in H.
  - injection H as <-. reflexivity.
  - destruct (py_binop OpMul (VInt (-1)) v) as [r|] eqn:E; [|discriminate H].
    destruct (mapM _ vs) as [rs|] eqn:Em; [|discriminate H]. injection H as <-.
    cbn [mapMM]. rewrite (bind_eq _ _ s r s); [|unfold lift; now rewrite E]. rewrite (bind_eq _ _ s rs s (IH rs s eq_refl)). reflexivity.
Qed.

Lemma negate_all_length vs vs' : negate_all vs = Some vs' -> List.length vs' = List.length vs.
Proof.
  unfold negate_all. revert vs'. induction vs as [|v vs IH]; intros vs' H; cbn [mapM] in H.
  - injection H as <-. reflexivity.
  - destruct (py_binop OpMul (VInt (-1)) v); [|discriminate H]. destruct (mapM _ vs) as [rs|]; [|discriminate H].
    injection H as <-. cbn. now rewrite (IH rs eq_refl).
Qed.

Lemma DE_gates s s' : DE s s' -> gates s' = gates s.
Proof.
  intros D. pose proof (de_core _ _ D) as E.
  transitivity (gates (nodepth s')); [destruct s'; reflexivity|]. rewrite E. destruct s; reflexivity.
Qed.

(* what applying a library gate (or its inverse) to a list of operands emits: computed from the operation tables exactly as
   the visitor model does.  The operands (registers, literal slices, literal bits) resolve to bits; the bits are cut into
   consecutive groups of the gate's arity (broadcast); the table entry is applied to the parameters and each group, its angle
   expressions evaluated.  Any library gate: cnot gives cx, u3 its rz / rx sequence, ... *)
Definition lower_entry (name : string) (inv : bool)
  : option ((list (garg bitref) -> option (list (bgate bitref))) * nat * bool) :=
  let entry := if negb inv
               then match lookup_op bitref name with Some (e, n) => Some (e, n, false) | None => None end
               else match lookup_inv bitref name with InvFound e n i => Some (e, n, i) | _ => None end in
  match entry with
  | Some (Some (_, _, f), k, neg) => Some (f, k, neg)
  | _ => None
  end.

Definition lower_target (f : list (garg bitref) -> option (list (bgate bitref))) (vs' : list pyval) (tg : list bitref) : option (list stmt) :=
  match f (map GA (map AVar (seq 0 (List.length vs'))) ++ map GQ tg) with
  | Some bgs => match mapR (stmt_of_bgate vs') bgs with Ok stmts => Some stmts | Err _ => None end
  | None => None
  end.

(* the groups and what each emits *)
Definition lower_app (env : renv) (name : string) (vs : list pyval) (bits : list bitref) (inv : bool)
  : option (list (list bitref) * list (list stmt)) :=
  match lower_entry name inv with
  | Some (f, k, neg) =>
      if negb (Nat.eqb k 0) && Nat.eqb (Nat.modulo (List.length bits) k) 0 then
        match (if neg then negate_all vs else Some vs) with
        | Some vs' =>
            let tgs := chunks (List.length bits) k bits in
            if forallb (fun tg => forallb (in_reg (e_q env)) tg && distinctb [] tg) tgs then
              match mapM (lower_target f vs') tgs with
              | Some sts => Some (tgs, sts)
              | None => None
              end
            else None
        | None => None
        end
      else None
  | None => None
  end.

Lemma gate_targets_ok env s tgs : Regs env s ->
  forallb (fun tg => forallb (in_reg (e_q env)) tg && distinctb [] tg) tgs = true ->
  OKS (update_depth_for_gate tgs) s (map (map Qr) tgs).
Proof.
  unfold update_depth_for_gate. revert s. induction tgs as [|tg tgs IH]; intros s R H; cbn [iterM map].
  - exists tt, s. split; [reflexivity|]. split; [apply DE_refl|apply Dstep_same; reflexivity].
  - cbn [forallb] in H. apply andb_true_iff in H as [H1 H]. apply andb_true_iff in H1 as [Hin Hd].
    destruct (depth_two_pass_ok gate_upd tg s) as ([] & s1 & E1 & D1); [intros b Hb; eapply HasQ_all; eauto|].
    destruct (IH s1 (Regs_DE _ _ _ R D1) H) as ([] & s2 & E2 & D2 & S2).
    exists tt, s2. unfold depth_gate_subset at 1. rewrite (bind_eq _ _ s tt s1 E1). split; [exact E2|]. split; [eapply DE_trans; eauto|].
    change (map Qr tg :: map (map Qr) tgs) with ([map Qr tg] ++ map (map Qr) tgs).
    eapply Dstep_trans; [|exact S2]. apply Dstep_one. intros N.
    apply (gate_subset_is_dstep tg s s1); [exact (proj1 (distinctb_NoDup tg [] Hd))|exact N|exact E1].
Qed.

Section Mods.
Variable check_only : bool.
Variable visit_rec : stmt -> M (list stmt).
Variable call_rec : string -> list expr -> M (pyval * list stmt).
(* where the statement stands: an invariant of the state that depth bookkeeping does not disturb (nothing at the top level, "the
   loop variable holds v" inside a loop body); operands and parameters are resolved relative to it *)
Variable P : st -> Prop.
Hypothesis P_DE : forall s s', P s -> DE s s' -> P s'.
Variable env : renv.
Definition resolves (qs : list qarg) (bits : list bitref) : Prop :=
  forall s0, Regs env s0 -> P s0 -> get_op_bits call_rec qs (qreg_sizes s0) true s0 = Ok (bits, s0).
Definition evaluates (args : list expr) (vs : list pyval) : Prop :=
  forall s0, P s0 -> get_op_parameters call_rec args s0 = Ok (vs, s0).

Lemma basic_apply s name args vs qs bits inv tgs sts :
  Regs env s -> P s -> resolves qs bits ->
  lower_app env name vs bits inv = Some (tgs, sts) -> evaluates args vs ->
  exists s1, visit_basic_gate check_only call_rec name args qs inv s
             = Ok ((if check_only then [] else List.concat sts), s1) /\ DE s s1 /\ Dstep s s1 (map (map Qr) tgs).
Proof.
  intros R HP Hq Hl Hargs. unfold lower_app in Hl. unfold visit_basic_gate.
  destruct (lower_entry name inv) as [[[f k] neg]|] eqn:Ee; [|discriminate Hl].
  destruct (negb (Nat.eqb k 0) && Nat.eqb (Nat.modulo (List.length bits) k) 0) eqn:C; [|discriminate Hl].
  apply andb_true_iff in C as [Hk Hmod]. apply negb_true_iff in Hk. apply Nat.eqb_neq in Hk.
  destruct (if neg then negate_all vs else Some vs) as [vs'|] eqn:Eneg; [|discriminate Hl].
  match type of Hl with (if ?c then _ else _) = _ => destruct c eqn:Hok; [|discriminate Hl] end.
  destruct (mapM (lower_target f vs') (chunks (List.length bits) k bits)) as [sts'|] eqn:Em; [|discriminate Hl]. injection Hl as <- <-.
  unfold lower_entry in Ee.
  assert (Hent : exists d np', (if negb inv
                  then match lookup_op bitref name with Some (e, n) => ret (e, n, false) | None => verr end
                  else match lookup_inv bitref name with
                       | InvFound e n inv0 => ret (e, n, inv0) | InvKeyError => ierr KKey | InvUnsupported => verr end) s
                 = Ok ((Some (d, np', f), k, neg), s)).
  { destruct (negb inv).
    - destruct (lookup_op bitref name) as [[[[[d np'] f0]|] n0]|]; try discriminate Ee. injection Ee as <- <- <-. exists d, np'. reflexivity.
    - destruct (lookup_inv bitref name) as [[[[d np'] f0]|] n0 i0| |]; try discriminate Ee. injection Ee as <- <- <-. exists d, np'. reflexivity. }
  destruct Hent as (d & np' & Hent).
  rewrite (bind_eq _ _ s (Some (d, np', f), k, neg) s Hent).
  assert (Hp : (match args with
                | [] => ret []
                | _ :: _ => ps <- get_op_parameters call_rec args;;
                            (if neg then mapMM (fun p => lift (py_binop OpMul (VInt (-1)) p)) ps else ret ps)
                end) s = Ok (vs', s)).
  { destruct args as [|a0 args0].
    - pose proof (Hargs s HP) as H0. cbn in H0. injection H0 as <-. destruct neg; [cbn in Eneg|]; injection Eneg as <-; reflexivity.
    - rewrite (bind_eq _ _ s vs s (Hargs s HP)).
      destruct neg; [now apply negate_all_mapMM|injection Eneg as <-; reflexivity]. }
  rewrite (bind_eq _ _ s vs' s Hp).
  assert (Ht : unroll_targets call_rec qs k s = Ok (chunks (List.length bits) k bits, s)).
  { unfold unroll_targets. rewrite (bind_eq _ _ s s s eq_refl).
    rewrite (bind_eq _ _ s bits s (Hq s R HP)). destruct k as [|k']; [lia|]. rewrite Hmod.
    cbn [guard]. rewrite (bind_eq _ _ s tt s eq_refl). reflexivity. }
  rewrite (bind_eq _ _ s _ s Ht).
  assert (Hc : forall tgs0 sts0, mapM (lower_target f vs') tgs0 = Some sts0 ->
               concatMM (fun tg =>
                   match f (map GA (map AVar (seq 0 (List.length vs'))) ++ map GQ tg) with
                   | None => verr
                   | Some bgs => lift (match mapR (stmt_of_bgate vs') bgs with Err (EInternal KType) => Err EValidation | r => r end)
                   end) tgs0 s = Ok (List.concat sts0, s)).
  { induction tgs0 as [|tg tgs0 IH]; intros sts0 H0; cbn [mapM] in H0.
    - injection H0 as <-. reflexivity.
    - destruct (lower_target f vs' tg) as [st|] eqn:Et; [|discriminate H0].
      destruct (mapM (lower_target f vs') tgs0) as [sts1|] eqn:Em1; [|discriminate H0]. injection H0 as <-.
      cbn [concatMM List.concat]. unfold lower_target in Et.
      destruct (f (map GA (map AVar (seq 0 (List.length vs'))) ++ map GQ tg)) as [bgs|]; [|discriminate Et].
      destruct (mapR (stmt_of_bgate vs') bgs) as [st'|]; [|discriminate Et]. injection Et as <-.
      rewrite (bind_eq _ _ s st' s eq_refl). rewrite (bind_eq _ _ s (List.concat sts1) s (IH sts1 eq_refl)). reflexivity. }
  rewrite (bind_eq _ _ s (List.concat sts') s (Hc _ _ Em)).
  destruct (gate_targets_ok env s _ R Hok) as ([] & s1 & E1 & D1 & S1).
  rewrite (bind_eq _ _ s tt s1 E1).
  exists s1. split; [reflexivity|]. split; assumption.
Qed.

Lemma one_application s name args vs qs bits inv tgs sts :
  Regs env s -> P s -> smemk name (gates s) = false -> resolves qs bits ->
  lower_app env name vs bits inv = Some (tgs, sts) -> evaluates args vs ->
  exists s1, (s0 <- getst;;
              if smem name [] then visit_external_gate check_only visit_rec call_rec name args qs inv
              else if smemk name (gates s0) then visit_custom_gate check_only visit_rec call_rec name args qs inv
              else visit_basic_gate check_only call_rec name args qs inv) s
             = Ok ((if check_only then [] else List.concat sts), s1) /\ DE s s1 /\ Dstep s s1 (map (map Qr) tgs).
Proof.
  intros R HP Hng Hq Ha Hargs. rewrite (bind_eq _ _ s s s eq_refl). cbn [smem existsb]. rewrite Hng.
  eapply basic_apply; eauto.
Qed.

Fixpoint copies {A} (n : nat) (l : list A) : list A := match n with O => [] | S n' => l ++ copies n' l end.

Lemma repeated_applications name args vs qs bits inv tgs sts n : forall s,
  Regs env s -> P s -> smemk name (gates s) = false -> resolves qs bits ->
  lower_app env name vs bits inv = Some (tgs, sts) -> evaluates args vs ->
  exists s1, repeatM n (s0 <- getst;;
              if smem name [] then visit_external_gate check_only visit_rec call_rec name args qs inv
              else if smemk name (gates s0) then visit_custom_gate check_only visit_rec call_rec name args qs inv
              else visit_basic_gate check_only call_rec name args qs inv) s
             = Ok ((if check_only then [] else copies n (List.concat sts)), s1) /\ DE s s1 /\ Dstep s s1 (copies n (map (map Qr) tgs)).
Proof.
  induction n as [|n IH]; intros s R HP Hng Hq Ha Hargs; cbn [repeatM copies].
  - exists s. split; [destruct check_only; reflexivity|]. split; [apply DE_refl|apply Dstep_same; reflexivity].
  - destruct (one_application s name args vs qs bits inv tgs sts R HP Hng Hq Ha Hargs) as (s1 & E1 & D1 & S1).
    assert (Hng1 : smemk name (gates s1) = false) by (now rewrite (DE_gates _ _ D1)).
    destruct (IH s1 (Regs_DE _ _ _ R D1) (P_DE _ _ HP D1) Hng1 Hq Ha Hargs) as (s2 & E2 & D2 & S2).
    rewrite (bind_eq _ _ s (if check_only then [] else List.concat sts) s1 E1).
    rewrite (bind_eq _ _ s1 (if check_only then [] else copies n (List.concat sts)) s2 E2).
    exists s2. split; [unfold ret; destruct check_only; reflexivity|]. split; [eapply DE_trans; eauto|].
    eapply Dstep_trans; eauto.
Qed.

(* the modified gate statement *)
Lemma modified_gate_fix s mods name args vs qs bits p inv tgs sts :
  Regs env s -> P s -> smemk name (gates s) = false -> cmods mods 1 false = Some (p, inv) -> p < 10000 ->
  resolves qs bits ->
  lower_app env name vs bits inv = Some (tgs, sts) -> evaluates args vs ->
  exists s1, visit_generic_gate check_only [] visit_rec call_rec mods name args qs s
             = Ok ((if check_only then [] else copies (Z.to_nat p) (List.concat sts)), s1) /\ DE s s1 /\
             Dstep s s1 (copies (Z.to_nat p) (map (map Qr) tgs)).
Proof.
  intros R HP Hng Hc Hp Hq Ha Hargs. unfold visit_generic_gate.
  rewrite (bind_eq _ _ s (VInt p, inv) s (collapse_mods_literal call_rec mods 1 false (p, inv) s Hc)).
  rewrite (bind_eq _ _ s s s eq_refl). rewrite (in_some_function_false env s R), andb_false_r.
  rewrite (bind_eq _ _ s qs s eq_refl). rewrite (bind_eq _ _ s p s eq_refl).
  assert (p <? 10000 = true) as -> by (apply Z.ltb_lt; lia). cbn [guard]. rewrite (bind_eq _ _ s tt s eq_refl).
  destruct (repeated_applications name args vs qs bits inv tgs sts (Z.to_nat p) s R HP Hng Hq Ha Hargs) as (s1 & E1 & D1 & S1).
  rewrite (bind_eq _ _ s (if check_only then [] else copies (Z.to_nat p) (List.concat sts)) s1 E1).
  exists s1. split; [unfold emit, ret; destruct check_only; reflexivity|]. split; assumption.
Qed.
End Mods.

(* ---------- the statement: expansion and events ---------- *)
Definition mod_ok (env : renv) (G : list (string * gatedef)) (stm : stmt) : option (list stmt * list (list rsrc)) :=
  match stm with
  | SGate mods name args qs =>
      match cmods mods 1 false, mapM (opnd_bits (e_q env)) qs, cparams args with
      | Some (p, inv), Some bss, Some vs =>
          if negb (smemk name G) && (p <? 10000) && distinctb [] (List.concat bss) then
            match lower_app env name vs (List.concat bss) inv with
            | Some (tgs, sts) => if forallb (op_ok env) (List.concat sts)
                                 then Some (copies (Z.to_nat p) (List.concat sts), copies (Z.to_nat p) (map (map Qr) tgs)) else None
            | None => None
            end
          else None
      | _, _, _ => None
      end
  | _ => None
  end.

Lemma mod_fix check_only f env G s stm out evs : Regs env s -> gates s = G -> mod_ok env G stm = Some (out, evs) ->
  exists s1, visit_stmt check_only [] (S f) stm s = Ok ((if check_only then [] else out), s1) /\ DE s s1 /\ Dstep s s1 evs.
Proof.
  intros R HG H. destruct stm; try discriminate H. cbn [mod_ok] in H.
  destruct (cmods mods 1 false) as [[p inv]|] eqn:Ec; [|discriminate H].
  destruct (mapM (opnd_bits (e_q env)) qubits) as [bss|] eqn:Eb; [|discriminate H]. destruct (cparams args) as [vs|] eqn:Ev; [|discriminate H].
  match type of H with (if ?c then _ else _) = _ => destruct c eqn:C; [|discriminate H] end.
  destruct (lower_app env name vs (List.concat bss) inv) as [[tgs sts]|] eqn:Ea; [|discriminate H].
  destruct (forallb (op_ok env) (List.concat sts)); [|discriminate H]. injection H as <- <-.
  apply andb_true_iff in C as [C Hd]. apply andb_true_iff in C as [Hng Hp].
  apply Z.ltb_lt in Hp. apply negb_true_iff in Hng.
  cbn [visit_stmt visit_stmt_body].
  eapply (modified_gate_fix check_only (visit_stmt check_only [] f) (visit_call check_only [] f) (fun _ => True) (fun _ _ _ _ => I) env); eauto.
  - now rewrite HG.
  - intros s0 R0 _. pose proof (get_op_bits_opnds (visit_call check_only [] f) env s0 true qubits bss R0 Eb Hd) as GG. exact GG.
  - intros s0 _. now apply cparams_eval.
Qed.

Lemma copies_forallb {A} (P : A -> bool) n l : forallb P l = true -> forallb P (copies n l) = true.
Proof. intros H. induction n as [|n IH]; [reflexivity|]. cbn [copies]. now rewrite forallb_app, H, IH. Qed.

Lemma mod_ok_ops env G stm out evs : mod_ok env G stm = Some (out, evs) -> forallb (op_ok env) out = true.
Proof.
  intros H. destruct stm; try discriminate H. cbn [mod_ok] in H.
  destruct (cmods mods 1 false) as [[p inv]|]; [|discriminate H].
  destruct (mapM (opnd_bits (e_q env)) qubits) as [bss|]; [|discriminate H]. destruct (cparams args) as [vs|]; [|discriminate H].
  match type of H with (if ?c then _ else _) = _ => destruct c; [|discriminate H] end.
  destruct (lower_app env name vs (List.concat bss) inv) as [[tgs sts]|]; [|discriminate H].
  destruct (forallb (op_ok env) (List.concat sts)) eqn:Eo; [|discriminate H].
  injection H as <- <-. now apply copies_forallb.
Qed.

(* ---------- global phase statements without operands ---------- *)
Definition phase_ok (stm : stmt) : option (list stmt) :=
  match stm with
  | SPhase mods arg [] =>
      match cmods mods 1 false, ceval arg with
      | Some (p, inv), Some v0 =>
          match (if inv then py_binop OpMul (VInt (-1)) (num_of_bool v0) else Ok (num_of_bool v0)) with
          | Ok final => if (p <? 10000) && num_val final
                        then Some (if p <=? 0 then [] else repeat (SPhase [] (ELit final) []) (Z.to_nat p)) else None
          | Err _ => None
          end
      | _, _ => None
      end
  | _ => None
  end.

Lemma phase_gen_fix check_only f s stm out : phase_ok stm = Some out ->
  visit_stmt check_only [] (S f) stm s = Ok ((if check_only then [] else out), s).
Proof.
  intros H. destruct stm; try discriminate H. cbn [phase_ok] in H. destruct qubits; [|discriminate H].
  destruct (cmods mods 1 false) as [[p inv]|] eqn:Ec; [|discriminate H]. destruct (ceval arg) as [v0|] eqn:Ev; [|discriminate H].
  match type of H with match ?r with _ => _ end = _ => destruct r as [final|] eqn:Ef; [|discriminate H] end.
  destruct ((p <? 10000) && num_val final) eqn:C; [|discriminate H]. injection H as <-.
  apply andb_true_iff in C as [Hp Hn].
  cbn [visit_stmt visit_stmt_body]. set (cr := visit_call check_only [] f). unfold visit_generic_phase.
  rewrite (bind_eq _ _ s (VInt p, inv) s (collapse_mods_literal cr mods 1 false (p, inv) s Ec)).
  rewrite (bind_eq _ _ s s s eq_refl). cbn [negb andb]. rewrite (bind_eq _ _ s [] s eq_refl).
  rewrite (bind_eq _ _ s p s eq_refl). rewrite Hp. cbn [guard]. rewrite (bind_eq _ _ s tt s eq_refl).
  destruct (p <=? 0) eqn:Ez; [unfold emit, ret; destruct check_only; reflexivity|].
  assert (E0 : eval0 cr arg false None s = Ok (v0, s)).
  { unfold eval0. rewrite (bind_eq _ _ s (v0, []) s (ceval_eval cr arg v0 s Ev)). reflexivity. }
  rewrite (bind_eq _ _ s v0 s E0).
  rewrite (bind_eq _ _ s final s).
  2:{ destruct inv; [unfold lift; now rewrite Ef|injection Ef as <-; reflexivity]. }
  rewrite (bind_eq _ _ s s s eq_refl). rewrite andb_false_r. cbn [negb guard]. rewrite (bind_eq _ _ s tt s eq_refl).
  unfold emit, ret. destruct check_only; reflexivity.
Qed.

Lemma phase_ok_ops env stm out : phase_ok stm = Some out -> forallb (op_ok env) out = true.
Proof.
  intros H. destruct stm; try discriminate H. cbn [phase_ok] in H. destruct qubits; [|discriminate H].
  destruct (cmods mods 1 false) as [[p inv]|]; [|discriminate H]. destruct (ceval arg) as [v0|]; [|discriminate H].
  match type of H with match ?r with _ => _ end = _ => destruct r as [final|]; [|discriminate H] end.
  destruct ((p <? 10000) && num_val final) eqn:C; [|discriminate H]. injection H as <-.
  apply andb_true_iff in C as [_ Hn]. destruct (p <=? 0); [reflexivity|].
  apply forallb_forall. intros x Hx. apply repeat_spec in Hx. subst x. cbn [op_ok]. exact Hn.
Qed.

Lemma phase_ok_events stm out : phase_ok stm = Some out -> evs_of out = [].
Proof.
  intros H. destruct stm; try discriminate H. cbn [phase_ok] in H. destruct qubits; [|discriminate H].
  destruct (cmods mods 1 false) as [[p inv]|]; [|discriminate H]. destruct (ceval arg) as [v0|]; [|discriminate H].
  match type of H with match ?r with _ => _ end = _ => destruct r as [final|]; [|discriminate H] end.
  destruct ((p <? 10000) && num_val final); [|discriminate H]. injection H as <-.
  destruct (p <=? 0); [reflexivity|]. induction (Z.to_nat p) as [|n IH]; [reflexivity|]. cbn [repeat]. unfold evs_of in *. cbn [flat_map ev_of]. exact IH.
Qed.
