(* Loop bodies beyond flat operations: inside `for int i in [a:b] { ... }` a statement may be any (modified) library gate with
   closed parameters whose operands are registers, literal slices, literal bits or bits indexed by the loop variable.  The
   lemmas of Lang/ModUnrollProofs.v are instantiated with the invariant "the loop variable holds v". *)
From Coq Require Import ZArith List Bool String Lia.
From Verif Require Import Aexp BGate PyVal CastPrim Ast State GatesGen GateLib Unroll ResolveProofs Depth DepthModel ExprProofs FixProofs ParamProofs LoopProofs BroadcastProofs ModUnrollProofs.
Import ListNotations.
Open Scope Z_scope.

(* the bits an operand names when the loop variable x holds v *)
Definition opnd_bits_l (x : string) (v : Z) (m : list (string * Z)) (q : qarg) : option (list bitref) :=
  match lit_bit (inst_q x v q) with
  | Some b => if in_reg m b then Some [b] else None
  | None => opnd_bits m q
  end.

Section L.
Variable call_rec : string -> list expr -> M (pyval * list stmt).

Lemma resolve_opnd_l env s x v q bits :
  Regs env s -> InLoop x v s -> opnd_bits_l x v (e_q env) q = Some bits ->
  resolve_one call_rec q (qreg_sizes s) true s = Ok (bits, s).
Proof.
  intros R L H. unfold opnd_bits_l in H. destruct (lit_bit (inst_q x v q)) as [b|] eqn:Eb.
  - destruct (in_reg (e_q env) b) eqn:Ei; [|discriminate H]. injection H as <-.
    destruct b as [r i]. unfold in_reg in Ei. cbn [fst snd] in Ei. destruct (sget r (e_q env)) as [n|] eqn:Hs; [|discriminate Ei].
    apply andb_true_iff in Ei as [H0 H1]. apply Z.leb_le in H0. apply Z.ltb_lt in H1.
    destruct (inst_q_cases x v q (r, i) Eb) as [->|[-> Hv]].
    + exact (resolve_literal call_rec env s true r i n R Hs (conj H0 H1)).
    + cbn [fst snd] in *. subst i. exact (resolve_loop_var call_rec env s true x v r n R L Hs (conj H0 H1)).
  - exact (resolve_opnd call_rec env s true q bits R H).
Qed.

Lemma gob_opnds_l env s x v qs : forall bss acc,
  Regs env s -> InLoop x v s -> mapM (opnd_bits_l x v (e_q env)) qs = Some bss -> distinctb acc (List.concat bss) = true ->
  gob call_rec (qreg_sizes s) true qs acc s = Ok (acc ++ List.concat bss, s).
Proof.
  induction qs as [|q qs IH]; intros bss acc R L Hm Hd; cbn [mapM] in Hm.
  - injection Hm as <-. cbn [gob List.concat]. unfold ret. now rewrite app_nil_r.
  - destruct (opnd_bits_l x v (e_q env) q) as [bits|] eqn:Eq; [|discriminate Hm].
    destruct (mapM _ qs) as [bss'|] eqn:Em; [|discriminate Hm]. injection Hm as <-.
    cbn [List.concat] in Hd. destruct (distinctb_app bits acc (List.concat bss') Hd) as [Hc Hr].
    cbn [gob]. rewrite (bind_eq _ _ s bits s (resolve_opnd_l env s x v q bits R L Eq)).
    rewrite Hc. cbn [guard]. rewrite (bind_eq _ _ s tt s eq_refl).
    rewrite (IH bss' (acc ++ bits) R L eq_refl Hr). cbn [List.concat]. now rewrite app_assoc.
Qed.
End L.

(* ---------- a body statement at a value of the loop variable ---------- *)
Definition mod_ok_l (x : string) (v : Z) (env : renv) (G : list (string * gatedef)) (stm : stmt) : option (list stmt * list (list rsrc)) :=
  match stm with
  | SGate mods name args qs =>
      match cmods mods 1 false, mapM (opnd_bits_l x v (e_q env)) qs, cparams args with
      | Some (p, inv), Some bss, Some vs =>
          if negb (smemk name G) && (p <? 10000) && distinctb [] (List.concat bss) then
            match lower_app env name vs (List.concat bss) inv with
            | Some (tgs, sts) => if forallb (op_ok env) (List.concat sts)
                                 then Some (copies (Z.to_nat p) (List.concat sts), copies (Z.to_nat p) (map (map Qr) tgs)) else None
            | None => None
            end
          else None
      | _, _, _ => None
      end
  | _ => None
  end.

Lemma mod_fix_l check_only f x v env G s stm out evs :
  Regs env s -> InLoop x v s -> gates s = G -> mod_ok_l x v env G stm = Some (out, evs) ->
  exists s1, visit_stmt check_only [] (S f) stm s = Ok ((if check_only then [] else out), s1) /\ DE s s1 /\ Dstep s s1 evs.
Proof.
  intros R L HG H. destruct stm; try discriminate H. cbn [mod_ok_l] in H.
  destruct (cmods mods 1 false) as [[p inv]|] eqn:Ec; [|discriminate H].
  destruct (mapM (opnd_bits_l x v (e_q env)) qubits) as [bss|] eqn:Eb; [|discriminate H]. destruct (cparams args) as [vs|] eqn:Ev; [|discriminate H].
  match type of H with (if ?c then _ else _) = _ => destruct c eqn:C; [|discriminate H] end.
  destruct (lower_app env name vs (List.concat bss) inv) as [[tgs sts]|] eqn:Ea; [|discriminate H].
  destruct (forallb (op_ok env) (List.concat sts)); [|discriminate H]. injection H as <- <-.
  apply andb_true_iff in C as [C Hd]. apply andb_true_iff in C as [Hng Hp].
  apply Z.ltb_lt in Hp. apply negb_true_iff in Hng.
  cbn [visit_stmt visit_stmt_body].
  eapply (modified_gate_fix check_only (visit_stmt check_only [] f) (visit_call check_only [] f) (InLoop x v) (InLoop_DE x v) env); eauto.
  - now rewrite HG.
  - intros s0 R0 L0. rewrite get_op_bits_gob. now rewrite (gob_opnds_l (visit_call check_only [] f) env s0 x v qubits bss [] R0 L0 Eb Hd).
  - intros s0 _. now apply cparams_eval.
Qed.

Lemma mod_ok_l_ops x v env G stm out evs : mod_ok_l x v env G stm = Some (out, evs) -> forallb (op_ok env) out = true.
Proof.
  intros H. destruct stm; try discriminate H. cbn [mod_ok_l] in H.
  destruct (cmods mods 1 false) as [[p inv]|]; [|discriminate H].
  destruct (mapM (opnd_bits_l x v (e_q env)) qubits) as [bss|]; [|discriminate H]. destruct (cparams args) as [vs|]; [|discriminate H].
  match type of H with (if ?c then _ else _) = _ => destruct c; [|discriminate H] end.
  destruct (lower_app env name vs (List.concat bss) inv) as [[tgs sts]|]; [|discriminate H].
  destruct (forallb (op_ok env) (List.concat sts)) eqn:Eo; [|discriminate H].
  injection H as <- <-. now apply copies_forallb.
Qed.

Lemma DE_gstack s s' : DE s s' -> gstack s' = gstack s.
Proof.
  intros D. pose proof (de_core _ _ D) as E.
  transitivity (gstack (nodepth s')); [destruct s'; reflexivity|]. rewrite E. destruct s; reflexivity.
Qed.

(* ---------- the body and the loop ---------- *)
Section Loop.
(* a further handler for body statements (calls of defined gates, Lang/GateDefProofs.v), right in every loop-body state *)
Variable hc : string -> Z -> renv -> list (string * gatedef) -> stmt -> option (list stmt * list (list rsrc)).
Variable nmin : nat.        (* the fuel the handler needs *)
Hypothesis hc_fix : forall check_only f x v env G s stm o e, (nmin <= S f)%nat ->
  Regs env s -> InLoop x v s -> gates s = G -> gstack s = [] -> hc x v env G stm = Some (o, e) ->
  exists s1, visit_stmt check_only [] (S (S f)) stm s = Ok ((if check_only then [] else o), s1) /\ DE s s1 /\ Dstep s s1 e.
Hypothesis hc_ops : forall x v env G stm o e, hc x v env G stm = Some (o, e) -> forallb (op_ok env) o = true.

Definition bh (x : string) (v : Z) (env : renv) (G : list (string * gatedef)) (stm : stmt) : option (list stmt * list (list rsrc)) :=
  if simple_op stm && op_ok env (inst x v stm) then Some ([inst x v stm], ev_of (inst x v stm))
  else match mod_ok_l x v env G stm with Some r => Some r | None => hc x v env G stm end.

Lemma bh_fix check_only f x v env G s stm o e : (nmin <= S f)%nat ->
  Regs env s -> InLoop x v s -> gates s = G -> gstack s = [] -> bh x v env G stm = Some (o, e) ->
  exists s1, visit_stmt check_only [] (S (S f)) stm s = Ok ((if check_only then [] else o), s1) /\ DE s s1 /\ Dstep s s1 e.
Proof.
  intros Hn R L HG HS H. unfold bh in H. destruct (simple_op stm && op_ok env (inst x v stm)) eqn:C.
  - injection H as <- <-. apply andb_true_iff in C as [Hs Hok].
    exact (body_op check_only (S f) stm env s x v R L Hs Hok).
  - destruct (mod_ok_l x v env G stm) as [[o' e']|] eqn:Em.
    + injection H as <- <-. eapply mod_fix_l; eauto.
    + eapply hc_fix; eauto.
Qed.

Lemma bh_ops x v env G stm o e : bh x v env G stm = Some (o, e) -> forallb (op_ok env) o = true.
Proof.
  unfold bh. destruct (simple_op stm && op_ok env (inst x v stm)) eqn:C.
  - intros H. injection H as <- _. apply andb_true_iff in C as [_ Hok]. cbn. now rewrite Hok.
  - destruct (mod_ok_l x v env G stm) as [[o' e']|] eqn:Em.
    + intros H. injection H as <- <-. eapply mod_ok_l_ops; eauto.
    + apply hc_ops.
Qed.

Definition liter (x : string) (env : renv) (G : list (string * gatedef)) (body : list stmt) (v : Z) : option (list stmt * list (list rsrc)) :=
  match mapM (bh x v env G) body with
  | Some parts => Some (List.concat (map fst parts), List.concat (map snd parts))
  | None => None
  end.

Fixpoint lall (x : string) (env : renv) (G : list (string * gatedef)) (body : list stmt) (vals : list Z) : option (list stmt * list (list rsrc)) :=
  match vals with
  | [] => Some ([], [])
  | v :: vals' => match liter x env G body v, lall x env G body vals' with
                  | Some (o, e), Some (os, es) => Some (o ++ os, e ++ es)
                  | _, _ => None
                  end
  end.

Lemma body_block_g check_only f x v env G body : (nmin <= S f)%nat -> forall s parts,
  Regs env s -> InLoop x v s -> gates s = G -> gstack s = [] -> mapM (bh x v env G) body = Some parts ->
  exists s', concatMM (visit_stmt check_only [] (S (S f))) body s = Ok ((if check_only then [] else List.concat (map fst parts)), s') /\
             DE s s' /\ Dstep s s' (List.concat (map snd parts)).
Proof.
  intros Hn. induction body as [|stm body IH]; intros s parts R L HG HS H; cbn [mapM] in H.
  - injection H as <-. exists s. split; [destruct check_only; reflexivity|]. split; [apply DE_refl|apply Dstep_same; reflexivity].
  - destruct (bh x v env G stm) as [[o e]|] eqn:Eb; [|discriminate H].
    destruct (mapM (bh x v env G) body) as [parts'|] eqn:Em; [|discriminate H]. injection H as <-.
    destruct (bh_fix check_only f x v env G s stm o e Hn R L HG HS Eb) as (s1 & E1 & D1 & S1).
    destruct (IH s1 parts' (Regs_DE _ _ _ R D1) (InLoop_DE _ _ _ _ L D1)) as (s2 & E2 & D2 & S2);
      [now rewrite (DE_gates _ _ D1)|now rewrite (DE_gstack _ _ D1)|reflexivity|].
    cbn [concatMM]. rewrite (bind_eq _ _ s (if check_only then [] else o) s1 E1).
    rewrite (bind_eq _ _ s1 (if check_only then [] else List.concat (map fst parts')) s2 E2). exists s2.
    split; [unfold ret; destruct check_only; reflexivity|]. split; [eapply DE_trans; eauto|].
    cbn [map List.concat fst snd]. eapply Dstep_trans; eauto.
Qed.

Lemma gates_lpush s x v : gates (lpush s x v) = gates s.
Proof. destruct s; reflexivity. Qed.
Lemma gstack_lpush s x v : gstack (lpush s x v) = gstack s.
Proof. destruct s; reflexivity. Qed.

Lemma loop_iterations_g f x a env G body : (nmin <= S f)%nat -> forall vals s out evs,
  Top env s -> gates s = G -> gstack s = [] -> is_constant_name x = false -> int32 a = true ->
  (forall v, In v vals -> int32 v = true) -> lall x env G body vals = Some (out, evs) ->
  exists s',
    (fix go (vals0 : list pyval) : M (list stmt) :=
       match vals0 with
       | [] => ret []
       | v :: vals' =>
           modify (fun s0 : st => push_scope (push_ctx CBlock s0));;;
           d <- visit_classical_decl false (visit_call false [] (S (S f))) (TInt None) x (Some (ELit (VInt a)));;
           s0 <- getst;;
           match get_visible s0 x with
           | Some x0 => cv <- assign_value (v_kind x0) (v_size x0) v;; modify (fun s1 : st => update_var s1 x (set_val x0 (VVScalar cv)))
           | None => ret tt
           end;;;
           b0 <- visit_block (visit_stmt false [] (S (S f))) body;;
           modify (fun s1 : st => pop_ctx (pop_scope s1));;;
           rest <- go vals';; ret (d ++ b0 ++ rest)
       end) (map VInt vals) s = Ok (out, s') /\ DE s s' /\ Dstep s s' evs.
Proof.
  intros Hn. induction vals as [|v vals IH]; intros s out evs T HG HS Nc Ha Hv Hl; cbn [lall] in Hl.
  - injection Hl as <- <-. exists s. split; [reflexivity|]. split; [apply DE_refl|apply Dstep_same; reflexivity].
  - destruct (liter x env G body v) as [[o e]|] eqn:El; [|discriminate Hl].
    destruct (lall x env G body vals) as [[os es]|] eqn:Ea; [|discriminate Hl]. injection Hl as <- <-.
    unfold liter in El. destruct (mapM (bh x v env G) body) as [parts|] eqn:Ep; [|discriminate El]. injection El as <- <-.
    pose proof (Hv v (or_introl eq_refl)) as Iv.
    cbn [map]. cbv beta iota.
    rewrite (bind_eq _ _ s tt (push_scope (push_ctx CBlock s)) eq_refl).
    rewrite (bind_eq _ _ _ [] (lpush s x a) (decl_loop_var false _ env x a s T Nc Ha)).
    rewrite (bind_eq _ _ (lpush s x a) (lpush s x a) (lpush s x a) eq_refl).
    rewrite (bind_eq _ _ (lpush s x a) tt (lpush s x v) (bind_loop_var env s x a v T Nc Iv)).
    pose proof (Regs_lpush env s x v (T_regs _ _ T)) as R1. pose proof (InLoop_lpush env s x v T Nc) as L1.
    destruct (body_block_g false f x v env G body Hn (lpush s x v) parts R1 L1) as (s4 & E4 & D4 & S4); [now rewrite gates_lpush|now rewrite gstack_lpush|exact Ep|].
    unfold visit_block. rewrite (bind_eq _ _ (lpush s x v) _ s4 E4).
    rewrite (bind_eq _ _ s4 tt (lpop s4) eq_refl).
    pose proof (DE_lpop s x v s4 D4) as D5.
    destruct (IH (lpop s4) os es (Top_DE _ _ _ T D5)) as (s' & E' & D' & S'); [now rewrite (DE_gates _ _ D5)|now rewrite (DE_gstack _ _ D5)|exact Nc|exact Ha|intros w Hw; apply Hv; now right|reflexivity|].
    rewrite (bind_eq _ _ (lpop s4) _ s' E'). exists s'. split; [reflexivity|]. split; [eapply DE_trans; eauto|].
    eapply Dstep_trans; [|exact S'].
    intros N r. rewrite dof_lpop. rewrite (S4 (fun r0 => eq_ind_r (fun z => 0 <= z) (N r0) (dof_lpush s x v r0)) r).
    apply run_evs_ext. intros r0. apply dof_lpush.
Qed.

Lemma loop_first_iteration_g f x a env G body : (nmin <= S f)%nat -> forall vals s out evs,
  Top env s -> gates s = G -> gstack s = [] -> is_constant_name x = false -> int32 a = true ->
  (forall v, In v vals -> int32 v = true) -> lall x env G body vals = Some (out, evs) ->
  exists s',
    (fix go (vals0 : list pyval) : M (list stmt) :=
       match vals0 with
       | [] => ret []
       | v :: vals' =>
           modify (fun s0 : st => push_scope (push_ctx CBlock s0));;;
           d <- visit_classical_decl true (visit_call true [] (S (S f))) (TInt None) x (Some (ELit (VInt a)));;
           s0 <- getst;;
           match get_visible s0 x with
           | Some x0 => cv <- assign_value (v_kind x0) (v_size x0) v;; modify (fun s1 : st => update_var s1 x (set_val x0 (VVScalar cv)))
           | None => ret tt
           end;;;
           b0 <- visit_block (visit_stmt true [] (S (S f))) body;;
           modify (fun s1 : st => pop_ctx (pop_scope s1));;;
           ret []
       end) (map VInt vals) s = Ok ([], s') /\ DE s s'.
Proof.
  intros Hn vals s out evs T HG HS Nc Ha Hv Hl. destruct vals as [|v vals].
  - exists s. split; [reflexivity|apply DE_refl].
  - cbn [lall] in Hl. destruct (liter x env G body v) as [[o e]|] eqn:El; [|discriminate Hl].
    unfold liter in El. destruct (mapM (bh x v env G) body) as [parts|] eqn:Ep; [|discriminate El].
    pose proof (Hv v (or_introl eq_refl)) as Iv.
    cbn [map]. cbv beta iota.
    rewrite (bind_eq _ _ s tt (push_scope (push_ctx CBlock s)) eq_refl).
    rewrite (bind_eq _ _ _ [] (lpush s x a) (decl_loop_var true _ env x a s T Nc Ha)).
    rewrite (bind_eq _ _ (lpush s x a) (lpush s x a) (lpush s x a) eq_refl).
    rewrite (bind_eq _ _ (lpush s x a) tt (lpush s x v) (bind_loop_var env s x a v T Nc Iv)).
    pose proof (Regs_lpush env s x v (T_regs _ _ T)) as R1. pose proof (InLoop_lpush env s x v T Nc) as L1.
    destruct (body_block_g true f x v env G body Hn (lpush s x v) parts R1 L1) as (s4 & E4 & D4 & S4); [now rewrite gates_lpush|now rewrite gstack_lpush|exact Ep|].
    unfold visit_block. rewrite (bind_eq _ _ (lpush s x v) [] s4 E4).
    rewrite (bind_eq _ _ s4 tt (lpop s4) eq_refl).
    exists (lpop s4). split; [reflexivity|]. exact (DE_lpop s x v s4 D4).
Qed.

(* ---------- the loop statement ---------- *)
Definition gloop_ok (env : renv) (G : list (string * gatedef)) (stm : stmt) : option (list stmt * list (list rsrc)) :=
  match stm with
  | SFor (TInt None) x (FRange (Some (ELit (VInt a))) (Some (ELit (VInt b))) None) body =>
      if negb (is_constant_name x) && int32 a && int32 b && (b - a + 1 <=? 100000)
      then lall x env G body (zrange a b) else None
  | _ => None
  end.

Lemma gloop_shape env G stm out evs : gloop_ok env G stm = Some (out, evs) ->
  exists x a b body, stm = SFor (TInt None) x (FRange (Some (ELit (VInt a))) (Some (ELit (VInt b))) None) body /\
    is_constant_name x = false /\ int32 a = true /\ int32 b = true /\ b - a + 1 <= 100000 /\ lall x env G body (zrange a b) = Some (out, evs).
Proof.
  intros H. destruct stm; try discriminate H. cbn [gloop_ok] in H.
  destruct t; try discriminate H. destruct size; [discriminate H|].
  destruct set as [start stop step|vals|]; try discriminate H.
  destruct start as [[]|]; try discriminate H. destruct v; try discriminate H.
  destruct stop as [[]|]; try discriminate H. destruct v; try discriminate H.
  destruct step; [discriminate H|].
  match type of H with (if ?c then _ else _) = _ => destruct c eqn:C; [|discriminate H] end.
  apply andb_true_iff in C as [C Hn]. apply andb_true_iff in C as [C Hb]. apply andb_true_iff in C as [Nc Ha].
  apply negb_true_iff in Nc. apply Z.leb_le in Hn.
  exists var, z, z0, body. repeat split; assumption.
Qed.

Lemma zrange_int32 a b v : int32 a = true -> int32 b = true -> In v (zrange a b) -> int32 v = true.
Proof.
  intros Ha Hb Hv. pose proof (zrange_in _ _ _ Hv) as R. unfold int32 in *.
  apply andb_true_iff in Ha as [A0 A1]. apply andb_true_iff in Hb as [B0 B1].
  apply Z.leb_le in A0, A1, B0, B1. apply andb_true_iff. split; apply Z.leb_le; lia.
Qed.

Lemma gloop_fix f env G s stm out evs : (nmin <= S f)%nat -> Top env s -> gates s = G -> gstack s = [] -> gloop_ok env G stm = Some (out, evs) ->
  exists s', visit_stmt false [] (S (S (S f))) stm s = Ok (out, s') /\ DE s s' /\ Dstep s s' evs.
Proof.
  intros Hf T HG HS H. destruct (gloop_shape env G stm out evs H) as (x & a & b & body & -> & Nc & Ha & Hb & Hn & Hl).
  cbn [visit_stmt visit_stmt_body]. unfold visit_for.
  rewrite (bind_eq _ _ s _ s (for_values_literal _ a b s Hn)).
  exact (loop_iterations_g f x a env G body Hf (zrange a b) s out evs T HG HS Nc Ha (fun v Hv => zrange_int32 a b v Ha Hb Hv) Hl).
Qed.

Lemma gloop_fix_validate f env G s stm out evs : (nmin <= S f)%nat -> Top env s -> gates s = G -> gstack s = [] -> gloop_ok env G stm = Some (out, evs) ->
  exists s', visit_stmt true [] (S (S (S f))) stm s = Ok ([], s') /\ DE s s'.
Proof.
  intros Hf T HG HS H. destruct (gloop_shape env G stm out evs H) as (x & a & b & body & -> & Nc & Ha & Hb & Hn & Hl).
  cbn [visit_stmt visit_stmt_body]. unfold visit_for.
  rewrite (bind_eq _ _ s _ s (for_values_literal _ a b s Hn)).
  exact (loop_first_iteration_g f x a env G body Hf (zrange a b) s out evs T HG HS Nc Ha (fun v Hv => zrange_int32 a b v Ha Hb Hv) Hl).
Qed.

Lemma lall_ops x env G body vals : forall out evs, lall x env G body vals = Some (out, evs) -> forallb (op_ok env) out = true.
Proof.
  induction vals as [|v vals IH]; intros out evs H; cbn [lall] in H.
  - injection H as <- _. reflexivity.
  - destruct (liter x env G body v) as [[o e]|] eqn:El; [|discriminate H].
    destruct (lall x env G body vals) as [[os es]|] eqn:Ea; [|discriminate H]. injection H as <- _.
    rewrite forallb_app, (IH os es eq_refl), andb_true_r.
    unfold liter in El. destruct (mapM (bh x v env G) body) as [parts|] eqn:Ep; [|discriminate El]. injection El as <- _.
    clear Ea IH. revert parts Ep. induction body as [|stm body IHb]; intros parts Ep; cbn [mapM] in Ep.
    + injection Ep as <-. reflexivity.
    + destruct (bh x v env G stm) as [[o1 e1]|] eqn:Eb; [|discriminate Ep].
      destruct (mapM (bh x v env G) body) as [parts'|] eqn:Em; [|discriminate Ep]. injection Ep as <-.
      cbn [map List.concat fst]. rewrite forallb_app, (IHb parts' eq_refl), andb_true_r. eapply bh_ops; eauto.
Qed.

Lemma gloop_ok_ops env G stm out evs : gloop_ok env G stm = Some (out, evs) -> forallb (op_ok env) out = true.
Proof.
  intros H. destruct (gloop_shape env G stm out evs H) as (x & a & b & body & _ & _ & _ & _ & _ & Hl). eapply lall_ops; eauto.
Qed.
End Loop.
