(* A proved fragment of "the visitor model refines the reference semantics": on every well-formed flat program without
   bit-register initial values the reference semantics (Lang/Spec.v) accepts the program and executes it to a trace whose
   lowering is the program itself -- the same statements the visitor model emits for it (Lang/FixProofs.v).  So model
   and reference semantics agree, statement for statement, on all such programs, of any length and nesting. *)
From Coq Require Import ZArith List Bool String Lia.
From Verif Require Import Aexp BGate PyVal CastPrim Ast State Arr GatesGen GateLib Unroll Spec Depth DepthModel DepthSpec FixProofs.
Import ListNotations.
Open Scope string_scope.
Open Scope list_scope.
Open Scope Z_scope.

Lemma sbind_eq {A B} (m : SM A) (f : A -> SM B) s a s1 : m s = Ok (a, s1) -> sbind m f s = f a s1.
Proof. unfold sbind. intros ->. reflexivity. Qed.

(* the registers the reference semantics has in scope *)
Record SRegs (env : renv) (s : sstate) : Prop := {
  SR_gates : s_gates s = [];
  SR_q : forall r n, sget r (e_q env) = Some n -> lookup r (s_env s) = Some (BQreg n);
  SR_c : forall r n, sget r (e_c env) = Some n -> lookup r (s_env s) = Some (BCreg n)
}.

Lemma range_nat_nth (r : string) n i : 0 <= i < n ->
  nth (Z.to_nat i) (map (fun j => (r, j)) (range_nat n)) (""%string, 0) = (r, i).
Proof.
  intros H. unfold range_nat. rewrite map_map.
  rewrite (nth_indep _ (""%string, 0) ((fun k => (r, Z.of_nat k)) 0%nat)) by (rewrite map_length, seq_length; lia).
  rewrite (map_nth (fun k => (r, Z.of_nat k))), seq_nth by lia. cbn. f_equal. lia.
Qed.
Lemma range_nat_length (r : string) n : 0 <= n -> Z.of_nat (List.length (map (fun j : Z => (r, j)) (range_nat n))) = n.
Proof. intros H. unfold range_nat. rewrite !map_length, seq_length. lia. Qed.

Lemma lower_app t1 : forall t2 l1 l2, lower t1 = Ok l1 -> lower t2 = Ok l2 -> lower (t1 ++ t2) = Ok (l1 ++ l2).
Proof.
  induction t1 as [|a t1 IH]; intros t2 l1 l2 L1 L2; cbn [app lower] in *; [inversion L1; subst; exact L2|].
  destruct (lower_top a) as [la|]; [|discriminate]. cbn [bind] in *. destruct (lower t1) as [lt|] eqn:Et; [|discriminate]. cbn [bind] in *.
  inversion L1; subst. rewrite (IH t2 lt l2 eq_refl L2). cbn [bind]. now rewrite app_assoc.
Qed.

Lemma events_of_app a b : events_of (a ++ b) = events_of a ++ events_of b.
Proof. unfold events_of. apply flat_map_app. Qed.
Lemma events_block_fix (l : list top) :
  (fix go (l : list top) : list (list rsrc) := match l with [] => [] | x :: l' => events_of_top x ++ go l' end) l = events_of l.
Proof. induction l as [|x l IH]; [reflexivity|]. unfold events_of in *. cbn [flat_map]. now rewrite IH. Qed.

Section Ops.
Variable strict : bool.
Variable exec_rec : stmt -> SM (list top).
Variable call_rec : string -> list expr -> SM (pyval * list top).

Lemma resolve_bits_literal env s (is_q : bool) r i n :
  SRegs env s -> sget r (if is_q then e_q env else e_c env) = Some n -> 0 <= i < n ->
  resolve_bits strict call_rec is_q (qarg_of (r, i)) s = Ok ([(r, i)], s).
Proof.
  intros R Hs Hi. unfold resolve_bits, qarg_of, qarg_name. cbn [fst snd].
  rewrite (sbind_eq _ _ s s s eq_refl).
  assert (Hl : lookup r (s_env s) = Some (if is_q then BQreg n else BCreg n)).
  { destruct is_q; [eapply SR_q|eapply SR_c]; eauto. }
  rewrite Hl.
  rewrite (sbind_eq _ _ s (map (fun j => (r, j)) (range_nat n)) s) by (destruct is_q; reflexivity).
  rewrite (sbind_eq _ _ s i s eq_refl). rewrite range_nat_length by lia.
  assert ((0 <=? i) && (i <? n) = true) as -> by (apply andb_true_iff; split; [apply Z.leb_le|apply Z.ltb_lt]; lia).
  unfold sret. now rewrite range_nat_nth.
Qed.

Lemma nodupb_of_NoDup l : NoDup l -> Spec.nodupb l = true.
Proof.
  induction 1 as [|b l Hn N IH]; [reflexivity|]. cbn [Spec.nodupb]. rewrite IH, andb_true_r. apply negb_true_iff.
  destruct (existsb (bitref_eqb b) l) eqn:E; [|reflexivity]. apply existsb_exists in E as (y & Hy & Ey).
  destruct (bitref_eqb_spec b y); [subst; contradiction|discriminate].
Qed.

Lemma resolve_all_literals env s (is_q : bool) l :
  SRegs env s -> forallb (in_reg (if is_q then e_q env else e_c env)) l = true -> distinctb [] l = true ->
  resolve_all strict call_rec is_q (map qarg_of l) s = Ok (l, s).
Proof.
  intros R Hin Hd. unfold resolve_all.
  assert (Hc : sconcatM (resolve_bits strict call_rec is_q) (map qarg_of l) s = Ok (l, s)).
  { clear Hd. induction l as [|[r i] l IH]; [reflexivity|]. cbn [forallb] in Hin. apply andb_true_iff in Hin as [Hb Hin].
    unfold in_reg in Hb. cbn [fst snd] in Hb. destruct (sget r (if is_q then e_q env else e_c env)) as [n|] eqn:Es; [|discriminate].
    apply andb_true_iff in Hb as [H0 H1]. apply Z.leb_le in H0. apply Z.ltb_lt in H1.
    cbn [map sconcatM]. rewrite (sbind_eq _ _ s [(r, i)] s) by (eapply resolve_bits_literal; eauto; lia).
    rewrite (sbind_eq _ _ s l s (IH Hin)). reflexivity. }
  rewrite (sbind_eq _ _ s l s Hc). rewrite (nodupb_of_NoDup l (proj1 (distinctb_NoDup l [] Hd))). reflexivity.
Qed.


(* ---------- operations ---------- *)
Notation esb := (exec_stmt_body strict [] exec_rec call_rec).

Lemma smapM_literals vs s : smapM (fun e => seval0 strict call_rec e false) (map ELit vs) s = Ok (vs, s).
Proof. induction vs as [|v vs IH]; [reflexivity|]. cbn [map smapM]. rewrite (sbind_eq _ _ s v s eq_refl), (sbind_eq _ _ s vs s IH). reflexivity. Qed.

Lemma gate_spec env s name vs bs np k :
  SRegs env s -> assoc name self_basis = Some (np, k) -> List.length vs = np -> List.length bs = k ->
  forallb (in_reg (e_q env)) bs = true -> distinctb [] bs = true ->
  esb (SGate [] name (map ELit vs) (map qarg_of bs)) s = Ok ([TGate name vs bs false], s) /\
  lower_gate name vs bs false = Ok [SGate [] name (map ELit vs) (map qarg_of bs)].
Proof.
  intros R Hn Hv Hb Hin Hd. destruct (self_basis_lowering name np k Hn) as (d & np' & f & Hl & Hk & Hf).
  split.
  - cbn [exec_stmt_body]. unfold exec_gate. cbn [scollapse]. rewrite (sbind_eq _ _ s (1, false) s eq_refl).
    cbn [Z.ltb Z.compare sguard]. rewrite (sbind_eq _ _ s tt s eq_refl). cbn [smem existsb]. change (Z.to_nat 1) with 1%nat. cbn [srepeat].
    assert (Ha : apply_gate strict exec_rec call_rec name (map ELit vs) (map qarg_of bs) false s = Ok ([TGate name vs bs false], s)).
    { unfold apply_gate. rewrite (sbind_eq _ _ s s s eq_refl), (SR_gates _ _ R). cbn [sget aget]. rewrite Hl.
      cbn [andb]. rewrite (sbind_eq _ _ s tt s eq_refl). rewrite (sbind_eq _ _ s vs s (smapM_literals vs s)).
      rewrite (sbind_eq _ _ s bs s (resolve_all_literals env s true bs R Hin Hd)).
      (* the table's own parameter count *)
      assert (d = np).
      { pose proof (Hf (repeat VNone np) (repeat (""%string, 0) k)) as X. clear - Hn Hl. unfold self_basis in Hn. cbn [assoc] in Hn.
        repeat match type of Hn with
               | (if String.eqb ?n ?c then _ else _) = Some _ => destruct (String.eqb_spec n c) as [->|_]; [inversion Hn; subst; vm_compute in Hl; inversion Hl; reflexivity|]
               end. discriminate Hn. }
      subst d. rewrite Hv, Nat.eqb_refl. cbn [sguard]. rewrite (sbind_eq _ _ s tt s eq_refl).
      destruct k as [|k']; [lia|]. rewrite Hb, Nat.mod_same by lia. cbn [Nat.eqb negb andb sguard]. rewrite (sbind_eq _ _ s tt s eq_refl).
      cbn [andb]. rewrite chunks_single by (auto; lia). reflexivity. }
    rewrite (sbind_eq _ _ s [TGate name vs bs false] s Ha). rewrite (sbind_eq _ _ s [] s eq_refl). reflexivity.
  - unfold lower_gate. cbn [andb]. cbn [bind]. rewrite Hl, (Hf vs bs Hv Hb). cbn [mapR stmt_of_bgate].
    pose proof (interp_vars [] vs) as Hi. cbn [app List.length] in Hi. rewrite Hi. reflexivity.
Qed.


Lemma phase_spec s v : num_val v = true -> esb (SPhase [] (ELit v) []) s = Ok ([TPhase v], s).
Proof.
  intros Hv. cbn [exec_stmt_body]. unfold exec_phase. cbn [scollapse]. rewrite (sbind_eq _ _ s (1, false) s eq_refl).
  cbn [Z.ltb Z.compare sguard]. rewrite (sbind_eq _ _ s tt s eq_refl). rewrite (sbind_eq _ _ s s s eq_refl).
  rewrite (sbind_eq _ _ s tt s eq_refl). rewrite (sbind_eq _ _ s v s eq_refl).
  destruct v; try discriminate Hv; reflexivity.
Qed.

Lemma measure_spec env s q c : SRegs env s -> in_reg (e_q env) q = true -> in_reg (e_c env) c = true ->
  esb (SMeasure (qarg_of q) (Some (qarg_of c))) s = Ok ([TMeasure q c], s).
Proof.
  intros R Hq Hc. cbn [exec_stmt_body]. rewrite (sbind_eq _ _ s s s eq_refl).
  assert (Lq : exists n, lookup (qarg_name (qarg_of q)) (s_env s) = Some (BQreg n)).
  { unfold in_reg in Hq. destruct q as [r i]. cbn in *. destruct (sget r (e_q env)) as [n|] eqn:E; [|discriminate]. exists n. eapply SR_q; eauto. }
  destruct Lq as (n & ->). rewrite (sbind_eq _ _ s tt s eq_refl).
  pose proof (resolve_all_literals env s true [q] R) as G. cbn [map forallb distinctb existsb negb andb] in G. rewrite Hq in G.
  rewrite (sbind_eq _ _ s [q] s (G eq_refl eq_refl)).
  pose proof (resolve_all_literals env s false [c] R) as G2. cbn [map forallb distinctb existsb negb andb] in G2. rewrite Hc in G2.
  rewrite (sbind_eq _ _ s [c] s (G2 eq_refl eq_refl)). reflexivity.
Qed.

Lemma reset_spec env s q : SRegs env s -> in_reg (e_q env) q = true -> esb (SReset (qarg_of q)) s = Ok ([TReset q], s).
Proof.
  intros R Hq. cbn [exec_stmt_body].
  pose proof (resolve_all_literals env s true [q] R) as G. cbn [map forallb distinctb existsb negb andb] in G. rewrite Hq in G.
  rewrite (sbind_eq _ _ s [q] s (G eq_refl eq_refl)). reflexivity.
Qed.

Lemma barrier_spec env s q : SRegs env s -> in_reg (e_q env) q = true -> esb (SBarrier [qarg_of q]) s = Ok ([TBarrier [q]], s).
Proof.
  intros R Hq. cbn [exec_stmt_body].
  pose proof (resolve_all_literals env s true [q] R) as G. cbn [map forallb distinctb existsb negb andb] in G. rewrite Hq in G.
  rewrite (sbind_eq _ _ s [q] s (G eq_refl eq_refl)). reflexivity.
Qed.

(* ---------- conditionals ---------- *)
Definition spushed (s : sstate) : sstate := mkS (mkFrame FBlock [] :: s_env s) (s_gates s) (s_subs s) (s_incl s) (s_nq s) (s_gstack s).

Lemma SRegs_pushed env s : SRegs env s -> SRegs env (spushed s).
Proof. intros [G Q C]. split; [exact G| |]; intros r n H; cbn; [apply (Q r n H)|apply (C r n H)]. Qed.
Lemma spop_pushed s : mkS (tl (s_env (spushed s))) (s_gates (spushed s)) (s_subs (spushed s)) (s_incl (spushed s)) (s_nq (spushed s)) (s_gstack (spushed s)) = s.
Proof. destruct s; reflexivity. Qed.

(* a block of operations each of which leaves the state alone *)
Lemma block_spec env l : forall s,
  (forall stm s0, In stm l -> SRegs env s0 -> exists tr, exec_rec stm s0 = Ok (tr, s0) /\ lower tr = Ok [stm] /\ events_of tr = ev_of stm) ->
  SRegs env s -> exists tr, exec_block exec_rec FBlock [] l s = Ok (tr, s) /\ lower tr = Ok l /\ events_of tr = evs_of l.
Proof.
  intros s H R. unfold exec_block, push_frame, pop_frame.
  rewrite (sbind_eq _ _ s tt (spushed s)) by reflexivity.
  assert (Hc : exists tr, sconcatM exec_rec l (spushed s) = Ok (tr, spushed s) /\ lower tr = Ok l /\ events_of tr = evs_of l).
  { pose proof (SRegs_pushed env s R) as Rp. revert H. generalize (spushed s) Rp. clear. intros s R H.
    induction l as [|x l IH]; [exists []; repeat split; reflexivity|].
    destruct (H x s (or_introl eq_refl) R) as (t1 & E1 & L1 & V1). destruct IH as (t2 & E2 & L2 & V2); [intros; apply H; [now right|assumption]|].
    exists (t1 ++ t2). cbn [sconcatM]. rewrite (sbind_eq _ _ s t1 s E1), (sbind_eq _ _ s t2 s E2). split; [reflexivity|].
    split; [change (x :: l) with ([x] ++ l); now apply lower_app|]. rewrite events_of_app, V1, V2. reflexivity. }
  destruct Hc as (tr & Ec & Lc & Vc). exists tr. rewrite (sbind_eq _ _ _ tr (spushed s) Ec).
  rewrite (sbind_eq _ _ (spushed s) tt s) by (rewrite <- (spop_pushed s) at 2; reflexivity). split; [reflexivity|split; [exact Lc|exact Vc]].
Qed.

Lemma lower_block_fix (l : list top) :
  (fix go (l : list top) : res (list stmt) := match l with [] => Ok [] | x :: l' => do a <- lower_top x;; do b <- go l';; Ok (a ++ b) end) l = lower l.
Proof. induction l as [|x l IH]; [reflexivity|]. cbn [lower]. now rewrite IH. Qed.

Lemma branch_spec env s lhs rhs t e :
  SRegs env s -> cond_ok env lhs rhs = true -> t <> [] ->
  forallb stmt_is_quantum t = true -> forallb stmt_is_quantum e = true ->
  (forall stm s0, In stm (t ++ e) -> SRegs env s0 -> exists tr, exec_rec stm s0 = Ok (tr, s0) /\ lower tr = Ok [stm] /\ events_of tr = ev_of stm) ->
  exists tr, esb (SIf (EBin "==" lhs (ELit rhs)) t e) s = Ok (tr, s) /\ lower tr = Ok [SIf (EBin "==" lhs (ELit rhs)) t e] /\
             events_of tr = ev_of (SIf (EBin "==" lhs (ELit rhs)) t e).
Proof.
  intros R Hc Ht Qt Qe H. cbn [exec_stmt_body]. unfold exec_if. rewrite (sbind_eq _ _ s s s eq_refl).
  assert (negb (match t with [] => true | _ :: _ => false end) = true) as -> by (destruct t; [congruence|reflexivity]).
  cbn [sguard]. rewrite (sbind_eq _ _ s tt s eq_refl).
  destruct (block_spec env t s) as (tt_ & Et & Lt & Vt); [intros; apply H; [apply in_or_app; now left|assumption]|exact R|].
  destruct (block_spec env e s) as (te & Ee & Le & Ve); [intros; apply H; [apply in_or_app; now right|assumption]|exact R|].
  unfold cond_ok in Hc.
  destruct lhs as [| | |c|coll idx| | | | | |]; try discriminate Hc.
  - destruct rhs as [z| | |]; try discriminate Hc.
    destruct (sget c (e_c env)) as [size|] eqn:Es; [|discriminate Hc]. pose proof (SR_c _ _ R c size Es) as Lc.
    cbn [expr_mentions_creg]. rewrite Lc. cbn [orb].
    rewrite (sbind_eq _ _ s (c, None, VInt z) s eq_refl). rewrite Lc. cbn [sguard]. rewrite (sbind_eq _ _ s tt s eq_refl).
    rewrite Qt, Qe. cbn [andb sguard]. rewrite (sbind_eq _ _ s tt s eq_refl).
    rewrite (sbind_eq _ _ s tt_ s Et), (sbind_eq _ _ s te s Ee).
    eexists. split; [reflexivity|]. split; [cbn [lower lower_top]; rewrite (lower_block_fix tt_), (lower_block_fix te), Lt, Le; reflexivity|].
    unfold events_of. cbn [flat_map events_of_top ev_of]. rewrite (events_block_fix tt_), (events_block_fix te), !ev_of_block, app_nil_r, Vt, Ve. reflexivity.
  - destruct coll as [| | |c| | | | | | |]; try discriminate Hc.
    destruct idx as [|items]; try discriminate Hc.
    destruct items as [|[ie|] items']; try discriminate Hc.
    destruct ie as [v| | | | | | | | | |]; try discriminate Hc. destruct v as [i| | |]; try discriminate Hc.
    destruct items' as [|]; try discriminate Hc.
    destruct rhs as [| |b|]; try discriminate Hc.
    unfold in_reg in Hc. cbn [fst snd] in Hc.
    destruct (sget c (e_c env)) as [size|] eqn:Es; [|discriminate Hc]. pose proof (SR_c _ _ R c size Es) as Lc.
    cbn [expr_mentions_creg]. rewrite Lc. cbn [orb].
    rewrite (sbind_eq _ _ s (c, Some i, VBool b) s) by (destruct b; reflexivity). rewrite Lc, Hc. cbn [sguard]. rewrite (sbind_eq _ _ s tt s eq_refl).
    rewrite Qt, Qe. cbn [andb sguard]. rewrite (sbind_eq _ _ s tt s eq_refl).
    rewrite (sbind_eq _ _ s tt_ s Et), (sbind_eq _ _ s te s Ee).
    eexists. split; [reflexivity|]. split; [cbn [lower lower_top]; rewrite (lower_block_fix tt_), (lower_block_fix te), Lt, Le; reflexivity|].
    unfold events_of. cbn [flat_map events_of_top ev_of]. rewrite (events_block_fix tt_), (events_block_fix te), !ev_of_block, app_nil_r, Vt, Ve. reflexivity.
Qed.

End Ops.

(* ---------- operations of a flat program whose conditionals hold quantum operations only ---------- *)
Definition quantum_blocks (stm : stmt) : bool :=
  match stm with SIf _ t e => forallb stmt_is_quantum t && forallb stmt_is_quantum e | _ => true end.

Lemma simple_op_spec strict f env s stm : SRegs env s -> op_ok env stm = true -> stmt_is_quantum stm = true ->
  exists tr, exec strict [] (S f) stm s = Ok (tr, s) /\ lower tr = Ok [stm] /\ events_of tr = ev_of stm.
Proof.
  intros R Hok Hq. cbn [exec]. destruct stm; try discriminate Hq; cbn [op_ok] in Hok.
  - destruct mods; [|discriminate Hok].
    destruct (mapM lit_bit qubits) as [bs|] eqn:Eb; [|discriminate Hok]. destruct (mapM lit_num args) as [vs|] eqn:Ev; [|discriminate Hok].
    destruct (assoc name self_basis) as [[np k]|] eqn:En; [|discriminate Hok].
    apply andb_true_iff in Hok as [Hok Hd]. apply andb_true_iff in Hok as [Hok Hin]. apply andb_true_iff in Hok as [Hv Hb].
    apply Nat.eqb_eq in Hv, Hb. apply mapM_lit_bit in Eb as ->. apply mapM_lit_num in Ev as [-> Hn].
    destruct (gate_spec strict (exec strict [] f) (scall strict [] f) env s name vs bs np k R En Hv Hb Hin Hd) as [E L].
    exists [TGate name vs bs false]. split; [exact E|]. split; [cbn [lower lower_top]; rewrite L; reflexivity|].
    cbn [ev_of]. now rewrite mapM_lit_bit_of.
  - destruct mods; [|discriminate Hok]. destruct arg; try discriminate Hok. destruct qubits; [|discriminate Hok].
    exists [TPhase v]. split; [now apply phase_spec|split; reflexivity].
  - destruct target as [t|]; [|discriminate Hok]. destruct (lit_bit q) as [a|] eqn:Ea; [|discriminate Hok]. destruct (lit_bit t) as [b|] eqn:Eb; [|discriminate Hok].
    apply andb_true_iff in Hok as [Ha Hb]. rewrite (lit_bit_qarg_of q a Ea), (lit_bit_qarg_of t b Eb).
    exists [TMeasure a b]. split; [eapply measure_spec; eauto|split; [reflexivity|]]. cbn [ev_of]. now rewrite !lit_bit_of.
  - destruct (lit_bit q) as [a|] eqn:Ea; [|discriminate Hok]. rewrite (lit_bit_qarg_of q a Ea).
    exists [TReset a]. split; [eapply reset_spec; eauto|split; [reflexivity|]]. cbn [ev_of]. now rewrite lit_bit_of.
  - destruct qs as [|q [|]]; try discriminate Hok. destruct (lit_bit q) as [a|] eqn:Ea; [|discriminate Hok]. rewrite (lit_bit_qarg_of q a Ea).
    exists [TBarrier [a]]. split; [eapply barrier_spec; eauto|split; [reflexivity|]]. cbn [ev_of]. now rewrite lit_bit_of.
Qed.

Lemma op_spec strict f env s stm : SRegs env s -> op_ok env stm = true -> quantum_blocks stm = true ->
  exists tr, exec strict [] (S (S f)) stm s = Ok (tr, s) /\ lower tr = Ok [stm] /\ events_of tr = ev_of stm.
Proof.
  intros R Hok Hq. destruct (stmt_is_quantum stm) eqn:Eq; [now apply (simple_op_spec strict (S f) env s stm)|].
  destruct stm; try discriminate Hok; try discriminate Eq.
  cbn [op_ok] in Hok. rewrite !op_ok_block in Hok. destruct cond; try discriminate Hok. destruct cond2; try discriminate Hok.
  apply andb_true_iff in Hok as [Hok He]. apply andb_true_iff in Hok as [Hok Ht]. apply andb_true_iff in Hok as [Hok Hne].
  apply andb_true_iff in Hok as [Hop Hc]. apply String.eqb_eq in Hop. subst op.
  cbn [quantum_blocks] in Hq. apply andb_true_iff in Hq as [Qt Qe]. cbn [exec].
  apply (branch_spec strict (exec strict [] (S f)) (scall strict [] (S f)) env s cond1 v then_ else_ R Hc); auto.
  - destruct then_; [discriminate Hne|congruence].
  - intros stm s0 Hin R0. apply (simple_op_spec strict f env s0 stm); [exact R0| |].
    + apply in_app_or in Hin as [Hin|Hin]; [eapply forallb_forall in Ht|eapply forallb_forall in He]; eauto.
    + apply in_app_or in Hin as [Hin|Hin]; [eapply forallb_forall in Qt|eapply forallb_forall in Qe]; eauto.
Qed.

(* ---------- top level ---------- *)
Record STop (env : renv) (s : sstate) : Prop := {
  ST_env : exists binds, s_env s = [mkFrame FGlobal binds] /\
           (forall r n, sget r (e_q env) = Some n -> sget r binds = Some (BQreg n)) /\
           (forall r n, sget r (e_c env) = Some n -> sget r binds = Some (BCreg n)) /\
           (forall r, sget r (e_q env) = None -> sget r (e_c env) = None -> sget r binds = None);
  ST_gates : s_gates s = [];
  ST_inc : s_incl s = e_inc env
}.

Lemma STop_SRegs env s : STop env s -> SRegs env s.
Proof.
  intros [(bds & E & Q & C & _) G _]. split; [exact G| |]; intros r n H; rewrite E; cbn [lookup binds].
  - now rewrite (Q r n H).
  - now rewrite (C r n H).
Qed.

Definition no_bit_init (stm : stmt) : bool := match stm with SClassicalDecl _ _ (Some _) => false | _ => true end.

Lemma top_spec strict f env env' s stm :
  STop env s -> top_step env stm = Some env' -> quantum_blocks stm = true -> no_bit_init stm = true ->
  exists tr s', exec strict [] (S (S f)) stm s = Ok (tr, s') /\ lower tr = Ok [stm] /\ STop env' s' /\ events_of tr = ev_of stm.
Proof.
  intros T Hs Hq Hi.
  assert (Hop : top_step env stm = (if op_ok env stm then Some env else None) ->
                exists tr s', exec strict [] (S (S f)) stm s = Ok (tr, s') /\ lower tr = Ok [stm] /\ STop env' s' /\ events_of tr = ev_of stm).
  { intros Ht. rewrite Ht in Hs. destruct (op_ok env stm) eqn:Ho; [|discriminate]. inversion Hs; subst env'.
    destruct (op_spec strict f env s stm (STop_SRegs _ _ T) Ho Hq) as (tr & E & L & V). exists tr, s. auto. }
  destruct T as [(bds & Ee & Q & C & N) G I].
  destruct stm; try (apply (Hop eq_refl)).
  - (* include *)
    cbn [top_step] in Hs. destruct (smem file (e_inc env)) eqn:Ef; [discriminate|]. inversion Hs; subst env'.
    cbn [exec exec_stmt_body]. rewrite (sbind_eq _ _ s s s eq_refl), I, Ef. cbn [negb sguard]. rewrite (sbind_eq _ _ s tt s eq_refl).
    eexists _, _. split; [reflexivity|]. split; [reflexivity|]. split; [|reflexivity]. split; cbn; [exists bds; auto|exact G|congruence].
  - (* qubit register *)
    cbn [top_step] in Hs. destruct size as [e|]; [|apply (Hop eq_refl)].
    destruct e; try (apply (Hop eq_refl)). destruct v; try (apply (Hop eq_refl)).
    destruct (fresh_name env name && (1 <=? z) && (z <? 100000)) eqn:Ec; [|discriminate]. inversion Hs; subst env'.
    apply andb_true_iff in Ec as [Ec H2]. apply andb_true_iff in Ec as [F H1]. apply Z.leb_le in H1. apply Z.ltb_lt in H2.
    unfold fresh_name in F. destruct (sget name (e_q env)) eqn:Fq; [discriminate|]. destruct (sget name (e_c env)) eqn:Fc; [discriminate|]. apply negb_true_iff in F.
    cbn [exec exec_stmt_body]. rewrite (sbind_eq _ _ s z s eq_refl). rewrite F. cbn [negb sguard]. rewrite (sbind_eq _ _ s tt s eq_refl).
    assert ((0 <? z) && (z <? 100000) = true) as -> by (apply andb_true_iff; split; apply Z.ltb_lt; lia). cbn [sguard]. rewrite (sbind_eq _ _ s tt s eq_refl).
    rewrite (sbind_eq _ _ s s s eq_refl). rewrite Ee. rewrite (sbind_eq _ _ s tt s eq_refl).
    assert (Hd : declare name (BQreg z) [mkFrame FGlobal bds] = Ok [mkFrame FGlobal (bds ++ [(name, BQreg z)])]).
    { pose proof (N name Fq Fc) as Hn. unfold declare. cbn [binds fk lookup]. unfold smemk, amem. unfold sget in *. rewrite !Hn. reflexivity. }
    rewrite Hd. cbn [slift]. rewrite (sbind_eq _ _ s _ s eq_refl).
    eexists _, _. split; [reflexivity|]. split; [reflexivity|]. split; [|reflexivity]. split; cbn [s_env s_gates s_incl e_q e_c e_inc]; [|exact G|exact I].
    exists (bds ++ [(name, BQreg z)]). split; [reflexivity|]. split; [|split].
    + intros r n Hr. rewrite sget_app_end. destruct (String.eqb_spec r name) as [->|Nr].
      * rewrite sget_sset_eq in Hr. inversion Hr; subst. now rewrite (N name Fq Fc).
      * rewrite sget_sset_neq in Hr by exact Nr. now rewrite (Q r n Hr).
    + intros r n Hr. rewrite sget_app_end. now rewrite (C r n Hr).
    + intros r Hq' Hc'. rewrite sget_app_end. destruct (String.eqb_spec r name) as [->|Nr]; [rewrite sget_sset_eq in Hq'; discriminate|].
      rewrite sget_sset_neq in Hq' by exact Nr. now rewrite (N r Hq' Hc').
  - (* bit register *)
    cbn [top_step] in Hs. destruct t; try (apply (Hop eq_refl)). destruct size as [e|]; [|apply (Hop eq_refl)].
    destruct e; try (apply (Hop eq_refl)). destruct v; try (apply (Hop eq_refl)).
    destruct (fresh_name env name && (1 <=? z) && (z <? 100000) && bit_init_ok init) eqn:Ec; [|discriminate]. inversion Hs; subst env'.
    apply andb_true_iff in Ec as [Ec _]. apply andb_true_iff in Ec as [Ec H2]. apply andb_true_iff in Ec as [F H1]. apply Z.leb_le in H1. apply Z.ltb_lt in H2.
    unfold fresh_name in F. destruct (sget name (e_q env)) eqn:Fq; [discriminate|]. destruct (sget name (e_c env)) eqn:Fc; [discriminate|]. apply negb_true_iff in F.
    destruct init; [discriminate Hi|].
    cbn [exec exec_stmt_body]. rewrite (sbind_eq _ _ s z s eq_refl). rewrite F. cbn [negb sguard]. rewrite (sbind_eq _ _ s tt s eq_refl).
    assert ((0 <? z) = true) as -> by (apply Z.ltb_lt; lia). cbn [sguard]. rewrite !(sbind_eq _ _ s tt s eq_refl).
    rewrite (sbind_eq _ _ s s s eq_refl). rewrite Ee. rewrite (sbind_eq _ _ s tt s eq_refl).
    assert (Hd : declare name (BCreg z) [mkFrame FGlobal bds] = Ok [mkFrame FGlobal (bds ++ [(name, BCreg z)])]).
    { pose proof (N name Fq Fc) as Hn. unfold declare. cbn [binds fk lookup]. unfold smemk, amem. unfold sget in *. rewrite !Hn. reflexivity. }
    rewrite Hd. cbn [slift]. rewrite (sbind_eq _ _ s _ s eq_refl).
    eexists _, _. split; [reflexivity|]. split; [reflexivity|]. split; [|reflexivity]. split; cbn [s_env s_gates s_incl e_q e_c e_inc]; [|exact G|exact I].
    exists (bds ++ [(name, BCreg z)]). split; [reflexivity|]. split; [|split].
    + intros r n Hr. rewrite sget_app_end. now rewrite (Q r n Hr).
    + intros r n Hr. rewrite sget_app_end. destruct (String.eqb_spec r name) as [->|Nr].
      * rewrite sget_sset_eq in Hr. inversion Hr; subst. now rewrite (N name Fq Fc).
      * rewrite sget_sset_neq in Hr by exact Nr. now rewrite (C r n Hr).
    + intros r Hq' Hc'. rewrite sget_app_end. destruct (String.eqb_spec r name) as [->|Nr]; [rewrite sget_sset_eq in Hc'; discriminate|].
      rewrite sget_sset_neq in Hc' by exact Nr. now rewrite (N r Hq' Hc').
Qed.

(* ---------- whole programs ---------- *)
Theorem reference_semantics_on_flat_programs strict p :
  wf_flat env0 p = true -> forallb quantum_blocks p = true -> forallb no_bit_init p = true ->
  exists tr, spec_run strict false [] p = Ok tr /\ lower tr = Ok p /\ events_of tr = evs_of p.
Proof.
  intros Hw Hq Hi. unfold spec_run. cbn [andb].
  assert (G : forall l env s, STop env s -> wf_flat env l = true -> forallb quantum_blocks l = true -> forallb no_bit_init l = true ->
              exists tr s', sconcatM (exec strict [] default_fuel) l s = Ok (tr, s') /\ lower tr = Ok l /\ events_of tr = evs_of l).
  { induction l as [|stm l IH]; intros env s T W Q I; [exists [], s; repeat split; reflexivity|].
    cbn [wf_flat forallb] in *. destruct (top_step env stm) as [env'|] eqn:Es; [|discriminate].
    apply andb_true_iff in Q as [Q1 Q]. apply andb_true_iff in I as [I1 I].
    destruct (top_spec strict 198 env env' s stm T Es Q1 I1) as (t1 & s1 & E1 & L1 & T1 & V1).
    destruct (IH env' s1 T1 W Q I) as (t2 & s2 & E2 & L2 & V2).
    exists (t1 ++ t2), s2. cbn [sconcatM]. change default_fuel with (S (S 198)).
    rewrite (sbind_eq _ _ s t1 s1 E1), (sbind_eq _ _ s1 t2 s2 E2). split; [reflexivity|].
    split; [change (stm :: l) with ([stm] ++ l); now apply lower_app|]. rewrite events_of_app, V1, V2. reflexivity. }
  destruct (G p env0 (mkS [mkFrame FGlobal []] [] [] [] 0 [])) as (tr & s' & E & L & V); auto.
  - split; cbn; [exists []; repeat split; intros; discriminate|reflexivity|reflexivity].
  - rewrite E. exists tr. split; [reflexivity|split; [exact L|exact V]].
Qed.

(* ... so on these programs the visitor model emits exactly the lowering of the reference trace *)
Corollary model_agrees_with_reference_semantics_on_flat_programs strict p o :
  wf_flat env0 p = true -> forallb quantum_blocks p = true -> forallb no_bit_init p = true -> (ldepth p < default_fuel)%nat ->
  unroll_v false [] p = Ok o ->
  exists tr, spec_run strict false [] p = Ok tr /\ lower tr = Ok (o_stmts o).
Proof.
  intros Hw Hq Hi Hd Hu. destruct (reference_semantics_on_flat_programs strict p Hw Hq Hi) as (tr & E & L & _).
  destruct (wf_flat_is_accepted_and_a_fixpoint default_fuel p Hw Hd) as [_ (o' & E' & Ho & _)].
  unfold unroll_v in Hu. rewrite E' in Hu. injection Hu as <-. exists tr. rewrite Ho. auto.
Qed.

(* ... and the depth oracle of C09 (the critical path of the reference trace) is computed over exactly the events whose
   recurrence gives the model's depth counters (Props/C09.v): the two notions of depth coincide on these programs *)
Corollary reference_depth_is_model_depth strict p :
  wf_flat env0 p = true -> forallb quantum_blocks p = true -> forallb no_bit_init p = true -> (ldepth p < default_fuel)%nat ->
  exists tr o, spec_run strict false [] p = Ok tr /\ run_visit false true [] default_fuel p = Ok o /\
    spec_depth tr = total_depth rsrc_eqb (List.concat (evs_of p)) (evs_of p) /\
    forall r, dof (o_state o) r = depth_after rsrc_eqb (evs_of p) r.
Proof.
  intros Hw Hq Hi Hd. destruct (reference_semantics_on_flat_programs strict p Hw Hq Hi) as (tr & E & _ & V).
  destruct (wf_flat_is_accepted_and_a_fixpoint default_fuel p Hw Hd) as [(o & Eo & _ & _ & D) _].
  exists tr, o. split; [exact E|split; [exact Eo|split; [|exact D]]]. unfold spec_depth. now rewrite V.
Qed.
