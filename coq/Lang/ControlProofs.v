(* C08 / C01 (control flow, emission theorems on the visitor model): what a for-loop, a compile-time
   branch, a measurement-conditioned branch and a switch visit and emit, for every body, every value
   list, every state.  Each theorem reads the statement the way the property does:
     - a for-loop visits its body once per value, in order, each time in a fresh block scope in which
       the loop variable holds the value converted to its declared type, and emits the
       concatenation of what the iterations emitted;
     - a compile-time if/else visits exactly the arm its condition selects and nothing of the other;
     - a measurement-conditioned if keeps both arms, each the result of visiting that arm, under the
       condition on the same register bit;
     - a switch visits exactly the body of the first case holding a value equal to the target, else
       the default, else nothing. *)
From Coq Require Import ZArith List Bool String Lia.
From Verif Require Import Aexp BGate PyVal Ast State GatesGen GateLib Unroll.
Import ListNotations.
Open Scope Z_scope.

Lemma bind_ok {A B} (m : M A) (f : A -> M B) s r : bindM m f s = Ok r ->
  exists a s1, m s = Ok (a, s1) /\ f a s1 = Ok r.
Proof. unfold bindM. destruct (m s) as [[a s1]|]; [eauto|discriminate]. Qed.

Lemma guard_ok b e s r : guard b e s = Ok r -> b = true /\ r = (tt, s).
Proof. unfold guard. destruct b; cbn; intros H; inversion H; auto. Qed.

Section Ctl.
Variable check_only : bool.
Variable visit_rec : stmt -> M (list stmt).
Variable call_rec : string -> list expr -> M (pyval * list stmt).

Notation visit_block := (visit_block visit_rec).
Notation eval0 := (eval0 call_rec).

(* ---------------- for-loops ---------------- *)

(* the loop variable, if the declaration made it visible, holds the element converted to (and
   range-checked against) its declared type *)
Definition loop_var_bound (var : string) (v : pyval) (s1 s2 : st) : Prop :=
  match get_visible s1 var with
  | Some x => exists cv, cast_value (v_kind x) (v_size x) v = Ok cv /\
                         s2 = update_var s1 var (set_val x (VVScalar cv))
  | None => s2 = s1
  end.

Section For.
Variables (t : ctype) (var : string) (init : option expr) (body : list stmt).
Variable decl : ctype -> string -> option expr -> M (list stmt).

(* one iteration: fresh block scope, declaration, binding, body, scope dropped *)
Definition iteration (v : pyval) (s : st) (o : list stmt) (s' : st) : Prop :=
  exists d s1 s2 b s3,
    decl t var init (push_scope (push_ctx CBlock s)) = Ok (d, s1) /\
    loop_var_bound var v s1 s2 /\
    visit_block body s2 = Ok (b, s3) /\
    s' = pop_ctx (pop_scope s3) /\ o = d ++ b.

Inductive iterations : list pyval -> st -> list (list stmt) -> st -> Prop :=
| it_nil s : iterations [] s [] s
| it_cons v vals s o s1 outs s' :
    iteration v s o s1 -> iterations vals s1 outs s' -> iterations (v :: vals) s (o :: outs) s'.

Lemma iterations_length vals s outs s' : iterations vals s outs s' -> List.length outs = List.length vals.
Proof. induction 1; simpl; congruence. Qed.
End For.

Lemma one_iteration t var init body decl v (k : M (list stmt)) s r :
  (modify (fun s => push_scope (push_ctx CBlock s));;;
   d <- decl t var init;;
   s <- getst;;
   match get_visible s var with
   | Some x =>
       cv <- assign_value (v_kind x) (v_size x) v;;
       modify (fun s => update_var s var (set_val x (VVScalar cv)))
   | None => ret tt
   end;;;
   b <- visit_block body;;
   modify (fun s => pop_ctx (pop_scope s));;;
   (if check_only then ret [] else rest <- k;; ret (d ++ b ++ rest))) s = Ok r ->
  exists o s1, iteration t var init body decl v s o s1 /\
    (if check_only then r = ([], s1)
     else exists rest s', k s1 = Ok (rest, s') /\ r = (o ++ rest, s')).
Proof.
  intros H.
  apply bind_ok in H as ([] & s0 & E0 & H). unfold modify in E0. inversion E0; subst s0; clear E0.
  apply bind_ok in H as (d & s1 & Ed & H).
  apply bind_ok in H as (sx & s1' & E1 & H). unfold getst in E1. inversion E1; subst sx s1'; clear E1.
  apply bind_ok in H as ([] & s2 & Eb & H).
  apply bind_ok in H as (b & s3 & Ebody & H).
  apply bind_ok in H as ([] & s4 & E4 & H). unfold modify in E4. inversion E4; subst s4; clear E4.
  exists (d ++ b), (pop_ctx (pop_scope s3)). split.
  - exists d, s1, s2, b, s3. repeat split; auto.
    unfold loop_var_bound. destruct (get_visible s1 var) as [x|].
    + apply bind_ok in Eb as (cv & s1' & Ec & Eb). unfold assign_value, lift in Ec.
      destruct (cast_value (v_kind x) (v_size x) v) as [cv'|] eqn:Ecv; [|discriminate].
      inversion Ec; subst cv' s1'. unfold modify in Eb. inversion Eb; subst. exists cv. auto.
    + unfold ret in Eb. inversion Eb; auto.
  - destruct check_only.
    + unfold ret in H. inversion H; auto.
    + apply bind_ok in H as (rest & s' & Ek & H). unfold ret in H. inversion H; subst.
      exists rest, s'. rewrite app_assoc. auto.
Qed.

(* unroll(): the body is visited once per value of the range or set, in order *)
Theorem for_loop_runs_body_once_per_value t var set body decl out s s' :
  check_only = false ->
  visit_for check_only visit_rec call_rec t var set body decl s = Ok (out, s') ->
  exists init vals s0 outs,
    for_values call_rec set s = Ok ((init, vals), s0) /\
    iterations t var init body decl vals s0 outs s' /\
    out = List.concat outs.
Proof.
  intros Hco H. unfold visit_for in H.
  apply bind_ok in H as ([init vals] & s0 & Ev & H).
  exists init, vals, s0. rewrite Ev.
  enough (exists outs, iterations t var init body decl vals s0 outs s' /\ out = List.concat outs)
    as (outs & ? & ?) by (exists outs; auto).
  clear Ev. revert s0 out H. induction vals as [|v vals IH]; intros s0 out H.
  - unfold ret in H. inversion H; subst. exists []. split; [constructor|reflexivity].
  - apply one_iteration in H as (o & s1 & Hit & H). rewrite Hco in H.
    destruct H as (rest & s2 & Hk & Hr). inversion Hr; subst.
    apply IH in Hk as (outs & Hits & ->). exists (o :: outs). split; [econstructor; eauto|reflexivity].
Qed.

(* validate(): the check-only shortcut visits the first iteration only and emits nothing *)
Theorem for_loop_check_only_visits_first_iteration t var set body decl out s s' :
  check_only = true ->
  visit_for check_only visit_rec call_rec t var set body decl s = Ok (out, s') ->
  exists init vals s0,
    for_values call_rec set s = Ok ((init, vals), s0) /\ out = [] /\
    match vals with
    | [] => s' = s0
    | v :: _ => exists o, iteration t var init body decl v s0 o s'
    end.
Proof.
  intros Hco H. unfold visit_for in H.
  apply bind_ok in H as ([init vals] & s0 & Ev & H).
  exists init, vals, s0. rewrite Ev. split; [reflexivity|].
  destruct vals as [|v vals].
  - unfold ret in H. inversion H; auto.
  - apply one_iteration in H as (o & s1 & Hit & H). rewrite Hco in H. inversion H; subst.
    split; [reflexivity|]. exists o. exact Hit.
Qed.

(* ---------------- if / else ---------------- *)
Lemma creg_in_expr_state e : forall s0 s b s1, creg_in_expr s0 e s = Ok (b, s1) -> s1 = s.
Proof.
  induction e; intros s0 s b s1 H; cbn in H;
    try (unfold ret in H; inversion H; reflexivity).
  - (* EIndexE *)
    clear IHe. repeat match type of H with
    | context [match ?x with _ => _ end] => destruct x; cbn in H
    end; unfold ret, ierr, fail in H; inversion H; reflexivity.
  - (* EUn *) eapply IHe; eauto.
  - (* EBin *)
    apply bind_ok in H as (a & sa & Ea & H). apply IHe1 in Ea as ->.
    destruct a; [unfold ret in H; inversion H; reflexivity|eapply IHe2; eauto].
Qed.

(* a condition that mentions no classical register is decided at compile time: exactly the selected
   arm is visited, in a fresh block scope that is dropped afterwards; the other arm is not visited *)
Theorem compile_time_branch_visits_selected_arm cond t e out s s' :
  let s0 := level_push (push_scope (push_ctx CBlock s)) in
  creg_in_expr s0 cond s0 = Ok (false, s0) ->
  visit_branch check_only visit_rec call_rec cond t e s = Ok (out, s') ->
  exists v ne s1 b s2,
    eval0 cond false None s0 = Ok (v, s1) /\
    py_binop OpNe v (VInt 0) = Ok ne /\
    visit_block (if truthy ne then t else e) s1 = Ok (b, s2) /\
    s' = pop_ctx (pop_scope (level_pop s2)) /\
    out = (if check_only then [] else b).
Proof.
  intros s0 Hc H. unfold visit_branch in H.
  apply bind_ok in H as ([] & sa & Ea & H). unfold modify in Ea. inversion Ea; subst sa; clear Ea.
  apply bind_ok in H as ([] & sb & Eb & H). apply guard_ok in Eb as (_ & Eb). inversion Eb; subst sb; clear Eb.
  apply bind_ok in H as (sx & sc & Ec & H). unfold getst in Ec. inversion Ec; subst sx sc; clear Ec.
  fold s0 in H. apply bind_ok in H as (isreg & sd & Ed & H). rewrite Hc in Ed. inversion Ed; subst isreg sd; clear Ed.
  apply bind_ok in H as (o & s2 & Eo & H).
  apply bind_ok in Eo as (v & s1 & Ev & Eo).
  apply bind_ok in Eo as (ne & s1' & Ene & Eo). unfold lift in Ene.
  destruct (py_binop OpNe v (VInt 0)) as [ne'|] eqn:Epy; [|discriminate]. inversion Ene; subst ne' s1'; clear Ene.
  apply bind_ok in H as ([] & s3 & E3 & H). unfold modify in E3. inversion E3; subst s3; clear E3.
  unfold emit, ret in H. inversion H; subst.
  exists v, ne, s1, o, s2. repeat split; auto.
Qed.

(* a condition on a classical register stays in the program: one conditional on the same register
   (bit) whose two blocks are what visiting the two arms emits, in that order *)
Theorem measured_branch_keeps_both_arms cond t e out s s' :
  check_only = false ->
  let s0 := level_push (push_scope (push_ctx CBlock s)) in
  creg_in_expr s0 cond s0 = Ok (true, s0) ->
  visit_branch check_only visit_rec call_rec cond t e s = Ok (out, s') ->
  exists rid rname rhs s1 lhs lit tb s2 eb s3,
    branch_params call_rec cond s0 = Ok ((rid, rname, rhs), s1) /\
    lit = ELit rhs /\
    (lhs = EId rname \/ exists i, lhs = EIndexE (EId rname) (IdxList [IExpr (ELit (VInt i))])) /\
    visit_block t s1 = Ok (tb, s2) /\
    visit_block e s2 = Ok (eb, s3) /\
    s' = pop_ctx (pop_scope (level_pop s3)) /\
    out = [SIf (EBin "==" lhs lit) tb eb].
Proof.
  intros Hco s0 Hc H. unfold visit_branch in H.
  apply bind_ok in H as ([] & sa & Ea & H). unfold modify in Ea. inversion Ea; subst sa; clear Ea.
  apply bind_ok in H as ([] & sb & Eb & H). apply guard_ok in Eb as (_ & Eb). inversion Eb; subst sb; clear Eb.
  apply bind_ok in H as (sx & sc & Ec & H). unfold getst in Ec. inversion Ec; subst sx sc; clear Ec.
  fold s0 in H. apply bind_ok in H as (isreg & sd & Ed & H). rewrite Hc in Ed. inversion Ed; subst isreg sd; clear Ed.
  apply bind_ok in H as (o & s4 & Eo & H).
  apply bind_ok in H as ([] & s5 & E5 & H). unfold modify in E5. inversion E5; subst s5; clear E5.
  unfold emit, ret in H. rewrite Hco in H. inversion H; subst; clear H.
  apply bind_ok in Eo as ([[rid rname] rhs] & s1 & Ep & Eo).
  apply bind_ok in Eo as (sx & s1' & Eg & Eo). unfold getst in Eg. inversion Eg; subst sx s1'; clear Eg.
  destruct (sget rname (creg_sizes s1)) as [size|]; [|discriminate].
  apply bind_ok in Eo as (rid' & s1a & Er & Eo).
  assert (s1a = s1) as ->.
  { destruct rid as [[z|f|b|]|]; cbn in Er; try (unfold ret in Er; inversion Er; reflexivity); try discriminate.
    apply bind_ok in Er as ([] & sq & Eq & Er). unfold validate_index, guard in Eq.
    destruct ((0 <=? z) && (z <? size)); cbn in Eq; [|discriminate]. inversion Eq; subst.
    unfold ret in Er. inversion Er; reflexivity. }
  apply bind_ok in Eo as (lit & s1b & El & Eo).
  assert (s1b = s1 /\ lit = ELit rhs) as [-> ->].
  { destruct rhs; cbn in El; unfold ret, ierr, fail in El; inversion El; auto. }
  apply bind_ok in Eo as (tb & s2 & Et & Eo).
  apply bind_ok in Eo as (eb & s3 & Ee & Eo).
  unfold ret in Eo. inversion Eo; subst; clear Eo.
  exists rid, rname, rhs, s1,
    (match rid' with Some i => EIndexE (EId rname) (IdxList [IExpr (ELit (VInt i))]) | None => EId rname end),
    (ELit rhs).
  do 4 eexists. repeat split; eauto.
  destruct rid'; [right; eauto|left; reflexivity].
Qed.

(* ---------------- switch ---------------- *)
(* the scan of one case's values (the inner loop of visit_switch), named *)
Section Scan.
Variable tv : pyval.
Fixpoint case_scan (vs : list expr) (seen : list pyval) (hit : bool) : M bool :=
  match vs with
  | [] => ret hit
  | e :: vs' =>
      cv <- eval0 e true (Some KInt);;
      guard (negb (existsb (pyval_eqb cv) seen)) EValidation;;;
      eqv <- lift (py_binop OpEq cv tv);;
      case_scan vs' (cv :: seen) (hit || truthy eqv)
  end.
End Scan.

(* which body the cases select, scanning them in order *)
Inductive selects (tv : pyval) (default : option (list stmt))
  : list (list expr * list stmt) -> st -> option (list stmt) -> st -> Prop :=
| sel_default s : selects tv default [] s default s
| sel_hit vals body cs s s1 :
    case_scan tv vals [] false s = Ok (true, s1) -> selects tv default ((vals, body) :: cs) s (Some body) s1
| sel_miss vals body cs s s1 r s2 :
    case_scan tv vals [] false s = Ok (false, s1) -> selects tv default cs s1 r s2 ->
    selects tv default ((vals, body) :: cs) s r s2.

(* a case is hit exactly when one of its (constant, integer) values equals the target *)
Lemma case_scan_hit tv vs : forall seen hit s b s1,
  case_scan tv vs seen hit s = Ok (b, s1) ->
  b = true -> hit = true \/
  exists e cv s2 s3 eqv, In e vs /\ eval0 e true (Some KInt) s2 = Ok (cv, s3) /\
                         py_binop OpEq cv tv = Ok eqv /\ truthy eqv = true.
Proof.
  induction vs as [|e vs IH]; intros seen hit s b s1 H Hb; cbn [case_scan] in H.
  - unfold ret in H. inversion H; subst. auto.
  - apply bind_ok in H as (cv & s2 & Ecv & H).
    apply bind_ok in H as ([] & s3 & Eg & H). apply guard_ok in Eg as (_ & Eg). inversion Eg; subst s3; clear Eg.
    apply bind_ok in H as (eqv & s4 & Eeq & H). unfold lift in Eeq.
    destruct (py_binop OpEq cv tv) as [eqv'|] eqn:Epy; cbn in Eeq; [|discriminate]. inversion Eeq; subst; clear Eeq.
    apply IH in H; auto. destruct H as [H|(e' & cv' & sa & sb & q & Hin & He & Hq & Ht)].
    + apply orb_true_iff in H as [H|H]; [auto|].
      right. exists e, cv. do 3 eexists. split; [now left|]. split; [exact Ecv|]. split; [exact Epy|exact H].
    + right. exists e', cv', sa, sb, q. repeat split; auto. now right.
Qed.


(* a case value that was already listed (in this case) is rejected *)
Lemma duplicate_case_value_rejected tv e vs seen hit s cv s1 :
  eval0 e true (Some KInt) s = Ok (cv, s1) -> existsb (pyval_eqb cv) seen = true ->
  case_scan tv (e :: vs) seen hit s = Err EValidation.
Proof.
  intros He Hd. cbn [case_scan]. unfold bindM at 1. rewrite He. unfold bindM at 1. rewrite Hd. reflexivity.
Qed.

(* one case body (or the default) is visited statement by statement in a fresh block scope *)
Theorem switch_visits_exactly_the_selected_case target cases default out s s' :
  visit_switch check_only visit_rec call_rec target cases default s = Ok (out, s') ->
  exists sa tv s0 r s1,
    eval0 target false None sa = Ok (tv, s0) /\
    selects tv default cases s0 r s1 /\
    match r with
    | Some body => eval_case check_only visit_rec body s1 = Ok (out, s')
    | None => out = [] /\ s' = s1
    end.
Proof.
  intros H. unfold visit_switch in H.
  apply bind_ok in H as (tname & sa & _ & H).
  apply bind_ok in H as (sx & sb & _ & H).
  apply bind_ok in H as ([] & sc & _ & H).
  apply bind_ok in H as (tv & s0 & Etv & H).
  apply bind_ok in H as ([] & s0' & Eg & H). apply guard_ok in Eg as (_ & Eg). inversion Eg; subst s0'; clear Eg.
  exists sc, tv, s0. rewrite Etv.
  enough (exists r s1, selects tv default cases s0 r s1 /\
            match r with Some body => eval_case check_only visit_rec body s1 = Ok (out, s')
                       | None => out = [] /\ s' = s1 end) as (r & s1 & ? & ?) by (exists r, s1; auto).
  clear - H. revert s0 H. induction cases as [|[vals body] cs IH]; intros s0 H.
  - exists default, s0. split; [constructor|]. destruct default; [exact H|]. unfold ret in H. inversion H; auto.
  - apply bind_ok in H as (hit & s1 & Eh & H).
    change (case_scan tv vals [] false s0 = Ok (hit, s1)) in Eh.
    destruct hit.
    + exists (Some body), s1. split; [now constructor|exact H].
    + apply IH in H as (r & s2 & Hs & Hr). exists r, s2. split; [econstructor; eauto|exact Hr].
Qed.

End Ctl.
