(* C01, composition step: if every library-gate application is lowered to a circuit with the same
   meaning up to a global phase, then the lowered (unrolled) program denotes the same
   quantum-classical process as the source-level trace: for every pattern of measurement outcomes
   the same classical memory and the same state up to a global phase, through measurements, resets
   and measurement-conditioned blocks nested to any depth.

   The state space, the equivalence "equal up to a unit scalar", the action of gates, the
   projections of measurement/reset and the evaluation of conditions are Section variables with
   exactly the facts used (the concrete instance is the state-vector semantics of the harness's
   simulator and of Gates/GateCheck.v: equivalence = equality up to a phase, preserved by every
   linear operation). *)
From Coq Require Import List Bool.
Import ListNotations.

Section Process.
Variable S : Type.                         (* (classical memory, quantum state) configurations *)
Variable eqv : S -> S -> Prop.             (* same memory, states equal up to a global phase *)
Hypothesis eqv_refl : forall s, eqv s s.
Hypothesis eqv_trans : forall a b c, eqv a b -> eqv b c -> eqv a c.

Variable G : Type.                         (* source-level operations: one library-gate application *)
Variable B : Type.                         (* basis operations of the unrolled program *)
Variable E : Type.                         (* measurements and resets *)
Variable C : Type.                         (* conditions on the classical memory *)

Variable gsem : G -> S -> S.               (* defining unitary applied to the operand qubits *)
Variable bsem : B -> S -> S.
Variable branch : E -> S -> list S.        (* the projected branches, in a fixed outcome order *)
Variable holds : C -> S -> bool.

Hypothesis bsem_proper : forall b s s', eqv s s' -> eqv (bsem b s) (bsem b s').
Hypothesis gsem_proper : forall g s s', eqv s s' -> eqv (gsem g s) (gsem g s').
Hypothesis branch_proper : forall e s s', eqv s s' -> Forall2 eqv (branch e s) (branch e s').
Hypothesis holds_proper : forall c s s', eqv s s' -> holds c s = holds c s'.

Variable lower : G -> list B.
Definition run_basis (l : list B) (s : S) : S := fold_left (fun s b => bsem b s) l s.
(* C05 / C06 for every library gate (Props/C05.v, Props/C06.v) *)
Hypothesis lower_correct : forall g s, eqv (run_basis (lower g) s) (gsem g s).

(* source-level trace and its lowering *)
Inductive item :=
| IGate (g : G)
| IEvent (e : E)
| IIf (c : C) (t f : list item).

Inductive litem :=
| LBasis (b : B)
| LEvent (e : E)
| LIf (c : C) (t f : list litem).

Fixpoint lower_item (i : item) : list litem :=
  let ll := fix go (l : list item) : list litem := match l with [] => [] | x :: l' => lower_item x ++ go l' end in
  match i with
  | IGate g => map LBasis (lower g)
  | IEvent e => [LEvent e]
  | IIf c t f => [LIf c (ll t) (ll f)]
  end.
Fixpoint lower_prog (l : list item) : list litem :=
  match l with [] => [] | x :: l' => lower_item x ++ lower_prog l' end.

(* execution: the list of configurations, one per pattern of measurement outcomes *)
Fixpoint exec_item (fuel : nat) (i : item) (s : S) : list S :=
  match fuel with
  | O => [s]
  | Datatypes.S n =>
      let exec_list := fix go (l : list item) (ss : list S) : list S :=
                         match l with [] => ss | x :: l' => go l' (flat_map (exec_item n x) ss) end in
      match i with
      | IGate g => [gsem g s]
      | IEvent e => branch e s
      | IIf c t f => if holds c s then exec_list t [s] else exec_list f [s]
      end
  end.
Fixpoint exec (fuel : nat) (l : list item) (ss : list S) : list S :=
  match l with [] => ss | x :: l' => exec fuel l' (flat_map (exec_item fuel x) ss) end.

Fixpoint lexec_item (fuel : nat) (i : litem) (s : S) : list S :=
  match fuel with
  | O => [s]
  | Datatypes.S n =>
      let exec_list := fix go (l : list litem) (ss : list S) : list S :=
                         match l with [] => ss | x :: l' => go l' (flat_map (lexec_item n x) ss) end in
      match i with
      | LBasis b => [bsem b s]
      | LEvent e => branch e s
      | LIf c t f => if holds c s then exec_list t [s] else exec_list f [s]
      end
  end.
Fixpoint lexec (fuel : nat) (l : list litem) (ss : list S) : list S :=
  match l with [] => ss | x :: l' => lexec fuel l' (flat_map (lexec_item fuel x) ss) end.

Lemma exec_block fuel l ss :
  (fix go (l : list item) (ss : list S) : list S :=
     match l with [] => ss | x :: l' => go l' (flat_map (exec_item fuel x) ss) end) l ss = exec fuel l ss.
Proof. revert ss; induction l; simpl; auto. Qed.
Lemma lexec_block fuel l ss :
  (fix go (l : list litem) (ss : list S) : list S :=
     match l with [] => ss | x :: l' => go l' (flat_map (lexec_item fuel x) ss) end) l ss = lexec fuel l ss.
Proof. revert ss; induction l; simpl; auto. Qed.
Lemma lower_block l :
  (fix go (l : list item) : list litem := match l with [] => [] | x :: l' => lower_item x ++ go l' end) l = lower_prog l.
Proof. induction l; simpl; congruence. Qed.

Lemma lexec_app fuel a b ss : lexec fuel (a ++ b) ss = lexec fuel b (lexec fuel a ss).
Proof. revert ss; induction a; simpl; auto. Qed.

Lemma Forall2_flat_map (f g : S -> list S) ss ss' :
  Forall2 eqv ss ss' -> (forall s s', eqv s s' -> Forall2 eqv (f s) (g s')) ->
  Forall2 eqv (flat_map f ss) (flat_map g ss').
Proof.
  intros H Hfg. induction H; simpl; [constructor|]. apply Forall2_app; auto.
Qed.

(* a run of basis gates on one configuration *)
Lemma lexec_basis fuel l s : lexec (Datatypes.S fuel) (map LBasis l) [s] = [run_basis l s].
Proof.
  revert s; induction l as [|b l IH]; intros s; [reflexivity|].
  cbn [map lexec flat_map lexec_item app]. rewrite IH. reflexivity.
Qed.

Lemma run_basis_proper l : forall s s', eqv s s' -> eqv (run_basis l s) (run_basis l s').
Proof. induction l as [|b l IH]; intros s s' H; simpl; auto. Qed.

Lemma flat_map_flat_map {X Y Z} (f : X -> list Y) (g : Y -> list Z) l :
  flat_map g (flat_map f l) = flat_map (fun x => flat_map g (f x)) l.
Proof. induction l as [|x l IH]; simpl; [reflexivity|]. now rewrite flat_map_app, IH. Qed.

Lemma lexec_singletons fuel l : forall ss,
  lexec fuel l ss = flat_map (fun s => lexec fuel l [s]) ss.
Proof.
  induction l as [|x l IH]; intros ss.
  - simpl. induction ss; simpl; congruence.
  - cbn [lexec]. rewrite IH, flat_map_flat_map. apply flat_map_ext. intros s.
    cbn [flat_map]. rewrite app_nil_r. symmetry. apply IH.
Qed.

Lemma lexec0 (l : list litem) xs : lexec 0 l xs = xs.
Proof. revert xs; induction l as [|y l IHl]; intros xs; simpl; auto. rewrite IHl. induction xs; simpl; congruence. Qed.
Lemma exec0 (l : list item) xs : exec 0 l xs = xs.
Proof. revert xs; induction l as [|y l IHl]; intros xs; simpl; auto. rewrite IHl. induction xs; simpl; congruence. Qed.

Lemma lexec_item_if fuel c t f s :
  lexec_item (Datatypes.S fuel) (LIf c t f) s = if holds c s then lexec fuel t [s] else lexec fuel f [s].
Proof. cbn [lexec_item]. now rewrite !lexec_block. Qed.
Lemma exec_item_if fuel c t f s :
  exec_item (Datatypes.S fuel) (IIf c t f) s = if holds c s then exec fuel t [s] else exec fuel f [s].
Proof. cbn [exec_item]. now rewrite !exec_block. Qed.
Lemma lower_item_if c t f : lower_item (IIf c t f) = [LIf c (lower_prog t) (lower_prog f)].
Proof. cbn [lower_item]. now rewrite !lower_block. Qed.

(* main simulation: by induction on the nesting depth available (fuel) and on the program; with fuel
   exhausted both sides stop alike, so the statement holds for every fuel *)
Theorem lowering_preserves_process fuel : forall l ss ss',
  Forall2 eqv ss ss' -> Forall2 eqv (lexec fuel (lower_prog l) ss) (exec fuel l ss').
Proof.
  induction fuel as [|fuel IHf]; intros l ss ss' H.
  - now rewrite lexec0, exec0.
  - revert ss ss' H. induction l as [|x l IH]; intros ss ss' H; [exact H|].
    cbn [lower_prog exec]. rewrite lexec_app. apply IH.
    destruct x as [g|e|c t f].
    + cbn [lower_item]. rewrite lexec_singletons. apply Forall2_flat_map; auto. intros s s' Hs.
      rewrite lexec_basis. cbn [exec_item]. constructor; [|constructor].
      eapply eqv_trans; [apply run_basis_proper; exact Hs|apply lower_correct].
    + cbn [lower_item lexec]. apply Forall2_flat_map; auto. intros s s' Hs.
      cbn [lexec_item exec_item]. now apply branch_proper.
    + rewrite lower_item_if. cbn [lexec]. apply Forall2_flat_map; auto. intros s s' Hs.
      rewrite lexec_item_if, exec_item_if, (holds_proper c s s' Hs).
      destruct (holds c s'); apply IHf; constructor; auto.
Qed.

(* for a single initial configuration: the same number of outcome branches, pairwise equivalent *)
Corollary unrolled_program_same_process fuel l s :
  Forall2 eqv (lexec fuel (lower_prog l) [s]) (exec fuel l [s]).
Proof. apply lowering_preserves_process. constructor; [apply eqv_refl|constructor]. Qed.
End Process.
