(* Custom gates: a top-level definition  gate g(p...) a, b, ... { library gates on the formal qubits, parameters literal or
   formal }  emits nothing, and a call  g(literals) q[i], q[j], ...;  is unrolled to the body with the formal qubits replaced
   by the actual bits and the formal parameters by the actual values, in order ("every call site is replaced by the body of
   its definition with actuals substituted for formals") -- added to the whole-program judgement of Lang/BroadcastProofs.v. *)
From Coq Require Import ZArith List Bool String Lia.
From Verif Require Import Aexp BGate PyVal CastPrim Ast State GatesGen GateLib Unroll ResolveProofs Depth DepthModel ExprProofs FixProofs ParamProofs LoopProofs BroadcastProofs ModUnrollProofs LoopModProofs BranchProofs.
Import ListNotations.
Open Scope Z_scope.

(* ---------- the state inside a gate body ---------- *)
Definition gpush (s : st) (name : string) : st := push_scope (push_ctx CGate (with_gstack s (name :: gstack s))).
Definition gpop (s : st) : st := (fun s1 => with_gstack s1 (tl (gstack s1))) (pop_ctx (pop_scope s)).

Lemma Regs_gpush env s name : Regs env s -> Regs env (gpush s name).
Proof.
  intros [Rq Rc Rg Rf Lq Lc Hq Hc]. unfold gpush, push_scope, push_ctx.
  split; try (destruct s; assumption); eauto.
Qed.

Lemma DE_gpop s name s4 : DE (gpush s name) s4 -> DE s (gpop s4).
Proof.
  intros [E Dq Dc Dq' Dc']. split.
  - transitivity (gpop (nodepth s4)); [destruct s4; reflexivity|]. rewrite E. destruct s; reflexivity.
  - intros b H. assert (HasQ (gpush s name) b) as H' by (destruct s; exact H). apply Dq in H'. destruct s4; exact H'.
  - intros b H. assert (HasC (gpush s name) b) as H' by (destruct s; exact H). apply Dc in H'. destruct s4; exact H'.
  - intros b H. assert (HasQ s4 b) as H' by (destruct s4; exact H). apply Dq' in H'. destruct s; exact H'.
  - intros b H. assert (HasC s4 b) as H' by (destruct s4; exact H). apply Dc' in H'. destruct s; exact H'.
Qed.

Lemma dof_gpush s name r : dof (gpush s name) r = dof s r.
Proof. destruct s; reflexivity. Qed.
Lemma dof_gpop s r : dof (gpop s) r = dof s r.
Proof. destruct s; reflexivity. Qed.

Definition genv0 := list (string * gatedef).

(* ---------- instantiating the body ---------- *)
Definition gq_of (qmap : list (string * bitref)) (q : qarg) : option qarg :=
  match q with
  | QId x => match sget x qmap with Some b => Some (qarg_of b) | None => None end
  | QIdx _ _ => None
  end.

Definition inst_gop (pmap : list (string * pyval)) (qmap : list (string * bitref)) (op : stmt) : option stmt :=
  match op with
  | SGate mods gname gargs gqs =>
      match mapM (gq_of qmap) gqs with
      | Some gqs' => Some (SGate mods gname (map (subst_params pmap) gargs) gqs')
      | None => None
      end
  | _ => None
  end.

Definition gframe (s s' : st) : Prop := gates s' = gates s /\ gstack s' = gstack s.

Lemma gframe_DE s s' : DE s s' -> gframe s s'.
Proof.
  intros D. pose proof (de_core _ _ D) as E. split.
  - transitivity (gates (nodepth s')); [destruct s'; reflexivity|]. rewrite E. destruct s; reflexivity.
  - transitivity (gstack (nodepth s')); [destruct s'; reflexivity|]. rewrite E. destruct s; reflexivity.
Qed.

(* one statement of the body, instantiated and handed to a handler: a (possibly modified) basis gate with closed parameter
   expressions (Lang/ModUnrollProofs.v), or a call of another defined gate *)
Definition handler := stmt -> option (list stmt * list (list rsrc)).

Definition binst (pmap : list (string * pyval)) (qmap : list (string * bitref)) (name : string) (H : handler) (op : stmt)
  : option (list stmt * list (list rsrc)) :=
  match inst_gop pmap qmap op with
  | Some op' => if negb (String.eqb (match op with SGate _ n _ _ => n | _ => "" end) name) then H op' else None
  | None => None
  end.

Definition gop_name (op : stmt) : string := match op with SGate _ n _ _ => n | _ => "" end.

Lemma mapMM_gq qmap gqs : forall gqs' s, mapM (gq_of qmap) gqs = Some gqs' ->
  mapMM (fun q => match q with
                  | QIdx _ _ => verr
                  | QId x => match sget x qmap with Some b => ret (qarg_of b) | None => verr end
                  end) gqs s = Ok (gqs', s).
Proof.
  induction gqs as [|q gqs IH]; intros gqs' s H; cbn [mapM] in H.
  - injection H as <-. reflexivity.
  - destruct (gq_of qmap q) as [q'|] eqn:Eq; [|discriminate]. destruct (mapM (gq_of qmap) gqs) as [r|] eqn:Em; [|discriminate].
    injection H as <-. cbn [mapMM]. destruct q as [x|x idx]; [|discriminate Eq]. cbn [gq_of] in Eq.
    destruct (sget x qmap) as [b|]; [|discriminate Eq]. injection Eq as <-.
    rewrite (bind_eq _ _ s (qarg_of b) s eq_refl). rewrite (bind_eq _ _ s r s (IH r s eq_refl)). reflexivity.
Qed.

(* the actual parameters of a call: closed expressions, evaluated where the call stands *)
Definition cvals (args : list expr) : option (list pyval) := mapM ceval args.

Lemma cvals_eval call_rec args : forall vs s, cvals args = Some vs -> mapMM (fun e => eval0 call_rec e false None) args s = Ok (vs, s).
Proof.
  unfold cvals. induction args as [|e args IH]; intros vs s H; cbn [mapM] in H.
  - injection H as <-. reflexivity.
  - destruct (ceval e) as [v|] eqn:Ev; [|discriminate H]. destruct (mapM ceval args) as [r|] eqn:Em; [|discriminate H]. injection H as <-.
    cbn [mapMM].
    assert (E0 : eval0 call_rec e false None s = Ok (v, s)).
    { unfold eval0. rewrite (bind_eq _ _ s (v, []) s (ceval_eval call_rec e v s Ev)). reflexivity. }
    rewrite (bind_eq _ _ s v s E0). rewrite (bind_eq _ _ s r s (IH r s eq_refl)). reflexivity.
Qed.

Lemma cvals_length args vs : cvals args = Some vs -> List.length vs = List.length args.
Proof.
  unfold cvals. revert vs. induction args as [|e args IH]; intros vs H; cbn [mapM] in H.
  - injection H as <-. reflexivity.
  - destruct (ceval e); [|discriminate H]. destruct (mapM ceval args) as [r|]; [|discriminate H]. injection H as <-.
    cbn. now rewrite (IH r eq_refl).
Qed.


(* ---------- one call, given what the statements of the body unroll to ---------- *)
Section Call.
Variable check_only : bool.
Variable f : nat.
Variables (env : renv) (G : genv0) (name : string) (stk : list string).
Variable H : handler.
(* the handler is right about every statement, in every state that holds the registers, the definitions and this expansion stack *)
Hypothesis HH : forall op' o e s0, H op' = Some (o, e) -> Regs env s0 -> gates s0 = G -> gstack s0 = name :: stk ->
  exists s1, visit_stmt check_only [] (S f) op' s0 = Ok ((if check_only then [] else o), s1) /\ DE s0 s1 /\ Dstep s0 s1 e.

Lemma gate_body_fix pmap qmap body : forall s parts,
  Regs env s -> gates s = G -> gstack s = name :: stk ->
  mapM (binst pmap qmap name H) body = Some parts ->
  exists s',
    concatMM (fun op =>
       match op with
       | SGate mods gname gargs gqs =>
           guard (negb (String.eqb gname name)) EValidation;;;
           let gargs' := map (subst_params pmap) gargs in
           gqs' <- mapMM (fun q => match q with
                                   | QIdx _ _ => verr
                                   | QId x => match sget x qmap with Some b => ret (qarg_of b) | None => verr end
                                   end) gqs;;
           visit_stmt check_only [] (S f) (SGate (if false then mods ++ [MInv] else mods) gname gargs' gqs')
       | SPhase mods arg gqs =>
           let arg' := subst_params pmap arg in
           gqs' <- (match gqs with
                    | [] => ret (map (fun p => qarg_of (snd p)) qmap)
                    | _ => mapMM (fun q => match q with
                                           | QIdx _ _ => verr
                                           | QId x => match sget x qmap with Some b => ret (qarg_of b) | None => verr end
                                           end) gqs
                    end);;
           visit_stmt check_only [] (S f) (SPhase (if false then mods ++ [MInv] else mods) arg' gqs')
       | _ => verr
       end) body s = Ok ((if check_only then [] else List.concat (map fst parts)), s') /\ DE s s' /\
    Dstep s s' (List.concat (map snd parts)).
Proof.
  induction body as [|op body IH]; intros s parts R Hg Hs Hm; cbn [mapM] in Hm.
  - injection Hm as <-. exists s. split; [destruct check_only; reflexivity|]. split; [apply DE_refl|apply Dstep_same; reflexivity].
  - destruct (binst pmap qmap name H op) as [[o e]|] eqn:Eb; [|discriminate Hm].
    match type of Hm with match ?m with _ => _ end = _ => destruct m as [parts'|] eqn:Em; [|discriminate Hm] end. injection Hm as <-.
    unfold binst in Eb. destruct (inst_gop pmap qmap op) as [op'|] eqn:Ei; [|discriminate Eb].
    destruct op; try discriminate Ei. cbn [inst_gop] in Ei.
    destruct (mapM (gq_of qmap) qubits) as [gqs'|] eqn:Eq; [|discriminate Ei]. injection Ei as <-.
    destruct (negb (String.eqb name0 name)) eqn:Hne; [|discriminate Eb].
    destruct (HH (SGate mods name0 (map (subst_params pmap) args) gqs') o e s Eb R Hg Hs) as (s1 & E1 & D1 & S1).
    destruct (gframe_DE _ _ D1) as [Fg Fs].
    destruct (IH s1 parts' (Regs_DE _ _ _ R D1)) as (s2 & E2 & D2 & S2); [congruence|congruence|reflexivity|].
    cbn [concatMM]. rewrite Hne. cbn [guard].
    rewrite (bind_eq _ _ s (if check_only then [] else o) s1).
    2:{ rewrite (bind_eq _ _ s tt s eq_refl). rewrite (bind_eq _ _ s gqs' s (mapMM_gq qmap qubits gqs' s Eq)). exact E1. }
    rewrite (bind_eq _ _ s1 (if check_only then [] else List.concat (map fst parts')) s2 E2). exists s2.
    split; [unfold ret; destruct check_only; reflexivity|].
    split; [eapply DE_trans; eauto|]. cbn [map List.concat fst snd]. eapply Dstep_trans; eauto.
Qed.

Lemma custom_call_core s gd args vs qs bs parts :
  Regs env s -> gates s = G -> gstack s = stk -> sget name G = Some gd -> smem name stk = false ->
  mapMM (fun e => eval0 (visit_call check_only [] (S f)) e false None) args s = Ok (vs, s) -> List.length vs = List.length args ->
  List.length vs = List.length (g_params gd) -> List.length bs = List.length (g_qubits gd) ->
  get_op_bits (visit_call check_only [] (S f)) qs (qreg_sizes s) true s = Ok (bs, s) ->
  mapM (binst (fold_left (fun acc p => sset (fst p) (snd p) acc) (combine (g_params gd) vs) [])
              (dedup_names_last (combine (g_qubits gd) bs)) name H) (g_body gd) = Some parts ->
  exists s', visit_stmt check_only [] (S (S f)) (SGate [] name args qs) s
             = Ok ((if check_only then [] else List.concat (map fst parts)), s') /\ DE s s' /\ Dstep s s' (List.concat (map snd parts)).
Proof.
  intros R HG Hstk Hg Hst Hargs Hla Hv Hb Hres Ep.
  cbn [visit_stmt visit_stmt_body]. set (vr := visit_stmt check_only [] (S f)). set (cr := visit_call check_only [] (S f)).
  unfold visit_generic_gate. cbn [collapse_mods]. rewrite (bind_eq _ _ s (VInt 1, false) s eq_refl).
  rewrite (bind_eq _ _ s s s eq_refl). rewrite (in_some_function_false env s R), andb_false_r.
  rewrite (bind_eq _ _ s qs s eq_refl). rewrite (bind_eq _ _ s 1 s eq_refl).
  cbn [Z.ltb Z.compare guard]. rewrite (bind_eq _ _ s tt s eq_refl).
  change (Z.to_nat 1) with 1%nat. cbn [repeatM].
  set (qmap := dedup_names_last (combine (g_qubits gd) bs)) in *.
  set (pmap := fold_left (fun acc p => sset (fst p) (snd p) acc) (combine (g_params gd) vs) []) in *.
  assert (Hg' : sget name (gates s) = Some gd) by (now rewrite HG).
  assert (Hst' : smem name (gstack s) = false) by (now rewrite Hstk).
  destruct (gate_body_fix pmap qmap (g_body gd) (gpush s name) parts (Regs_gpush env s name R)) as (s4 & E4 & D4 & S4).
  { destruct s; exact HG. } { destruct s; cbn in *. now rewrite Hstk. } { exact Ep. }
  set (out := List.concat (map fst parts)) in *.
  assert (Hc : visit_custom_gate check_only vr cr name args qs false s
               = Ok ((if check_only then [] else out), gpop s4)).
  { unfold visit_custom_gate. rewrite (bind_eq _ _ s s s eq_refl). rewrite Hg'.
    rewrite (bind_eq _ _ s bs s Hres).
    rewrite <- Hla, Hv, Nat.eqb_refl. cbn [guard]. rewrite (bind_eq _ _ s tt s eq_refl).
    rewrite Hb, Nat.eqb_refl. cbn [guard]. rewrite (bind_eq _ _ s tt s eq_refl).
    rewrite (bind_eq _ _ s vs s Hargs).
    rewrite (bind_eq _ _ s s s eq_refl). rewrite Hst'. cbn [negb guard]. rewrite (bind_eq _ _ s tt s eq_refl).
    rewrite (bind_eq _ _ s tt (with_gstack s (name :: gstack s)) eq_refl).
    rewrite (bind_eq _ _ _ tt (gpush s name) eq_refl).
    fold qmap. fold pmap.
    rewrite (bind_eq _ _ (gpush s name) (if check_only then [] else out) s4 E4).
    rewrite (bind_eq _ _ s4 tt (pop_ctx (pop_scope s4)) eq_refl).
    rewrite (bind_eq _ _ _ tt (gpop s4) eq_refl).
    unfold emit, ret. destruct check_only; reflexivity. }
  rewrite (bind_eq _ _ s (if check_only then [] else out) (gpop s4)).
  2:{ rewrite (bind_eq _ _ s (if check_only then [] else out) (gpop s4)).
      - rewrite (bind_eq _ _ (gpop s4) [] (gpop s4) eq_refl). unfold ret. now rewrite app_nil_r.
      - rewrite (bind_eq _ _ s s s eq_refl). cbn [smem existsb]. rewrite (smemk_of _ _ _ Hg'). exact Hc. }
  exists (gpop s4). split; [unfold emit, ret; destruct check_only; reflexivity|]. split; [eapply DE_gpop; eauto|].
  intros N r. rewrite dof_gpop. rewrite (S4 (fun r0 => eq_ind_r (fun z => 0 <= z) (N r0) (dof_gpush s name r0)) r).
  apply run_evs_ext. intros r0. apply dof_gpush.
Qed.
End Call.

(* ---------- calls, nested to any depth below the bound n ---------- *)
Definition ghandler (rec : list string -> string -> list pyval -> list bitref -> option (list stmt * list (list rsrc)))
  (env : renv) (G : genv0) (stk : list string) : handler :=
  fun op' =>
    match op' with
    | SGate mods gname gargs gqs =>
        match sget gname G with
        | Some _ => match mods, mapM (opnd_bits (e_q env)) gqs, cvals gargs with
                    | [], Some bss', Some vs' => if distinctb [] (List.concat bss') then rec stk gname vs' (List.concat bss') else None
                    | _, _, _ => None
                    end
        | None => mod_ok env G op'
        end
    | _ => None
    end.

Fixpoint gcall (n : nat) (env : renv) (G : genv0) (stk : list string) (name : string) (vs : list pyval) (bs : list bitref)
  {struct n} : option (list stmt * list (list rsrc)) :=
  match n with
  | O => None
  | S n' =>
      match sget name G with
      | None => None
      | Some gd =>
          if negb (smem name stk) && Nat.eqb (List.length vs) (List.length (g_params gd)) &&
             Nat.eqb (List.length bs) (List.length (g_qubits gd))
          then
            match mapM (binst (fold_left (fun acc p => sset (fst p) (snd p) acc) (combine (g_params gd) vs) [])
                              (dedup_names_last (combine (g_qubits gd) bs)) name
                              (ghandler (gcall n' env G) env G (name :: stk))) (g_body gd) with
            | Some parts => Some (List.concat (map fst parts), List.concat (map snd parts))
            | None => None
            end
          else None
      end
  end.

Lemma gcall_fix check_only env G n : forall f stk s name args vs qs bss out evs,
  (n <= S f)%nat -> Regs env s -> gates s = G -> gstack s = stk -> cvals args = Some vs ->
  mapM (opnd_bits (e_q env)) qs = Some bss -> distinctb [] (List.concat bss) = true ->
  gcall n env G stk name vs (List.concat bss) = Some (out, evs) ->
  exists s', visit_stmt check_only [] (S (S f)) (SGate [] name args qs) s
             = Ok ((if check_only then [] else out), s') /\ DE s s' /\ Dstep s s' evs.
Proof.
  induction n as [|n IH]; intros f stk s name args vs qs bss out evs Hn R HG Hstk Hargs Hq Hd Hc; [discriminate Hc|].
  cbn [gcall] in Hc. destruct (sget name G) as [gd|] eqn:Eg; [|discriminate Hc].
  match type of Hc with (if ?c then _ else _) = _ => destruct c eqn:C; [|discriminate Hc] end.
  match type of Hc with match ?m with _ => _ end = _ => destruct m as [parts|] eqn:Ep; [|discriminate Hc] end. injection Hc as <- <-.
  apply andb_true_iff in C as [C Hb].
  apply andb_true_iff in C as [Hst Hv]. apply negb_true_iff in Hst. apply Nat.eqb_eq in Hv, Hb.
  eapply (custom_call_core check_only f env G name stk (ghandler (gcall n env G) env G (name :: stk))); eauto.
  4:{ pose proof (get_op_bits_opnds (visit_call check_only [] (S f)) env s true qs bss R Hq Hd) as GB. exact GB. }
  2:{ now apply cvals_eval. }
  2:{ now apply cvals_length. }
  (* the handler *)
  intros op' o e s0 Ho R0 G0 S0. unfold ghandler in Ho. destruct op'; try discriminate Ho.
  destruct (sget name0 G) as [gd0|] eqn:Eg0.
  - destruct mods; [|discriminate Ho]. destruct (mapM (opnd_bits (e_q env)) qubits) as [bss'|] eqn:Eb'; [|discriminate Ho].
    destruct (cvals args0) as [vs'|] eqn:Ev'; [|discriminate Ho].
    destruct (distinctb [] (List.concat bss')) eqn:Ed'; [|discriminate Ho].
    destruct f as [|f']; [assert (n = O) by lia; subst n; discriminate Ho|].
    eapply (IH f' (name :: stk) s0 name0 args0 vs' qubits bss' o e); eauto. lia.
  - eapply mod_fix; eauto.
Qed.

Lemma gcall_ops env G n : forall stk name vs bs out evs, gcall n env G stk name vs bs = Some (out, evs) -> forallb (op_ok env) out = true.
Proof.
  induction n as [|n IH]; intros stk name vs bs out evs Hc; [discriminate Hc|].
  cbn [gcall] in Hc. destruct (sget name G) as [gd|]; [|discriminate Hc].
  match type of Hc with (if ?c then _ else _) = _ => destruct c; [|discriminate Hc] end.
  match type of Hc with match mapM ?h ?b with _ => _ end = _ => generalize dependent b; intros body Hc end.
  match type of Hc with match ?m with _ => _ end = _ => destruct m as [parts|] eqn:Ep; [|discriminate Hc] end. injection Hc as <- _.
  revert parts Ep. induction body as [|op body IHb]; intros parts Ep; cbn [mapM] in Ep.
  - injection Ep as <-. reflexivity.
  - match type of Ep with match ?a with _ => _ end = _ => destruct a as [[o e]|] eqn:Eb; [|discriminate Ep] end.
    match type of Ep with match ?m with _ => _ end = _ => destruct m as [parts'|] eqn:Em; [|discriminate Ep] end. injection Ep as <-.
    cbn [map List.concat fst]. rewrite forallb_app, (IHb parts' eq_refl), andb_true_r.
    unfold binst in Eb. match type of Eb with match ?i with _ => _ end = _ => destruct i as [op'|]; [|discriminate Eb] end.
    destruct (negb _); [|discriminate Eb]. unfold ghandler in Eb. destruct op'; try discriminate Eb.
    destruct (sget name0 G).
    + destruct mods; [|discriminate Eb]. destruct (mapM (opnd_bits (e_q env)) qubits); [|discriminate Eb]. destruct (cvals args); [|discriminate Eb].
      destruct (distinctb [] _); [|discriminate Eb]. eapply IH; eauto.
    + eapply mod_ok_ops; eauto.
Qed.

(* ---------- the other top-level statements leave the definitions and the expansion stack alone ---------- *)
Lemma include_frame check_only env s f fuel : Top env s -> smem f (e_inc env) = false ->
  exists o s', visit_stmt check_only [] (S fuel) (SInclude f) s = Ok (o, s') /\ gframe s s'.
Proof.
  intros T Hf. cbn [visit_stmt visit_stmt_body]. rewrite (bind_eq _ _ s s s eq_refl).
  rewrite (T_inc _ _ T), Hf. cbn [negb guard]. rewrite (bind_eq _ _ s tt s eq_refl).
  rewrite (bind_eq _ _ s tt (with_included s (f :: included s)) eq_refl).
  eexists _, _. split; [reflexivity|]. destruct s; split; reflexivity.
Qed.

Lemma qubit_decl_frame check_only env s name n fuel :
  Top env s -> fresh_name env name = true -> 1 <= n < 100000 ->
  exists o s', visit_stmt check_only [] (S fuel) (SQubitDecl name (Some (ELit (VInt n)))) s = Ok (o, s') /\ gframe s s'.
Proof.
  intros T F Hn. cbn [visit_stmt visit_stmt_body]. unfold visit_qubit_decl.
  rewrite (bind_eq _ _ s n s eq_refl). rewrite (bind_eq _ _ s s s eq_refl).
  rewrite (check_in_scope_fresh env s name T F). cbn [negb guard]. rewrite (bind_eq _ _ s tt s eq_refl).
  assert (Hc : is_constant_name name = false).
  { unfold fresh_name in F. destruct (sget name (e_q env)); [discriminate|]. destruct (sget name (e_c env)); [discriminate|].
    now apply negb_true_iff in F. }
  rewrite Hc. cbn [negb guard]. rewrite (bind_eq _ _ s tt s eq_refl).
  assert (n <? 100000 = true) as -> by (apply Z.ltb_lt; lia). cbn [guard]. rewrite (bind_eq _ _ s tt s eq_refl).
  rewrite (bind_eq _ _ s s s eq_refl).
  destruct T as [R (g & Sc & Hg) Cx (lv & Lv) In Kq Kc].
  assert (Fq : sget name (e_q env) = None /\ sget name (e_c env) = None).
  { unfold fresh_name in F. destruct (sget name (e_q env)); [discriminate|]. destruct (sget name (e_c env)); [discriminate|]. auto. }
  assert (Hg0 : sget name g = None) by (apply Hg; exact Fq).
  set (v := mkVar KQubit (Some n) None VVNone false true false).
  assert (Ha : add_var s name v = Ok (with_scopes s [g ++ [(name, v)]])).
  { unfold add_var. rewrite Sc. unfold smemk, amem. unfold sget in Hg0. now rewrite Hg0. }
  rewrite Ha. cbn [putres]. rewrite (bind_eq _ _ s tt (with_scopes s [g ++ [(name, v)]]) eq_refl).
  match goal with |- exists o s', (modify ?F;;; _) _ = _ /\ _ => rewrite (bind_eq _ _ _ tt (F (with_scopes s [g ++ [(name, v)]])) eq_refl) end.
  eexists _, _. split; [reflexivity|]. destruct s; cbn in *; unfold level_add; cbn; rewrite Lv; split; reflexivity.
Qed.

Lemma bit_decl_frame check_only env s name n init fuel :
  Top env s -> fresh_name env name = true -> 1 <= n < 100000 -> bit_init_ok init = true ->
  exists o s', visit_stmt check_only [] (S fuel) (SClassicalDecl (TBit (Some (ELit (VInt n)))) name init) s = Ok (o, s') /\ gframe s s'.
Proof.
  intros T F Hn Hi. cbn [visit_stmt visit_stmt_body]. unfold visit_classical_decl.
  assert (Hc : is_constant_name name = false).
  { unfold fresh_name in F. destruct (sget name (e_q env)); [discriminate|]. destruct (sget name (e_c env)); [discriminate|].
    now apply negb_true_iff in F. }
  rewrite Hc. cbn [negb guard]. rewrite (bind_eq _ _ s tt s eq_refl). rewrite (bind_eq _ _ s s s eq_refl).
  rewrite (check_in_scope_fresh env s name T F). cbn [negb orb guard]. rewrite (bind_eq _ _ s tt s eq_refl).
  rewrite (bind_eq _ _ s (VInt n) s eq_refl).
  assert (n <=? 0 = false) as -> by (apply Z.leb_gt; lia). rewrite (bind_eq _ _ s n s eq_refl).
  rewrite (bind_eq _ _ s tt s eq_refl).
  assert (Hinit : exists val, (match init with
            | None => ret (VVBits n, [], None)
            | Some (EArrayLit _) => unm "array initialiser"
            | Some e => '(iv, stmts) <- eval (visit_call check_only [] fuel) e false None;;
                        cv <- assign_value (kind_of_ctype (TBit (Some (ELit (VInt n))))) (Some n) iv;;
                        (let lit := match e, iv with
                                    | ELit (VInt _), _ | ELit (VBool _), _ => Some e
                                    | _, _ => Some (ELit iv)
                                    end in ret (VVScalar cv, stmts, lit))
            end) s = Ok ((val, [], init), s)).
  { destruct init as [e|]; [|exists (VVBits n); reflexivity]. destruct e; try discriminate Hi.
    destruct v as [z| |b|]; try discriminate Hi;
      [exists (VVScalar (VBool (negb (z =? 0))))|exists (VVScalar (VBool b))]; reflexivity. }
  destruct Hinit as (val & Ev). rewrite (bind_eq _ _ s (val, [], init) s Ev).
  rewrite (bind_eq _ _ s s s eq_refl).
  destruct T as [R (g & Sc & Hg) Cx (lv & Lv) In Kq Kc].
  assert (Fq : sget name (e_q env) = None /\ sget name (e_c env) = None).
  { unfold fresh_name in F. destruct (sget name (e_q env)); [discriminate|]. destruct (sget name (e_c env)); [discriminate|]. auto. }
  assert (Hg0 : sget name g = None) by (apply Hg; exact Fq).
  set (v := mkVar (kind_of_ctype (TBit (Some (ELit (VInt n))))) (Some n) (Some [n]) val false true false).
  assert (Ha : add_var s name v = Ok (with_scopes s [g ++ [(name, v)]])).
  { unfold add_var. rewrite Sc. unfold smemk, amem. unfold sget in Hg0. now rewrite Hg0. }
  rewrite Ha. cbn [putres]. rewrite (bind_eq _ _ s tt (with_scopes s [g ++ [(name, v)]]) eq_refl).
  assert (n <? 100000 = true) as -> by (apply Z.ltb_lt; lia). cbn [guard]. rewrite (bind_eq _ _ _ tt _ eq_refl).
  match goal with |- exists o s', (modify ?F;;; _) _ = _ /\ _ => rewrite (bind_eq _ _ _ tt (F (with_scopes s [g ++ [(name, v)]])) eq_refl) end.
  eexists _, _. split; [reflexivity|]. destruct s; cbn in *; unfold level_add; cbn; rewrite Lv; split; reflexivity.
Qed.

Lemma top_frame check_only fuel stm env env' s :
  (sdepth stm < fuel)%nat -> Top env s -> top_step env stm = Some env' ->
  exists o s', visit_stmt check_only [] fuel stm s = Ok (o, s') /\ gframe s s'.
Proof.
  intros Hf T Hs. destruct fuel as [|f]; [lia|].
  assert (Hop : forall e, top_step env stm = (if op_ok env stm then Some env else None) -> e = env' ->
                 exists o s', visit_stmt check_only [] (S f) stm s = Ok (o, s') /\ gframe s s').
  { intros e Ht _. rewrite Ht in Hs. destruct (op_ok env stm) eqn:Ho; [|discriminate].
    destruct (op_fix check_only (S f) stm env s Hf (T_regs _ _ T) Ho) as (s' & E & D & Sd).
    eexists _, s'. split; [exact E|now apply gframe_DE]. }
  destruct stm; try (apply (Hop env' eq_refl eq_refl)).
  - cbn [top_step] in Hs. destruct (smem file (e_inc env)) eqn:Ef; [discriminate|]. eapply include_frame; eauto.
  - cbn [top_step] in Hs. destruct size as [e|]; [|apply (Hop env' eq_refl eq_refl)].
    destruct e; try (apply (Hop env' eq_refl eq_refl)). destruct v; try (apply (Hop env' eq_refl eq_refl)).
    destruct (fresh_name env name && (1 <=? z) && (z <? 100000)) eqn:Ec; [|discriminate].
    apply andb_true_iff in Ec as [Ec H2]. apply andb_true_iff in Ec as [H0 H1].
    apply Z.leb_le in H1. apply Z.ltb_lt in H2. eapply qubit_decl_frame; eauto.
  - cbn [top_step] in Hs. destruct t; try (apply (Hop env' eq_refl eq_refl)).
    destruct size as [e|]; [|apply (Hop env' eq_refl eq_refl)].
    destruct e; try (apply (Hop env' eq_refl eq_refl)). destruct v; try (apply (Hop env' eq_refl eq_refl)).
    destruct (fresh_name env name && (1 <=? z) && (z <? 100000) && bit_init_ok init) eqn:Ec; [|discriminate].
    apply andb_true_iff in Ec as [Ec H3]. apply andb_true_iff in Ec as [Ec H2]. apply andb_true_iff in Ec as [H0 H1].
    apply Z.leb_le in H1. apply Z.ltb_lt in H2. eapply bit_decl_frame; eauto.
Qed.

(* ---------- the definition ---------- *)
Lemma gdef_fix check_only fuel env s name params qubits body :
  Top env s -> smemk name (gates s) = false -> assoc name self_basis = None ->
  exists s', visit_stmt check_only [] (S fuel) (SGateDef name params qubits body) s = Ok ([], s') /\ Top env s' /\
             gates s' = sset name (mkGate params qubits body) (gates s) /\ gstack s' = gstack s /\
             num_qubits s' = num_qubits s /\ num_clbits s' = num_clbits s /\ (forall r, dof s' r = dof s r).
Proof.
  intros T Hn Hb. cbn [visit_stmt visit_stmt_body]. rewrite (bind_eq _ _ s s s eq_refl). rewrite Hn. cbn [negb guard].
  rewrite (bind_eq _ _ s tt s eq_refl).
  rewrite (bind_eq _ _ s tt (with_gates s (sset name (mkGate params qubits body) (gates s))) eq_refl).
  eexists. split; [reflexivity|].
  split; [|destruct s; repeat split; reflexivity].
  destruct T as [[Rq Rc Rg Rf Lq Lc Hq Hc] Sc Cx Lv In Kq Kc].
  split; [split| | | | | |]; try (destruct s; cbn in *; assumption).
  intros n np k Hk. assert (n <> name) by (intros ->; congruence).
  assert (G1 : gates (with_gates s (sset name (mkGate params qubits body) (gates s))) = sset name (mkGate params qubits body) (gates s))
    by (destruct s; reflexivity).
  rewrite G1. specialize (Rg n np k Hk). unfold smemk, amem in *. fold (@sget gatedef) in *.
  change (aget String.eqb n (sset name (mkGate params qubits body) (gates s))) with (sget n (sset name (mkGate params qubits body) (gates s))).
  rewrite sget_sset_neq by assumption. exact Rg.
Qed.

(* ---------- programs with gate definitions ---------- *)
Definition genv := genv0.

(* nesting of gate definitions the judgement follows (the visitor's fuel must exceed it) *)
Definition gate_nesting : nat := 24.

Definition gcall_ok (env : renv) (G : genv) (stm : stmt) : option (list stmt * list (list rsrc)) :=
  match stm with
  | SGate [] name args qs =>
      match sget name G, mapM (opnd_bits (e_q env)) qs, cvals args with
      | Some _, Some bss, Some vs => if distinctb [] (List.concat bss) then gcall gate_nesting env G [] name vs (List.concat bss) else None
      | _, _, _ => None
      end
  | _ => None
  end.

(* calls of defined gates inside loop bodies: operands may be indexed by the loop variable *)
Definition hcall (x : string) (v : Z) (env : renv) (G : genv) (stm : stmt) : option (list stmt * list (list rsrc)) :=
  match stm with
  | SGate [] name args qs =>
      match sget name G, mapM (opnd_bits_l x v (e_q env)) qs, cvals args with
      | Some _, Some bss, Some vs =>
          if distinctb [] (List.concat bss) then gcall (Nat.pred gate_nesting) env G [] name vs (List.concat bss) else None
      | _, _, _ => None
      end
  | _ => None
  end.

Lemma gcall_fix_l check_only env G n : forall f s x v name args vs qs bss out evs,
  (n <= S f)%nat -> Regs env s -> InLoop x v s -> gates s = G -> gstack s = [] -> cvals args = Some vs ->
  mapM (opnd_bits_l x v (e_q env)) qs = Some bss -> distinctb [] (List.concat bss) = true ->
  gcall n env G [] name vs (List.concat bss) = Some (out, evs) ->
  exists s', visit_stmt check_only [] (S (S f)) (SGate [] name args qs) s
             = Ok ((if check_only then [] else out), s') /\ DE s s' /\ Dstep s s' evs.
Proof.
  intros f s x v name args vs qs bss out evs Hn R L HG Hstk Hargs Hq Hd Hc.
  destruct n as [|n]; [discriminate Hc|].
  cbn [gcall] in Hc. destruct (sget name G) as [gd|] eqn:Eg; [|discriminate Hc].
  match type of Hc with (if ?c then _ else _) = _ => destruct c eqn:C; [|discriminate Hc] end.
  match type of Hc with match ?m with _ => _ end = _ => destruct m as [parts|] eqn:Ep; [|discriminate Hc] end. injection Hc as <- <-.
  apply andb_true_iff in C as [C Hb].
  apply andb_true_iff in C as [Hst Hv]. apply negb_true_iff in Hst. apply Nat.eqb_eq in Hv, Hb.
  eapply (custom_call_core check_only f env G name [] (ghandler (gcall n env G) env G [name])); eauto.
  4:{ rewrite get_op_bits_gob. now rewrite (gob_opnds_l (visit_call check_only [] (S f)) env s x v qs bss [] R L Hq Hd). }
  2:{ now apply cvals_eval. }
  2:{ now apply cvals_length. }
  intros op' o e s0 Ho R0 G0 S0. unfold ghandler in Ho. destruct op'; try discriminate Ho.
  destruct (sget name0 G) as [gd0|] eqn:Eg0.
  - destruct mods; [|discriminate Ho]. destruct (mapM (opnd_bits (e_q env)) qubits) as [bss'|] eqn:Eb'; [|discriminate Ho].
    destruct (cvals args0) as [vs'|] eqn:Ev'; [|discriminate Ho].
    destruct (distinctb [] (List.concat bss')) eqn:Ed'; [|discriminate Ho].
    destruct f as [|f']; [assert (n = O) by lia; subst n; discriminate Ho|].
    eapply (gcall_fix check_only env G n f' [name] s0 name0 args0 vs' qubits bss' o e); eauto. lia.
  - eapply mod_fix; eauto.
Qed.

Lemma hcall_fix check_only f x v env G s stm o e : (Nat.pred gate_nesting <= S f)%nat ->
  Regs env s -> InLoop x v s -> gates s = G -> gstack s = [] -> hcall x v env G stm = Some (o, e) ->
  exists s1, visit_stmt check_only [] (S (S f)) stm s = Ok ((if check_only then [] else o), s1) /\ DE s s1 /\ Dstep s s1 e.
Proof.
  intros Hn R L HG HS H. destruct stm; try discriminate H. cbn [hcall] in H. destruct mods; [|discriminate H].
  destruct (sget name G) as [gd|] eqn:Eg; [|discriminate H].
  destruct (mapM (opnd_bits_l x v (e_q env)) qubits) as [bss|] eqn:Eb; [|discriminate H]. destruct (cvals args) as [vs|] eqn:Ev; [|discriminate H].
  destruct (distinctb [] (List.concat bss)) eqn:Ed; [|discriminate H].
  eapply gcall_fix_l; eauto.
Qed.

Lemma hcall_ops x v env G stm o e : hcall x v env G stm = Some (o, e) -> forallb (op_ok env) o = true.
Proof.
  intros H. destruct stm; try discriminate H. cbn [hcall] in H. destruct mods; [|discriminate H].
  destruct (sget name G); [|discriminate H]. destruct (mapM (opnd_bits_l x v (e_q env)) qubits) as [bss|]; [|discriminate H].
  destruct (cvals args) as [vs|]; [|discriminate H]. destruct (distinctb [] (List.concat bss)); [|discriminate H].
  eapply gcall_ops; eauto.
Qed.

(* calls of defined gates inside the blocks of a conditional *)
Definition hcallb (env : renv) (G : genv) (stm : stmt) : option (list stmt * list (list rsrc)) :=
  match stm with
  | SGate [] name args qs =>
      match sget name G, mapM (opnd_bits (e_q env)) qs, cvals args with
      | Some _, Some bss, Some vs =>
          if distinctb [] (List.concat bss) then gcall (Nat.pred (Nat.pred gate_nesting)) env G [] name vs (List.concat bss) else None
      | _, _, _ => None
      end
  | _ => None
  end.

Lemma hcallb_fix check_only f env G s stm o e : (Nat.pred gate_nesting <= f)%nat ->
  Regs env s -> gates s = G -> gstack s = [] -> hcallb env G stm = Some (o, e) ->
  exists s1, visit_stmt check_only [] (S f) stm s = Ok ((if check_only then [] else o), s1) /\ DE s s1 /\ Dstep s s1 e.
Proof.
  intros Hn R HG HS H. destruct stm; try discriminate H. cbn [hcallb] in H. destruct mods; [|discriminate H].
  destruct (sget name G) as [gd|] eqn:Eg; [|discriminate H].
  destruct (mapM (opnd_bits (e_q env)) qubits) as [bss|] eqn:Eb; [|discriminate H]. destruct (cvals args) as [vs|] eqn:Ev; [|discriminate H].
  destruct (distinctb [] (List.concat bss)) eqn:Ed; [|discriminate H].
  destruct f as [|f']; [unfold gate_nesting in Hn; cbn in Hn; lia|].
  eapply (gcall_fix check_only env G (Nat.pred (Nat.pred gate_nesting)) f' [] s name args vs qubits bss o e); eauto.
  unfold gate_nesting in *. cbn in *. lia.
Qed.

Lemma hcallb_ops env G stm o e : hcallb env G stm = Some (o, e) -> forallb (op_ok env) o = true.
Proof.
  intros H. destruct stm; try discriminate H. cbn [hcallb] in H. destruct mods; [|discriminate H].
  destruct (sget name G); [|discriminate H]. destruct (mapM (opnd_bits (e_q env)) qubits) as [bss|]; [|discriminate H].
  destruct (cvals args) as [vs|]; [|discriminate H]. destruct (distinctb [] (List.concat bss)); [|discriminate H].
  eapply gcall_ops; eauto.
Qed.

Definition gtop_step (env : renv) (G : genv) (stm : stmt) : option (renv * genv * list stmt * list (list rsrc)) :=
  match stm with
  | SGateDef name params qubits body =>
      if negb (smemk name G) && (match assoc name self_basis with None => true | Some _ => false end)
      then Some (env, sset name (mkGate params qubits body) G, [], []) else None
  | _ =>
      match gcall_ok env G stm with
      | Some (out, evs) => Some (env, G, out, evs)
      | None =>
          match phase_ok stm with
          | Some out => Some (env, G, out, [])
          | None =>
              match mod_ok env G stm with
              | Some (out, evs) => Some (env, G, out, evs)
              | None =>
                  match gloop_ok hcall env G stm with
                  | Some (out, evs) => Some (env, G, out, evs)
                  | None =>
                      match branch_ok hcallb env G stm with
                      | Some (out, evs) => Some (env, G, out, evs)
                      | None => match ptop_step env stm with Some (env', out, evs) => Some (env', G, out, evs) | None => None end
                      end
                  end
              end
          end
      end
  end.

Fixpoint gexpand (env : renv) (G : genv) (l : list stmt) : option (list stmt * list (list rsrc)) :=
  match l with
  | [] => Some ([], [])
  | stm :: l' =>
      match gtop_step env G stm with
      | Some (env', G', out, evs) => match gexpand env' G' l' with Some (r, evr) => Some (out ++ r, evs ++ evr) | None => None end
      | None => None
      end
  end.

Lemma ptop_fix fuel env env' s stm out evs :
  (sdepth stm + 1 < fuel)%nat -> Top env s -> ptop_step env stm = Some (env', out, evs) ->
  exists s1, visit_stmt false [] fuel stm s = Ok (out, s1) /\ Top env' s1 /\
             num_qubits s1 = num_qubits s + total_qubits out /\ num_clbits s1 = num_clbits s + total_clbits out /\
             Dstep s s1 evs /\ (forall r0, wf_flat env (out ++ r0) = wf_flat env' r0) /\ gframe s s1.
Proof.
  intros Hf T Es. unfold ptop_step in Es. destruct (loop_ok env stm) as [out'|] eqn:El.
  - injection Es as <- <- <-. destruct fuel as [|[|f]]; try lia.
    destruct (loop_fix f env s stm out' T El) as (s1 & E1 & T1 & Nq & Nc & S1 & D1).
    pose proof (loop_ok_ops env stm out' El) as Ops. destruct (total_ops env out' Ops) as [Tq Tc].
    exists s1. split; [exact E1|]. split; [exact T1|]. split; [lia|]. split; [lia|]. split; [exact S1|].
    split; [intros r0; now apply wf_flat_ops|now apply gframe_DE].
  - destruct (top_step env stm) as [env''|] eqn:Et.
    + injection Es as <- <- <-.
      destruct (top_fix false fuel stm env env'' s) as (s1 & E1 & T1 & Nq & Nc & S1); [lia|exact T|exact Et|].
      destruct (top_frame false fuel stm env env'' s) as (o2 & s2 & E2 & F2); [lia|exact T|exact Et|].
      rewrite E1 in E2. injection E2 as _ <-.
      exists s1. split; [exact E1|]. split; [exact T1|]. unfold total_qubits, total_clbits. cbn [fold_right].
      split; [lia|]. split; [lia|]. split; [exact S1|]. split; [intros r0; cbn [app wf_flat]; now rewrite Et|exact F2].
    + destruct (bcast_ok env stm) as [[out' evs']|] eqn:Eb; [|discriminate Es]. injection Es as <- <- <-.
      destruct fuel as [|f]; [lia|].
      destruct (bcast_fix false f env s stm out' evs' (T_regs _ _ T) Eb) as (s1 & E1 & D1 & S1).
      pose proof (bcast_ok_ops env stm out' evs' Eb) as Ops. destruct (total_ops env out' Ops) as [Tq Tc].
      destruct (DE_counts _ _ D1) as [Nq Nc].
      exists s1. split; [exact E1|]. split; [eapply Top_DE; eauto|]. split; [lia|]. split; [lia|]. split; [exact S1|].
      split; [intros r0; now apply wf_flat_ops|now apply gframe_DE].
Qed.

Lemma gprogram_fix fuel l : (gate_nesting < fuel)%nat -> forall env G s q evs,
  (ldepth l + 1 < fuel)%nat -> Top env s -> gates s = G -> gstack s = [] -> gexpand env G l = Some (q, evs) ->
  exists s', concatMM (visit_stmt false [] fuel) l s = Ok (q, s') /\
             num_qubits s' = num_qubits s + total_qubits q /\ num_clbits s' = num_clbits s + total_clbits q /\
             Dstep s s' evs /\ wf_flat env q = true.
Proof.
  intros HN. induction l as [|stm l IH]; intros env G s q evs Hf T HG Hst Hx; cbn [concatMM gexpand] in *.
  - injection Hx as <- <-. exists s. split; [reflexivity|]. cbn. split; [lia|]. split; [lia|]. split; [apply Dstep_same; reflexivity|reflexivity].
  - destruct (gtop_step env G stm) as [[[[env' G'] out] ev1]|] eqn:Es; [|discriminate Hx].
    destruct (gexpand env' G' l) as [[r evr]|] eqn:Er; [|discriminate Hx]. injection Hx as <- <-.
    unfold ldepth in Hf. cbn [fold_right] in Hf. fold (ldepth l) in Hf.
    assert (Hstep : exists s1, visit_stmt false [] fuel stm s = Ok (out, s1) /\ Top env' s1 /\
                               num_qubits s1 = num_qubits s + total_qubits out /\ num_clbits s1 = num_clbits s + total_clbits out /\
                               Dstep s s1 ev1 /\ (forall r0, wf_flat env (out ++ r0) = wf_flat env' r0) /\
                               gates s1 = G' /\ gstack s1 = []).
    { assert (Hother : (match gcall_ok env G stm with
                        | Some (out, evs) => Some (env, G, out, evs)
                        | None => match phase_ok stm with
                                  | Some out => Some (env, G, out, [])
                                  | None =>
                                  match mod_ok env G stm with
                                  | Some (out, evs) => Some (env, G, out, evs)
                                  | None => match gloop_ok hcall env G stm with
                                            | Some (out, evs) => Some (env, G, out, evs)
                                            | None => match branch_ok hcallb env G stm with
                                                      | Some (out, evs) => Some (env, G, out, evs)
                                                      | None => match ptop_step env stm with Some (env', out, evs) => Some (env', G, out, evs) | None => None end
                                                      end
                                            end
                                  end end
                        end) = Some (env', G', out, ev1) -> 
                       exists s1, visit_stmt false [] fuel stm s = Ok (out, s1) /\ Top env' s1 /\
                               num_qubits s1 = num_qubits s + total_qubits out /\ num_clbits s1 = num_clbits s + total_clbits out /\
                               Dstep s s1 ev1 /\ (forall r0, wf_flat env (out ++ r0) = wf_flat env' r0) /\
                               gates s1 = G' /\ gstack s1 = []).
      { intros Eo. destruct (gcall_ok env G stm) as [[out' evs']|] eqn:Ec.
        - injection Eo as <- <- <- <-. destruct stm; try discriminate Ec. cbn [gcall_ok] in Ec.
          destruct mods; [|discriminate Ec]. destruct (sget name G) as [gd|] eqn:Eg; [|discriminate Ec].
          destruct (mapM (opnd_bits (e_q env)) qubits) as [bss|] eqn:Eb; [|discriminate Ec]. destruct (cvals args) as [vs|] eqn:Ev; [|discriminate Ec].
          destruct (distinctb [] (List.concat bss)) eqn:Edd; [|discriminate Ec].
          destruct fuel as [|[|f]]; try (cbn in Hf; lia).
          assert (HNf : (gate_nesting <= S f)%nat) by lia.
          destruct (gcall_fix false env G gate_nesting f [] s name args vs qubits bss out' evs' HNf (T_regs _ _ T) HG Hst Ev Eb Edd Ec) as (s1 & E1 & D1 & S1).
          pose proof (gcall_ops env G gate_nesting [] name vs (List.concat bss) out' evs' Ec) as Ops. destruct (total_ops env out' Ops) as [Tq Tc].
          destruct (DE_counts _ _ D1) as [Nq Nc]. destruct (gframe_DE _ _ D1) as [Fg Fs].
          exists s1. split; [exact E1|]. split; [eapply Top_DE; eauto|]. split; [lia|]. split; [lia|]. split; [exact S1|].
          split; [intros r0; now apply wf_flat_ops|]. split; congruence.
        - destruct (phase_ok stm) as [po|] eqn:Epo.
          { injection Eo as <- <- <- <-. destruct fuel as [|f]; [lia|].
            pose proof (phase_gen_fix false f s stm po Epo) as E1.
            pose proof (phase_ok_ops env stm po Epo) as Ops. destruct (total_ops env po Ops) as [Tq Tc].
            exists s. split; [exact E1|]. split; [exact T|]. split; [lia|]. split; [lia|]. split; [apply Dstep_same; reflexivity|].
            split; [intros r0; now apply wf_flat_ops|]. split; assumption. }
          destruct (mod_ok env G stm) as [[mo me]|] eqn:Emo.
          { injection Eo as <- <- <- <-. destruct fuel as [|f]; [lia|].
            destruct (mod_fix false f env G s stm mo me (T_regs _ _ T) HG Emo) as (s1 & E1 & D1 & S1).
            pose proof (mod_ok_ops env G stm mo me Emo) as Ops. destruct (total_ops env mo Ops) as [Tq Tc].
            destruct (DE_counts _ _ D1) as [Nq Nc]. destruct (gframe_DE _ _ D1) as [Fg Fs].
            exists s1. split; [exact E1|]. split; [eapply Top_DE; eauto|]. split; [lia|]. split; [lia|]. split; [exact S1|].
            split; [intros r0; now apply wf_flat_ops|]. split; congruence. }
          destruct (gloop_ok hcall env G stm) as [[lo le]|] eqn:Elo.
          { injection Eo as <- <- <- <-. destruct fuel as [|[|[|f]]]; try (unfold gate_nesting in HN; lia).
            assert (Hnf : (Nat.pred gate_nesting <= S f)%nat) by (unfold gate_nesting in *; lia).
            destruct (gloop_fix hcall (Nat.pred gate_nesting) hcall_fix f env G s stm lo le Hnf T HG Hst Elo) as (s1 & E1 & D1 & S1).
            pose proof (gloop_ok_ops hcall hcall_ops env G stm lo le Elo) as Ops. destruct (total_ops env lo Ops) as [Tq Tc].
            destruct (DE_counts _ _ D1) as [Nq Nc]. destruct (gframe_DE _ _ D1) as [Fg Fs].
            exists s1. split; [exact E1|]. split; [eapply Top_DE; eauto|]. split; [lia|]. split; [lia|]. split; [exact S1|].
            split; [intros r0; now apply wf_flat_ops|]. split; congruence. }
          destruct (branch_ok hcallb env G stm) as [[bo be]|] eqn:Ebo.
          { injection Eo as <- <- <- <-. destruct fuel as [|[|f]]; try lia.
            assert (Hnf : (Nat.pred gate_nesting <= f)%nat) by (unfold gate_nesting in *; cbn; lia).
            destruct (branch_ok_fix hcallb (Nat.pred gate_nesting) hcallb_fix false f env G s stm bo be Hnf (T_regs _ _ T) HG Hst Ebo) as (s1 & E1 & D1 & S1).
            pose proof (branch_ok_ops hcallb env G stm bo be Ebo) as Ops. destruct (total_ops env bo Ops) as [Tq Tc].
            destruct (DE_counts _ _ D1) as [Nq Nc]. destruct (gframe_DE _ _ D1) as [Fg Fs].
            exists s1. split; [exact E1|]. split; [eapply Top_DE; eauto|]. split; [lia|]. split; [lia|]. split; [exact S1|].
            split; [intros r0; now apply wf_flat_ops|]. split; congruence. }
          destruct (ptop_step env stm) as [[[env'' out''] evs'']|] eqn:Ep; [|discriminate Eo]. injection Eo as <- <- <- <-.
          destruct (ptop_fix fuel env env'' s stm out'' evs'') as (s1 & E1 & T1 & Nq & Nc & S1 & W1 & [Fg Fs]); [lia|exact T|exact Ep|].
          exists s1. repeat (split; [assumption|]). split; congruence. }
      destruct stm; try (apply Hother; exact Es).
      cbn [gtop_step] in Es.
      match type of Es with (if ?c then _ else _) = _ => destruct c eqn:C; [|discriminate Es] end. injection Es as <- <- <- <-.
      apply andb_true_iff in C as [Hn Hb]. apply negb_true_iff in Hn. destruct (assoc name self_basis) eqn:Ea; [discriminate Hb|].
      destruct fuel as [|f]; [lia|].
      destruct (gdef_fix false f env s name params qubits body T) as (s1 & E1 & T1 & G1 & St1 & Nq & Nc & Hd); [now rewrite HG|exact Ea|].
      exists s1. split; [exact E1|]. split; [exact T1|]. cbn. split; [lia|]. split; [lia|]. split; [now apply Dstep_same|].
      split; [reflexivity|]. split; congruence. }
    destruct Hstep as (s1 & E1 & T1 & Nq1 & Nc1 & S1 & W1 & G1 & St1).
    destruct (IH env' G' s1 r evr) as (s2 & E2 & Nq2 & Nc2 & S2 & W2); [lia|exact T1|exact G1|exact St1|exact Er|].
    rewrite (bind_eq _ _ s _ s1 E1), (bind_eq _ _ s1 _ s2 E2). exists s2. split; [reflexivity|].
    destruct (total_app out r) as [Aq Ac].
    split; [lia|]. split; [lia|]. split; [eapply Dstep_trans; eauto|]. rewrite W1. exact W2.
Qed.

(* unroll() of a program of includes, register declarations, gate definitions, calls of defined gates, flat operations, loops
   over flat operations and operations on whole registers emits exactly the flat program the judgement computes: definitions
   vanish, every call is replaced by the instantiated body of its definition *)
Theorem programs_with_gate_definitions_unroll_to_their_expansion fuel p q evs :
  gexpand env0 [] p = Some (q, evs) -> (ldepth p + 1 < fuel)%nat -> (gate_nesting < fuel)%nat ->
  exists o, run_visit false false [] fuel p = Ok o /\ o_stmts o = q /\ wf_flat env0 q = true /\
            num_qubits (o_state o) = total_qubits q /\ num_clbits (o_state o) = total_clbits q /\
            forall r, dof (o_state o) r = depth_after rsrc_eqb evs r.
Proof.
  intros Hx Hf HN. unfold run_visit. cbn [andb].
  destruct (gprogram_fix fuel p HN env0 [] init_st q evs Hf Top_init eq_refl eq_refl Hx) as (s2 & E2 & Nq2 & Nc2 & S2 & W).
  rewrite E2. cbn in Nq2, Nc2.
  assert (N0 : nonneg init_st) by (intros r; destruct r as [[|] b]; cbn; lia).
  eexists. split; [reflexivity|]. cbn [o_stmts o_state]. split; [eapply wf_flat_finalize; eauto|].
  split; [exact W|]. split; [assumption|]. split; [assumption|].
  intros r. rewrite (S2 N0 r). unfold depth_after. apply run_evs_ext. intros [[|] b]; reflexivity.
Qed.

(* ---------- validate(): every program of the judgement is accepted, with the counts of its expansion ---------- *)
Lemma loop_first_iteration f x a env body : forall vals s,
  Top env s -> is_constant_name x = false -> int32 a = true -> forallb simple_op body = true ->
  (forall v, In v vals -> int32 v = true /\ forallb (fun stm => op_ok env (inst x v stm)) body = true) ->
  exists s',
    (fix go (vals0 : list pyval) : M (list stmt) :=
       match vals0 with
       | [] => ret []
       | v :: vals' =>
           modify (fun s0 : st => push_scope (push_ctx CBlock s0));;;
           d <- visit_classical_decl true (visit_call true [] (S f)) (TInt None) x (Some (ELit (VInt a)));;
           s0 <- getst;;
           match get_visible s0 x with
           | Some x0 => cv <- assign_value (v_kind x0) (v_size x0) v;; modify (fun s1 : st => update_var s1 x (set_val x0 (VVScalar cv)))
           | None => ret tt
           end;;;
           b0 <- visit_block (visit_stmt true [] (S f)) body;;
           modify (fun s1 : st => pop_ctx (pop_scope s1));;;
           ret []
       end) (map VInt vals) s = Ok ([], s') /\ DE s s'.
Proof.
  intros vals s T Nc Ha Hs Hv. destruct vals as [|v vals].
  - exists s. split; [reflexivity|apply DE_refl].
  - destruct (Hv v (or_introl eq_refl)) as [Iv Okv].
    cbn [map]. cbv beta iota.
    rewrite (bind_eq _ _ s tt (push_scope (push_ctx CBlock s)) eq_refl).
    rewrite (bind_eq _ _ _ [] (lpush s x a) (decl_loop_var true _ env x a s T Nc Ha)).
    rewrite (bind_eq _ _ (lpush s x a) (lpush s x a) (lpush s x a) eq_refl).
    rewrite (bind_eq _ _ (lpush s x a) tt (lpush s x v) (bind_loop_var env s x a v T Nc Iv)).
    pose proof (Regs_lpush env s x v (T_regs _ _ T)) as R1. pose proof (InLoop_lpush env s x v T Nc) as L1.
    destruct (body_block true f x v env body (lpush s x v) R1 L1 Hs Okv) as (s4 & E4 & D4 & S4).
    unfold visit_block. rewrite (bind_eq _ _ (lpush s x v) [] s4 E4).
    rewrite (bind_eq _ _ s4 tt (lpop s4) eq_refl).
    exists (lpop s4). split; [reflexivity|]. exact (DE_lpop s x v s4 D4).
Qed.

Lemma loop_fix_validate f env s stm out : Top env s -> loop_ok env stm = Some out ->
  exists s', visit_stmt true [] (S (S f)) stm s = Ok ([], s') /\ DE s s'.
Proof.
  intros T H. destruct stm; try discriminate H. cbn [loop_ok] in H.
  destruct t; try discriminate H. destruct size; [discriminate H|].
  destruct set as [start stop step|vals|]; try discriminate H.
  destruct start as [[]|]; try discriminate H. destruct v; try discriminate H.
  destruct stop as [[]|]; try discriminate H. destruct v; try discriminate H.
  destruct step; [discriminate H|].
  match type of H with (if ?c then _ else _) = _ => destruct c eqn:C; [|discriminate H] end. injection H as <-.
  apply andb_true_iff in C as [C Hall]. apply andb_true_iff in C as [C Hs]. apply andb_true_iff in C as [C Hn].
  apply andb_true_iff in C as [C Hb]. apply andb_true_iff in C as [Nc Ha]. apply negb_true_iff in Nc. apply Z.leb_le in Hn.
  cbn [visit_stmt visit_stmt_body]. unfold visit_for.
  rewrite (bind_eq _ _ s _ s (for_values_literal _ z z0 s Hn)).
  destruct (loop_first_iteration f var z env body (zrange z z0) s T Nc Ha Hs) as (s' & E & D).
  { intros v Hv. split.
    - pose proof (zrange_in _ _ _ Hv) as R. unfold int32 in *. apply andb_true_iff in Ha as [A0 A1]. apply andb_true_iff in Hb as [B0 B1].
      apply Z.leb_le in A0, A1, B0, B1. apply andb_true_iff. split; apply Z.leb_le; lia.
    - eapply forallb_forall in Hall; eauto. }
  exists s'. split; [exact E|exact D].
Qed.

Lemma gprogram_accepts fuel l : (gate_nesting < fuel)%nat -> forall env G s q evs,
  (ldepth l + 1 < fuel)%nat -> Top env s -> gates s = G -> gstack s = [] -> gexpand env G l = Some (q, evs) ->
  exists s', concatMM (visit_stmt true [] fuel) l s = Ok ([], s') /\
             num_qubits s' = num_qubits s + total_qubits q /\ num_clbits s' = num_clbits s + total_clbits q.
Proof.
  intros HN. induction l as [|stm l IH]; intros env G s q evs Hf T HG Hst Hx; cbn [concatMM gexpand] in *.
  - injection Hx as <- <-. exists s. split; [reflexivity|]. cbn. split; lia.
  - destruct (gtop_step env G stm) as [[[[env' G'] out] ev1]|] eqn:Es; [|discriminate Hx].
    destruct (gexpand env' G' l) as [[r evr]|] eqn:Er; [|discriminate Hx]. injection Hx as <- <-.
    unfold ldepth in Hf. cbn [fold_right] in Hf. fold (ldepth l) in Hf.
    assert (Hstep : exists s1, visit_stmt true [] fuel stm s = Ok ([], s1) /\ Top env' s1 /\
                               num_qubits s1 = num_qubits s + total_qubits out /\ num_clbits s1 = num_clbits s + total_clbits out /\
                               gates s1 = G' /\ gstack s1 = []).
    { assert (HDE : forall s1, DE s s1 -> forallb (op_ok env) out = true -> env' = env -> G' = G ->
                    Top env' s1 /\ num_qubits s1 = num_qubits s + total_qubits out /\ num_clbits s1 = num_clbits s + total_clbits out /\
                    gates s1 = G' /\ gstack s1 = []).
      { intros s1 D1 Ops -> ->. destruct (total_ops env out Ops) as [Tq Tc]. destruct (DE_counts _ _ D1) as [Nq Nc].
        destruct (gframe_DE _ _ D1) as [Fg Fs]. split; [eapply Top_DE; eauto|]. split; [lia|]. split; [lia|]. split; congruence. }
      assert (Hother : (match gcall_ok env G stm with
                        | Some (out, evs) => Some (env, G, out, evs)
                        | None => match phase_ok stm with
                                  | Some out => Some (env, G, out, [])
                                  | None =>
                                  match mod_ok env G stm with
                                  | Some (out, evs) => Some (env, G, out, evs)
                                  | None => match gloop_ok hcall env G stm with
                                            | Some (out, evs) => Some (env, G, out, evs)
                                            | None => match branch_ok hcallb env G stm with
                                                      | Some (out, evs) => Some (env, G, out, evs)
                                                      | None => match ptop_step env stm with Some (env', out, evs) => Some (env', G, out, evs) | None => None end
                                                      end
                                            end
                                  end end
                        end) = Some (env', G', out, ev1) ->
                       exists s1, visit_stmt true [] fuel stm s = Ok ([], s1) /\ Top env' s1 /\
                               num_qubits s1 = num_qubits s + total_qubits out /\ num_clbits s1 = num_clbits s + total_clbits out /\
                               gates s1 = G' /\ gstack s1 = []).
      { intros Eo. destruct (gcall_ok env G stm) as [[out' evs']|] eqn:Ec.
        - injection Eo as <- <- <- <-. destruct stm; try discriminate Ec. cbn [gcall_ok] in Ec.
          destruct mods; [|discriminate Ec]. destruct (sget name G) as [gd|] eqn:Eg; [|discriminate Ec].
          destruct (mapM (opnd_bits (e_q env)) qubits) as [bss|] eqn:Eb; [|discriminate Ec]. destruct (cvals args) as [vs|] eqn:Ev; [|discriminate Ec].
          destruct (distinctb [] (List.concat bss)) eqn:Edd; [|discriminate Ec].
          destruct fuel as [|[|f]]; try (cbn in Hf; lia).
          assert (HNf : (gate_nesting <= S f)%nat) by lia.
          destruct (gcall_fix true env G gate_nesting f [] s name args vs qubits bss out' evs' HNf (T_regs _ _ T) HG Hst Ev Eb Edd Ec) as (s1 & E1 & D1 & S1).
          exists s1. split; [exact E1|]. apply HDE; auto. eapply gcall_ops; eauto.
        - destruct (phase_ok stm) as [po|] eqn:Epo.
          { injection Eo as <- <- <- <-. destruct fuel as [|f]; [lia|].
            pose proof (phase_gen_fix true f s stm po Epo) as E1.
            exists s. split; [exact E1|]. apply HDE; auto; [apply DE_refl|]. eapply phase_ok_ops; eauto. }
          destruct (mod_ok env G stm) as [[mo me]|] eqn:Emo.
          { injection Eo as <- <- <- <-. destruct fuel as [|f]; [lia|].
            destruct (mod_fix true f env G s stm mo me (T_regs _ _ T) HG Emo) as (s1 & E1 & D1 & S1).
            exists s1. split; [exact E1|]. apply HDE; auto. eapply mod_ok_ops; eauto. }
          destruct (gloop_ok hcall env G stm) as [[glo gle]|] eqn:Elo.
          { injection Eo as <- <- <- <-. destruct fuel as [|[|[|f]]]; try (unfold gate_nesting in HN; lia).
            assert (Hnf : (Nat.pred gate_nesting <= S f)%nat) by (unfold gate_nesting in *; lia).
            destruct (gloop_fix_validate hcall (Nat.pred gate_nesting) hcall_fix f env G s stm glo gle Hnf T HG Hst Elo) as (s1 & E1 & D1).
            exists s1. split; [exact E1|]. apply HDE; auto. eapply (gloop_ok_ops hcall hcall_ops); eauto. }
          destruct (branch_ok hcallb env G stm) as [[bo be]|] eqn:Ebo.
          { injection Eo as <- <- <- <-. destruct fuel as [|[|f]]; try lia.
            assert (Hnf : (Nat.pred gate_nesting <= f)%nat) by (unfold gate_nesting in *; cbn; lia).
            destruct (branch_ok_fix hcallb (Nat.pred gate_nesting) hcallb_fix true f env G s stm bo be Hnf (T_regs _ _ T) HG Hst Ebo) as (s1 & E1 & D1 & S1).
            exists s1. split; [exact E1|]. apply HDE; auto. eapply (branch_ok_ops hcallb); eauto. }
          destruct (ptop_step env stm) as [[[env'' out''] evs'']|] eqn:Ep; [|discriminate Eo]. injection Eo as <- <- <- <-.
          unfold ptop_step in Ep. destruct (loop_ok env stm) as [lo|] eqn:El.
          + injection Ep as <- <- <-. destruct fuel as [|[|f]]; try lia.
            destruct (loop_fix_validate f env s stm lo T El) as (s1 & E1 & D1).
            exists s1. split; [exact E1|]. apply HDE; auto. eapply loop_ok_ops; eauto.
          + destruct (top_step env stm) as [env3|] eqn:Et.
            * injection Ep as <- <- <-.
              destruct (top_fix true fuel stm env env3 s) as (s1 & E1 & T1 & Nq & Nc & S1); [lia|exact T|exact Et|].
              destruct (top_frame true fuel stm env env3 s) as (o2 & s2 & E2 & [Fg Fs]); [lia|exact T|exact Et|].
              rewrite E1 in E2. injection E2 as _ <-.
              exists s1. split; [exact E1|]. split; [exact T1|]. unfold total_qubits, total_clbits. cbn [fold_right].
              split; [lia|]. split; [lia|]. split; congruence.
            * destruct (bcast_ok env stm) as [[bo be]|] eqn:Eb; [|discriminate Ep]. injection Ep as <- <- <-.
              destruct fuel as [|f]; [lia|].
              destruct (bcast_fix true f env s stm bo be (T_regs _ _ T) Eb) as (s1 & E1 & D1 & S1).
              exists s1. split; [exact E1|]. apply HDE; auto. eapply bcast_ok_ops; eauto. }
      destruct stm; try (apply Hother; exact Es).
      cbn [gtop_step] in Es.
      match type of Es with (if ?c then _ else _) = _ => destruct c eqn:C; [|discriminate Es] end. injection Es as <- <- <- <-.
      apply andb_true_iff in C as [Hn Hb]. apply negb_true_iff in Hn. destruct (assoc name self_basis) eqn:Ea; [discriminate Hb|].
      destruct fuel as [|f]; [lia|].
      destruct (gdef_fix true f env s name params qubits body T) as (s1 & E1 & T1 & G1 & St1 & Nq & Nc & Hd); [now rewrite HG|exact Ea|].
      exists s1. split; [exact E1|]. split; [exact T1|]. cbn. split; [lia|]. split; [lia|]. split; congruence. }
    destruct Hstep as (s1 & E1 & T1 & Nq1 & Nc1 & G1 & St1).
    destruct (IH env' G' s1 r evr) as (s2 & E2 & Nq2 & Nc2); [lia|exact T1|exact G1|exact St1|exact Er|].
    rewrite (bind_eq _ _ s [] s1 E1), (bind_eq _ _ s1 [] s2 E2). exists s2. split; [reflexivity|].
    destruct (total_app out r) as [Aq Ac]. split; lia.
Qed.

(* validate() accepts every program of the judgement; num_qubits / num_clbits are then the register sizes of the expansion *)
Theorem programs_of_the_judgement_are_accepted_by_validate fuel p q evs :
  gexpand env0 [] p = Some (q, evs) -> (ldepth p + 1 < fuel)%nat -> (gate_nesting < fuel)%nat ->
  exists o, run_visit false true [] fuel p = Ok o /\
            num_qubits (o_state o) = total_qubits q /\ num_clbits (o_state o) = total_clbits q.
Proof.
  intros Hx Hf HN. unfold run_visit. cbn [andb].
  destruct (gprogram_accepts fuel p HN env0 [] init_st q evs Hf Top_init eq_refl eq_refl Hx) as (s2 & E2 & Nq2 & Nc2).
  rewrite E2. cbn in Nq2, Nc2. eexists. split; [reflexivity|]. cbn [o_state]. split; assumption.
Qed.

(* ---------- registers declared without a size ---------- *)
(* `qubit q;` and `bit c;` are visited exactly as `qubit[1] q;` and `bit[1] c;` *)
Definition sized (stm : stmt) : stmt :=
  match stm with
  | SQubitDecl name None => SQubitDecl name (Some (ELit (VInt 1)))
  | SClassicalDecl (TBit None) name init => SClassicalDecl (TBit (Some (ELit (VInt 1)))) name init
  | _ => stm
  end.

Lemma visit_sized co fuel stm s : visit_stmt co [] fuel stm s = visit_stmt co [] fuel (sized stm) s.
Proof.
  destruct fuel as [|f]; [reflexivity|]. destruct stm; try reflexivity.
  - destruct size; reflexivity.
  - destruct t; try reflexivity. destruct size; [reflexivity|]. cbn [sized visit_stmt visit_stmt_body]. unfold visit_classical_decl. reflexivity.
Qed.

Lemma concat_visit_sized co fuel l : forall s, concatMM (visit_stmt co [] fuel) l s = concatMM (visit_stmt co [] fuel) (map sized l) s.
Proof.
  induction l as [|stm l IH]; intros s; [reflexivity|]. cbn [map concatMM]. unfold bindM. rewrite (visit_sized co fuel stm s).
  destruct (visit_stmt co [] fuel (sized stm) s) as [[y s1]|]; [|reflexivity]. rewrite (IH s1). reflexivity.
Qed.

Lemma sdepth_sized stm : sdepth (sized stm) = sdepth stm.
Proof. destruct stm; try reflexivity. - destruct size; reflexivity. - destruct t; try reflexivity. destruct size; reflexivity. Qed.
Lemma ldepth_sized l : ldepth (map sized l) = ldepth l.
Proof. induction l as [|x l IH]; [reflexivity|]. unfold ldepth in *. cbn [map fold_right]. now rewrite IH, sdepth_sized. Qed.

(* the judgement on source programs: unsized registers read as registers of size 1 *)
Definition gjudge (p : list stmt) : option (list stmt * list (list rsrc)) := gexpand env0 [] (map sized p).

Theorem source_programs_unroll_to_their_expansion fuel p q evs :
  gjudge p = Some (q, evs) -> (ldepth p + 1 < fuel)%nat -> (gate_nesting < fuel)%nat ->
  exists o, run_visit false false [] fuel p = Ok o /\ o_stmts o = q /\ wf_flat env0 q = true /\
            num_qubits (o_state o) = total_qubits q /\ num_clbits (o_state o) = total_clbits q /\
            forall r, dof (o_state o) r = depth_after rsrc_eqb evs r.
Proof.
  intros Hx Hf HN. rewrite <- ldepth_sized in Hf.
  destruct (programs_with_gate_definitions_unroll_to_their_expansion fuel (map sized p) q evs Hx Hf HN) as (o & E & R).
  exists o. split; [|exact R]. unfold run_visit in *. cbn [andb] in *. now rewrite concat_visit_sized.
Qed.

Theorem source_programs_are_accepted_by_validate fuel p q evs :
  gjudge p = Some (q, evs) -> (ldepth p + 1 < fuel)%nat -> (gate_nesting < fuel)%nat ->
  exists o, run_visit false true [] fuel p = Ok o /\
            num_qubits (o_state o) = total_qubits q /\ num_clbits (o_state o) = total_clbits q.
Proof.
  intros Hx Hf HN. rewrite <- ldepth_sized in Hf.
  destruct (programs_of_the_judgement_are_accepted_by_validate fuel (map sized p) q evs Hx Hf HN) as (o & E & R).
  exists o. split; [|exact R]. unfold run_visit in *. cbn [andb] in *. now rewrite concat_visit_sized.
Qed.
