(* Lexical-scoping lemmas about the scope machinery of the visitor model (State.v), and the
   inclusive for-loop range (C08). *)
From Coq Require Import ZArith List Bool String Lia.
From Verif Require Import BGate PyVal Ast State Unroll ResolveProofs.
Import ListNotations.
Open Scope Z_scope.

Lemma st_eta s :
  s = mkSt (scopes s) (ctxs s) (included s) (nqlabels s) (nclabels s) (alias_labels s) (qreg_sizes s)
        (alias_sizes s) (fn_sizes s) (fn_maps s) (creg_sizes s) (gates s) (subs s) (label_levels s)
        (qdepth s) (cdepth s) (mod_qregs s) (mod_cregs s) (num_qubits s) (num_clbits s) (gstack s).
Proof. destruct s; reflexivity. Qed.

(* entering and leaving a block restores the stacks exactly *)
Lemma block_push_pop s : pop_ctx (pop_scope (push_scope (push_ctx CBlock s))) = s.
Proof. destruct s; reflexivity. Qed.

(* whatever is declared inside a block (in its own, innermost scope) is gone when the block
   ends, and nothing outside was touched: shadowing declarations and loop variables do not
   outlive their block *)
Lemma add_var_only_top s x v s' : add_var s x v = Ok s' ->
  tl (scopes s') = tl (scopes s) /\ ctxs s' = ctxs s.
Proof.
  unfold add_var. destruct (scopes s) as [|sc rest] eqn:E; [discriminate|].
  destruct (smemk x sc); [discriminate|].
  intros [= <-]. destruct s; simpl in *. subst. split; reflexivity.
Qed.

Theorem declaration_dies_with_block s x v s1 :
  add_var (push_scope (push_ctx CBlock s)) x v = Ok s1 ->
  scopes (pop_ctx (pop_scope s1)) = scopes s /\ ctxs (pop_ctx (pop_scope s1)) = ctxs s.
Proof.
  intros H. apply add_var_only_top in H as [Hs Hc].
  destruct s, s1; simpl in *. subst. split; reflexivity.
Qed.

(* a fresh declaration in a block shadows: it is what lookups inside the block return *)
Lemma sget_app_new x v (sc : scope) : smemk x sc = false -> sget x (sc ++ [(x, v)]) = Some v.
Proof.
  unfold smemk, amem, sget. induction sc as [|[k w] sc IH]; simpl.
  - intros _. rewrite String.eqb_refl. reflexivity.
  - destruct (String.eqb x k); [discriminate|]. exact IH.
Qed.

Theorem shadow_visible_in_block s x v s1 :
  scopes s <> [] ->
  add_var (push_scope (push_ctx CBlock s)) x v = Ok s1 -> get_visible s1 x = Some v.
Proof.
  intros Hne. unfold add_var.
  destruct s as [scs cs inc nq nc al qs als fs fm crs gs sb ll qd cd mq mc n1 n2 gst].
  cbn [scopes push_scope push_ctx with_scopes with_ctxs ctxs].
  destruct (smemk x []) eqn:Hm; [discriminate|]. intros [= <-].
  unfold get_visible, in_global, in_function, in_gate, in_block, nscopes, top_ctx, curr_scope, push_scope,
    push_ctx, with_scopes, with_ctxs in *. simpl in *.
  destruct scs as [|sc scs']; simpl; [contradiction|].
  rewrite String.eqb_refl. reflexivity.
Qed.

(* a block opened at global level or inside another block sees the enclosing variables *)
Theorem block_reads_enclosing_global s x :
  ctxs s <> [] -> in_global s = true ->
  get_visible (push_scope (push_ctx CBlock s)) x = get_visible s x.
Proof.
  destruct s as [scs cs inc nq nc al qs als fs fm crs gs sb ll qd cd mq mc n1 n2 gst].
  intros Hne Hg. unfold get_visible. rewrite Hg.
  cbv [in_global in_function in_gate in_block nscopes top_ctx curr_scope global_scope push_scope push_ctx
       with_scopes with_ctxs scopes ctxs] in *.
  destruct scs as [|g [|g2 rest]]; cbn in Hg; try discriminate.
  destruct cs as [|[] cs']; cbn in Hg, Hne; try discriminate; try contradiction;
    cbn; unfold sget; cbn; destruct (aget String.eqb x g); reflexivity.
Qed.

(* inside a subroutine (FUNCTION context), a name that exists only as a non-constant global is
   invisible: the caller's variables cannot be read or altered *)
Theorem function_body_isolated s x v :
  in_function s = true ->
  sget x (curr_scope s) = None ->
  sget x (global_scope s) = Some v -> v_const v = false ->
  get_visible s x = None.
Proof.
  intros Hf Hc Hg Hv. unfold get_visible.
  assert (in_global s = false).
  { unfold in_function, in_global in *. apply andb_true_iff in Hf as [_ Hf].
    destruct (top_ctx s); simpl in *; try discriminate. rewrite andb_false_r. reflexivity. }
  rewrite H, Hf, Hc, Hg, Hv. simpl.
  assert (in_block s = false).
  { unfold in_function, in_block in *. apply andb_true_iff in Hf as [_ Hf].
    destruct (top_ctx s); simpl in *; try discriminate. rewrite andb_false_r. reflexivity. }
  rewrite H0. reflexivity.
Qed.

(* ... while global constants are visible there *)
Theorem function_body_sees_constants s x v :
  in_function s = true ->
  sget x (curr_scope s) = None ->
  sget x (global_scope s) = Some v -> v_const v = true ->
  get_visible s x = Some v.
Proof.
  intros Hf Hc Hg Hv. unfold get_visible.
  assert (in_global s = false).
  { unfold in_function, in_global in *. apply andb_true_iff in Hf as [_ Hf].
    destruct (top_ctx s); simpl in *; try discriminate. rewrite andb_false_r. reflexivity. }
  rewrite H, Hf, Hc, Hg, Hv. reflexivity.
Qed.

(* a block opened directly in a subroutine body resolves every name as the body does: the body's own
   names, then the global constants (and nothing else of the caller) *)
Theorem block_in_function_reads_as_body s x :
  in_function s = true -> scopes s <> [] ->
  get_visible (push_scope (push_ctx CBlock s)) x = get_visible s x.
Proof.
  intros Hf Hne.
  assert (Hg : in_global s = false).
  { unfold in_function, in_global in *. apply andb_true_iff in Hf as [_ Hf].
    destruct (top_ctx s); simpl in *; try discriminate. rewrite andb_false_r. reflexivity. }
  assert (Hb : in_block s = false).
  { unfold in_function, in_block in *. apply andb_true_iff in Hf as [_ Hf].
    destruct (top_ctx s); simpl in *; try discriminate. rewrite andb_false_r. reflexivity. }
  assert (Hc : top_ctx s = CFunction).
  { unfold in_function in Hf. apply andb_true_iff in Hf as [_ Hf]. destruct (top_ctx s); simpl in *; try discriminate. reflexivity. }
  unfold get_visible at 2. rewrite Hg, Hf, Hb. cbn [orb].
  destruct s as [scs cs inc nq nc al qs als fs fm crs gs sb ll qd cd mq mc n1 n2 gst].
  cbv [in_global in_function in_gate in_block nscopes top_ctx curr_scope global_scope push_scope push_ctx
       with_scopes with_ctxs scopes ctxs get_visible] in *.
  destruct scs as [|b scs']; [contradiction|].
  destruct cs as [|c cs']; cbn in Hc; [discriminate|]. subst c.
  destruct scs' as [|g0 rest]; [cbn in Hf; discriminate|].
  clear Hf Hb Hg Hne.
  cbn [hd ctx_eqb length Nat.eqb Nat.ltb Nat.leb combine block_walk negb].
  change (Datatypes.length ([] :: b :: g0 :: rest)) with (S (S (S (Datatypes.length rest)))).
  change (Datatypes.length (b :: g0 :: rest)) with (S (S (Datatypes.length rest))).
  cbn [Nat.eqb Nat.ltb Nat.leb]. rewrite ?andb_false_r, ?andb_true_r. cbn [orb andb].
  change (sget x []) with (@None var).
  unfold global_const.
  change (last ([] :: b :: g0 :: rest) []) with (last (b :: g0 :: rest) []).
  destruct (sget x b); [reflexivity|].
  destruct (sget x (last (b :: g0 :: rest) [])) as [v|]; [destruct (v_const v)|]; reflexivity.
Qed.

(* ---------- for-loop ranges are inclusive of their end, for either step sign ---------- *)
Theorem for_range_inclusive a b s l x :
  py_range a (b + (if 0 <? s then 1 else -1)) s = Ok l ->
  (In x l <-> exists k, 0 <= k /\ x = a + k * s /\ (if 0 <? s then x <= b else b <= x)).
Proof.
  intros H. rewrite (py_range_In _ _ _ _ x H). split; intros [k [Hk [Hx Hb]]]; exists k;
    (split; [exact Hk|]); (split; [exact Hx|]); destruct (0 <? s); lia.
Qed.

Example for_range_examples :
  py_range 0 (5 + 1) 2 = Ok [0; 2; 4] /\ py_range 5 (0 + -1) (-2) = Ok [5; 3; 1] /\
  py_range 3 (2 + 1) 1 = Ok [] /\ py_range 2 (2 + 1) 1 = Ok [2].
Proof. vm_compute. repeat split; reflexivity. Qed.
