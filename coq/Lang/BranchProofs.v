(* Measurement-conditioned blocks beyond flat operations: the statements of the two blocks may be flat operations or any
   (modified) library gate with closed parameters on registers, slices or bits; the conditional is emitted with its blocks
   unrolled. *)
From Coq Require Import ZArith List Bool String Lia.
From Verif Require Import Aexp BGate PyVal CastPrim Ast State GatesGen GateLib Unroll ResolveProofs Depth DepthModel ExprProofs FixProofs ParamProofs LoopProofs BroadcastProofs ModUnrollProofs LoopModProofs.
Import ListNotations.
Open Scope Z_scope.

Section Br.
(* a further handler for block statements (calls of defined gates, Lang/GateDefProofs.v) *)
Variable hcb : renv -> list (string * gatedef) -> stmt -> option (list stmt * list (list rsrc)).
Variable nmin : nat.
Hypothesis hcb_fix : forall check_only f env G s stm o e, (nmin <= f)%nat ->
  Regs env s -> gates s = G -> gstack s = [] -> hcb env G stm = Some (o, e) ->
  exists s1, visit_stmt check_only [] (S f) stm s = Ok ((if check_only then [] else o), s1) /\ DE s s1 /\ Dstep s s1 e.
Hypothesis hcb_ops : forall env G stm o e, hcb env G stm = Some (o, e) -> forallb (op_ok env) o = true.

Definition hb (env : renv) (G : list (string * gatedef)) (stm : stmt) : option (list stmt * list (list rsrc)) :=
  if simple_op stm && op_ok env stm then Some ([stm], ev_of stm)
  else match mod_ok env G stm with Some r => Some r | None => hcb env G stm end.

Definition hblock (env : renv) (G : list (string * gatedef)) (l : list stmt) : option (list stmt * list (list rsrc)) :=
  match mapM (hb env G) l with
  | Some parts => Some (List.concat (map fst parts), List.concat (map snd parts))
  | None => None
  end.

Section B.
Variable check_only : bool.
Variable f : nat.

Hypothesis Hf : (nmin <= f)%nat.

Lemma hb_fix env G s stm o e : Regs env s -> gates s = G -> gstack s = [] -> hb env G stm = Some (o, e) ->
  exists s1, visit_stmt check_only [] (S f) stm s = Ok ((if check_only then [] else o), s1) /\ DE s s1 /\ Dstep s s1 e.
Proof.
  intros R HG HS H. unfold hb in H. destruct (simple_op stm && op_ok env stm) eqn:C.
  - injection H as <- <-. apply andb_true_iff in C as [Hs Eo].
    assert (Hd : (sdepth stm < S f)%nat) by (destruct stm; try discriminate Hs; cbn; lia).
    exact (op_fix check_only (S f) stm env s Hd R Eo).
  - destruct (mod_ok env G stm) as [[o' e']|] eqn:Em.
    + injection H as <- <-. eapply mod_fix; eauto.
    + eapply hcb_fix; eauto.
Qed.

Lemma hb_ops env G stm o e : hb env G stm = Some (o, e) -> forallb (op_ok env) o = true.
Proof.
  unfold hb. destruct (simple_op stm && op_ok env stm) eqn:C.
  - intros H. injection H as <- _. apply andb_true_iff in C as [_ Eo]. cbn. now rewrite Eo.
  - destruct (mod_ok env G stm) as [[o' e']|] eqn:Em.
    + intros H. injection H as <- <-. eapply mod_ok_ops; eauto.
    + apply hcb_ops.
Qed.

Lemma hblock_fix env G l : forall s out evs, Regs env s -> gates s = G -> gstack s = [] -> hblock env G l = Some (out, evs) ->
  exists s', visit_block (visit_stmt check_only [] (S f)) l s = Ok ((if check_only then [] else out), s') /\ DE s s' /\ Dstep s s' evs.
Proof.
  unfold hblock, visit_block. intros s out evs R HG HS H. destruct (mapM (hb env G) l) as [parts|] eqn:Ep; [|discriminate H]. injection H as <- <-.
  revert s parts R HG HS Ep. induction l as [|x l IH]; intros s parts R HG HS Ep; cbn [mapM] in Ep.
  - injection Ep as <-. exists s. split; [destruct check_only; reflexivity|]. split; [apply DE_refl|apply Dstep_same; reflexivity].
  - destruct (hb env G x) as [[o e]|] eqn:Eb; [|discriminate Ep]. destruct (mapM (hb env G) l) as [parts'|] eqn:Em; [|discriminate Ep]. injection Ep as <-.
    destruct (hb_fix env G s x o e R HG HS Eb) as (s1 & E1 & D1 & S1).
    destruct (IH s1 parts' (Regs_DE _ _ _ R D1)) as (s2 & E2 & D2 & S2); [now rewrite (DE_gates _ _ D1)|now rewrite (DE_gstack _ _ D1)|reflexivity|].
    cbn [concatMM]. rewrite (bind_eq _ _ s (if check_only then [] else o) s1 E1).
    rewrite (bind_eq _ _ s1 (if check_only then [] else List.concat (map fst parts')) s2 E2). exists s2.
    split; [unfold ret; destruct check_only; reflexivity|]. split; [eapply DE_trans; eauto|].
    cbn [map List.concat fst snd]. eapply Dstep_trans; eauto.
Qed.

(* the conditional: both blocks unrolled under the same condition *)
Lemma branch_gen env G s lhs rhs t e ot et oe ee :
  Regs env s -> gates s = G -> gstack s = [] -> cond_ok env lhs rhs = true -> t <> [] ->
  hblock env G t = Some (ot, et) -> hblock env G e = Some (oe, ee) ->
  exists s', visit_branch check_only (visit_stmt check_only [] (S f)) (visit_call check_only [] (S f)) (EBin "==" lhs (ELit rhs)) t e s
             = Ok ((if check_only then [] else [SIf (EBin "==" lhs (ELit rhs)) ot oe]), s') /\ DE s s' /\ Dstep s s' (et ++ ee).
Proof.
  intros R HG HS Hc Ht Hbt Hbe. unfold visit_branch. fold (pushed s).
  rewrite (bind_eq _ _ s tt (pushed s) eq_refl).
  assert (negb (match t with [] => true | _ :: _ => false end) = true) as -> by (destruct t; [congruence|reflexivity]).
  cbn [guard]. rewrite (bind_eq _ _ (pushed s) tt (pushed s) eq_refl).
  rewrite (bind_eq _ _ (pushed s) (pushed s) (pushed s) eq_refl).
  pose proof (Regs_pushed env s R) as Rp.
  assert (Gp : gates (pushed s) = G) by (destruct s; exact HG).
  assert (Sp : gstack (pushed s) = []) by (destruct s; exact HS).
  destruct (hblock_fix env G t (pushed s) ot et Rp Gp Sp Hbt) as (s2 & E2 & D2 & S2).
  destruct (hblock_fix env G e s2 oe ee (Regs_DE _ _ _ Rp D2)) as (s3 & E3 & D3' & S3'); [now rewrite (DE_gates _ _ D2)|now rewrite (DE_gstack _ _ D2)|exact Hbe|].
  assert (D3 : DE (pushed s) s3) by (eapply DE_trans; eauto).
  assert (S3 : Dstep (pushed s) s3 (et ++ ee)) by (eapply Dstep_trans; eauto).
  assert (Spop : Dstep s (popped s3) (et ++ ee)).
  { intros N r.
    assert (Np : nonneg (pushed s)) by (intros r'; specialize (N r'); destruct s; exact N).
    transitivity (dof s3 r); [destruct s3; reflexivity|]. rewrite (S3 Np r). apply run_evs_ext. intros r'. destruct s; reflexivity. }
  unfold cond_ok in Hc.
  destruct lhs as [| | |c|coll idx| | | | | |]; try discriminate Hc.
  - destruct rhs as [z| | |]; try discriminate Hc.
    destruct (sget c (e_c env)) as [size|] eqn:Es; [|discriminate Hc].
    assert (Ec : sget c (creg_sizes (pushed s)) = Some size) by (rewrite (R_c _ _ Rp); exact Es).
    cbn [creg_in_expr]. rewrite (smemk_of _ _ _ Ec).
    rewrite (bind_eq _ _ (pushed s) true (pushed s) eq_refl).
    rewrite (bind_eq _ _ (pushed s) [SIf (EBin "==" (EId c) (ELit (VInt z))) (if check_only then [] else ot) (if check_only then [] else oe)] s3).
    + rewrite (bind_eq _ _ s3 tt (popped s3) eq_refl). exists (popped s3).
      split; [unfold emit, ret; destruct check_only; reflexivity|split; [now apply DE_popped|exact Spop]].
    + rewrite (bind_eq _ _ (pushed s) (None, c, VInt z) (pushed s) eq_refl).
      rewrite (bind_eq _ _ (pushed s) (pushed s) (pushed s) eq_refl). rewrite Ec.
      rewrite (bind_eq _ _ (pushed s) None (pushed s) eq_refl).
      rewrite (bind_eq _ _ (pushed s) (ELit (VInt z)) (pushed s) eq_refl).
      rewrite (bind_eq _ _ (pushed s) _ s2 E2). rewrite (bind_eq _ _ s2 _ s3 E3). reflexivity.
  - destruct coll as [| | |c| | | | | | |]; try discriminate Hc.
    destruct idx as [|items]; try discriminate Hc.
    destruct items as [|[ie|] items']; try discriminate Hc.
    destruct ie as [v| | | | | | | | | |]; try discriminate Hc. destruct v as [i| | |]; try discriminate Hc.
    destruct items' as [|]; try discriminate Hc.
    destruct rhs as [| |b|]; try discriminate Hc.
    unfold in_reg in Hc. cbn [fst snd] in Hc.
    destruct (sget c (e_c env)) as [size|] eqn:Es; [|discriminate Hc].
    assert (Ec : sget c (creg_sizes (pushed s)) = Some size) by (rewrite (R_c _ _ Rp); exact Es).
    cbn [creg_in_expr]. rewrite (smemk_of _ _ _ Ec).
    rewrite (bind_eq _ _ (pushed s) true (pushed s) eq_refl).
    rewrite (bind_eq _ _ (pushed s) [SIf (EBin "==" (EIndexE (EId c) (IdxList [IExpr (ELit (VInt i))])) (ELit (VBool b)))
                                         (if check_only then [] else ot) (if check_only then [] else oe)] s3).
    + rewrite (bind_eq _ _ s3 tt (popped s3) eq_refl). exists (popped s3).
      split; [unfold emit, ret; destruct check_only; reflexivity|split; [now apply DE_popped|exact Spop]].
    + rewrite (bind_eq _ _ (pushed s) (Some (VInt i), c, VBool b) (pushed s)) by (destruct b; reflexivity).
      rewrite (bind_eq _ _ (pushed s) (pushed s) (pushed s) eq_refl). rewrite Ec.
      rewrite (bind_eq _ _ (pushed s) (Some i) (pushed s)).
      2:{ unfold validate_index. rewrite Hc. reflexivity. }
      rewrite (bind_eq _ _ (pushed s) (ELit (VBool b)) (pushed s) eq_refl).
      rewrite (bind_eq _ _ (pushed s) _ s2 E2). rewrite (bind_eq _ _ s2 _ s3 E3). reflexivity.
Qed.
End B.

(* ---------- the statement ---------- *)
Definition branch_ok (env : renv) (G : list (string * gatedef)) (stm : stmt) : option (list stmt * list (list rsrc)) :=
  match stm with
  | SIf (EBin op lhs (ELit rhs)) t e =>
      if String.eqb op "==" && cond_ok env lhs rhs && negb (match t with [] => true | _ => false end) then
        match hblock env G t, hblock env G e with
        | Some (ot, et), Some (oe, ee) =>
            if op_ok env (SIf (EBin "==" lhs (ELit rhs)) ot oe) then Some ([SIf (EBin "==" lhs (ELit rhs)) ot oe], et ++ ee) else None
        | _, _ => None
        end
      else None
  | _ => None
  end.

Lemma branch_ok_fix check_only f env G s stm out evs : (nmin <= f)%nat -> Regs env s -> gates s = G -> gstack s = [] -> branch_ok env G stm = Some (out, evs) ->
  exists s', visit_stmt check_only [] (S (S f)) stm s = Ok ((if check_only then [] else out), s') /\ DE s s' /\ Dstep s s' evs.
Proof.
  intros Hnf R HG HS H. destruct stm; try discriminate H. cbn [branch_ok] in H.
  destruct cond; try discriminate H. destruct cond2; try discriminate H.
  match type of H with (if ?c then _ else _) = _ => destruct c eqn:C; [|discriminate H] end.
  destruct (hblock env G then_) as [[ot et]|] eqn:Et; [|discriminate H]. destruct (hblock env G else_) as [[oe ee]|] eqn:Ee; [|discriminate H].
  destruct (op_ok env _); [|discriminate H]. injection H as <- <-.
  apply andb_true_iff in C as [C Hne]. apply andb_true_iff in C as [Hop Hc]. apply String.eqb_eq in Hop. subst op.
  cbn [visit_stmt visit_stmt_body].
  eapply branch_gen; eauto. destruct then_; [discriminate Hne|congruence].
Qed.

Lemma branch_ok_ops env G stm out evs : branch_ok env G stm = Some (out, evs) -> forallb (op_ok env) out = true.
Proof.
  intros H. destruct stm; try discriminate H. cbn [branch_ok] in H.
  destruct cond; try discriminate H. destruct cond2; try discriminate H.
  match type of H with (if ?c then _ else _) = _ => destruct c; [|discriminate H] end.
  destruct (hblock env G then_) as [[ot et]|]; [|discriminate H]. destruct (hblock env G else_) as [[oe ee]|]; [|discriminate H].
  match type of H with (if ?c then _ else _) = _ => destruct c eqn:Eo; [|discriminate H] end. injection H as <- _.
  cbn [forallb]. now rewrite Eo.
Qed.
End Br.
