(* C07: the model's operators (the table regenerated from maps.OPERATOR_MAP, with Python's dynamic
   semantics of PyVal.v) compute the OpenQASM value the specification assigns (Spec.spec_binop),
   and stores convert to the declared type (uint[n] mod 2^n, int[n] range-checked, bool by
   truthiness), for all operands and all widths. *)
From Coq Require Import ZArith List Bool String PrimFloat Lia.
From Verif Require Import BGate PyVal Ast State GatesGen Unroll Spec.
Import ListNotations.
Open Scope Z_scope.

(* ---------- stores ---------- *)
Theorem store_uint_mod n z : 1 <= n ->
  cast_value KUint (Some n) (VInt z) = Ok (VInt (z mod 2 ^ n)) /\ 0 <= z mod 2 ^ n < 2 ^ n.
Proof.
  intros Hn. split.
  - unfold cast_value. cbn [bind]. assert (n <? 1 = false) as -> by (apply Z.ltb_ge; lia). reflexivity.
  - apply Z.mod_pos_bound. apply Z.pow_pos_nonneg; lia.
Qed.

Theorem store_int_in_range n z : 1 <= n -> - 2 ^ (n - 1) <= z <= 2 ^ (n - 1) - 1 ->
  cast_value KInt (Some n) (VInt z) = Ok (VInt z).
Proof.
  intros Hn Hr. unfold cast_value. cbn [bind]. assert (n <? 1 = false) as -> by (apply Z.ltb_ge; lia).
  assert ((z <? - 2 ^ (n - 1)) || (2 ^ (n - 1) - 1 <? z) = false) as ->; [|reflexivity].
  apply orb_false_iff. split; apply Z.ltb_ge; lia.
Qed.

Theorem store_int_out_of_range n z : 1 <= n -> (z < - 2 ^ (n - 1) \/ 2 ^ (n - 1) - 1 < z) ->
  cast_value KInt (Some n) (VInt z) = Err EValidation.
Proof.
  intros Hn Hr. unfold cast_value. cbn [bind]. assert (n <? 1 = false) as -> by (apply Z.ltb_ge; lia).
  assert ((z <? - 2 ^ (n - 1)) || (2 ^ (n - 1) - 1 <? z) = true) as ->; [|reflexivity].
  apply orb_true_iff. destruct Hr; [left|right]; apply Z.ltb_lt; lia.
Qed.

Theorem store_bool v sz : v <> VNone -> cast_value KBool sz v = Ok (VBool (truthy v)).
Proof. destruct v; simpl; congruence. Qed.

Theorem store_bool_as_int b n : 1 <= n -> cast_value KUint (Some n) (VBool b) = Ok (VInt ((if b then 1 else 0) mod 2 ^ n)).
Proof.
  intros Hn. unfold cast_value. cbn [bind]. assert (n <? 1 = false) as -> by (apply Z.ltb_ge; lia). reflexivity.
Qed.

Definition kind_of_sty (t : sty) : vkind :=
  match t with SInt _ => KInt | SUint _ => KUint | SFloat _ => KFloat | SBool => KBool | SAngleT => KAngle end.
Definition width_of_sty (t : sty) : option Z :=
  match t with SInt n | SUint n | SFloat n => Some n | _ => None end.

(* the model's conversion refines the specification's: the same stored value, the same rejection *)
Lemma store_int_refines n v : 1 <= n -> store (SInt n) v = cast_value KInt (Some n) v \/ (exists f, v = VFloat f /\ float_trunc f = None).
Proof.
  intros Hn. unfold store, cast_value. assert (n <? 1 = false) as -> by (apply Z.ltb_ge; lia).
  destruct v as [z|f|b|]; cbn [bind]; auto. destruct (float_trunc f) eqn:E; cbn [bind]; auto. right; eauto.
Qed.
Lemma store_uint_refines n v : 1 <= n -> store (SUint n) v = cast_value KUint (Some n) v \/ (exists f, v = VFloat f /\ float_trunc f = None).
Proof.
  intros Hn. unfold store, cast_value. assert (n <? 1 = false) as -> by (apply Z.ltb_ge; lia).
  destruct v as [z|f|b|]; cbn [bind]; auto. destruct (float_trunc f) eqn:E; cbn [bind]; auto. right; eauto.
Qed.
Lemma store_float_refines n v : store (SFloat n) v = cast_value KFloat (Some n) v.
Proof. reflexivity. Qed.
Lemma store_bool_refines v : store SBool v = cast_value KBool None v.
Proof. destruct v; reflexivity. Qed.

Theorem store_refines_spec t v r : (forall n, width_of_sty t = Some n -> 1 <= n) ->
  store t v = Ok r -> cast_value (kind_of_sty t) (width_of_sty t) v = Ok r.
Proof.
  intros Hw H. destruct t as [n|n|n| |]; cbn [kind_of_sty width_of_sty].
  - destruct (store_int_refines n v (Hw n eq_refl)) as [E|(f & -> & E)]; [congruence|].
    unfold store in H. rewrite E in H. discriminate.
  - destruct (store_uint_refines n v (Hw n eq_refl)) as [E|(f & -> & E)]; [congruence|].
    unfold store in H. rewrite E in H. discriminate.
  - exact H.
  - rewrite store_bool_refines in H. exact H.
  - discriminate.
Qed.

Theorem store_rejection_refines_spec t v : (forall n, width_of_sty t = Some n -> 1 <= n) ->
  t <> SAngleT -> store t v = Err EValidation -> cast_value (kind_of_sty t) (width_of_sty t) v = Err EValidation.
Proof.
  intros Hw Ha H. destruct t as [n|n|n| |]; cbn [kind_of_sty width_of_sty]; try congruence.
  - destruct (store_int_refines n v (Hw n eq_refl)) as [E|(f & -> & E)]; [congruence|].
    unfold store in H. rewrite E in H. discriminate.
  - destruct (store_uint_refines n v (Hw n eq_refl)) as [E|(f & -> & E)]; [congruence|].
    unfold store in H. rewrite E in H. discriminate.
  - rewrite store_float_refines in H. exact H.
  - rewrite store_bool_refines in H. exact H.
Qed.

(* storing what was stored changes nothing *)
Theorem store_uint_idempotent n z : 1 <= n ->
  cast_value KUint (Some n) (VInt (z mod 2 ^ n)) = Ok (VInt (z mod 2 ^ n)).
Proof.
  intros Hn. destruct (store_uint_mod n (z mod 2 ^ n) Hn) as [-> _]. rewrite Z.mod_mod; [reflexivity|].
  apply Z.pow_nonzero; lia.
Qed.

(* ---------- operators ---------- *)
(* equal as numbers: Python's True/1 and the specification's true/1 are the same operand value *)
Definition same_value (a b : pyval) : Prop := as_num a = as_num b.

Ltac inv_ok :=
  match goal with
  | H : Ok _ = Ok _ |- _ => inversion H; subst; clear H
  | H : Err _ = Ok _ |- _ => discriminate H
  | H : unspec _ = Ok _ |- _ => discriminate H
  | H : checked = Ok _ |- _ => discriminate H
  end.

Ltac case_values a b :=
  destruct a as [x|fx|bx|], b as [y|fy|by_|];
  cbn [int_of to_float as_num as_int arith cmp pyeq intop bitop num_to_float bind truthy] in *.

Ltac finish :=
  unfold bind in *;
  repeat match goal with
         | H : context [match ?c with _ => _ end] |- _ => destruct c eqn:?
         end;
  try inv_ok; try discriminate;
  (eexists; split; reflexivity).

(* one lemma per operator: the specification's value is the model's value *)
Local Ltac op_lemma := intros H; unfold spec_binop in H; cbn [String.eqb Ascii.eqb Bool.eqb] in H; unfold py_binop.

Lemma agree_add a b r : spec_binop "+" a b = Ok r -> exists r', py_binop OpAdd a b = Ok r' /\ same_value r' r.
Proof. op_lemma. unfold same_value. case_values a b; finish. Qed.
Lemma agree_sub a b r : spec_binop "-" a b = Ok r -> exists r', py_binop OpSub a b = Ok r' /\ same_value r' r.
Proof. op_lemma. unfold same_value. case_values a b; finish. Qed.
Lemma agree_mul a b r : spec_binop "*" a b = Ok r -> exists r', py_binop OpMul a b = Ok r' /\ same_value r' r.
Proof. op_lemma. unfold same_value. case_values a b; finish. Qed.
Lemma agree_div a b r : spec_binop "/" a b = Ok r -> exists r', py_binop OpDiv a b = Ok r' /\ same_value r' r.
Proof. op_lemma. unfold same_value. case_values a b; finish. Qed.
Lemma agree_mod a b r : spec_binop "%" a b = Ok r -> exists r', py_binop OpMod a b = Ok r' /\ same_value r' r.
Proof.
  op_lemma. unfold same_value. case_values a b; unfold bind in *;
  repeat match goal with
         | H : context [if ?c then _ else _] |- _ => destruct c eqn:?
         end; try inv_ok; try discriminate;
  match goal with
  | E : (_ <? 0) || (?y <=? 0) = false |- _ =>
      apply orb_false_iff in E as [_ E]; apply Z.leb_gt in E;
      assert (y =? 0 = false) as -> by (apply Z.eqb_neq; lia)
  end; eexists; split; reflexivity.
Qed.
Lemma agree_eq a b r : spec_binop "==" a b = Ok r -> exists r', py_binop OpEq a b = Ok r' /\ same_value r' r.
Proof. op_lemma. unfold same_value. case_values a b; finish. Qed.
Lemma agree_ne a b r : spec_binop "!=" a b = Ok r -> exists r', py_binop OpNe a b = Ok r' /\ same_value r' r.
Proof. op_lemma. unfold same_value. case_values a b; finish. Qed.
Lemma agree_lt a b r : spec_binop "<" a b = Ok r -> exists r', py_binop OpLt a b = Ok r' /\ same_value r' r.
Proof. op_lemma. unfold same_value. case_values a b; finish. Qed.
Lemma agree_gt a b r : spec_binop ">" a b = Ok r -> exists r', py_binop OpGt a b = Ok r' /\ same_value r' r.
Proof. op_lemma. unfold same_value. case_values a b; finish. Qed.
Lemma agree_le a b r : spec_binop "<=" a b = Ok r -> exists r', py_binop OpLe a b = Ok r' /\ same_value r' r.
Proof. op_lemma. unfold same_value. case_values a b; finish. Qed.
Lemma agree_ge a b r : spec_binop ">=" a b = Ok r -> exists r', py_binop OpGe a b = Ok r' /\ same_value r' r.
Proof. op_lemma. unfold same_value. case_values a b; finish. Qed.
Lemma agree_land a b r : spec_binop "&&" a b = Ok r -> exists r', py_binop OpLAnd a b = Ok r' /\ same_value r' r.
Proof. op_lemma. inversion H; subst. eexists; split; reflexivity. Qed.
Lemma agree_lor a b r : spec_binop "||" a b = Ok r -> exists r', py_binop OpLOr a b = Ok r' /\ same_value r' r.
Proof. op_lemma. inversion H; subst. eexists; split; reflexivity. Qed.

Lemma bool_bits (f : Z -> Z -> Z) (g : bool -> bool -> bool) :
  (forall x y : bool, f (if x then 1 else 0) (if y then 1 else 0) = if g x y then 1 else 0) ->
  forall x y : bool, as_num (VBool (g x y)) = as_num (VInt (f (if x then 1 else 0) (if y then 1 else 0))).
Proof. intros H x y. simpl. now rewrite H. Qed.

Lemma agree_band a b r : spec_binop "&" a b = Ok r -> exists r', py_binop OpBitAnd a b = Ok r' /\ same_value r' r.
Proof.
  op_lemma. unfold same_value. case_values a b; unfold bind in *; try inv_ok; try discriminate;
    eexists; (split; [reflexivity|]); try reflexivity.
  destruct bx, by_; reflexivity.
Qed.
Lemma agree_bor a b r : spec_binop "|" a b = Ok r -> exists r', py_binop OpBitOr a b = Ok r' /\ same_value r' r.
Proof.
  op_lemma. unfold same_value. case_values a b; unfold bind in *; try inv_ok; try discriminate;
    eexists; (split; [reflexivity|]); try reflexivity.
  destruct bx, by_; reflexivity.
Qed.
Lemma agree_bxor a b r : spec_binop "^" a b = Ok r -> exists r', py_binop OpXor a b = Ok r' /\ same_value r' r.
Proof.
  op_lemma. unfold same_value. case_values a b; unfold bind in *; try inv_ok; try discriminate;
    eexists; (split; [reflexivity|]); try reflexivity.
  destruct bx, by_; reflexivity.
Qed.
Lemma agree_shl a b r : spec_binop "<<" a b = Ok r -> exists r', py_binop OpShl a b = Ok r' /\ same_value r' r.
Proof.
  op_lemma. unfold same_value. case_values a b; unfold bind in *;
  repeat match goal with
         | H : context [if ?c then _ else _] |- _ => destruct c eqn:?
         end; try inv_ok; try discriminate; eexists; split; reflexivity.
Qed.
Lemma agree_shr a b r : spec_binop ">>" a b = Ok r -> exists r', py_binop OpShr a b = Ok r' /\ same_value r' r.
Proof.
  op_lemma. unfold same_value. case_values a b; unfold bind in *;
  repeat match goal with
         | H : context [if ?c then _ else _] |- _ => destruct c eqn:?
         end; try inv_ok; try discriminate;
  match goal with
  | E : (?y <? 0) || _ = false |- _ => apply orb_false_iff in E as [E _]; rewrite ?E
  end; eexists; split; reflexivity.
Qed.

(* the operator table the visitor uses (regenerated from maps.OPERATOR_MAP on every run) *)
Theorem binop_table_agrees op o a b r :
  assoc op OPERATOR_MAP = Some (Bin o) -> spec_binop op a b = Ok r ->
  exists r', py_binop o a b = Ok r' /\ same_value r' r.
Proof.
  intros Ht Hs.
  assert (Hop : In op ["+"; "-"; "*"; "/"; "%"; "=="; "!="; "<"; ">"; "<="; ">="; "&&"; "||"; "^"; "&"; "|"; "<<"; ">>"]%string
                \/ spec_binop op a b = checked).
  { unfold spec_binop.
    repeat match goal with
           | |- context [String.eqb op ?s] => destruct (String.eqb_spec op s) as [->|?]; [left; simpl; tauto|]
           end. right; reflexivity. }
  destruct Hop as [Hop|Hc]; [|rewrite Hc in Hs; discriminate].
  simpl in Hop.
  repeat (destruct Hop as [<-|Hop]; [vm_compute in Ht; inversion Ht; subst o;
            first [ now apply agree_add | now apply agree_sub | now apply agree_mul | now apply agree_div | now apply agree_mod
                  | now apply agree_eq | now apply agree_ne | now apply agree_lt | now apply agree_gt | now apply agree_le
                  | now apply agree_ge | now apply agree_land | now apply agree_lor | now apply agree_bxor | now apply agree_band
                  | now apply agree_bor | now apply agree_shl | now apply agree_shr ]|]).
  contradiction.
Qed.

(* unary operators of the table *)
Theorem unop_table :
  assoc "!" OPERATOR_MAP = Some (Un OpNot) /\ assoc "~" OPERATOR_MAP = Some (Un OpInvert) /\
  assoc "UMINUS" OPERATOR_MAP = Some (Un OpNeg).
Proof. vm_compute. auto. Qed.

Theorem not_is_logical v : py_unop OpNot v = Ok (VBool (negb (truthy v))).
Proof. reflexivity. Qed.
Theorem neg_is_arithmetic z : py_unop OpNeg (VInt z) = Ok (VInt (- z)).
Proof. reflexivity. Qed.
Theorem invert_is_twos_complement z : py_unop OpInvert (VInt z) = Ok (VInt (- z - 1)).
Proof. reflexivity. Qed.

(* compound assignment x op= e is x = x op e: the model's table of assignment operators *)
Theorem compound_assign_operators :
  forall s, map (fun o => match binop_of_assign o s with Ok (r, _) => r | Err _ => None end)
                ["="; "+="; "-="; "*="; "/="; "%="; "&="; "|="; "^="; "<<="; ">>="]%string
            = [None; Some "+"; Some "-"; Some "*"; Some "/"; Some "%"; Some "&"; Some "|"; Some "^"; Some "<<"; Some ">>"]%string.
Proof. intros s. vm_compute. reflexivity. Qed.
