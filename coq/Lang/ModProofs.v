(* Gate modifiers (C06): the visitor model's _collapse_gate_modifiers computes the product of the
   absolute powers and the parity of the inversions (each `inv`, each negative power), for every
   modifier stack of any length; the result does not depend on the order of the modifiers and is
   multiplicative over concatenation; ctrl/negctrl are rejected; repetition is |k|-fold. *)
From Coq Require Import ZArith List Bool String Lia Permutation.
From Verif Require Import BGate PyVal Ast State Unroll.
Import ListNotations.
Open Scope Z_scope.

Inductive amod := AInv | APow (k : Z).
Definition mod_of (a : amod) : gmod :=
  match a with AInv => MInv | APow k => MPow (Some (ELit (VInt k))) end.

Definition spec_power (l : list amod) : Z :=
  fold_right (fun a p => match a with AInv => p | APow k => Z.abs k * p end) 1 l.
Definition flips (a : amod) : bool := match a with AInv => true | APow k => k <? 0 end.
Definition spec_inv (l : list amod) : bool := fold_right (fun a b => xorb (flips a) b) false l.

Section Collapse.
Variable call_rec : string -> list expr -> M (pyval * list stmt).

Lemma eval0_lit v s : eval0 call_rec (ELit v) false None s = Ok (v, s).
Proof. reflexivity. Qed.

Theorem collapse_spec l : forall p i s,
  collapse_mods call_rec (map mod_of l) (VInt p) i s
  = Ok ((VInt (p * spec_power l), xorb i (spec_inv l)), s).
Proof.
  induction l as [|a l IH]; intros p i s.
  - simpl. unfold ret. rewrite Z.mul_1_r, xorb_false_r. reflexivity.
  - destruct a as [|k]; cbn [map mod_of collapse_mods].
    + rewrite IH. change (spec_power (AInv :: l)) with (spec_power l).
      change (spec_inv (AInv :: l)) with (xorb true (spec_inv l)).
      generalize (spec_inv l) as b. intros b. destruct i, b; reflexivity.
    + change (spec_power (APow k :: l)) with (Z.abs k * spec_power l).
      change (spec_inv (APow k :: l)) with (xorb (k <? 0) (spec_inv l)).
      unfold bindM at 1. rewrite eval0_lit.
      cbv beta iota. unfold bindM at 1. cbn [lift py_binop cmp as_num].
      unfold bindM at 1. unfold ret at 1. unfold bindM at 1. cbn [lift py_binop arith as_num].
      rewrite IH. cbn [truthy].
      replace (p * Z.abs k * spec_power l) with (p * (Z.abs k * spec_power l)) by lia.
      generalize (spec_inv l) as b. intros b. destruct (k <? 0), i, b; reflexivity.
Qed.

(* the modifier stack denotes (|k1|*...*|kn|, parity): independent of the order *)
Lemma spec_power_cons a l : spec_power (a :: l) = match a with AInv => 1 | APow k => Z.abs k end * spec_power l.
Proof. destruct a; unfold spec_power; cbn [fold_right]; ring. Qed.
Lemma spec_power_perm l l' : Permutation l l' -> spec_power l = spec_power l'.
Proof.
  induction 1 as [|a l l' _ IH|a b l|l1 l2 l3 _ IH1 _ IH2]; try congruence.
  - rewrite !spec_power_cons, IH. reflexivity.
  - rewrite !spec_power_cons. ring.
Qed.
Lemma spec_inv_perm l l' : Permutation l l' -> spec_inv l = spec_inv l'.
Proof.
  induction 1 as [|a l l' _ IH|a b l|l1 l2 l3 _ IH1 _ IH2]; simpl; try congruence.
  destruct (flips a), (flips b), (spec_inv l); reflexivity.
Qed.

Theorem collapse_order_independent l l' p i s : Permutation l l' ->
  collapse_mods call_rec (map mod_of l) (VInt p) i s = collapse_mods call_rec (map mod_of l') (VInt p) i s.
Proof. intros H. rewrite !collapse_spec, (spec_power_perm _ _ H), (spec_inv_perm _ _ H). reflexivity. Qed.

(* stacked modifiers compose multiplicatively *)
Theorem collapse_app l1 l2 :
  spec_power (l1 ++ l2) = spec_power l1 * spec_power l2 /\ spec_inv (l1 ++ l2) = xorb (spec_inv l1) (spec_inv l2).
Proof.
  induction l1 as [|a l1 [IHp IHi]].
  - cbn [app]. split; [unfold spec_power at 2; cbn [fold_right]; ring|destruct (spec_inv l2); reflexivity].
  - cbn [app]. split.
    + rewrite !spec_power_cons, IHp. ring.
    + cbn [spec_inv fold_right] in *. fold (spec_inv (l1 ++ l2)). fold (spec_inv l1). rewrite IHi.
      destruct (flips a), (spec_inv l1), (spec_inv l2); reflexivity.
Qed.

(* special cases named in the property *)
Corollary pow_zero_is_nothing l1 l2 : spec_power (l1 ++ APow 0 :: l2) = 0.
Proof. destruct (collapse_app l1 (APow 0 :: l2)) as [-> _]. rewrite spec_power_cons. simpl. ring. Qed.

Corollary inv_inv_cancels l : spec_inv (AInv :: AInv :: l) = spec_inv l /\ spec_power (AInv :: AInv :: l) = spec_power l.
Proof. split; [cbn [spec_inv fold_right flips]; fold (spec_inv l); destruct (spec_inv l); reflexivity | rewrite !spec_power_cons; ring]. Qed.

Corollary pow_neg_is_inverse_pow k l : k < 0 ->
  spec_power (APow k :: l) = spec_power (APow (- k) :: l) /\
  spec_inv (APow k :: l) = spec_inv (AInv :: APow (- k) :: l).
Proof.
  intros Hk. split.
  - rewrite !spec_power_cons. f_equal. lia.
  - cbn [spec_inv fold_right flips]. fold (spec_inv l).
    assert (k <? 0 = true) as -> by (apply Z.ltb_lt; lia).
    assert (- k <? 0 = false) as -> by (apply Z.ltb_ge; lia). destruct (spec_inv l); reflexivity.
Qed.

(* a modified call pyqasm cannot express is rejected *)
Theorem ctrl_rejected e ms p i s :
  collapse_mods call_rec (MCtrl e :: ms) p i s = Err (EInternal KNotImpl) /\
  collapse_mods call_rec (MNegCtrl e :: ms) p i s = Err (EInternal KNotImpl).
Proof. split; reflexivity. Qed.
End Collapse.

(* repetition: repeatM n m runs m n times and concatenates, for a state-independent emitter *)
Lemma repeatM_pure {A} (out : list A) : forall n s,
  repeatM n (fun s => Ok (out, s)) s = Ok (List.concat (repeat out n), s).
Proof.
  induction n as [|n IH]; intros s; [reflexivity|].
  cbn [repeatM repeat List.concat]. unfold bindM. rewrite IH. reflexivity.
Qed.

Lemma repeatM_zero {A} (m : M (list A)) s : repeatM 0 m s = Ok ([], s).
Proof. reflexivity. Qed.

(* reversing a body and inverting member-wise is an involution on the syntactic level: what the
   model does to a custom gate under an even number of inversions *)
Lemma rev_map_involutive {A} (f : A -> A) (l : list A) : (forall x, f (f x) = x) ->
  rev (map f (rev (map f l))) = l.
Proof. intros H. rewrite map_rev, rev_involutive, map_map. rewrite <- (map_id l) at 2. apply map_ext, H. Qed.
