(* Visitor state of pyqasm.visitor.QasmVisitor (plus the module fields a visit updates), and the
   scope machinery of visitor.py:84-249, modelled mechanism for mechanism. *)
From Coq Require Import ZArith List Bool String.
From Verif Require Import BGate PyVal Ast.
Import ListNotations.
Open Scope Z_scope.

Inductive ctx := CGlobal | CBlock | CFunction | CGate.
Definition ctx_eqb (a b : ctx) : bool :=
  match a, b with
  | CGlobal, CGlobal | CBlock, CBlock | CFunction, CFunction | CGate, CGate => true
  | _, _ => false
  end.

Inductive vkind := KQubit | KInt | KUint | KFloat | KBool | KBit | KAngle | KComplex | KOtherT.
Definition vkind_eqb (a b : vkind) : bool :=
  match a, b with
  | KQubit, KQubit | KInt, KInt | KUint, KUint | KFloat, KFloat | KBool, KBool | KBit, KBit
  | KAngle, KAngle | KComplex, KComplex | KOtherT, KOtherT => true
  | _, _ => false
  end.

(* numpy array of a classical array variable: nested lists; a leaf is None until it is assigned *)
Inductive arr :=
| ALeaf (v : option pyval)
| ANode (l : list arr).

Inductive vvalue :=
| VVNone                     (* Python None: uninitialised *)
| VVScalar (v : pyval)
| VVBits (n : Z)             (* numpy array of a bit register (contents not tracked) *)
| VVArr (a : arr).           (* numpy array of an array variable *)

Record var := mkVar {
  v_kind : vkind;
  v_size : option Z;          (* base_size; None models Python None *)
  v_dims : option (list Z);   (* None / [] : not an array *)
  v_val : vvalue;
  v_const : bool;
  v_reg : bool;
  v_ro : bool
}.

Definition set_val (x : var) (v : vvalue) : var :=
  mkVar (v_kind x) (v_size x) (v_dims x) v (v_const x) (v_reg x) (v_ro x).

Record qnode := mkQ { qd : Z; q_resets : Z; q_meas : Z; q_gates : Z; q_barriers : Z }.
Record cnode := mkC { cd : Z; c_meas : Z }.

Record gatedef := mkGate { g_params : list string; g_qubits : list string; g_body : list stmt }.
Record subdef := mkSub { s_args : list farg; s_ret : option ctype; s_body : list stmt }.

Definition scope := list (string * var).
Definition bitref := (string * Z)%type.

Record st := mkSt {
  scopes : list scope;                         (* innermost first; last is the global scope *)
  ctxs : list ctx;                             (* innermost first *)
  included : list string;
  nqlabels : Z;                                (* len(_qubit_labels) *)
  nclabels : Z;
  alias_labels : list (bitref * bitref);
  qreg_sizes : list (string * Z);
  alias_sizes : list (string * Z);
  fn_sizes : list (list (string * Z));         (* innermost first *)
  fn_maps : list (list (bitref * bitref));
  creg_sizes : list (string * Z);
  gates : list (string * gatedef);
  subs : list (string * subdef);
  label_levels : list (list string);           (* head = level _curr_scope, last = level 0 *)
  qdepth : list (bitref * qnode);
  cdepth : list (bitref * cnode);
  mod_qregs : list (string * Z);               (* module._qubit_registers *)
  mod_cregs : list (string * Z);
  num_qubits : Z;
  num_clbits : Z;
  gstack : list string                        (* custom gates currently being expanded *)
}.

Definition init_st : st :=
  mkSt [[]] [CGlobal] [] 0 0 [] [] [] [] [] [] [] [] [[]] [] [] [] [] 0 0 [].

(* ---- association lists with Python dict semantics (assignment overwrites in place) ---- *)
Section Alist.
Context {K V : Type} (keqb : K -> K -> bool).
Fixpoint aget (k : K) (l : list (K * V)) : option V :=
  match l with
  | [] => None
  | (k', v) :: l' => if keqb k k' then Some v else aget k l'
  end.
Fixpoint aset (k : K) (v : V) (l : list (K * V)) : list (K * V) :=
  match l with
  | [] => [(k, v)]
  | (k', v') :: l' => if keqb k k' then (k, v) :: l' else (k', v') :: aset k v l'
  end.
Definition amem (k : K) (l : list (K * V)) : bool :=
  match aget k l with Some _ => true | None => false end.
Fixpoint adel (k : K) (l : list (K * V)) : list (K * V) :=
  match l with
  | [] => []
  | (k', v') :: l' => if keqb k k' then l' else (k', v') :: adel k l'
  end.
End Alist.

Definition bitref_eqb (a b : bitref) : bool := String.eqb (fst a) (fst b) && Z.eqb (snd a) (snd b).
Definition sget {V} := @aget string V String.eqb.
Definition sset {V} := @aset string V String.eqb.
Definition smemk {V} := @amem string V String.eqb.
Definition bget {V} := @aget bitref V bitref_eqb.
Definition bset {V} := @aset bitref V bitref_eqb.

(* ---- record updates ---- *)
Definition with_scopes (s : st) x := mkSt x (ctxs s) (included s) (nqlabels s) (nclabels s) (alias_labels s) (qreg_sizes s) (alias_sizes s) (fn_sizes s) (fn_maps s) (creg_sizes s) (gates s) (subs s) (label_levels s) (qdepth s) (cdepth s) (mod_qregs s) (mod_cregs s) (num_qubits s) (num_clbits s) (gstack s).
Definition with_ctxs (s : st) x := mkSt (scopes s) x (included s) (nqlabels s) (nclabels s) (alias_labels s) (qreg_sizes s) (alias_sizes s) (fn_sizes s) (fn_maps s) (creg_sizes s) (gates s) (subs s) (label_levels s) (qdepth s) (cdepth s) (mod_qregs s) (mod_cregs s) (num_qubits s) (num_clbits s) (gstack s).
Definition with_included (s : st) x := mkSt (scopes s) (ctxs s) x (nqlabels s) (nclabels s) (alias_labels s) (qreg_sizes s) (alias_sizes s) (fn_sizes s) (fn_maps s) (creg_sizes s) (gates s) (subs s) (label_levels s) (qdepth s) (cdepth s) (mod_qregs s) (mod_cregs s) (num_qubits s) (num_clbits s) (gstack s).
Definition with_nqlabels (s : st) x := mkSt (scopes s) (ctxs s) (included s) x (nclabels s) (alias_labels s) (qreg_sizes s) (alias_sizes s) (fn_sizes s) (fn_maps s) (creg_sizes s) (gates s) (subs s) (label_levels s) (qdepth s) (cdepth s) (mod_qregs s) (mod_cregs s) (num_qubits s) (num_clbits s) (gstack s).
Definition with_nclabels (s : st) x := mkSt (scopes s) (ctxs s) (included s) (nqlabels s) x (alias_labels s) (qreg_sizes s) (alias_sizes s) (fn_sizes s) (fn_maps s) (creg_sizes s) (gates s) (subs s) (label_levels s) (qdepth s) (cdepth s) (mod_qregs s) (mod_cregs s) (num_qubits s) (num_clbits s) (gstack s).
Definition with_alias_labels (s : st) x := mkSt (scopes s) (ctxs s) (included s) (nqlabels s) (nclabels s) x (qreg_sizes s) (alias_sizes s) (fn_sizes s) (fn_maps s) (creg_sizes s) (gates s) (subs s) (label_levels s) (qdepth s) (cdepth s) (mod_qregs s) (mod_cregs s) (num_qubits s) (num_clbits s) (gstack s).
Definition with_qreg_sizes (s : st) x := mkSt (scopes s) (ctxs s) (included s) (nqlabels s) (nclabels s) (alias_labels s) x (alias_sizes s) (fn_sizes s) (fn_maps s) (creg_sizes s) (gates s) (subs s) (label_levels s) (qdepth s) (cdepth s) (mod_qregs s) (mod_cregs s) (num_qubits s) (num_clbits s) (gstack s).
Definition with_alias_sizes (s : st) x := mkSt (scopes s) (ctxs s) (included s) (nqlabels s) (nclabels s) (alias_labels s) (qreg_sizes s) x (fn_sizes s) (fn_maps s) (creg_sizes s) (gates s) (subs s) (label_levels s) (qdepth s) (cdepth s) (mod_qregs s) (mod_cregs s) (num_qubits s) (num_clbits s) (gstack s).
Definition with_fn (s : st) x y := mkSt (scopes s) (ctxs s) (included s) (nqlabels s) (nclabels s) (alias_labels s) (qreg_sizes s) (alias_sizes s) x y (creg_sizes s) (gates s) (subs s) (label_levels s) (qdepth s) (cdepth s) (mod_qregs s) (mod_cregs s) (num_qubits s) (num_clbits s) (gstack s).
Definition with_creg_sizes (s : st) x := mkSt (scopes s) (ctxs s) (included s) (nqlabels s) (nclabels s) (alias_labels s) (qreg_sizes s) (alias_sizes s) (fn_sizes s) (fn_maps s) x (gates s) (subs s) (label_levels s) (qdepth s) (cdepth s) (mod_qregs s) (mod_cregs s) (num_qubits s) (num_clbits s) (gstack s).
Definition with_gates (s : st) x := mkSt (scopes s) (ctxs s) (included s) (nqlabels s) (nclabels s) (alias_labels s) (qreg_sizes s) (alias_sizes s) (fn_sizes s) (fn_maps s) (creg_sizes s) x (subs s) (label_levels s) (qdepth s) (cdepth s) (mod_qregs s) (mod_cregs s) (num_qubits s) (num_clbits s) (gstack s).
Definition with_subs (s : st) x := mkSt (scopes s) (ctxs s) (included s) (nqlabels s) (nclabels s) (alias_labels s) (qreg_sizes s) (alias_sizes s) (fn_sizes s) (fn_maps s) (creg_sizes s) (gates s) x (label_levels s) (qdepth s) (cdepth s) (mod_qregs s) (mod_cregs s) (num_qubits s) (num_clbits s) (gstack s).
Definition with_levels (s : st) x := mkSt (scopes s) (ctxs s) (included s) (nqlabels s) (nclabels s) (alias_labels s) (qreg_sizes s) (alias_sizes s) (fn_sizes s) (fn_maps s) (creg_sizes s) (gates s) (subs s) x (qdepth s) (cdepth s) (mod_qregs s) (mod_cregs s) (num_qubits s) (num_clbits s) (gstack s).
Definition with_qdepth (s : st) x := mkSt (scopes s) (ctxs s) (included s) (nqlabels s) (nclabels s) (alias_labels s) (qreg_sizes s) (alias_sizes s) (fn_sizes s) (fn_maps s) (creg_sizes s) (gates s) (subs s) (label_levels s) x (cdepth s) (mod_qregs s) (mod_cregs s) (num_qubits s) (num_clbits s) (gstack s).
Definition with_cdepth (s : st) x := mkSt (scopes s) (ctxs s) (included s) (nqlabels s) (nclabels s) (alias_labels s) (qreg_sizes s) (alias_sizes s) (fn_sizes s) (fn_maps s) (creg_sizes s) (gates s) (subs s) (label_levels s) (qdepth s) x (mod_qregs s) (mod_cregs s) (num_qubits s) (num_clbits s) (gstack s).
Definition with_modq (s : st) x n := mkSt (scopes s) (ctxs s) (included s) (nqlabels s) (nclabels s) (alias_labels s) (qreg_sizes s) (alias_sizes s) (fn_sizes s) (fn_maps s) (creg_sizes s) (gates s) (subs s) (label_levels s) (qdepth s) (cdepth s) x (mod_cregs s) n (num_clbits s) (gstack s).
Definition with_modc (s : st) x n := mkSt (scopes s) (ctxs s) (included s) (nqlabels s) (nclabels s) (alias_labels s) (qreg_sizes s) (alias_sizes s) (fn_sizes s) (fn_maps s) (creg_sizes s) (gates s) (subs s) (label_levels s) (qdepth s) (cdepth s) (mod_qregs s) x (num_qubits s) n (gstack s).

Definition with_gstack (s : st) x := mkSt (scopes s) (ctxs s) (included s) (nqlabels s) (nclabels s) (alias_labels s) (qreg_sizes s) (alias_sizes s) (fn_sizes s) (fn_maps s) (creg_sizes s) (gates s) (subs s) (label_levels s) (qdepth s) (cdepth s) (mod_qregs s) (mod_cregs s) (num_qubits s) (num_clbits s) x.

(* ---- scope machinery ---- *)
Definition top_ctx (s : st) : ctx := hd CGlobal (ctxs s).
Definition nscopes (s : st) : nat := List.length (scopes s).
Definition in_global (s : st) : bool := Nat.eqb (nscopes s) 1%nat && ctx_eqb (top_ctx s) CGlobal.
Definition in_function (s : st) : bool := Nat.ltb 1%nat (nscopes s) && ctx_eqb (top_ctx s) CFunction.
Definition in_gate (s : st) : bool := Nat.ltb 1%nat (nscopes s) && ctx_eqb (top_ctx s) CGate.
Definition in_block (s : st) : bool := Nat.ltb 1%nat (nscopes s) && ctx_eqb (top_ctx s) CBlock.
(* the innermost context that is not a BLOCK is GLOBAL: global scope or a block of it *)
Fixpoint enclosing_global_ctx (cs : list ctx) : bool :=
  match cs with
  | [] => true
  | CBlock :: cs' => enclosing_global_ctx cs'
  | CGlobal :: _ => true
  | _ :: _ => false
  end.
Definition enclosing_global (s : st) : bool := enclosing_global_ctx (ctxs s).
Definition curr_scope (s : st) : scope := hd [] (scopes s).
Definition global_scope (s : st) : scope := last (scopes s) [].

(* the walk of _check_in_scope / _get_from_visible_scope in block scope:
   zip(reversed(scope), reversed(context)); stop at the first non-BLOCK context *)
Definition global_const (x : string) (g : scope) : option var :=
  match sget x g with
  | Some v => if v_const v then Some v else None
  | None => None
  end.

Fixpoint block_walk (x : string) (g : scope) (zs : list (scope * ctx)) : option var :=
  match zs with
  | [] => None
  | (sc, c) :: zs' =>
      if negb (ctx_eqb c CBlock) then
        match sget x sc with
        | Some v => Some v
        | None => if ctx_eqb c CGlobal then None else global_const x g   (* a body's block sees what the body sees *)
        end
      else match sget x sc with Some v => Some v | None => block_walk x g zs' end
  end.

Definition get_visible (s : st) (x : string) : option var :=
  if in_global s then sget x (global_scope s)
  else
    let r1 :=
      if in_function s || in_gate s then
        match sget x (curr_scope s) with
        | Some v => Some v
        | None => match sget x (global_scope s) with
                  | Some v => if v_const v then Some v else None
                  | None => None
                  end
        end
      else None in
    match r1 with
    | Some v => Some v
    | None => if in_block s then block_walk x (global_scope s) (combine (scopes s) (ctxs s)) else None
    end.

(* _check_in_scope has the same structure and agrees with get_visible on being found *)
Definition check_in_scope (s : st) (x : string) : bool :=
  match get_visible s x with Some _ => true | None => false end.

(* write a (mutated) Variable object back where get_visible found it *)
Fixpoint block_update (x : string) (v : var) (scs : list scope) (cs : list ctx) : list scope :=
  match scs, cs with
  | sc :: scs', c :: cs' =>
      if negb (ctx_eqb c CBlock) then sset x v sc :: scs'
      else if smemk x sc then sset x v sc :: scs'
      else sc :: block_update x v scs' cs'
  | _, _ => scs
  end.

Definition set_global_scope (scs : list scope) (g : scope) : list scope :=
  removelast scs ++ [g].

Definition update_var (s : st) (x : string) (v : var) : st :=
  if in_global s then with_scopes s (set_global_scope (scopes s) (sset x v (global_scope s)))
  else if in_function s || in_gate s then
    match sget x (curr_scope s) with
    | Some _ => with_scopes s (sset x v (curr_scope s) :: tl (scopes s))
    | None => with_scopes s (set_global_scope (scopes s) (sset x v (global_scope s)))
    end
  else if in_block s then with_scopes s (block_update x v (scopes s) (ctxs s))
  else s.

Definition add_var (s : st) (x : string) (v : var) : res st :=
  match scopes s with
  | [] => Err (EInternal KIndex)                  (* self._scope[-1] on an empty stack *)
  | sc :: rest =>
      if smemk x sc then Err (EInternal KValue)
      else Ok (with_scopes s ((sc ++ [(x, v)]) :: rest))
  end.

Definition push_scope (s : st) : st := with_scopes s ([] :: scopes s).
Definition pop_scope (s : st) : st := with_scopes s (tl (scopes s)).
Definition push_ctx (c : ctx) (s : st) : st := with_ctxs s (c :: ctxs s).
Definition pop_ctx (s : st) : st := with_ctxs s (tl (ctxs s)).

(* _label_scope_level *)
Definition level_add (s : st) (x : string) : st :=
  match label_levels s with
  | l :: ls => with_levels s ((x :: l) :: ls)
  | [] => s
  end.
Definition level_push (s : st) : st := with_levels s ([] :: label_levels s).
Definition level_pop (s : st) : st := with_levels s (tl (label_levels s)).
Definition name_in_levels (s : st) (x : string) : bool :=
  existsb (fun l => smem x l) (label_levels s).
