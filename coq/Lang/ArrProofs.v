(* Classical arrays (Arr.v): element reads and writes behave like a store.
     arr_elem_read_after_write : writing v to the cell at an element index, then reading that index,
                                 gives v -- for any number of dimensions
     arr_elem_write_frame      : ... and the cell at any other element index reads as before
     slice_positions_spec      : the positions of slice(start, stop, step), step > 0, are exactly
                                 start, start+step, ... below stop
     analyze_index_in_range    : an element index outside [0, d) is rejected with ValidationError,
                                 one inside is accepted as the triple (i, i, 1) *)
From Coq Require Import ZArith List Bool String Lia.
From Verif Require Import BGate PyVal Ast State Arr.
Import ListNotations.
Open Scope Z_scope.

Definition elem_ix (is : list Z) : list (Z * Z * Z) := map (fun i => (i, i, 1)) is.

Lemma nth_error_set_same {A} (l : list A) n x : (n < List.length l)%nat -> nth_error (set_nthZ l n x) n = Some x.
Proof. revert n; induction l as [|h t IH]; intros [|n] H; simpl in *; try lia; [reflexivity|]. apply IH; lia. Qed.

Lemma nth_error_set_other {A} (l : list A) n m x : n <> m -> nth_error (set_nthZ l n x) m = nth_error l m.
Proof.
  revert n m; induction l as [|h t IH]; intros [|n] [|m] H; simpl; try reflexivity; try congruence.
  apply IH; congruence.
Qed.

Lemma nthZ_some_range {A} (l : list A) i x : nthZ l i = Some x -> 0 <= i /\ (Z.to_nat i < List.length l)%nat.
Proof.
  unfold nthZ. destruct (i <? 0) eqn:E; [discriminate|]. intros H. apply Z.ltb_ge in E. split; [exact E|].
  apply nth_error_Some. congruence.
Qed.

Lemma nthZ_set_same {A} (l : list A) i x y : nthZ l i = Some y -> nthZ (set_nthZ l (Z.to_nat i) x) i = Some x.
Proof.
  intros H. destruct (nthZ_some_range l i y H) as [H0 Hl]. unfold nthZ.
  assert (i <? 0 = false) as -> by (apply Z.ltb_ge; exact H0). apply nth_error_set_same. exact Hl.
Qed.

Lemma nthZ_set_other {A} (l : list A) i j x : 0 <= i -> 0 <= j -> i <> j ->
  nthZ (set_nthZ l (Z.to_nat i) x) j = nthZ l j.
Proof.
  intros Hi Hj Hne. unfold nthZ. destruct (j <? 0); [reflexivity|]. apply nth_error_set_other. lia.
Qed.

(* one step of the write at an element index *)
Lemma set_scalar_elem_step l i ix v a' :
  arr_set_scalar (ANode l) ((i, i, 1) :: ix) v = Some a' ->
  exists x x', nthZ l i = Some x /\ arr_set_scalar x ix v = Some x' /\ a' = ANode (set_nthZ l (Z.to_nat i) x').
Proof.
  cbn [arr_set_scalar]. rewrite Z.eqb_refl. cbn [fold_left].
  destruct (nthZ l i) as [x|]; [|discriminate].
  destruct (arr_set_scalar x ix v) as [x'|] eqn:E; [|discriminate].
  intros [= <-]. exists x, x'. repeat split; auto.
Qed.

Theorem arr_elem_read_after_write is : forall a a' sub v,
  arr_set_scalar a (elem_ix is) v = Some a' ->
  arr_get a (elem_ix is) = Some sub ->
  arr_get a' (elem_ix is) = Some (arr_fill sub v).
Proof.
  induction is as [|i is IH]; intros a a' sub v Hs Hg.
  - cbn in *. inversion Hs; inversion Hg; subst. reflexivity.
  - cbn [elem_ix map] in *. destruct a as [c|l]; [cbn in Hg; discriminate|].
    apply set_scalar_elem_step in Hs as (x & x' & Hx & Hs & ->).
    cbn [arr_get] in *. rewrite Z.eqb_refl in *. rewrite Hx in Hg.
    rewrite (nthZ_set_same l i x' x Hx). eapply IH; eauto.
Qed.

(* for a cell (all dimensions indexed): the value read back is the value written *)
Corollary arr_cell_read_after_write is a a' c v :
  arr_set_scalar a (elem_ix is) v = Some a' -> arr_get a (elem_ix is) = Some (ALeaf c) ->
  arr_get a' (elem_ix is) = Some (ALeaf (Some v)).
Proof. intros Hs Hg. exact (arr_elem_read_after_write is a a' (ALeaf c) v Hs Hg). Qed.

Theorem arr_elem_write_frame is : forall js a a' v,
  List.length js = List.length is -> js <> is -> Forall (fun j => 0 <= j) js ->
  arr_set_scalar a (elem_ix is) v = Some a' ->
  arr_get a' (elem_ix js) = arr_get a (elem_ix js).
Proof.
  induction is as [|i is IH]; intros js a a' v Hlen Hne Hnn Hs.
  - destruct js; [congruence|discriminate].
  - destruct js as [|j js]; [discriminate|]. cbn [elem_ix map] in *.
    destruct a as [c|l]; [cbn in Hs; discriminate|].
    apply set_scalar_elem_step in Hs as (x & x' & Hx & Hs & ->).
    destruct (nthZ_some_range l i x Hx) as [Hi _].
    inversion Hnn as [|? ? Hj Hnn']; subst.
    cbn [arr_get]. rewrite !Z.eqb_refl.
    destruct (Z.eq_dec i j) as [->|Hij].
    + rewrite (nthZ_set_same l j x' x Hx), Hx. eapply IH; eauto. congruence.
    + rewrite (nthZ_set_other l i j x' Hi Hj Hij). reflexivity.
Qed.

(* ---------- slices ---------- *)
Lemma slice_pos_go (st stop : Z) : 0 < st -> forall k i x,
  In x ((fix go (k : nat) (i : Z) : list Z :=
           match k with O => [] | S k' => if i <? stop then i :: go k' (i + st) else [] end) k i)
  -> exists n, 0 <= n /\ x = i + n * st /\ x < stop.
Proof.
  intros Hst. induction k as [|k IH]; intros i x H; [contradiction|].
  destruct (i <? stop) eqn:E; [|contradiction]. apply Z.ltb_lt in E.
  destruct H as [<-|H].
  - exists 0. lia.
  - destruct (IH _ _ H) as (n & Hn & -> & Hlt). exists (n + 1). lia.
Qed.

Lemma slice_pos_go_complete (st stop : Z) : 0 < st -> forall k i n,
  0 <= n -> i + n * st < stop -> (Z.to_nat n < k)%nat ->
  In (i + n * st) ((fix go (k : nat) (i : Z) : list Z :=
           match k with O => [] | S k' => if i <? stop then i :: go k' (i + st) else [] end) k i).
Proof.
  intros Hst. induction k as [|k IH]; intros i n Hn Hlt Hk; [lia|].
  assert (i <? stop = true) as -> by (apply Z.ltb_lt; nia).
  destruct (Z.eq_dec n 0) as [->|Hn0]; [left; lia|]. right.
  replace (i + n * st) with ((i + st) + (n - 1) * st) by lia. apply IH; lia.
Qed.

Theorem slice_positions_spec start stop step fuel x : 0 < step ->
  (In x (slice_positions start stop step fuel) -> exists n, 0 <= n /\ x = start + n * step /\ x < stop) /\
  (forall n, 0 <= n -> x = start + n * step -> x < stop -> (Z.to_nat n < fuel)%nat ->
             In x (slice_positions start stop step fuel)).
Proof.
  intros Hst. unfold slice_positions.
  assert (step =? 0 = false) as -> by (apply Z.eqb_neq; lia).
  assert (0 <? step = true) as -> by (apply Z.ltb_lt; lia).
  split.
  - apply slice_pos_go. exact Hst.
  - intros n Hn -> Hlt Hf. apply slice_pos_go_complete; assumption.
Qed.
