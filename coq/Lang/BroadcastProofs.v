(* Whole-register operands ("broadcast"): `h q;`, `reset q;`, `barrier q, r[1];`, `c = measure q;` on declared registers
   are unrolled to one operation per bit, in index order; the depth bookkeeping is the recurrence over one event per
   emitted gate / reset / measurement pair, and over ONE joint event for a barrier (which synchronises all its qubits,
   although it is printed qubit by qubit).  Added to the judgement of Lang/LoopProofs.v as one more kind of top-level
   statement. *)
From Coq Require Import ZArith List Bool String Lia.
From Verif Require Import Aexp BGate PyVal CastPrim Ast State GatesGen GateLib Unroll ResolveProofs Depth DepthModel ExprProofs FixProofs LoopProofs ParamProofs.
Import ListNotations.
Open Scope Z_scope.

(* ---------- the bits an operand names ---------- *)
Definition reg_ids (n : Z) : list Z := map (fun k => 0 + Z.of_nat k * 1) (seq 0 (Z.to_nat n)).
Definition reg_bits (r : string) (n : Z) : list bitref := map (fun i => (r, i)) (reg_ids n).

Lemma py_range_reg n : 1 <= n <= 100000 -> py_range 0 n 1 = Ok (reg_ids n).
Proof.
  intros H. unfold py_range, reg_ids. cbn [Z.eqb Z.ltb Z.compare].
  replace ((n - 0 + 1 - 1) / 1) with n by (rewrite Z.div_1_r; lia).
  rewrite Z.max_r by lia. assert (100000 <? n = false) as -> by (apply Z.ltb_ge; lia). reflexivity.
Qed.

Lemma reg_ids_range n i : In i (reg_ids n) -> 0 <= i < n.
Proof. unfold reg_ids. intros H. apply in_map_iff in H as (k & <- & Hk). apply in_seq in Hk. lia. Qed.

(* a slice r[a:b] with literal ends and step 1: the bits a, a+1, ..., b-1 as the model's range function lists them, both
   ends checked against the register (an absent start is 0, an absent end the register size) *)
Definition slice_ids (a b : Z) : list Z := map (fun k => a + Z.of_nat k * 1) (seq 0 (Z.to_nat (b - a))).
Definition lit_end (e : option expr) (default : Z) : option Z :=
  match e with None => Some default | Some (ELit (VInt z)) => Some z | Some _ => None end.

(* an index set r[{i, j, ...}] of integer literals: the bits in the order written, each checked against the register *)
Fixpoint lit_ints (vals : list expr) : option (list Z) :=
  match vals with
  | [] => Some []
  | ELit (VInt z) :: l => match lit_ints l with Some zs => Some (z :: zs) | None => None end
  | _ => None
  end.
Definition in_size (n i : Z) : bool := (0 <=? i) && (i <? n).

(* an index that is a closed expression (r[1 + 1], r[2 * 3 - 4], a boolean counts as 0 / 1): folded by the pure evaluator *)
Definition idx_of (v : pyval) : option Z := match num_of_bool v with VInt i => Some i | _ => None end.

Definition opnd_bits (m : list (string * Z)) (q : qarg) : option (list bitref) :=
  match q with
  | QIdx r [IdxList [IExpr e]] =>
      match sget r m, ceval e with
      | Some n, Some v => match idx_of v with Some i => if in_size n i then Some [(r, i)] else None | None => None end
      | _, _ => None
      end
  | QIdx r [IdxSet vals] =>
      match sget r m, lit_ints vals with
      | Some n, Some zs => if forallb (in_size n) zs then Some (map (fun i => (r, i)) zs) else None
      | _, _ => None
      end
  | QId r => match sget r m with
             | Some n => if (1 <=? n) && (n <=? 100000) then Some (reg_bits r n) else None
             | None => None
             end
  | QIdx r [IdxList [IRange ea eb ec]] =>
      match sget r m with
      | Some n =>
          match lit_end ea 0, lit_end eb n, lit_end ec 1 with
          | Some a, Some b, Some st =>
              if in_size n a && in_size n (b - 1)
              then match py_range a b st with Ok l => Some (map (fun i => (r, i)) l) | Err _ => None end else None
          | _, _, _ => None
          end
      | None => None
      end
  | _ => match lit_bit q with Some b => if in_reg m b then Some [b] else None | None => None end
  end.

Lemma py_range_slice a b : a <= b -> b - a <= 100000 -> py_range a b 1 = Ok (slice_ids a b).
Proof.
  intros H H2. unfold py_range, slice_ids. cbn [Z.eqb Z.ltb Z.compare].
  replace ((b - a + 1 - 1) / 1) with (b - a) by (rewrite Z.div_1_r; lia).
  rewrite Z.max_r by lia. assert (100000 <? b - a = false) as -> by (apply Z.ltb_ge; lia). reflexivity.
Qed.

Lemma slice_ids_range a b i : In i (slice_ids a b) -> a <= i < b.
Proof. unfold slice_ids. intros H. apply in_map_iff in H as (k & <- & Hk). apply in_seq in Hk. lia. Qed.

Lemma lit_end_eval call_rec e d z s : lit_end e d = Some z ->
  (match e with None => ret d | Some x => v <- eval0 call_rec x false None;; as_index v end) s = Ok (z, s).
Proof.
  destruct e as [x|]; cbn [lit_end]; [|intros H; injection H as <-; reflexivity].
  destruct x; try discriminate. destruct v; try discriminate. intros H. injection H as <-. reflexivity.
Qed.

Lemma opnd_bits_in_reg m q bits : opnd_bits m q = Some bits -> forallb (in_reg m) bits = true.
Proof.
  destruct q as [r|r idx]; cbn [opnd_bits].
  - destruct (sget r m) as [n|] eqn:Es; [|discriminate]. destruct ((1 <=? n) && (n <=? 100000)); [|discriminate].
    intros H. injection H as <-. apply forallb_forall. intros b Hb. unfold reg_bits in Hb. apply in_map_iff in Hb as (i & <- & Hi).
    apply reg_ids_range in Hi. unfold in_reg. cbn [fst snd]. rewrite Es. apply andb_true_iff. split; [apply Z.leb_le|apply Z.ltb_lt]; lia.
  - assert (Hlit : match lit_bit (QIdx r idx) with Some b => if in_reg m b then Some [b] else None | None => None end = Some bits ->
                    forallb (in_reg m) bits = true).
    { destruct (lit_bit (QIdx r idx)) as [b|]; [|discriminate]. destruct (in_reg m b) eqn:Eb; [|discriminate].
      intros H. injection H as <-. cbn. now rewrite Eb. }
    destruct idx as [|[vals|[|[e|ea eb ec] [|it2 items']]] [|i1 idx']]; try exact Hlit.
    { destruct (sget r m) as [n|] eqn:Es; [|discriminate]. destruct (lit_ints vals) as [zs|]; [|discriminate].
      destruct (forallb (in_size n) zs) eqn:Ef; [|discriminate]. intros H. injection H as <-.
      apply forallb_forall. intros x Hx. apply in_map_iff in Hx as (i & <- & Hi). unfold in_reg. cbn [fst snd]. rewrite Es.
      eapply forallb_forall in Ef; eauto. }
    { destruct (sget r m) as [n|] eqn:Es; [|discriminate]. destruct (ceval e) as [v|]; [|discriminate].
      destruct (idx_of v) as [i|]; [|discriminate]. destruct (in_size n i) eqn:Hi; [|discriminate]. intros H. injection H as <-.
      cbn [forallb]. unfold in_reg. cbn [fst snd]. rewrite Es. unfold in_size in Hi. now rewrite Hi. }
    destruct (sget r m) as [n|] eqn:Es; [|discriminate].
    destruct (lit_end ea 0) as [a|]; [|discriminate]. destruct (lit_end eb n) as [b|]; [|discriminate]. destruct (lit_end ec 1) as [st|]; [|discriminate].
    destruct (in_size n a && in_size n (b - 1)) eqn:C; [|discriminate]. destruct (py_range a b st) as [l|] eqn:Er; [|discriminate].
    intros H. injection H as <-. apply andb_true_iff in C as [A B]. unfold in_size in A, B.
    apply andb_true_iff in A as [A0 A1]. apply andb_true_iff in B as [B0 B1]. apply Z.leb_le in A0, B0. apply Z.ltb_lt in A1, B1.
    pose proof (py_range_in_register a b st n l Er (conj A0 A1) (conj B0 B1)) as Hf. rewrite Forall_forall in Hf.
    apply forallb_forall. intros x Hx. apply in_map_iff in Hx as (i & <- & Hi). specialize (Hf i Hi).
    unfold in_reg. cbn [fst snd]. rewrite Es. apply andb_true_iff. split; [apply Z.leb_le|apply Z.ltb_lt]; lia.
Qed.

Lemma idx_of_index v i s : idx_of v = Some i -> as_index (num_of_bool v) s = Ok (i, s).
Proof. unfold idx_of. destruct (num_of_bool v); try discriminate. intros H. injection H as <-. reflexivity. Qed.

Lemma discrete_lits vals : forall zs s, lit_ints vals = Some zs -> discrete_set_values vals s = Ok (zs, s).
Proof.
  induction vals as [|e vals IH]; intros zs s H; cbn [lit_ints] in H.
  - injection H as <-. reflexivity.
  - destruct e; try discriminate H. destruct v; try discriminate H. destruct (lit_ints vals) as [zs'|]; [|discriminate H]. injection H as <-.
    unfold discrete_set_values. cbn [mapMM]. rewrite (bind_eq _ _ s z s eq_refl).
    fold (discrete_set_values vals). rewrite (bind_eq _ _ s zs' s (IH zs' s eq_refl)). reflexivity.
Qed.

Lemma validate_all n zs : forall s, forallb (in_size n) zs = true -> iterM (fun i => validate_index i n) zs s = Ok (tt, s).
Proof.
  induction zs as [|i zs IH]; intros s H; [reflexivity|]. cbn [forallb] in H. apply andb_true_iff in H as [Hi H].
  cbn [iterM]. rewrite (bind_eq _ _ s tt s); [exact (IH s H)|]. unfold validate_index. unfold in_size in Hi. now rewrite Hi.
Qed.

(* what the judgement says an operand designates, for every register size and every index list / bounds *)
Lemma lit_ints_lits zs : lit_ints (map (fun z => ELit (VInt z)) zs) = Some zs.
Proof. induction zs as [|z zs IH]; [reflexivity|]. cbn [map lit_ints]. now rewrite IH. Qed.

Lemma opnd_bits_index_set m r n zs : sget r m = Some n ->
  opnd_bits m (QIdx r [IdxSet (map (fun z => ELit (VInt z)) zs)]) =
  if forallb (in_size n) zs then Some (map (fun i => (r, i)) zs) else None.
Proof. intros H. cbn [opnd_bits]. now rewrite H, lit_ints_lits. Qed.

Lemma opnd_bits_closed_index m r n e v i : sget r m = Some n -> ceval e = Some v -> idx_of v = Some i ->
  opnd_bits m (QIdx r [IdxList [IExpr e]]) = if in_size n i then Some [(r, i)] else None.
Proof. intros H Hv Hi. cbn [opnd_bits]. now rewrite H, Hv, Hi. Qed.

Lemma opnd_bits_slice m r n a b st bits : sget r m = Some n ->
  opnd_bits m (QIdx r [IdxList [IRange (Some (ELit (VInt a))) (Some (ELit (VInt b))) (Some (ELit (VInt st)))]]) = Some bits ->
  (0 <= a < n /\ 0 <= b - 1 < n) /\
  exists l, bits = map (fun i => (r, i)) l /\
    forall x, In x l <-> exists k, 0 <= k /\ x = a + k * st /\ (if 0 <? st then x < b else b < x).
Proof.
  intros H. cbn [opnd_bits lit_end]. rewrite H.
  destruct (in_size n a && in_size n (b - 1)) eqn:C; [|discriminate]. destruct (py_range a b st) as [l|] eqn:Er; [|discriminate].
  intros E. injection E as <-. apply andb_true_iff in C as [A B]. unfold in_size in A, B.
  apply andb_true_iff in A as [A0 A1]. apply andb_true_iff in B as [B0 B1]. apply Z.leb_le in A0, B0. apply Z.ltb_lt in A1, B1.
  split; [lia|]. exists l. split; [reflexivity|]. intros x. exact (py_range_In a b st l x Er).
Qed.

Section Ops.
Variable check_only : bool.
Variable visit_rec : stmt -> M (list stmt).
Variable call_rec : string -> list expr -> M (pyval * list stmt).

Lemma resolve_opnd env s (is_q : bool) q bits :
  Regs env s -> opnd_bits (if is_q then e_q env else e_c env) q = Some bits ->
  resolve_one call_rec q (if is_q then qreg_sizes s else creg_sizes s) is_q s = Ok (bits, s).
Proof.
  intros R H. destruct q as [r|r idx].
  - cbn [opnd_bits] in H. destruct (sget r (if is_q then e_q env else e_c env)) as [n|] eqn:Hs; [|discriminate].
    destruct ((1 <=? n) && (n <=? 100000)) eqn:Hn; [|discriminate]. injection H as <-.
    apply andb_true_iff in Hn as [N0 N1]. apply Z.leb_le in N0, N1.
    unfold resolve_one, qarg_name. rewrite (bind_eq _ _ s s s eq_refl).
    assert (Hm : sget r (if is_q then qreg_sizes s else creg_sizes s) = Some n).
    { destruct is_q; [rewrite (R_q _ _ R)|rewrite (R_c _ _ R)]; exact Hs. }
    rewrite Hm. rewrite (bind_eq _ _ s (false, if is_q then qreg_sizes s else creg_sizes s) s eq_refl).
    assert (Hl : name_in_levels s r = true) by (destruct is_q; [eapply R_lvq|eapply R_lvc]; eauto).
    rewrite Hl. cbn [guard]. rewrite (bind_eq _ _ s tt s eq_refl). rewrite Hm.
    rewrite (bind_eq _ _ s (reg_ids n) s); [reflexivity|]. unfold lift. now rewrite py_range_reg by lia.
  - assert (Hlit : match lit_bit (QIdx r idx) with
                    | Some b => if in_reg (if is_q then e_q env else e_c env) b then Some [b] else None
                    | None => None end = Some bits ->
                    resolve_one call_rec (QIdx r idx) (if is_q then qreg_sizes s else creg_sizes s) is_q s = Ok (bits, s)).
    { intros H'. destruct (lit_bit (QIdx r idx)) as [b|] eqn:Eb; [|discriminate].
      destruct (in_reg _ b) eqn:Ei; [|discriminate]. injection H' as <-. rewrite (lit_bit_qarg_of _ b Eb).
      destruct b as [r0 i]. unfold in_reg in Ei. cbn [fst snd] in Ei.
      destruct (sget r0 (if is_q then e_q env else e_c env)) as [n|] eqn:Hs; [|discriminate].
      apply andb_true_iff in Ei as [H0 H1]. apply Z.leb_le in H0. apply Z.ltb_lt in H1.
      eapply resolve_literal; eauto; lia. }
    cbn [opnd_bits] in H.
    destruct idx as [|[vals|[|[e|ea eb ec] [|it2 items']]] [|i1 idx']]; try exact (Hlit H).
    { destruct (sget r (if is_q then e_q env else e_c env)) as [n|] eqn:Hs; [|discriminate].
      destruct (lit_ints vals) as [zs|] eqn:Ez; [|discriminate]. destruct (forallb (in_size n) zs) eqn:Ef; [|discriminate]. injection H as <-.
      unfold resolve_one, qarg_name. rewrite (bind_eq _ _ s s s eq_refl).
      assert (Hm : sget r (if is_q then qreg_sizes s else creg_sizes s) = Some n).
      { destruct is_q; [rewrite (R_q _ _ R)|rewrite (R_c _ _ R)]; exact Hs. }
      rewrite Hm. rewrite (bind_eq _ _ s (false, if is_q then qreg_sizes s else creg_sizes s) s eq_refl).
      assert (Hl : name_in_levels s r = true) by (destruct is_q; [eapply R_lvq|eapply R_lvc]; eauto).
      rewrite Hl. cbn [guard]. rewrite (bind_eq _ _ s tt s eq_refl). rewrite Hm.
      rewrite (bind_eq _ _ s zs s); [reflexivity|].
      rewrite (bind_eq _ _ s zs s (discrete_lits vals zs s Ez)).
      rewrite (bind_eq _ _ s tt s (validate_all n zs s Ef)). reflexivity. }
    { destruct (sget r (if is_q then e_q env else e_c env)) as [n|] eqn:Hs; [|discriminate].
      destruct (ceval e) as [v|] eqn:Ev; [|discriminate]. destruct (idx_of v) as [i|] eqn:Ei; [|discriminate].
      destruct (in_size n i) eqn:Hi; [|discriminate]. injection H as <-.
      unfold resolve_one, qarg_name. rewrite (bind_eq _ _ s s s eq_refl).
      assert (Hm : sget r (if is_q then qreg_sizes s else creg_sizes s) = Some n).
      { destruct is_q; [rewrite (R_q _ _ R)|rewrite (R_c _ _ R)]; exact Hs. }
      rewrite Hm. rewrite (bind_eq _ _ s (false, if is_q then qreg_sizes s else creg_sizes s) s eq_refl).
      assert (Hl : name_in_levels s r = true) by (destruct is_q; [eapply R_lvq|eapply R_lvc]; eauto).
      rewrite Hl. cbn [guard]. rewrite (bind_eq _ _ s tt s eq_refl). rewrite Hm.
      rewrite (bind_eq _ _ s [i] s); [reflexivity|].
      rewrite (bind_eq _ _ s v s).
      2:{ unfold eval0. rewrite (bind_eq _ _ s (v, []) s (ceval_eval call_rec e v s Ev)). reflexivity. }
      rewrite (bind_eq _ _ s i s (idx_of_index v i s Ei)).
      unfold validate_index. unfold in_size in Hi. rewrite Hi. rewrite (bind_eq _ _ s tt s eq_refl). reflexivity. }
    destruct (sget r (if is_q then e_q env else e_c env)) as [n|] eqn:Hs; [|discriminate].
    destruct (lit_end ea 0) as [a|] eqn:Ea; [|discriminate]. destruct (lit_end eb n) as [b|] eqn:Eb; [|discriminate].
    destruct (lit_end ec 1) as [st|] eqn:Ec; [|discriminate].
    destruct (in_size n a && in_size n (b - 1)) eqn:C; [|discriminate]. destruct (py_range a b st) as [l|] eqn:Er; [|discriminate].
    injection H as <-. apply andb_true_iff in C as [A B]. unfold in_size in A, B.
    unfold resolve_one, qarg_name. rewrite (bind_eq _ _ s s s eq_refl).
    assert (Hm : sget r (if is_q then qreg_sizes s else creg_sizes s) = Some n).
    { destruct is_q; [rewrite (R_q _ _ R)|rewrite (R_c _ _ R)]; exact Hs. }
    rewrite Hm. rewrite (bind_eq _ _ s (false, if is_q then qreg_sizes s else creg_sizes s) s eq_refl).
    assert (Hl : name_in_levels s r = true) by (destruct is_q; [eapply R_lvq|eapply R_lvc]; eauto).
    rewrite Hl. cbn [guard]. rewrite (bind_eq _ _ s tt s eq_refl). rewrite Hm.
    rewrite (bind_eq _ _ s l s); [reflexivity|].
    unfold range_ids.
    rewrite (bind_eq _ _ s a s (lit_end_eval call_rec ea 0 a s Ea)).
    rewrite (bind_eq _ _ s b s (lit_end_eval call_rec eb n b s Eb)).
    rewrite (bind_eq _ _ s st s (lit_end_eval call_rec ec 1 st s Ec)).
    unfold validate_index. rewrite A. rewrite (bind_eq _ _ s tt s eq_refl). rewrite B.
    rewrite (bind_eq _ _ s tt s eq_refl). unfold lift. rewrite Er. reflexivity.
Qed.

Lemma dedup_check_ext l : forall s1 s2, (forall y, existsb (bitref_eqb y) s1 = existsb (bitref_eqb y) s2) ->
  dedup_check s1 l = dedup_check s2 l.
Proof.
  induction l as [|b l IH]; intros s1 s2 H; [reflexivity|]. cbn [dedup_check]. rewrite (H b).
  destruct (existsb (bitref_eqb b) s2); [reflexivity|]. apply IH. intros y. cbn [existsb]. now rewrite (H y).
Qed.

Lemma distinctb_app a : forall acc b, distinctb acc (a ++ b) = true -> dedup_check acc a = true /\ distinctb (acc ++ a) b = true.
Proof.
  induction a as [|x a IH]; intros acc b H; cbn [app] in *.
  - rewrite app_nil_r. split; [reflexivity|exact H].
  - cbn [distinctb] in H. apply andb_true_iff in H as [Hn H]. apply negb_true_iff in Hn.
    destruct (IH (acc ++ [x]) b H) as [Hd Hr]. cbn [dedup_check]. rewrite Hn. split.
    + rewrite (dedup_check_ext a (x :: acc) (acc ++ [x])); [exact Hd|].
      intros y. cbn [existsb]. rewrite existsb_app. cbn [existsb]. rewrite orb_false_r. apply orb_comm.
    + now rewrite <- app_assoc in Hr.
Qed.

Lemma gob_opnds env s (is_q : bool) qs : forall bss acc,
  Regs env s -> mapM (opnd_bits (if is_q then e_q env else e_c env)) qs = Some bss -> distinctb acc (List.concat bss) = true ->
  gob call_rec (if is_q then qreg_sizes s else creg_sizes s) is_q qs acc s = Ok (acc ++ List.concat bss, s).
Proof.
  induction qs as [|q qs IH]; intros bss acc R Hm Hd; cbn [mapM] in Hm.
  - injection Hm as <-. cbn [gob List.concat]. unfold ret. now rewrite app_nil_r.
  - destruct (opnd_bits _ q) as [bits|] eqn:Eq; [|discriminate Hm].
    destruct (mapM _ qs) as [bss'|] eqn:Em; [|discriminate Hm]. injection Hm as <-.
    cbn [List.concat] in Hd. destruct (distinctb_app bits acc (List.concat bss') Hd) as [Hc Hr].
    cbn [gob]. rewrite (bind_eq _ _ s bits s (resolve_opnd env s is_q q bits R Eq)).
    rewrite Hc. cbn [guard]. rewrite (bind_eq _ _ s tt s eq_refl).
    rewrite (IH bss' (acc ++ bits) R eq_refl Hr). cbn [List.concat]. now rewrite app_assoc.
Qed.

Lemma get_op_bits_opnds env s (is_q : bool) qs bss :
  Regs env s -> mapM (opnd_bits (if is_q then e_q env else e_c env)) qs = Some bss -> distinctb [] (List.concat bss) = true ->
  get_op_bits call_rec qs (if is_q then qreg_sizes s else creg_sizes s) is_q s = Ok (List.concat bss, s).
Proof. intros R Hm Hd. rewrite get_op_bits_gob. now rewrite (gob_opnds env s is_q qs bss [] R Hm Hd). Qed.

Lemma get_op_bits_opnd env s (is_q : bool) q bits :
  Regs env s -> opnd_bits (if is_q then e_q env else e_c env) q = Some bits -> distinctb [] bits = true ->
  get_op_bits call_rec [q] (if is_q then qreg_sizes s else creg_sizes s) is_q s = Ok (bits, s).
Proof.
  intros R Hq Hd. pose proof (get_op_bits_opnds env s is_q [q] [bits] R) as G. cbn [mapM List.concat] in G.
  rewrite Hq, app_nil_r in G. now apply G.
Qed.
End Ops.

(* ---------- depth bookkeeping of lists of resets / measurement pairs / single-qubit gates ---------- *)
Definition OKS {A} (m : M A) (s : st) (evs : list (list rsrc)) : Prop :=
  exists a s', m s = Ok (a, s') /\ DE s s' /\ Dstep s s' evs.

Lemma resets_ok l : forall s, (forall b, In b l -> HasQ s b) ->
  OKS (depth_reset l) s (map (fun b => [Qr b]) l).
Proof.
  unfold depth_reset. induction l as [|b l IH]; intros s H; cbn [iterM map].
  - exists tt, s. split; [reflexivity|]. split; [apply DE_refl|apply Dstep_same; reflexivity].
  - destruct (iter_nodes_ok reset_upd [b] s) as ([] & s1 & E1 & D1); [intros b' [<-|[]]; apply H; now left|].
    cbn [iterM] in E1.
    assert (E1' : (qn <- get_qnode b;; set_qnode b (reset_upd qn)) s = Ok (tt, s1)).
    { unfold bindM in E1 |- *. destruct (get_qnode b s) as [[qn sq]|]; [|discriminate E1].
      destruct (set_qnode b (reset_upd qn) sq) as [[[] sr]|]; [|discriminate E1]. unfold ret in E1. exact E1. }
    destruct (IH s1) as ([] & s2 & E2 & D2 & S2); [intros b' Hb'; apply (de_q _ _ D1); apply H; now right|].
    exists tt, s2. rewrite (bind_eq _ _ s tt s1 E1'). split; [exact E2|]. split; [eapply DE_trans; eauto|].
    change ([Qr b] :: map (fun b0 => [Qr b0]) l) with ([[Qr b]] ++ map (fun b0 => [Qr b0]) l).
    eapply Dstep_trans; [|exact S2]. apply Dstep_one. intros N. apply reset1_is_dstep; [exact N|exact E1'].
Qed.

Lemma measures_ok ps : forall s, (forall p, In p ps -> HasQ s (fst p) /\ HasC s (snd p)) ->
  OKS (iterM depth_measure_pair ps) s (map (fun p => [Qr (fst p); Br (snd p)]) ps).
Proof.
  induction ps as [|[q c] ps IH]; intros s H; cbn [iterM map].
  - exists tt, s. split; [reflexivity|]. split; [apply DE_refl|apply Dstep_same; reflexivity].
  - destruct (H (q, c) (or_introl eq_refl)) as [Hq Hc]. cbn [fst snd] in *.
    destruct (depth_measure_pair_ok q c s Hq Hc) as ([] & s1 & E1 & D1).
    destruct (IH s1) as ([] & s2 & E2 & D2 & S2).
    { intros p Hp. destruct (H p (or_intror Hp)) as [A B]. split; [apply (de_q _ _ D1)|apply (de_c _ _ D1)]; assumption. }
    exists tt, s2. rewrite (bind_eq _ _ s tt s1 E1). split; [exact E2|]. split; [eapply DE_trans; eauto|].
    change ([Qr q; Br c] :: map (fun p => [Qr (fst p); Br (snd p)]) ps) with ([[Qr q; Br c]] ++ map (fun p => [Qr (fst p); Br (snd p)]) ps).
    eapply Dstep_trans; [|exact S2]. apply Dstep_one. intros N. now apply measure_pair_is_dstep.
Qed.

Lemma gates1_ok l : forall s, (forall b, In b l -> HasQ s b) ->
  OKS (update_depth_for_gate (map (fun b => [b]) l)) s (map (fun b => [Qr b]) l).
Proof.
  unfold update_depth_for_gate. induction l as [|b l IH]; intros s H; cbn [iterM map].
  - exists tt, s. split; [reflexivity|]. split; [apply DE_refl|apply Dstep_same; reflexivity].
  - destruct (depth_two_pass_ok gate_upd [b] s) as ([] & s1 & E1 & D1); [intros b' [<-|[]]; apply H; now left|].
    destruct (IH s1) as ([] & s2 & E2 & D2 & S2); [intros b' Hb'; apply (de_q _ _ D1); apply H; now right|].
    exists tt, s2. unfold depth_gate_subset at 1. rewrite (bind_eq _ _ s tt s1 E1). split; [exact E2|]. split; [eapply DE_trans; eauto|].
    change ([Qr b] :: map (fun b0 => [Qr b0]) l) with ([[Qr b]] ++ map (fun b0 => [Qr b0]) l).
    eapply Dstep_trans; [|exact S2]. apply Dstep_one. intros N.
    apply (gate_subset_is_dstep [b] s s1); [constructor; [intros []|constructor]|exact N|exact E1].
Qed.

Lemma HasQ_all env s bits : Regs env s -> forallb (in_reg (e_q env)) bits = true -> forall b, In b bits -> HasQ s b.
Proof. intros R H b Hb. eapply HasQ_of; eauto. eapply forallb_forall in H; eauto. Qed.
Lemma HasC_all env s bits : Regs env s -> forallb (in_reg (e_c env)) bits = true -> forall b, In b bits -> HasC s b.
Proof. intros R H b Hb. eapply HasC_of; eauto. eapply forallb_forall in H; eauto. Qed.

(* ---------- the broadcast operations ---------- *)
Section BOps.
Variable check_only : bool.
Variable visit_rec : stmt -> M (list stmt).
Variable call_rec : string -> list expr -> M (pyval * list stmt).

Definition emits_all (out : list stmt) (evs : list (list rsrc)) (m : M (list stmt)) (s : st) : Prop :=
  exists s', m s = Ok ((if check_only then [] else out), s') /\ DE s s' /\ Dstep s s' evs.

Lemma reset_bcast env s q bits : Regs env s -> opnd_bits (e_q env) q = Some bits -> distinctb [] bits = true ->
  emits_all (map (fun b => SReset (qarg_of b)) bits) (map (fun b => [Qr b]) bits) (visit_reset check_only call_rec [q]) s.
Proof.
  intros R Hq Hd. unfold visit_reset, emits_all.
  rewrite (bind_eq _ _ s s s eq_refl). rewrite (in_some_function_false env s R).
  rewrite (bind_eq _ _ s [q] s eq_refl). rewrite (bind_eq _ _ s s s eq_refl).
  rewrite (bind_eq _ _ s bits s (get_op_bits_opnd call_rec env s true q bits R Hq Hd)).
  destruct (resets_ok bits s (HasQ_all env s bits R (opnd_bits_in_reg _ _ _ Hq))) as ([] & s1 & E1 & D1 & S1).
  rewrite (bind_eq _ _ s tt s1 E1). exists s1. split; [reflexivity|]. split; assumption.
Qed.

Lemma barrier_bcast env s qs bss : Regs env s -> mapM (opnd_bits (e_q env)) qs = Some bss -> distinctb [] (List.concat bss) = true ->
  emits_all (map (fun b => SBarrier [qarg_of b]) (List.concat bss)) [map Qr (List.concat bss)] (visit_barrier check_only call_rec qs) s.
Proof.
  intros R Hq Hd. unfold visit_barrier, emits_all.
  rewrite (bind_eq _ _ s s s eq_refl). rewrite (in_some_function_false env s R).
  rewrite (bind_eq _ _ s qs s eq_refl). rewrite (bind_eq _ _ s s s eq_refl).
  rewrite (bind_eq _ _ s _ s (get_op_bits_opnds call_rec env s true qs bss R Hq Hd)).
  assert (Hin : forall b, In b (List.concat bss) -> HasQ s b).
  { clear Hd. revert bss Hq. induction qs as [|q qs IH]; intros bss Hq b Hb; cbn [mapM] in Hq.
    - injection Hq as <-. destruct Hb.
    - destruct (opnd_bits (e_q env) q) as [bits|] eqn:Eq; [|discriminate]. destruct (mapM _ qs) as [bss'|] eqn:Em; [|discriminate].
      injection Hq as <-. cbn [List.concat] in Hb. apply in_app_or in Hb as [Hb|Hb].
      + eapply HasQ_all; eauto. eapply opnd_bits_in_reg; eauto.
      + eapply IH; eauto. }
  destruct (depth_two_pass_ok barrier_upd (List.concat bss) s Hin) as ([] & s1 & E1 & D1).
  unfold depth_barrier. rewrite (bind_eq _ _ s tt s1 E1). exists s1. split; [reflexivity|]. split; [exact D1|].
  apply Dstep_one. intros N.
  apply (barrier_is_dstep (List.concat bss) s s1); [exact (proj1 (distinctb_NoDup _ [] Hd))|exact N|exact E1].
Qed.

Lemma opnd_bits_name m q bits : opnd_bits m q = Some bits -> smemk (qarg_name q) m = true.
Proof.
  destruct q as [r|r idx]; cbn [opnd_bits qarg_name].
  - destruct (sget r m) eqn:E; [|discriminate]. intros _. eapply smemk_of; eauto.
  - assert (Hlit : match lit_bit (QIdx r idx) with Some b => if in_reg m b then Some [b] else None | None => None end = Some bits ->
                    smemk r m = true).
    { destruct (lit_bit (QIdx r idx)) as [b|] eqn:Eb; [|discriminate]. destruct (in_reg m b) eqn:Ei; [|discriminate]. intros _.
      pose proof (lit_bit_name _ _ Eb) as Hn. cbn [qarg_name] in Hn. rewrite Hn. unfold in_reg in Ei.
      destruct (sget (fst b) m) eqn:E; [|discriminate]. eapply smemk_of; eauto. }
    destruct idx as [|[vals|[|[e|ea eb ec] [|it2 items']]] [|i1 idx']]; try exact Hlit.
    { destruct (sget r m) eqn:E; [|discriminate]. intros _. eapply smemk_of; eauto. }
    { destruct (sget r m) eqn:E; [|discriminate]. intros _. eapply smemk_of; eauto. }
    destruct (sget r m) eqn:E; [|discriminate]. intros _. eapply smemk_of; eauto.
Qed.

Lemma measure_bcast env s q c bq bc : Regs env s ->
  opnd_bits (e_q env) q = Some bq -> opnd_bits (e_c env) c = Some bc -> List.length bq = List.length bc ->
  distinctb [] bq = true -> distinctb [] bc = true ->
  emits_all (map (fun p => SMeasure (qarg_of (fst p)) (Some (qarg_of (snd p)))) (combine bq bc))
            (map (fun p => [Qr (fst p); Br (snd p)]) (combine bq bc))
            (visit_measure check_only call_rec q (Some c)) s.
Proof.
  intros R Hq Hc Hl Dq Dc. unfold visit_measure, emits_all.
  rewrite (bind_eq _ _ s s s eq_refl).
  rewrite (R_q _ _ R), (opnd_bits_name _ _ _ Hq), (R_c _ _ R), (opnd_bits_name _ _ _ Hc). cbn [guard].
  rewrite !(bind_eq _ _ s tt s eq_refl).
  pose proof (get_op_bits_opnd call_rec env s true q bq R Hq Dq) as G1. cbn iota in G1. rewrite (R_q _ _ R) in G1.
  rewrite (bind_eq _ _ s bq s G1). rewrite (bind_eq _ _ s s s eq_refl).
  pose proof (get_op_bits_opnd call_rec env s false c bc R Hc Dc) as G2. cbn iota in G2.
  rewrite (bind_eq _ _ s bc s G2).
  rewrite Hl, Nat.eqb_refl. cbn [guard]. rewrite (bind_eq _ _ s tt s eq_refl).
  destruct (measures_ok (combine bq bc) s) as ([] & s1 & E1 & D1 & S1).
  { intros p Hp. destruct p as [x y]. pose proof (in_combine_l _ _ _ _ Hp) as Hx. pose proof (in_combine_r _ _ _ _ Hp) as Hy. cbn [fst snd]. split.
    - eapply HasQ_all; eauto. eapply opnd_bits_in_reg; eauto.
    - eapply HasC_all; eauto. eapply opnd_bits_in_reg; eauto. }
  rewrite (bind_eq _ _ s tt s1 E1). exists s1. split; [reflexivity|]. split; assumption.
Qed.
End BOps.

Lemma chunks_one {A} (l : list A) : forall fuel, (List.length l <= fuel)%nat -> chunks fuel 1 l = map (fun a => [a]) l.
Proof.
  induction l as [|a l IH]; intros fuel H; [destruct fuel; reflexivity|].
  destruct fuel as [|f]; [cbn in H; lia|]. cbn [chunks firstn skipn map]. rewrite IH by (cbn in H; lia). reflexivity.
Qed.

Section BGate.
Variable check_only : bool.
Variable visit_rec : stmt -> M (list stmt).
Variable call_rec : string -> list expr -> M (pyval * list stmt).

(* a single-qubit library gate applied to a whole register (or to one literal bit): one gate per bit, in order *)
Lemma gate_bcast env s name vs q bits np :
  Regs env s -> assoc name self_basis = Some (np, 1%nat) -> List.length vs = np -> forallb num_val vs = true ->
  opnd_bits (e_q env) q = Some bits -> distinctb [] bits = true ->
  emits_all check_only (map (fun b => SGate [] name (map ELit vs) [qarg_of b]) bits) (map (fun b => [Qr b]) bits)
            (visit_generic_gate check_only [] visit_rec call_rec [] name (map ELit vs) [q]) s.
Proof.
  intros R Hn Hv Hnum Hq Hd.
  destruct (self_basis_lowering name np 1 Hn) as (d & np' & f & Hl & Hk & Hf).
  unfold visit_generic_gate, emits_all. cbn [collapse_mods]. rewrite (bind_eq _ _ s (VInt 1, false) s eq_refl).
  rewrite (bind_eq _ _ s s s eq_refl). rewrite (in_some_function_false env s R), andb_false_r.
  rewrite (bind_eq _ _ s [q] s eq_refl). rewrite (bind_eq _ _ s 1 s eq_refl).
  cbn [Z.ltb Z.compare guard]. rewrite (bind_eq _ _ s tt s eq_refl).
  change (Z.to_nat 1) with 1%nat. cbn [repeatM].
  set (out := map (fun b => SGate [] name (map ELit vs) [qarg_of b]) bits).
  assert (Hbasic : exists s1, visit_basic_gate check_only call_rec name (map ELit vs) [q] false s
                              = Ok ((if check_only then [] else out), s1) /\ DE s s1 /\ Dstep s s1 (map (fun b => [Qr b]) bits)).
  { unfold visit_basic_gate. cbn [negb]. rewrite Hl.
    rewrite (bind_eq _ _ s (Some (d, np', f), 1%nat, false) s eq_refl).
    assert (Hp : (match map ELit vs with
                  | [] => ret []
                  | _ :: _ => ps <- get_op_parameters call_rec (map ELit vs);;
                              (if false then mapMM (fun p => lift (py_binop OpMul (VInt (-1)) p)) ps else ret ps)
                  end) s = Ok (vs, s)).
    { destruct vs as [|v0 vs']; [reflexivity|]. change (map ELit (v0 :: vs')) with (ELit v0 :: map ELit vs') at 1.
      cbv iota. rewrite (bind_eq _ _ s (v0 :: vs') s (op_parameters_literals call_rec (v0 :: vs') s Hnum)). reflexivity. }
    rewrite (bind_eq _ _ s vs s Hp).
    assert (Ht : unroll_targets call_rec [q] 1 s = Ok (map (fun b => [b]) bits, s)).
    { unfold unroll_targets. rewrite (bind_eq _ _ s s s eq_refl).
      pose proof (get_op_bits_opnd call_rec env s true q bits R Hq Hd) as G. cbn iota in G.
      rewrite (bind_eq _ _ s bits s G). rewrite Nat.mod_1_r. cbn [Nat.eqb guard]. rewrite (bind_eq _ _ s tt s eq_refl).
      rewrite chunks_one by lia. reflexivity. }
    rewrite (bind_eq _ _ s _ s Ht).
    assert (Hc : forall l, concatMM (fun tg =>
                   match f (map GA (map AVar (seq 0 (List.length vs))) ++ map GQ tg) with
                   | None => verr
                   | Some bgs => lift (match mapR (stmt_of_bgate vs) bgs with Err (EInternal KType) => Err EValidation | r => r end)
                   end) (map (fun b => [b]) l) s = Ok (map (fun b => SGate [] name (map ELit vs) [qarg_of b]) l, s)).
    { induction l as [|b l IH]; [reflexivity|].
      change (map (fun b0 => [b0]) (b :: l)) with ([b] :: map (fun b0 => [b0]) l).
      change (map (fun b0 => SGate [] name (map ELit vs) [qarg_of b0]) (b :: l))
        with (SGate [] name (map ELit vs) [qarg_of b] :: map (fun b0 => SGate [] name (map ELit vs) [qarg_of b0]) l).
      cbn [concatMM].
      rewrite (bind_eq _ _ s [SGate [] name (map ELit vs) [qarg_of b]] s).
      - rewrite (bind_eq _ _ s _ s IH). reflexivity.
      - rewrite (Hf vs [b] Hv eq_refl). cbn [mapR stmt_of_bgate].
        pose proof (interp_vars [] vs) as Hi. cbn [app List.length] in Hi. rewrite Hi. reflexivity. }
    rewrite (bind_eq _ _ s out s (Hc bits)).
    destruct (gates1_ok bits s (HasQ_all env s bits R (opnd_bits_in_reg _ _ _ Hq))) as ([] & s1 & E1 & D1 & S1).
    rewrite (bind_eq _ _ s tt s1 E1). exists s1. split; [reflexivity|]. split; assumption. }
  destruct Hbasic as (s1 & Eb & D1 & S1).
  rewrite (bind_eq _ _ s (if check_only then [] else out) s1).
  2:{ rewrite (bind_eq _ _ s (if check_only then [] else out) s1).
      - rewrite (bind_eq _ _ s1 [] s1 eq_refl). unfold ret. now rewrite app_nil_r.
      - rewrite (bind_eq _ _ s s s eq_refl). cbn [smem existsb]. rewrite (R_gates _ _ R name np 1%nat Hn). exact Eb. }
  exists s1. split; [unfold emit, ret; destruct check_only; reflexivity|]. split; assumption.
Qed.
End BGate.

(* ---------- the statement: expansion and events ---------- *)
Definition bcast_ok (env : renv) (stm : stmt) : option (list stmt * list (list rsrc)) :=
  match stm with
  | SGate [] name args [q] =>
      match opnd_bits (e_q env) q, mapM lit_num args, assoc name self_basis with
      | Some bits, Some vs, Some (np, 1%nat) =>
          if Nat.eqb (List.length vs) np && distinctb [] bits
          then Some (map (fun b => SGate [] name args [qarg_of b]) bits, map (fun b => [Qr b]) bits) else None
      | _, _, _ => None
      end
  | SReset q =>
      match opnd_bits (e_q env) q with
      | Some bits => if distinctb [] bits then Some (map (fun b => SReset (qarg_of b)) bits, map (fun b => [Qr b]) bits) else None
      | None => None
      end
  | SBarrier qs =>
      match mapM (opnd_bits (e_q env)) qs with
      | Some bss => if distinctb [] (List.concat bss)
                    then Some (map (fun b => SBarrier [qarg_of b]) (List.concat bss), [map Qr (List.concat bss)]) else None
      | None => None
      end
  | SMeasure q (Some c) =>
      match opnd_bits (e_q env) q, opnd_bits (e_c env) c with
      | Some bq, Some bc =>
          if Nat.eqb (List.length bq) (List.length bc) && distinctb [] bq && distinctb [] bc
          then Some (map (fun p => SMeasure (qarg_of (fst p)) (Some (qarg_of (snd p)))) (combine bq bc),
                     map (fun p => [Qr (fst p); Br (snd p)]) (combine bq bc)) else None
      | _, _ => None
      end
  | _ => None
  end.

Lemma bcast_fix check_only f env s stm out evs : Regs env s -> bcast_ok env stm = Some (out, evs) ->
  emits_all check_only out evs (visit_stmt check_only [] (S f) stm) s.
Proof.
  intros R H. cbn [visit_stmt]. set (vr := visit_stmt check_only [] f). set (cr := visit_call check_only [] f).
  destruct stm; try discriminate H; cbn [bcast_ok visit_stmt_body] in *.
  - (* gate *)
    destruct mods; [|discriminate H]. destruct qubits as [|q [|]]; try discriminate H.
    destruct (opnd_bits (e_q env) q) as [bits|] eqn:Eq; [|discriminate H].
    destruct (mapM lit_num args) as [vs|] eqn:Ev; [|discriminate H].
    destruct (assoc name self_basis) as [[np [|[|k]]]|] eqn:En; try discriminate H.
    destruct (Nat.eqb (List.length vs) np && distinctb [] bits) eqn:C; [|discriminate H]. injection H as <- <-.
    apply andb_true_iff in C as [Hv Hd]. apply Nat.eqb_eq in Hv. apply mapM_lit_num in Ev as [-> Hn].
    eapply gate_bcast; eauto.
  - (* measure *)
    destruct target as [c|]; [|discriminate H].
    destruct (opnd_bits (e_q env) q) as [bq|] eqn:Eq; [|discriminate H]. destruct (opnd_bits (e_c env) c) as [bc|] eqn:Ec; [|discriminate H].
    match type of H with (if ?c then _ else _) = _ => destruct c eqn:C; [|discriminate H] end. injection H as <- <-.
    apply andb_true_iff in C as [C Dc]. apply andb_true_iff in C as [Hl Dq]. apply Nat.eqb_eq in Hl.
    eapply measure_bcast; eauto.
  - (* reset *)
    destruct (opnd_bits (e_q env) q) as [bits|] eqn:Eq; [|discriminate H].
    destruct (distinctb [] bits) eqn:Hd; [|discriminate H]. injection H as <- <-. eapply reset_bcast; eauto.
  - (* barrier *)
    destruct (mapM (opnd_bits (e_q env)) qs) as [bss|] eqn:Eq; [|discriminate H].
    destruct (distinctb [] (List.concat bss)) eqn:Hd; [|discriminate H]. injection H as <- <-. eapply barrier_bcast; eauto.
Qed.

Lemma bcast_ok_ops env stm out evs : bcast_ok env stm = Some (out, evs) -> forallb (op_ok env) out = true.
Proof.
  intros H. destruct stm; try discriminate H; cbn [bcast_ok] in H.
  - destruct mods; [|discriminate H]. destruct qubits as [|q [|]]; try discriminate H.
    destruct (opnd_bits (e_q env) q) as [bits|] eqn:Eq; [|discriminate H].
    destruct (mapM lit_num args) as [vs|] eqn:Ev; [|discriminate H].
    destruct (assoc name self_basis) as [[np [|[|k]]]|] eqn:En; try discriminate H.
    destruct (Nat.eqb (List.length vs) np && distinctb [] bits) eqn:C; [|discriminate H]. injection H as <- <-.
    apply andb_true_iff in C as [Hv _]. pose proof (opnd_bits_in_reg _ _ _ Eq) as Hin.
    rewrite forallb_map_. apply forallb_forall. intros b Hb. cbn [op_ok mapM]. rewrite lit_bit_of, Ev, En. cbn [List.length Nat.eqb forallb distinctb existsb negb].
    rewrite Hv. eapply forallb_forall in Hin; eauto. now rewrite Hin.
  - destruct target as [c|]; [|discriminate H].
    destruct (opnd_bits (e_q env) q) as [bq|] eqn:Eq; [|discriminate H]. destruct (opnd_bits (e_c env) c) as [bc|] eqn:Ec; [|discriminate H].
    match type of H with (if ?c then _ else _) = _ => destruct c eqn:C; [|discriminate H] end. injection H as <- <-.
    pose proof (opnd_bits_in_reg _ _ _ Eq) as Hq. pose proof (opnd_bits_in_reg _ _ _ Ec) as Hc.
    rewrite forallb_map_. apply forallb_forall. intros [x y] Hp. cbn [op_ok fst snd]. rewrite !lit_bit_of.
    pose proof (in_combine_l _ _ _ _ Hp) as Hx. pose proof (in_combine_r _ _ _ _ Hp) as Hy.
    eapply forallb_forall in Hq; eauto. eapply forallb_forall in Hc; eauto. now rewrite Hq, Hc.
  - destruct (opnd_bits (e_q env) q) as [bits|] eqn:Eq; [|discriminate H].
    destruct (distinctb [] bits); [|discriminate H]. injection H as <- <-. pose proof (opnd_bits_in_reg _ _ _ Eq) as Hin.
    rewrite forallb_map_. apply forallb_forall. intros b Hb. cbn [op_ok]. rewrite lit_bit_of. eapply forallb_forall in Hin; eauto.
  - destruct (mapM (opnd_bits (e_q env)) qs) as [bss|] eqn:Eq; [|discriminate H].
    destruct (distinctb [] (List.concat bss)); [|discriminate H]. injection H as <- <-.
    rewrite forallb_map_. apply forallb_forall. intros b Hb. cbn [op_ok]. rewrite lit_bit_of.
    revert bss Eq Hb. induction qs as [|q qs IH]; intros bss Eq Hb; cbn [mapM] in Eq.
    + injection Eq as <-. destruct Hb.
    + destruct (opnd_bits (e_q env) q) as [bits|] eqn:E1; [|discriminate]. destruct (mapM _ qs) as [bss'|] eqn:Em; [|discriminate].
      injection Eq as <-. cbn [List.concat] in Hb. apply in_app_or in Hb as [Hb|Hb]; [|eapply IH; eauto].
      pose proof (opnd_bits_in_reg _ _ _ E1) as Hin. eapply forallb_forall in Hin; eauto.
Qed.

(* ---------- programs: flat statements, loops, broadcast operations ---------- *)
Definition ptop_step (env : renv) (stm : stmt) : option (renv * list stmt * list (list rsrc)) :=
  match loop_ok env stm with
  | Some out => Some (env, out, evs_of out)
  | None =>
      match top_step env stm with
      | Some env' => Some (env', [stm], ev_of stm)
      | None => match bcast_ok env stm with Some (out, evs) => Some (env, out, evs) | None => None end
      end
  end.

(* the flat program a program stands for, and the events of its operations (a barrier on several qubits is ONE event) *)
Fixpoint pexpand (env : renv) (l : list stmt) : option (list stmt * list (list rsrc)) :=
  match l with
  | [] => Some ([], [])
  | stm :: l' =>
      match ptop_step env stm with
      | Some (env', out, evs) => match pexpand env' l' with Some (r, evr) => Some (out ++ r, evs ++ evr) | None => None end
      | None => None
      end
  end.

Lemma pprogram_fix fuel l : forall env s q evs,
  (ldepth l + 1 < fuel)%nat -> Top env s -> pexpand env l = Some (q, evs) ->
  exists s', concatMM (visit_stmt false [] fuel) l s = Ok (q, s') /\
             num_qubits s' = num_qubits s + total_qubits q /\ num_clbits s' = num_clbits s + total_clbits q /\
             Dstep s s' evs /\ wf_flat env q = true.
Proof.
  induction l as [|stm l IH]; intros env s q evs Hf T Hx; cbn [concatMM pexpand] in *.
  - injection Hx as <- <-. exists s. split; [reflexivity|]. cbn. split; [lia|]. split; [lia|]. split; [apply Dstep_same; reflexivity|reflexivity].
  - destruct (ptop_step env stm) as [[[env' out] ev1]|] eqn:Es; [|discriminate Hx].
    destruct (pexpand env' l) as [[r evr]|] eqn:Er; [|discriminate Hx]. injection Hx as <- <-.
    unfold ldepth in Hf. cbn [fold_right] in Hf. fold (ldepth l) in Hf.
    assert (Hstep : exists s1, visit_stmt false [] fuel stm s = Ok (out, s1) /\ Top env' s1 /\
                               num_qubits s1 = num_qubits s + total_qubits out /\ num_clbits s1 = num_clbits s + total_clbits out /\
                               Dstep s s1 ev1 /\ forall r0, wf_flat env (out ++ r0) = wf_flat env' r0).
    { unfold ptop_step in Es. destruct (loop_ok env stm) as [out'|] eqn:El.
      - injection Es as <- <- <-. destruct fuel as [|[|f]]; try lia.
        destruct (loop_fix f env s stm out' T El) as (s1 & E1 & T1 & Nq & Nc & S1 & _).
        pose proof (loop_ok_ops env stm out' El) as Ops. destruct (total_ops env out' Ops) as [Tq Tc].
        exists s1. split; [exact E1|]. split; [exact T1|]. split; [lia|]. split; [lia|]. split; [exact S1|].
        intros r0. now apply wf_flat_ops.
      - destruct (top_step env stm) as [env''|] eqn:Et.
        + injection Es as <- <- <-.
          destruct (top_fix false fuel stm env env'' s) as (s1 & E1 & T1 & Nq & Nc & S1); [lia|exact T|exact Et|].
          exists s1. split; [exact E1|]. split; [exact T1|]. unfold total_qubits, total_clbits. cbn [fold_right].
          split; [lia|]. split; [lia|]. split; [exact S1|]. intros r0. cbn [app wf_flat]. now rewrite Et.
        + destruct (bcast_ok env stm) as [[out' evs']|] eqn:Eb; [|discriminate Es]. injection Es as <- <- <-.
          destruct fuel as [|f]; [lia|].
          destruct (bcast_fix false f env s stm out' evs' (T_regs _ _ T) Eb) as (s1 & E1 & D1 & S1).
          pose proof (bcast_ok_ops env stm out' evs' Eb) as Ops. destruct (total_ops env out' Ops) as [Tq Tc].
          destruct (DE_counts _ _ D1) as [Nq Nc].
          exists s1. split; [exact E1|]. split; [eapply Top_DE; eauto|]. split; [lia|]. split; [lia|]. split; [exact S1|].
          intros r0. now apply wf_flat_ops. }
    destruct Hstep as (s1 & E1 & T1 & Nq1 & Nc1 & S1 & W1).
    destruct (IH env' s1 r evr) as (s2 & E2 & Nq2 & Nc2 & S2 & W2); [lia|exact T1|exact Er|].
    rewrite (bind_eq _ _ s _ s1 E1), (bind_eq _ _ s1 _ s2 E2). exists s2. split; [reflexivity|].
    destruct (total_app out r) as [Aq Ac].
    split; [lia|]. split; [lia|]. split; [eapply Dstep_trans; eauto|]. rewrite W1. exact W2.
Qed.

(* unroll() of a program of includes, register declarations, flat operations, loops over flat operations indexed by the loop
   variable, and operations on whole registers emits exactly the flat program the judgement computes, a well-formed flat
   program; the counts are its register sizes; the depth counters are the recurrence over the judgement's events *)
Theorem programs_unroll_to_their_expansion fuel p q evs :
  pexpand env0 p = Some (q, evs) -> (ldepth p + 1 < fuel)%nat ->
  exists o, run_visit false false [] fuel p = Ok o /\ o_stmts o = q /\ wf_flat env0 q = true /\
            num_qubits (o_state o) = total_qubits q /\ num_clbits (o_state o) = total_clbits q /\
            forall r, dof (o_state o) r = depth_after rsrc_eqb evs r.
Proof.
  intros Hx Hf. unfold run_visit. cbn [andb].
  destruct (pprogram_fix fuel p env0 init_st q evs Hf Top_init Hx) as (s2 & E2 & Nq2 & Nc2 & S2 & W).
  rewrite E2. cbn in Nq2, Nc2.
  assert (N0 : nonneg init_st) by (intros r; destruct r as [[|] b]; cbn; lia).
  eexists. split; [reflexivity|]. cbn [o_stmts o_state]. split; [eapply wf_flat_finalize; eauto|].
  split; [exact W|]. split; [assumption|]. split; [assumption|].
  intros r. rewrite (S2 N0 r). unfold depth_after. apply run_evs_ext. intros [[|] b]; reflexivity.
Qed.
