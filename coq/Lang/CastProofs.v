(* The cast / range-check kernel regenerated from the source (CastGen.v: maps.qasm_variable_type_cast
   and validator.validate_variable_assignment_value, compiled statement by statement) computes the
   same function as the hand-written model [cast_value] that the visitor model uses -- for every
   type kind, every value and every positive declared width.  The C07 store theorems are stated on
   [cast_value]; through this equation they are theorems about the code as it is now. *)
From Coq Require Import ZArith List Bool String PrimFloat Lia.
From Verif Require Import BGate PyVal CastPrim Ast State Unroll CastGen.
Import ListNotations.
Open Scope Z_scope.

Lemma pow2_pos n : 0 <= n -> 0 < 2 ^ n.
Proof. intros. apply Z.pow_pos_nonneg; lia. Qed.

Lemma int_range_test z n : 1 <= n ->
  b_test (b_or (b_lt (Ok (VInt z)) (Ok (VInt (-1 * 2 ^ (n - 1))))) (b_gt (Ok (VInt z)) (Ok (VInt (2 ^ (n - 1) - 1)))))
         (Err EValidation) (Ok (VInt z))
  = if (z <? - 2 ^ (n - 1)) || (2 ^ (n - 1) - 1 <? z) then Err EValidation else Ok (VInt z).
Proof.
  intros Hn. unfold b_test, b_or, b_lt, b_gt, lt_val, int_operand; cbn [bind truthy].
  replace (-1 * 2 ^ (n - 1)) with (- 2 ^ (n - 1)) by lia.
  destruct (z <? - 2 ^ (n - 1)); cbn [bind truthy orb]; [reflexivity|].
  destruct (2 ^ (n - 1) - 1 <? z); reflexivity.
Qed.

Lemma uint_range_test z n : 1 <= n ->
  b_test (b_or (b_lt (Ok (VInt (z mod 2 ^ n))) (Ok (VInt 0))) (b_gt (Ok (VInt (z mod 2 ^ n))) (Ok (VInt (2 ^ n - 1)))))
         (Err EValidation) (Ok (VInt (z mod 2 ^ n)))
  = Ok (VInt (z mod 2 ^ n)).
Proof.
  intros Hn. pose proof (pow2_pos n ltac:(lia)) as Hp. pose proof (Z.mod_pos_bound z (2 ^ n) Hp) as Hb.
  unfold b_test, b_or, b_lt, b_gt, lt_val, int_operand; cbn [bind truthy].
  assert (z mod 2 ^ n <? 0 = false) as -> by (apply Z.ltb_ge; lia). cbn [bind truthy].
  assert (2 ^ n - 1 <? z mod 2 ^ n = false) as -> by (apply Z.ltb_ge; lia). reflexivity.
Qed.

(* the integer that int(x) yields, as the hand model computes it *)
Definition int_view (v : pyval) : res Z :=
  match v with
  | VInt z => Ok z
  | VBool b => Ok (if b then 1 else 0)
  | VFloat f => match float_trunc f with
                | Some z => Ok z
                | None => Err (EInternal (if PrimFloat.is_nan f then KValue else KOverflow))
                end
  | VNone => Err EValidation
  end.

Lemma b_int_view v : v <> VNone -> b_int (Ok v) = do z <- int_view v;; Ok (VInt z).
Proof. destruct v as [z|f|[]|]; intros H; try reflexivity; [|congruence]. cbn. destruct (float_trunc f); reflexivity. Qed.

Definition int_tail (k : vkind) (size : option Z) (z : Z) : res pyval :=
  match size with
  | None => Err (EInternal KType)
  | Some n =>
      if n <? 1 then Err (EUnmodelled "non-positive base size")
      else
      match k with
      | KInt => if (z <? - 2 ^ (n - 1)) || (2 ^ (n - 1) - 1 <? z) then Err EValidation else Ok (VInt z)
      | _ => Ok (VInt (z mod 2 ^ n))
      end
  end.
Lemma cast_value_int k size v : k = KInt \/ k = KUint ->
  cast_value k size v = do z <- int_view v;; int_tail k size z.
Proof. intros [->| ->]; reflexivity. Qed.

Ltac gen_start :=
  unfold cast_value_gen, type_cast_gen;
  cbn [type_map_gen cast_table_gen bind b_test truthy tag_of tag_mem existsb tag_eqb orb negb vkind_eqb size_val].

Lemma gen_int size v : (forall n, size = Some n -> 1 <= n) -> v <> VNone ->
  cast_value_gen KInt size v = cast_value KInt size v.
Proof.
  intros Hsz Hv. rewrite cast_value_int by auto.
  assert (E : cast_value_gen KInt size v =
              do c <- b_int (Ok v);; match c with VInt z => int_tail KInt size z | _ => Err EValidation end).
  { destruct v as [z|f|b|]; [| | |congruence]; gen_start.
    all: destruct (b_int (Ok _)) as [[z0|f0|b0|]|e] eqn:Eb; cbn [bind];
      try reflexivity; try (cbn in Eb; repeat match type of Eb with context [match ?x with _ => _ end] => destruct x end; discriminate).
    all: destruct size as [n|]; cbn [size_val int_tail]; [specialize (Hsz n eq_refl)|reflexivity].
    all: assert (n <? 1 = false) as -> by (apply Z.ltb_ge; lia).
    all: unfold b_sub, b_pow, b_mul, b_arith; cbn [bind int_operand].
    all: assert (n - 1 <? 0 = false) as -> by (apply Z.ltb_ge; lia); cbn [bind int_operand].
    all: apply int_range_test; exact Hsz. }
  rewrite E, b_int_view by exact Hv. destruct (int_view v); reflexivity.
Qed.

Lemma gen_uint size v : (forall n, size = Some n -> 1 <= n) -> v <> VNone ->
  cast_value_gen KUint size v = cast_value KUint size v.
Proof.
  intros Hsz Hv. rewrite cast_value_int by auto.
  assert (E : cast_value_gen KUint size v =
              do c <- b_int (Ok v);; match c with VInt z => int_tail KUint size z | _ => Err EValidation end).
  { destruct v as [z|f|b|]; [| | |congruence]; gen_start.
    all: unfold b_mod at 1.
    all: destruct (b_int (Ok _)) as [[z0|f0|b0|]|e] eqn:Eb; cbn [bind];
      try reflexivity; try (cbn in Eb; repeat match type of Eb with context [match ?x with _ => _ end] => destruct x end; discriminate).
    all: destruct size as [n|]; cbn [size_val int_tail]; [specialize (Hsz n eq_refl)|reflexivity].
    all: assert (n <? 1 = false) as -> by (apply Z.ltb_ge; lia).
    all: unfold b_pow; cbn [bind int_operand]; assert (n <? 0 = false) as -> by (apply Z.ltb_ge; lia); cbn [bind int_operand].
    all: pose proof (pow2_pos n ltac:(lia)) as Hp; assert (2 ^ n =? 0 = false) as -> by (apply Z.eqb_neq; lia); cbn [bind].
    all: unfold b_sub, b_arith; cbn [bind int_operand]; apply uint_range_test; exact Hsz. }
  rewrite E, b_int_view by exact Hv. destruct (int_view v); reflexivity.
Qed.

Lemma float_range_ff f l r :
  b_test (b_or (b_lt (Ok (VFloat f)) (Ok (VFloat l))) (b_gt (Ok (VFloat f)) (Ok (VFloat r)))) (Err EValidation) (Ok (VFloat f))
  = if PrimFloat.ltb f l || PrimFloat.ltb r f then Err EValidation else Ok (VFloat f).
Proof.
  unfold b_test, b_or, b_lt, b_gt, lt_val; cbn [bind truthy].
  destruct (PrimFloat.ltb f l); cbn [bind truthy orb]; [reflexivity|]. destruct (PrimFloat.ltb r f); reflexivity.
Qed.
Lemma float_range_fz f l z :
  b_test (b_or (b_lt (Ok (VFloat f)) (Ok (VFloat l))) (b_gt (Ok (VFloat f)) (Ok (VInt z)))) (Err EValidation) (Ok (VFloat f))
  = if PrimFloat.ltb f l || fz_gt f z then Err EValidation else Ok (VFloat f).
Proof.
  unfold b_test, b_or, b_lt, b_gt, lt_val; cbn [bind truthy int_operand].
  destruct (PrimFloat.ltb f l); cbn [bind truthy orb]; [reflexivity|]. destruct (fz_gt f z); reflexivity.
Qed.

Definition float_tail (size : option Z) (f : float) : res pyval :=
  if match size with Some n => n =? 32 | None => false end
  then if PrimFloat.ltb f (-0x1.ffffffe8c0932p+126)%float || PrimFloat.ltb float32_limit f then Err EValidation else Ok (VFloat f)
  else if PrimFloat.ltb f (-0x1.1ccf385ebc8ap+1023)%float || float_exceeds_ten308 f then Err EValidation else Ok (VFloat f).

Lemma gen_float_tail size f :
  cast_value_gen KFloat size (VFloat f) = float_tail size f.
Proof.
  gen_start; cbn [b_float bind]. unfold float_tail.
  destruct size as [n|]; cbn [size_val b_eq eq_val int_operand bind b_test truthy].
  - destruct (n =? 32).
    + rewrite float_range_ff. reflexivity.
    + rewrite float_range_fz. reflexivity.
  - rewrite float_range_fz. reflexivity.
Qed.

Theorem cast_value_gen_eq k size v :
  (forall n, size = Some n -> 1 <= n) -> cast_value_gen k size v = cast_value k size v.
Proof.
  intros Hsz. destruct k.
  - (* KQubit *) destruct v; reflexivity.
  - (* KInt *) destruct v as [z|f|b|]; try (apply gen_int; [exact Hsz|discriminate]); reflexivity.
  - (* KUint *) destruct v as [z|f|b|]; try (apply gen_uint; [exact Hsz|discriminate]); reflexivity.
  - (* KFloat *)
    destruct v as [z|f|b|]; [| | |reflexivity].
    + (* int -> float *)
      transitivity (do f <- float_of_Z z;; float_tail size f); [|unfold cast_value; destruct (float_of_Z z); reflexivity].
      destruct (float_of_Z z) as [f|e] eqn:E; cbn [bind].
      * rewrite <- gen_float_tail. gen_start. cbn [b_float bind]. rewrite E. reflexivity.
      * gen_start. cbn [b_float bind]. rewrite E. reflexivity.
    + rewrite gen_float_tail. reflexivity.
    + transitivity (float_tail size (if b then one else zero)); [|reflexivity].
      rewrite <- gen_float_tail. reflexivity.
  - (* KBool *) destruct v as [z|f|b|]; reflexivity.
  - (* KBit *) destruct v as [z|f|[]|]; reflexivity.
  - (* KAngle *) destruct v; reflexivity.
  - (* KComplex *) destruct v; reflexivity.
  - (* KOtherT *) destruct v; reflexivity.
Qed.

(* ---------- array indices (analyzer.analyze_classical_indices) ---------- *)
Theorem analyze_index_literal i d s :
  analyze_indices [IExpr (ELit (VInt i))] (Some [d]) s =
  if (0 <=? i) && (i <? d) then Ok ([(i, i, 1)], s) else Err EValidation.
Proof.
  unfold analyze_indices. cbn. unfold bindM, ret, as_int_index, guard, fail. cbn. destruct ((0 <=? i) && (i <? d)); reflexivity.
Qed.

Theorem analyze_index_count items ds s :
  ds <> [] -> List.length items <> List.length ds -> analyze_indices items (Some ds) s = Err EValidation.
Proof.
  intros Hd Hl. unfold analyze_indices. destruct ds as [|d ds]; [congruence|].
  apply Nat.eqb_neq in Hl. unfold guard, bindM. rewrite Hl. reflexivity.
Qed.
