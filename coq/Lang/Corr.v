(* Correspondence harness, Coq side: compare the model's outcome on a program with what real
   pyqasm produced (written into the case file by harness/langcorr.py). *)
From Coq Require Import ZArith List Bool String.
From Verif Require Import BGate PyVal Ast State Unroll.
Import ListNotations.
Open Scope Z_scope.

Inductive expected :=
| XOk (stmts : list stmt) (nq nc depth : Z)
| XValidation
| XInternal.

Record case := mkCase {
  c_qasm2 : bool;
  c_prog : list stmt;
  c_ext : list string;
  c_val : expected;      (* validate(): only the outcome class is compared *)
  c_unr : expected       (* unroll(external_gates=c_ext) *)
}.

Definition max_depth (s : st) : Z :=
  Z.max (fold_left (fun m p => Z.max m (qd (snd p))) (qdepth s) 0)
        (fold_left (fun m p => Z.max m (cd (snd p))) (cdepth s) 0).

(* 0 agree | 1 validate class | 2 unroll class | 3 statements | 4 counts | 5 depth | 8 fuel | 9 unmodelled *)
Definition class_code (r : res outcome) (x : expected) : nat :=
  match r, x with
  | Ok _, XOk _ _ _ _ => 0
  | Err EValidation, XValidation => 0
  | Err (EInternal _), XInternal => 0
  | Err EFuel, _ => 8
  | Err (EUnmodelled _), _ => 9
  | _, _ => 1
  end%nat.

Definition check_case (c : case) : nat :=
  let v := validate_v (c_qasm2 c) (c_prog c) in
  match class_code v (c_val c) with
  | O =>
      let u := unroll_v (c_qasm2 c) (c_ext c) (c_prog c) in
      match class_code u (c_unr c) with
      | O =>
          match u, c_unr c with
          | Ok o, XOk stmts nq nc d =>
              if negb (stmts_eqb (o_stmts o) stmts) then 3
              else if negb (Z.eqb (num_qubits (o_state o)) nq && Z.eqb (num_clbits (o_state o)) nc) then 4
              else if negb (Z.eqb (max_depth (o_state o)) d) then 5
              else 0
          | _, _ => 0
          end
      | 1 => 2
      | n => n
      end
  | n => n
  end%nat.

(* ---------- specification oracle: reference semantics vs what the implementation did ---------- *)
From Verif Require Import Spec Depth DepthModel DepthSpec.

(* 0 agrees | 11 spec accepts, implementation rejects | 12 spec: checked error, implementation accepts
   | 13 emitted statements differ from the lowered reference trace | 14 spec: checked error,
   implementation fails with an internal exception | 15 statements agree but the reported depth is not
   the critical-path length of the reference trace | 18 fuel | 19 specification silent *)
Definition spec_case (strict : bool) (c : case) : nat :=
  match spec_run strict (c_qasm2 c) (c_ext c) (c_prog c), c_unr c with
  | Err (EUnmodelled _), _ => 19
  | Err EFuel, _ => 18
  | Err (EInternal _), _ => 19
  | Err EValidation, XValidation => 0
  | Err EValidation, XOk _ _ _ _ => 12
  | Err EValidation, XInternal => 14
  | Ok tr, XOk stmts _ _ d =>
      match lower tr with
      | Ok l => if flat_equiv_list l stmts
                then (match c_ext c with
                      | [] => if Z.eqb (spec_depth tr) d then 0 else 15
                      | _ => 0      (* depth() takes no external_gates: nothing to compare *)
                      end)
                else 13
      | Err _ => 19
      end
  | Ok _, _ => 11
  end%nat.
