(* C08: definitions are never altered.
   Every gate and subroutine definition in force before a visit is in force, unchanged, after it -- for every
   statement, every subroutine call, every fuel, state and mode.  (The visitor model keeps definitions as
   immutable values and only ever adds one under a name that is not yet taken; this file proves that nothing
   else touches them, by the same induction over the whole interpreter as FlatProofs.v / StackProofs.v.)
   This is the model-level statement of "repeated calls of a gate or subroutine start from the unmodified
   definition". *)
From Coq Require Import ZArith List Bool String Lia.
From Verif Require Import Aexp BGate PyVal CastPrim Ast State Arr GatesGen GateLib Unroll.
Import ListNotations.
Open Scope Z_scope.

Definition defs_kept (s s' : st) : Prop :=
  (forall n gd, sget n (gates s) = Some gd -> sget n (gates s') = Some gd) /\
  (forall n sd, sget n (subs s) = Some sd -> sget n (subs s') = Some sd).
Definition SI {A} (m : M A) : Prop := forall s r s', m s = Ok (r, s') -> defs_kept s s'.

Lemma defs_refl s : defs_kept s s. Proof. split; auto. Qed.
Lemma defs_trans a b c : defs_kept a b -> defs_kept b c -> defs_kept a c.
Proof. intros [H1 H2] [H3 H4]. split; auto. Qed.
Lemma defs_same s s' : gates s' = gates s -> subs s' = subs s -> defs_kept s s'.
Proof. intros Hg Hs. unfold defs_kept. rewrite Hg, Hs. split; auto. Qed.

Lemma sget_sset_other {V} (x n : string) (v : V) l w : n <> x -> sget n l = Some w -> sget n (sset x v l) = Some w.
Proof.
  intros Hne. unfold sget, sset. induction l as [|[k u] l IH]; cbn; [discriminate|].
  destruct (String.eqb n k) eqn:E1; destruct (String.eqb x k) eqn:E2; cbn; rewrite ?E1; auto.
  - apply String.eqb_eq in E1, E2. congruence.
  - intros H. destruct (String.eqb n x) eqn:E3; [apply String.eqb_eq in E3; congruence|]. exact H.
Qed.

Lemma bind_ok' {A B} (m : M A) (f : A -> M B) s r : bindM m f s = Ok r ->
  exists a s1, m s = Ok (a, s1) /\ f a s1 = Ok r.
Proof. unfold bindM. destruct (m s) as [[a s1]|]; [eauto|discriminate]. Qed.

Lemma SI_ret {A} (a : A) : SI (ret a).
Proof. intros s r s' E. unfold ret in E. inversion E; subst. apply defs_refl. Qed.
Lemma SI_fail {A} e : SI (@fail A e).
Proof. intros s r s' E. discriminate. Qed.
Lemma SI_bind {A B} (m : M A) (k : A -> M B) : SI m -> (forall a, SI (k a)) -> SI (bindM m k).
Proof.
  intros Hm Hk s r s' E. apply bind_ok' in E as (a & s1 & E1 & E2).
  eapply defs_trans; [exact (Hm _ _ _ E1)|exact (Hk a _ _ _ E2)].
Qed.
Lemma SI_getst : SI getst.
Proof. intros s r s' E. unfold getst in E. inversion E; subst. apply defs_refl. Qed.
Lemma SI_lift {A} (x : res A) : SI (lift x).
Proof. intros s r s' E. unfold lift in E. destruct x; inversion E; subst. apply defs_refl. Qed.
Lemma SI_guard b e : SI (guard b e).
Proof. unfold guard. destruct b; [apply SI_ret|apply SI_fail]. Qed.
Lemma SI_modify f : (forall s, defs_kept s (f s)) -> SI (modify f).
Proof. intros H s r s' E. unfold modify in E. inversion E; subst. apply H. Qed.
Lemma SI_if {A} (b : bool) (m1 m2 : M A) : SI m1 -> SI m2 -> SI (if b then m1 else m2).
Proof. destruct b; auto. Qed.
Lemma SI_mapMM {A B} (f : A -> M B) l : (forall x, SI (f x)) -> SI (mapMM f l).
Proof.
  intros Hf. induction l as [|x l IH]; cbn [mapMM]; [apply SI_ret|].
  apply SI_bind; [apply Hf|intros y]. apply SI_bind; [exact IH|intros ys; apply SI_ret].
Qed.
Lemma SI_iterM {A} (f : A -> M unit) l : (forall x, SI (f x)) -> SI (iterM f l).
Proof.
  intros Hf. induction l as [|x l IH]; cbn [iterM]; [apply SI_ret|].
  apply SI_bind; [apply Hf|intros _; exact IH].
Qed.
Lemma SI_concatMM {A B} (f : A -> M (list B)) l : (forall x, SI (f x)) -> SI (concatMM f l).
Proof.
  intros Hf. induction l as [|x l IH]; cbn [concatMM]; [apply SI_ret|].
  apply SI_bind; [apply Hf|intros y]. apply SI_bind; [exact IH|intros ys; apply SI_ret].
Qed.
Lemma SI_repeatM {A} n (m : M (list A)) : SI m -> SI (repeatM n m).
Proof.
  intros Hm. induction n as [|n IH]; cbn [repeatM]; [apply SI_ret|].
  apply SI_bind; [exact Hm|intros y]. apply SI_bind; [exact IH|intros ys; apply SI_ret].
Qed.

Lemma gates_update_var s x v : gates (update_var s x v) = gates s /\ subs (update_var s x v) = subs s.
Proof.
  unfold update_var. destruct (in_global s); [split; reflexivity|].
  destruct (in_function s || in_gate s); [destruct (sget x (curr_scope s)); split; reflexivity|].
  destruct (in_block s); split; reflexivity.
Qed.
Lemma gates_level_add s x : gates (level_add s x) = gates s /\ subs (level_add s x) = subs s.
Proof. unfold level_add. destruct (label_levels s); split; reflexivity. Qed.

Lemma SI_getst_add_var {B} x v (k : unit -> M B) :
  (forall u, SI (k u)) -> SI (bindM getst (fun s => bindM (putres (add_var s x v)) k)).
Proof.
  intros Hk s r s' E. unfold bindM, getst, putres in E.
  unfold add_var in E. destruct (scopes s) as [|sc rest] eqn:Es; [discriminate|].
  destruct (smemk x sc); [discriminate|].
  eapply defs_trans; [|exact (Hk tt _ _ _ E)]. apply defs_same; reflexivity.
Qed.
Lemma SI_getst_add_var_end x v : SI (bindM getst (fun s => putres (add_var s x v))).
Proof.
  intros s r s' E. unfold bindM, getst, putres in E.
  unfold add_var in E. destruct (scopes s) as [|sc rest] eqn:Es; [discriminate|].
  destruct (smemk x sc); [discriminate|].
  inversion E; subst. apply defs_same; reflexivity.
Qed.

(* a state update that does not write the two definition tables *)
Ltac sg_solve :=
  apply defs_same;
  unfold pop_ctx, pop_scope, push_ctx, push_scope, level_pop, level_push;
  cbn [gates subs with_scopes with_ctxs with_included with_nqlabels with_nclabels with_alias_labels
       with_qreg_sizes with_alias_sizes with_fn with_creg_sizes with_gates with_subs with_levels
       with_qdepth with_cdepth with_modq with_modc with_gstack];
  rewrite ?(fun s x v => proj1 (gates_update_var s x v)), ?(fun s x v => proj2 (gates_update_var s x v)),
          ?(fun s x => proj1 (gates_level_add s x)), ?(fun s x => proj2 (gates_level_add s x));
  cbn [gates subs with_scopes with_ctxs with_included with_nqlabels with_nclabels with_alias_labels
       with_qreg_sizes with_alias_sizes with_fn with_creg_sizes with_gates with_subs with_levels
       with_qdepth with_cdepth with_modq with_modc with_gstack];
  rewrite ?(fun s x v => proj1 (gates_update_var s x v)), ?(fun s x v => proj2 (gates_update_var s x v)),
          ?(fun s x => proj1 (gates_level_add s x)), ?(fun s x => proj2 (gates_level_add s x));
  first [ reflexivity
        | (repeat match goal with |- context [match ?x with _ => _ end] => destruct x end; reflexivity) ].

Ltac si_step :=
  lazymatch goal with
  | |- SI (bindM getst (fun s => bindM (putres (add_var s _ _)) _)) => apply SI_getst_add_var; intros ?
  | |- SI (bindM getst (fun s => putres (add_var s _ _))) => apply SI_getst_add_var_end
  | |- SI (bindM _ _) => apply SI_bind; [|intros ?]
  | |- SI (ret _) => apply SI_ret
  | |- SI (fail _) => apply SI_fail
  | |- SI verr => apply SI_fail
  | |- SI (ierr _) => apply SI_fail
  | |- SI (unm _) => apply SI_fail
  | |- SI getst => apply SI_getst
  | |- SI (lift _) => apply SI_lift
  | |- SI (guard _ _) => apply SI_guard
  | |- SI (modify _) => apply SI_modify; intros ?; sg_solve
  | |- SI (mapMM _ _) => apply SI_mapMM; intros ?
  | |- SI (iterM _ _) => apply SI_iterM; intros ?
  | |- SI (concatMM _ _) => apply SI_concatMM; intros ?
  | |- SI (repeatM _ _) => apply SI_repeatM
  | |- SI (if ?b then _ else _) => first [apply SI_if | destruct b]
  | |- SI (let '(_, _) := ?x in _) => destruct x
  | |- SI (match ?x with _ => _ end) => destruct x
  end.

Create HintDb si.
Ltac si := repeat (first [ solve [auto 2 with si] | si_step ]).

Lemma SI_as_index v : SI (as_index v). Proof. unfold as_index. si. Qed.
Lemma SI_get_qnode b : SI (get_qnode b). Proof. unfold get_qnode. si. Qed.
Lemma SI_set_qnode b n : SI (set_qnode b n). Proof. unfold set_qnode. si. Qed.
Lemma SI_get_cnode b : SI (get_cnode b). Proof. unfold get_cnode. si. Qed.
Lemma SI_set_cnode b n : SI (set_cnode b n). Proof. unfold set_cnode. si. Qed.
Lemma SI_validate_index i n : SI (validate_index i n). Proof. unfold validate_index. si. Qed.
#[export] Hint Resolve SI_as_index SI_get_qnode SI_set_qnode SI_get_cnode SI_set_cnode SI_validate_index : si.

Section Stack.
Variable check_only : bool.
Variable externals : list string.
Variable visit_rec : stmt -> M (list stmt).
Variable call_rec : string -> list expr -> M (pyval * list stmt).
Hypothesis Hvr : forall st, SI (visit_rec st).
Hypothesis Hcr : forall f args, SI (call_rec f args).
Hint Resolve Hvr Hcr : si.

Lemma SI_emit l : SI (emit check_only l). Proof. unfold emit. si. Qed.
Hint Resolve SI_emit : si.
Lemma SI_process_variable x i c r : SI (process_variable x i c r). Proof. unfold process_variable. si. Qed.
Hint Resolve SI_process_variable : si.
Lemma SI_apply_op n a : SI (apply_op n a). Proof. unfold apply_op. si. Qed.
Hint Resolve SI_apply_op : si.
Lemma SI_eval_simple e : forall c r, SI (eval_simple e c r).
Proof. induction e; intros c r; cbn [eval_simple]; si. Qed.
Hint Resolve SI_eval_simple : si.
Lemma SI_index_items e : SI (index_items e). Proof. unfold index_items. si. Qed.
Lemma SI_as_int_index v : SI (as_int_index v). Proof. unfold as_int_index. si. Qed.
Hint Resolve SI_index_items SI_as_int_index : si.
Lemma SI_analyze_indices it d : SI (analyze_indices it d). Proof. unfold analyze_indices. si. Qed.
Hint Resolve SI_analyze_indices : si.
Lemma SI_process_indexed x it c r : SI (process_indexed x it c r). Proof. unfold process_indexed. si. Qed.
Hint Resolve SI_process_indexed : si.

Lemma SI_eval e : forall c r, SI (eval call_rec e c r).
Proof. induction e; intros c r; cbn [eval]; si. Qed.
Hint Resolve SI_eval : si.
Lemma SI_eval0 e c r : SI (eval0 call_rec e c r). Proof. unfold eval0. si. Qed.
Hint Resolve SI_eval0 : si.
Lemma SI_eval_opt e c r : SI (eval_opt call_rec e c r). Proof. unfold eval_opt. si. Qed.
Hint Resolve SI_eval_opt : si.
Lemma SI_creg_in_expr s e : SI (creg_in_expr s e).
Proof. induction e; cbn [creg_in_expr]; si. Qed.
Hint Resolve SI_creg_in_expr : si.
Lemma SI_discrete_set_values v : SI (discrete_set_values v). Proof. unfold discrete_set_values. si. Qed.
Lemma SI_range_ids a b c n : SI (range_ids call_rec a b c n). Proof. unfold range_ids. si. Qed.
Hint Resolve SI_discrete_set_values SI_range_ids : si.
Lemma SI_resolve_one q m b : SI (resolve_one call_rec q m b). Proof. unfold resolve_one. si. Qed.
Hint Resolve SI_resolve_one : si.
Lemma SI_get_op_bits l m b : SI (get_op_bits call_rec l m b).
Proof.
  unfold get_op_bits. generalize (@nil bitref) as acc. induction l as [|q l IH]; intros acc; [si|].
  simpl. si.
Qed.
Hint Resolve SI_get_op_bits : si.
Lemma SI_transform_function_qubits l : SI (transform_function_qubits call_rec l). Proof. unfold transform_function_qubits. si. Qed.
Hint Resolve SI_transform_function_qubits : si.
Lemma SI_visit_qubit_decl n sz : SI (visit_qubit_decl check_only call_rec n sz). Proof. unfold visit_qubit_decl. si. Qed.
Lemma SI_eval_base_size t d : SI (eval_base_size call_rec t d). Proof. unfold eval_base_size. si. Qed.
Lemma SI_assign_value k sz v : SI (assign_value k sz v). Proof. unfold assign_value. si. Qed.
Hint Resolve SI_visit_qubit_decl SI_eval_base_size SI_assign_value : si.
Lemma SI_visit_const_decl t n i : SI (visit_const_decl check_only call_rec t n i). Proof. unfold visit_const_decl. si. Qed.
Hint Resolve SI_visit_const_decl : si.

Definition array_leaf (k : vkind) (e : expr) : M arr :=
  v <- eval_simple e false None;;
  match k, v with
  | KInt, VInt _ | KFloat, VFloat _ | KBool, VBool _ => ret (ALeaf (Some v))
  | KUint, VInt z => if z <? 0 then unm "negative value in a uint array literal" else ret (ALeaf (Some v))
  | KFloat, VInt z => f <- lift (float_of_Z z);; ret (ALeaf (Some (VFloat f)))
  | _, _ => unm "array literal leaf converted by numpy"
  end.
Lemma SI_array_leaf k e : SI (array_leaf k e). Proof. unfold array_leaf. si. Qed.

Lemma SI_array_literal k : forall e, SI (array_literal k e).
Proof.
  fix IH 1. intros e.
  destruct e as [lv| | |x|c idx|op e1|op l r0|f args|t idx|vals|o];
    try exact (SI_array_leaf k _).
  cbn [array_literal]. apply SI_bind; [|intros ?; apply SI_ret].
  revert vals. fix IHl 1. intros [|x l]; [apply SI_ret|].
  apply SI_bind; [apply IH|intros a]. apply SI_bind; [apply IHl|intros r; apply SI_ret].
Qed.
Hint Resolve SI_array_literal : si.
Lemma SI_visit_array_decl x0 x1 x2 x3 : SI (visit_array_decl call_rec x0 x1 x2 x3). Proof. unfold visit_array_decl. si. Qed.
Hint Resolve SI_visit_array_decl : si.
Lemma SI_visit_classical_decl x0 x1 x2 : SI (visit_classical_decl check_only call_rec x0 x1 x2). Proof. unfold visit_classical_decl. si. Qed.
Hint Resolve SI_visit_classical_decl : si.
Lemma SI_binop_of_assign x0 : SI (binop_of_assign  x0). Proof. unfold binop_of_assign. si. Qed.
Hint Resolve SI_binop_of_assign : si.
Lemma SI_visit_assignment x0 x1 x2 : SI (visit_assignment check_only call_rec x0 x1 x2). Proof. unfold visit_assignment. si. Qed.
Hint Resolve SI_visit_assignment : si.
Lemma SI_depth_pass1 u l : forall mx, SI (depth_pass1 u l mx).
Proof. induction l as [|b l IH]; intros mx; cbn [depth_pass1]; si. Qed.
Hint Resolve SI_depth_pass1 : si.
Lemma SI_depth_pass2 x0 x1 : SI (depth_pass2  x0 x1). Proof. unfold depth_pass2. si. Qed.
Hint Resolve SI_depth_pass2 : si.
Lemma SI_depth_barrier x0 : SI (depth_barrier  x0). Proof. unfold depth_barrier. si. Qed.
Hint Resolve SI_depth_barrier : si.
Lemma SI_depth_gate_subset x0 : SI (depth_gate_subset  x0). Proof. unfold depth_gate_subset. si. Qed.
Hint Resolve SI_depth_gate_subset : si.
Lemma SI_depth_reset x0 : SI (depth_reset  x0). Proof. unfold depth_reset. si. Qed.
Hint Resolve SI_depth_reset : si.
Lemma SI_depth_measure_pair x0 : SI (depth_measure_pair  x0). Proof. unfold depth_measure_pair. si. Qed.
Hint Resolve SI_depth_measure_pair : si.
Lemma SI_visit_measure x0 x1 : SI (visit_measure check_only call_rec x0 x1). Proof. unfold visit_measure. si. Qed.
Hint Resolve SI_visit_measure : si.
Lemma SI_visit_reset x0 : SI (visit_reset check_only call_rec x0). Proof. unfold visit_reset. si. Qed.
Hint Resolve SI_visit_reset : si.
Lemma SI_visit_barrier x0 : SI (visit_barrier check_only call_rec x0). Proof. unfold visit_barrier. si. Qed.
Hint Resolve SI_visit_barrier : si.
Lemma SI_unroll_targets x0 x1 : SI (unroll_targets call_rec x0 x1). Proof. unfold unroll_targets. si. Qed.
Hint Resolve SI_unroll_targets : si.
Lemma SI_update_depth_for_gate x0 : SI (update_depth_for_gate  x0). Proof. unfold update_depth_for_gate. si. Qed.
Hint Resolve SI_update_depth_for_gate : si.
Lemma SI_get_op_parameters x0 : SI (get_op_parameters call_rec x0). Proof. unfold get_op_parameters. si. Qed.
Hint Resolve SI_get_op_parameters : si.
Lemma SI_visit_basic_gate x0 x1 x2 x3 : SI (visit_basic_gate check_only call_rec x0 x1 x2 x3). Proof. unfold visit_basic_gate. si. Qed.
Hint Resolve SI_visit_basic_gate : si.

Lemma SI_visit_custom_gate n a q i : SI (visit_custom_gate check_only visit_rec call_rec n a q i).
Proof. unfold visit_custom_gate. si. Qed.
Hint Resolve SI_visit_custom_gate : si.

Lemma SI_visit_external_gate n a q i : SI (visit_external_gate check_only visit_rec call_rec n a q i).
Proof. unfold visit_external_gate. si. Qed.
Hint Resolve SI_visit_external_gate : si.

Lemma SI_collapse_mods ms : forall p i, SI (collapse_mods call_rec ms p i).
Proof. induction ms as [|m ms IH]; intros p i; cbn [collapse_mods]; si. Qed.
Hint Resolve SI_collapse_mods : si.
Lemma SI_visit_generic_gate x0 x1 x2 x3 : SI (visit_generic_gate check_only externals visit_rec call_rec x0 x1 x2 x3). Proof. unfold visit_generic_gate. si. Qed.
Hint Resolve SI_visit_generic_gate : si.
Lemma SI_visit_generic_phase x0 x1 x2 : SI (visit_generic_phase check_only call_rec x0 x1 x2). Proof. unfold visit_generic_phase. si. Qed.
Hint Resolve SI_visit_generic_phase : si.
Lemma SI_visit_block x0 : SI (visit_block visit_rec x0). Proof. unfold visit_block. si. Qed.
Hint Resolve SI_visit_block : si.
Lemma SI_literal_index x0 : SI (literal_index  x0). Proof. unfold literal_index. si. Qed.
Hint Resolve SI_literal_index : si.
Lemma SI_branch_params x0 : SI (branch_params call_rec x0). Proof. unfold branch_params. si. Qed.
Hint Resolve SI_branch_params : si.

Lemma SI_visit_branch c t e : SI (visit_branch check_only visit_rec call_rec c t e).
Proof. unfold visit_branch. si. Qed.
Hint Resolve SI_visit_branch : si.
Lemma SI_for_values x0 : SI (for_values call_rec x0). Proof. unfold for_values. si. Qed.
Hint Resolve SI_for_values : si.

Lemma SI_visit_for t v set body decl :
  (forall t n i, SI (decl t n i)) -> SI (visit_for check_only visit_rec call_rec t v set body decl).
Proof.
  intros Hd. unfold visit_for. apply SI_bind; [si|intros [init vals]].
  induction vals as [|x vals IH]; [si|]. si.
Qed.

Lemma SI_eval_case l : SI (eval_case check_only visit_rec l).
Proof. unfold eval_case. si. Qed.
Hint Resolve SI_eval_case : si.

Lemma SI_visit_switch t cases d : SI (visit_switch check_only visit_rec call_rec t cases d).
Proof.
  unfold visit_switch.
  apply SI_bind; [si|intros tname]. apply SI_bind; [si|intros s0]. apply SI_bind; [si|intros _].
  apply SI_bind; [si|intros tv]. apply SI_bind; [si|intros _].
  induction cases as [|[vals body] cs IH]; [si|].
  apply SI_bind; [|intros hit; si].
  generalize (@nil pyval) as seen. generalize false as hit.
  induction vals as [|e vs IHv]; intros hit seen; [si|]. simpl. si.
Qed.
Hint Resolve SI_visit_switch : si.

Lemma SI_visit_alias n v : SI (visit_alias call_rec n v).
Proof.
  unfold visit_alias. si.
  all: match goal with
       | |- SI ((fix go (l : list Z) (k : Z) {struct l} : M unit := _) ?ids ?k0) =>
           generalize k0; induction ids as [|i l IHl]; intros k; [si|simpl; si]
       end.
Qed.
Hint Resolve SI_visit_alias : si.

Lemma SI_visit_stmt_body st : SI (visit_stmt_body check_only externals visit_rec call_rec st).
Proof.
  unfold visit_stmt_body. destruct st; try solve [si].
  - (* SGateDef: the name is new, so every earlier definition is still what it was *)
    intros s r s' E. apply bind_ok' in E as (s0 & s1 & E0 & E). unfold getst in E0. inversion E0; subst.
    apply bind_ok' in E as (u & s2 & Eg & E). unfold guard in Eg.
    destruct (negb (smemk name (gates s1))) eqn:Hn; [|discriminate Eg]. unfold Unroll.ret in Eg. inversion Eg; subst.
    apply bind_ok' in E as (u2 & s3 & Em & E). unfold modify in Em. inversion Em; subst. unfold Unroll.ret in E. inversion E; subst.
    split; [|intros n sd H; exact H]. cbn [gates with_gates]. intros n gd H. apply sget_sset_other; [|exact H].
    intros ->. apply negb_true_iff in Hn. unfold smemk, amem in Hn. unfold sget in H. rewrite H in Hn. discriminate.
  - (* SFor *) apply SI_visit_for. intros; si.
  - (* SSubDef *)
    intros s r s' E. apply bind_ok' in E as (u0 & s0 & Eg0 & E). unfold guard in Eg0.
    destruct (negb (is_constant_name name)); [|discriminate Eg0]. unfold Unroll.ret in Eg0. inversion Eg0; subst.
    apply bind_ok' in E as (s1 & s1' & E0 & E). unfold getst in E0. inversion E0; subst.
    apply bind_ok' in E as (u & s2 & Eg & E). unfold guard in Eg.
    destruct (negb (smemk name (subs s1'))) eqn:Hn; [|discriminate Eg]. unfold Unroll.ret in Eg. inversion Eg; subst.
    apply bind_ok' in E as (u1 & s3 & Eg1 & E). unfold guard in Eg1.
    destruct (negb (check_in_scope s2 name)); [|discriminate Eg1]. unfold Unroll.ret in Eg1. inversion Eg1; subst.
    apply bind_ok' in E as (u2 & s4 & Em & E). unfold modify in Em. inversion Em; subst. unfold Unroll.ret in E. inversion E; subst.
    split; [intros n gd H; exact H|]. cbn [subs with_subs]. intros n sd H. apply sget_sset_other; [|exact H].
    intros ->. apply negb_true_iff in Hn. unfold smemk, amem in Hn. unfold sget in H. rewrite H in Hn. discriminate.
Qed.
Lemma SI_process_array_ref_arg x0 x1 x2 x3 x4 x5 : SI (process_array_ref_arg  x0 x1 x2 x3 x4 x5). Proof. unfold process_array_ref_arg. si. Qed.
Hint Resolve SI_process_array_ref_arg : si.
Lemma SI_process_classical_arg x0 x1 x2 : SI (process_classical_arg call_rec x0 x1 x2). Proof. unfold process_classical_arg. si. Qed.
Hint Resolve SI_process_classical_arg : si.
Lemma SI_target_qubits x0 x1 : SI (target_qubits call_rec x0 x1). Proof. unfold target_qubits. si. Qed.
Hint Resolve SI_target_qubits : si.

Lemma SI_call_body f args : SI (call_body check_only visit_rec call_rec f args).
Proof.
  unfold call_body.
  apply SI_bind; [si|intros s0]. destruct (sget f (subs s0)) as [sd|]; [|si].
  apply SI_bind; [si|intros _].
  apply SI_bind.
  { match goal with
    | |- SI (?F ?l0 [] [] [] [] []) =>
        assert (H : forall l qv cv fsz fmap dup, SI (F l qv cv fsz fmap dup)); [|apply H]
    end.
    induction l as [|[actual fa] l IH]; intros qv cv fsz fmap dup; [si|].
    destruct fa as [t fname ro|fname size]; [destruct t|]; simpl; si. }
  intros [[[[qvars cvars] fsz] fmap] dup0].
  apply SI_bind; [cbv zeta; si|intros _].
  apply SI_bind; [si|intros _]. apply SI_bind; [si|intros _]. apply SI_bind; [si|intros _].
  apply SI_bind.
  { match goal with
    | |- SI (?F (s_body sd)) => assert (H : forall body, SI (F body)); [|apply H]
    end.
    induction body as [|st body IH]; [si|].
    destruct st; simpl; si. }
  intros [out retstmt].
  apply SI_bind; [si|intros [rv rstmts]].
  apply SI_bind; [si|intros sf]. cbv zeta. si.
Qed.
End Stack.


(* ---------- tying the knot: every fuel ---------- *)
Theorem visit_keeps_definitions check_only externals fuel :
  (forall st, SI (visit_stmt check_only externals fuel st)) /\
  (forall f args, SI (visit_call check_only externals fuel f args)).
Proof.
  induction fuel as [|fuel [IHs IHc]]; split.
  - intros st s r s' E. discriminate E.
  - intros f args s r s' E. discriminate E.
  - intros st. cbn [visit_stmt]. now apply SI_visit_stmt_body.
  - intros f args. cbn [visit_call]. now apply SI_call_body.
Qed.
