(* REFERENCE SEMANTICS (specification, trusted): what an OpenQASM 3 program of the supported
   fragment means as a flat trace of source-level operations.  Deliberately a different and
   simpler definition than the model of the visitor: lexical environments (a frame list) instead
   of scope/context stacks, formals bound in an environment instead of substituted, typed values
   with OpenQASM conversions instead of Python's dynamic arithmetic.

   Result classes:  Ok trace | Err EValidation (a checked error of C04's catalogue)
                  | Err (EUnmodelled why) (outside the specified envelope: the oracle is silent).
   With strict = false the constructs on which the unchanged implementation is known to deviate
   (DESIGN.md §8, known_findings.json) are reported as EUnmodelled "known:..." so that the
   generated-case oracle only judges the envelope in which the properties are claimed. *)
From Coq Require Import ZArith List Bool String PrimFloat.
From Verif Require Import Aexp BGate PyVal Ast State GatesGen GateLib Unroll.
Import ListNotations.
Open Scope string_scope.
Open Scope list_scope.
Open Scope Z_scope.

(* ---------- traces ---------- *)
Inductive top :=
| TInclude (f : string)
| TQreg (name : string) (size : Z)
| TCreg (name : string) (size : Z)
| TGate (name : string) (params : list pyval) (qubits : list bitref) (inv : bool)  (* library gate, one group *)
| TExt (name : string) (params : list pyval) (qubits : list bitref) (inv : bool)   (* kept external gate *)
| TPhase (angle : pyval)
| TMeasure (q c : bitref)
| TReset (q : bitref)
| TBarrier (qs : list bitref)
| TIf (creg : string) (idx : option Z) (val : pyval) (t e : list top).

(* ---------- typed values ---------- *)
Inductive sty := SInt (n : Z) | SUint (n : Z) | SFloat (n : Z) | SBool | SAngleT.

Definition unspec {A} (why : string) : res A := Err (EUnmodelled why).
Definition checked {A} : res A := Err EValidation.

Definition to_float (v : pyval) : res float :=
  match v with
  | VFloat f => Ok f
  | VInt z => float_of_Z z
  | VBool b => Ok (if b then one else zero)
  | VNone => unspec "none"
  end.
Definition is_float (v : pyval) : bool := match v with VFloat _ => true | _ => false end.
Definition int_of (v : pyval) : option Z :=
  match v with VInt z => Some z | VBool b => Some (if b then 1 else 0) | _ => None end.

(* OpenQASM operator semantics on values; `uw` = bit width when the left operand is a uint *)
Definition spec_binop (op : string) (a b : pyval) : res pyval :=
  let arith (fi : Z -> Z -> res pyval) (ff : float -> float -> res pyval) :=
    match int_of a, int_of b with
    | Some x, Some y => fi x y
    | _, _ => do x <- to_float a;; do y <- to_float b;; ff x y
    end in
  let cmpop (ci : Z -> Z -> bool) (cf : float -> float -> bool) :=
    arith (fun x y => Ok (VBool (ci x y))) (fun x y => Ok (VBool (cf x y))) in
  let intop (f : Z -> Z -> res pyval) :=
    match int_of a, int_of b with Some x, Some y => f x y | _, _ => unspec "ill-typed operands of an integer operator" end in
  if String.eqb op "+" then arith (fun x y => Ok (VInt (x + y))) (fun x y => Ok (VFloat (PrimFloat.add x y)))
  else if String.eqb op "-" then arith (fun x y => Ok (VInt (x - y))) (fun x y => Ok (VFloat (PrimFloat.sub x y)))
  else if String.eqb op "*" then arith (fun x y => Ok (VInt (x * y))) (fun x y => Ok (VFloat (PrimFloat.mul x y)))
  else if String.eqb op "/" then
    arith (fun _ _ => unspec "integer division")
          (fun x y => if f_is_zero y then unspec "division by zero" else Ok (VFloat (PrimFloat.div x y)))
  else if String.eqb op "%" then
    intop (fun x y => if (x <? 0) || (y <=? 0) then unspec "% of negatives" else Ok (VInt (x mod y)))
  else if String.eqb op "==" then cmpop Z.eqb PrimFloat.eqb
  else if String.eqb op "!=" then cmpop (fun x y => negb (x =? y)) (fun x y => negb (PrimFloat.eqb x y))
  else if String.eqb op "<" then cmpop Z.ltb PrimFloat.ltb
  else if String.eqb op ">" then cmpop Z.gtb (fun x y => PrimFloat.ltb y x)
  else if String.eqb op "<=" then cmpop Z.leb PrimFloat.leb
  else if String.eqb op ">=" then cmpop Z.geb (fun x y => PrimFloat.leb y x)
  else if String.eqb op "&&" then Ok (VBool (truthy a && truthy b))
  else if String.eqb op "||" then Ok (VBool (truthy a || truthy b))
  else if String.eqb op "&" then intop (fun x y => Ok (VInt (Z.land x y)))
  else if String.eqb op "|" then intop (fun x y => Ok (VInt (Z.lor x y)))
  else if String.eqb op "^" then intop (fun x y => Ok (VInt (Z.lxor x y)))
  else if String.eqb op "<<" then
    intop (fun x y => if y <? 0 then unspec "negative shift" else if 4096 <? y then unspec "huge shift" else Ok (VInt (Z.shiftl x y)))
  else if String.eqb op ">>" then
    intop (fun x y => if (y <? 0) || (x <? 0) then unspec ">> of negatives" else Ok (VInt (Z.shiftr x y)))
  else checked.   (* operators pyqasm does not support, such as power, are rejected *)

(* conversion of a value to a declared type (declarations, assignments, arguments, results) *)
Definition store (t : sty) (v : pyval) : res pyval :=
  match t with
  | SInt n =>
      do z <- match v with
              | VInt z => Ok z
              | VBool b => Ok (if b then 1 else 0)
              | VFloat f => match float_trunc f with Some z => Ok z | None => unspec "inf/nan to int" end
              | VNone => checked
              end;;
      if (z <? - 2 ^ (n - 1)) || (2 ^ (n - 1) - 1 <? z) then checked else Ok (VInt z)
  | SUint n =>
      do z <- match v with
              | VInt z => Ok z
              | VBool b => Ok (if b then 1 else 0)
              | VFloat f => match float_trunc f with Some z => Ok z | None => unspec "inf/nan to uint" end
              | VNone => checked
              end;;
      Ok (VInt (z mod 2 ^ n))
  | SFloat n => cast_value KFloat (Some n) v      (* range limits: the implementation's constants *)
  | SBool => match v with VNone => checked | _ => Ok (VBool (truthy v)) end
  | SAngleT => checked
  end.

(* ---------- environments ---------- *)
Inductive binding :=
| BVar (t : sty) (v : option pyval) (const : bool)
| BQreg (size : Z)
| BCreg (size : Z)
| BQubits (bits : list bitref).       (* alias, subroutine formal, gate formal *)

Inductive fkind := FGlobal | FBlock | FFunc | FGate.
Record frame := mkFrame { fk : fkind; binds : list (string * binding) }.
Definition env := list frame.          (* innermost first *)

Definition is_block (f : frame) : bool := match fk f with FBlock => true | _ => false end.

(* lexical lookup: through enclosing blocks; a function / gate frame closes the search except for
   global constants *)
Fixpoint lookup (x : string) (e : env) : option binding :=
  match e with
  | [] => None
  | f :: e' =>
      match sget x (binds f) with
      | Some b => Some b
      | None =>
          match fk f with
          | FBlock => lookup x e'
          | FGlobal => None
          | FFunc | FGate =>
              match sget x (binds (last e' (mkFrame FGlobal []))) with
              | Some (BVar t v true) => Some (BVar t v true)
              | _ => None
              end
          end
      end
  end.

(* is x resolved to a global constant from inside a block nested in a subroutine or gate body?
   (the unchanged implementation does not see global constants there: known deviation) *)
Fixpoint via_global_through_block (x : string) (e : env) (crossed : bool) : bool :=
  match e with
  | [] => false
  | f :: e' =>
      match sget x (binds f) with
      | Some _ => false
      | None =>
          match fk f with
          | FBlock => via_global_through_block x e' true
          | FGlobal => false
          | FFunc | FGate => crossed
          end
      end
  end.

Fixpoint update (x : string) (b : binding) (e : env) : env :=
  match e with
  | [] => []
  | f :: e' =>
      if smemk x (binds f) then mkFrame (fk f) (sset x b (binds f)) :: e'
      else match fk f with
           | FBlock => f :: update x b e'
           | _ => f :: e'
           end
  end.

Definition declare (x : string) (b : binding) (e : env) : res env :=
  match e with
  | [] => unspec "no frame"
  | f :: e' =>
      (* redeclaration in the same frame, or of anything visible unless shadowing from a block *)
      if smemk x (binds f) then checked
      else match lookup x e, fk f with
           | Some _, FBlock => Ok (mkFrame (fk f) (binds f ++ [(x, b)]) :: e')
           | Some _, _ => checked
           | None, _ => Ok (mkFrame (fk f) (binds f ++ [(x, b)]) :: e')
           end
  end.

Record sstate := mkS {
  s_env : env;
  s_gates : list (string * gatedef);
  s_subs : list (string * subdef);
  s_incl : list string;
  s_nq : Z;                     (* total number of declared qubits *)
  s_gstack : list string        (* custom gates being expanded *)
}.

Definition SM (A : Type) := sstate -> res (A * sstate).
Definition sret {A} (a : A) : SM A := fun s => Ok (a, s).
Definition sbind {A B} (m : SM A) (f : A -> SM B) : SM B :=
  fun s => match m s with Ok (a, s') => f a s' | Err e => Err e end.
Definition sfail {A} (e : err) : SM A := fun _ => Err e.
Definition sget_st : SM sstate := fun s => Ok (s, s).
Definition sput_env (e : env) : SM unit := fun s => Ok (tt, mkS e (s_gates s) (s_subs s) (s_incl s) (s_nq s) (s_gstack s)).
Definition slift {A} (r : res A) : SM A := fun s => match r with Ok a => Ok (a, s) | Err e => Err e end.
Notation "x <~ m ;; k" := (sbind m (fun x => k)) (at level 61, m at next level, k at level 200).
Notation "' p <~ m ;; k" := (sbind m (fun p => k)) (at level 61, p pattern, m at next level, k at level 200).
Notation "m ;;~ k" := (sbind m (fun _ => k)) (at level 61, k at level 200).
Definition schecked {A} : SM A := sfail EValidation.
Definition sunspec {A} (why : string) : SM A := sfail (EUnmodelled why).
Definition sguard (b : bool) (e : err) : SM unit := if b then sret tt else sfail e.

Fixpoint smapM {A B} (f : A -> SM B) (l : list A) : SM (list B) :=
  match l with [] => sret [] | x :: l' => y <~ f x;; ys <~ smapM f l';; sret (y :: ys) end.
Fixpoint sconcatM {A B} (f : A -> SM (list B)) (l : list A) : SM (list B) :=
  match l with [] => sret [] | x :: l' => y <~ f x;; ys <~ sconcatM f l';; sret (y ++ ys) end.

Definition push_frame (k : fkind) (bs : list (string * binding)) : SM unit :=
  s <~ sget_st;; sput_env (mkFrame k bs :: s_env s).
Definition pop_frame : SM unit := s <~ sget_st;; sput_env (tl (s_env s)).

Fixpoint expr_ids (e : expr) : list string :=
  match e with
  | EId x => [x]
  | EUn _ x => expr_ids x
  | EBin _ l r => expr_ids l ++ expr_ids r
  | EIndexE c _ => expr_ids c
  | ECall _ args => (fix go (l : list expr) : list string := match l with [] => [] | a :: l' => expr_ids a ++ go l' end) args
  | _ => []
  end.
Definition mod_exprs (ms : list gmod) : list expr :=
  flat_map (fun m => match m with MPow (Some e) | MCtrl (Some e) | MNegCtrl (Some e) => [e] | _ => [] end) ms.

Section SpecOpen.
Variable strict : bool.
Variable externals : list string.
Variable exec_rec : stmt -> SM (list top).
Variable call_rec : string -> list expr -> SM (pyval * list top).

Definition known {A} (why : string) (full : SM A) : SM A :=
  if strict then full else sunspec ("known:" ++ why).

(* ---------- expressions ---------- *)
(* value and, for ~, the width when the expression is a plain uint variable *)
Fixpoint seval (e : expr) (cst : bool) : SM (pyval * list top) :=
  match e with
  | ELit v => sret (v, [])
  | EId x =>
      if is_constant_name x then v <~ slift (constant_value x);; sret (v, [])
      else
        s <~ sget_st;;
        match lookup x (s_env s) with
        | Some (BVar _ (Some v) c) => if cst && negb c then schecked else sret (v, [])
        | Some (BVar _ None _) => schecked                   (* uninitialised *)
        | Some _ => schecked                                  (* a register is not a value *)
        | None => schecked                                    (* undeclared / out of scope *)
        end
  | EUn op x =>
      '(v, t1) <~ seval x cst;;
      if String.eqb op "-" then
        match v with
        | VInt z => sret (VInt (- z), t1)
        | VBool b => sret (VInt (if b then -1 else 0), t1)
        | VFloat f => sret (VFloat (PrimFloat.opp f), t1)
        | VNone => schecked
        end
      else if String.eqb op "!" then sret (VBool (negb (truthy v)), t1)
      else if String.eqb op "~" then
        match x, v with
        | EId y, VInt z =>
            s <~ sget_st;;
            match lookup y (s_env s) with
            | Some (BVar (SUint n) _ _) => known "bitwise not of uint" (sret (VInt (2 ^ n - 1 - z), t1))
            | _ => sret (VInt (- z - 1), t1)
            end
        | _, VInt z => sret (VInt (- z - 1), t1)
        | _, VBool b => sunspec "bitwise not of a bool"
        | _, _ => schecked
        end
      else schecked
  | EBin op l r =>
      '(a, t1) <~ seval l cst;;
      '(b, t2) <~ seval r cst;;
      v <~ slift (spec_binop op a b);;
      sret (v, t1 ++ t2)
  | ECall f args => call_rec f args
  | EIndexE _ _ | ESizeOf _ _ | EArrayLit _ => sunspec "arrays"
  | EImag | EDuration | EOther _ => schecked
  end.

(* the value of an expression where the implementation keeps the value only: if evaluating it executed quantum operations
   (a subroutine call that acts on qubits inside a gate parameter, an index, a loop bound, a condition, a modifier ...)
   the implementation DROPS those operations (known finding C01-operations-of-a-call-inside-an-expression-are-dropped);
   the specification does not endorse that: it is silent on such programs *)
Definition seval0 (e : expr) (cst : bool) : SM pyval :=
  '(v, tr) <~ seval e cst;;
  match tr with
  | [] => sret v
  | _ => sunspec "known:operations executed by a call inside an expression whose statements are dropped"
  end.

Definition eval_int (e : expr) (cst : bool) : SM Z :=
  v <~ seval0 e cst;;
  match v with
  | VInt z => sret z
  | _ => sunspec "non-int where an int is expected"
  end.

Definition sty_of (t : ctype) : SM sty :=
  let width (s : option expr) (default : Z) : SM Z :=
    match s with
    | None => sret default
    | Some e => n <~ eval_int e true;; if n <=? 0 then schecked else sret n
    end in
  match t with
  | TInt s => n <~ width s 32;; sret (SInt n)
  | TUint s => n <~ width s 32;; sret (SUint n)
  | TFloat s => n <~ width s 32;; if (n =? 32) || (n =? 64) then sret (SFloat n) else schecked
  | TBool => sret SBool
  | TAngle _ => schecked
  | TArray _ _ | TArrayRef _ _ _ => sunspec "arrays"
  | _ => schecked
  end.

(* ---------- operands ---------- *)
Definition slice_of (bits : list bitref) (start stop step : option expr) : SM (list bitref) :=
  let size := Z.of_nat (List.length bits) in
  a <~ (match start with None => sret 0 | Some e => eval_int e false end);;
  b <~ (match stop with None => sret size | Some e => eval_int e false end);;
  st <~ (match step with None => sret 1 | Some e => eval_int e false end);;
  sguard ((0 <=? a) && (a <? size) && (0 <=? b - 1) && (b - 1 <? size)) EValidation;;~
  if st =? 0 then sunspec "zero step"
  else
    ids <~ slift (py_range a b st);;
    sret (map (fun i => nth (Z.to_nat i) bits ("", 0)) ids).

Definition resolve_bits (is_q : bool) (q : qarg) : SM (list bitref) :=
  s <~ sget_st;;
  let x := qarg_name q in
  all <~ (match lookup x (s_env s) with
          | Some (BQreg n) => if is_q then sret (map (fun i => (x, i)) (range_nat n)) else schecked
          | Some (BCreg n) => if is_q then schecked else sret (map (fun i => (x, i)) (range_nat n))
          | Some (BQubits bits) => if is_q then sret bits else schecked
          | _ => schecked
          end);;
  let size := Z.of_nat (List.length all) in
  match q with
  | QId _ => sret all
  | QIdx _ [] => sunspec "empty index"
  | QIdx _ (IdxSet vals :: _) =>
      smapM (fun e => match e with
                      | ELit (VInt i) => if (0 <=? i) && (i <? size) then sret (nth (Z.to_nat i) all ("", 0)) else schecked
                      | _ => schecked
                      end) vals
  | QIdx _ (IdxList (IRange a b c :: _) :: _) => slice_of all a b c
  | QIdx _ (IdxList (IExpr e :: _) :: _) =>
      i <~ eval_int e false;;
      if (0 <=? i) && (i <? size) then sret [nth (Z.to_nat i) all ("", 0)] else schecked
  | QIdx _ (IdxList [] :: _) => sunspec "empty index"
  end.

Fixpoint nodupb (l : list bitref) : bool :=
  match l with [] => true | b :: l' => negb (existsb (bitref_eqb b) l') && nodupb l' end.

Definition resolve_all (is_q : bool) (qs : list qarg) : SM (list bitref) :=
  bits <~ sconcatM (resolve_bits is_q) qs;;
  sguard (nodupb bits) EValidation;;~
  sret bits.

(* ---------- modifiers ---------- *)
Fixpoint scollapse (mods : list gmod) (k : Z) (inv : bool) : SM (Z * bool) :=
  match mods with
  | [] => sret (k, inv)
  | MInv :: ms => scollapse ms k (negb inv)
  | MPow (Some e) :: ms =>
      v <~ seval0 e false;;
      match v with
      | VInt z => scollapse ms (k * Z.abs z) (if z <? 0 then negb inv else inv)
      | _ => sunspec "non-integer power"
      end
  | MPow None :: ms => sunspec "pow without argument"
  | (MCtrl _ | MNegCtrl _) :: _ => sunspec "ctrl modifiers"
  end.

Fixpoint srepeat {A} (n : nat) (m : SM (list A)) : SM (list A) :=
  match n with O => sret [] | S n' => x <~ m;; xs <~ srepeat n' m;; sret (x ++ xs) end.

(* the inverse of a trace of gate applications: reversed, each application inverted *)
Fixpoint invert_trace (tr : list top) : list top :=
  rev (map (fun t => match t with
                     | TGate n ps qs i => TGate n ps qs (negb i)
                     | TExt n ps qs i => TExt n ps qs (negb i)
                     | TPhase v => TPhase (match v with
                                           | VInt z => VInt (- z)
                                           | VFloat f => VFloat (PrimFloat.opp f)
                                           | VBool b => VInt (if b then -1 else 0)
                                           | VNone => VNone
                                           end)
                     | other => other
                     end) tr).

Definition neg_val (v : pyval) : res pyval :=
  match v with
  | VInt z => Ok (VInt (- z))
  | VFloat f => Ok (VFloat (PrimFloat.opp f))
  | VBool b => Ok (VInt (if b then -1 else 0))
  | VNone => unspec "none"
  end.

(* gates whose inverse is the same gate with negated parameters (proved for the generated
   decompositions by Props/C06.v: they are accepted by the inverse table with invert_rotation) *)
Definition negation_inverse_names : list string :=
  ["rx"; "ry"; "rz"; "xx"; "rxx"; "yy"; "ryy"; "zz"; "rzz"; "xy"; "pswap"; "cp"; "crx"; "cry"; "crz"; "cphaseshift"; "cu1";
   "cp00"; "cphaseshift00"; "cp01"; "cphaseshift01"; "cp10"; "cphaseshift10"].
Definition self_inverse_names : list string :=
  ["id"; "h"; "x"; "y"; "z"; "cx"; "CX"; "cnot"; "cz"; "swap"; "ccx"; "toffoli"; "ccnot"; "cy"; "ch"; "cswap";
   "rccx"; "ecr"; "not"].
Definition table_inverse_names : list string :=
  ["s"; "t"; "sdg"; "tdg"; "rx"; "ry"; "rz"; "U"; "u3"; "U3"; "U2"; "u2"].

(* one application of a gate (after modifiers): inv says whether it is inverted *)
Definition apply_gate (name : string) (args : list expr) (qubits : list qarg) (inv : bool) : SM (list top) :=
  s <~ sget_st;;
  match sget name (s_gates s) with
  | Some gd =>
      bits <~ resolve_all true qubits;;
      sguard (Nat.eqb (List.length args) (List.length (g_params gd))) EValidation;;~
      sguard (Nat.eqb (List.length bits) (List.length (g_qubits gd))) EValidation;;~
      pvals <~ smapM (fun e => seval0 e false) args;;
      sguard (negb (smem name (s_gstack s))) EValidation;;~       (* recursive definition *)
      (fun s => Ok (tt, mkS (s_env s) (s_gates s) (s_subs s) (s_incl s) (s_nq s) (name :: s_gstack s)));;~
      push_frame FGate (map (fun p => (fst p, BVar (SFloat 64) (Some (snd p)) true)) (combine (g_params gd) pvals)
                        ++ map (fun p => (fst p, BQubits [snd p])) (combine (g_qubits gd) bits));;~
      (* an inverted custom gate is its body reversed with `inv` pushed down to every member *)
      body <~ sconcatM (fun st => match st with
                                  | SGate ms gname gargs gqs =>
                                      if String.eqb gname name then schecked
                                      else if existsb (fun q => match q with QIdx _ _ => true | QId _ => false end) gqs then schecked
                                      else exec_rec (SGate (if inv then ms ++ [MInv] else ms) gname gargs gqs)
                                  | SPhase ms a gqs =>
                                      if existsb (fun q => match q with QIdx _ _ => true | QId _ => false end) gqs then schecked
                                      else exec_rec (SPhase (if inv then ms ++ [MInv] else ms) a gqs)
                                  | _ => schecked
                                  end) (if inv then rev (g_body gd) else g_body gd);;
      pop_frame;;~
      (fun s => Ok (tt, mkS (s_env s) (s_gates s) (s_subs s) (s_incl s) (s_nq s) (tl (s_gstack s))));;~
      sret body
  | None =>
      match lookup_op bitref name with
      | None => schecked
      | Some (entry, arity) =>
          match entry with
          | None => sunspec "opaque library gate"
          | Some (np, _, _) =>
              (if inv then
                 match lookup_inv bitref name with
                 | InvUnsupported => sunspec "inverse the implementation may reject"
                 | _ => if smem name self_inverse_names || smem name table_inverse_names || smem name negation_inverse_names then sret tt
                        else sunspec "inverse of a library gate the inverse table rejects (rejection is allowed)"
                 end
               else sret tt);;~
              pvals <~ smapM (fun e => seval0 e false) args;;
              bits <~ resolve_all true qubits;;
              sguard (Nat.eqb (List.length pvals) np) EValidation;;~
              sguard (negb (Nat.eqb arity 0) && Nat.eqb (Nat.modulo (List.length bits) arity) 0) EValidation;;~
              if inv && smem name negation_inverse_names && negb (smem name ["rx"; "ry"; "rz"]) then
                npvals <~ smapM (fun v => slift (neg_val v)) pvals;;
                sret (map (fun grp => TGate name npvals grp false) (chunks (List.length bits) arity bits))
              else
              sret (map (fun grp => TGate name pvals grp inv) (chunks (List.length bits) arity bits))
          end
      end
  end.

Definition exec_gate (mods : list gmod) (name : string) (args : list expr) (qubits : list qarg) : SM (list top) :=
  '(k, inv) <~ scollapse mods 1 false;;
  sguard (k <? 10000) (EUnmodelled "huge power");;~
  if smem name externals then
    (* the call is validated as usual; what is emitted is the call itself *)
    s0 <~ sget_st;;
    (if 0 <? k then apply_gate name args qubits inv;;~ sret tt else sret tt);;~
    pvals <~ smapM (fun e => seval0 e false) args;;
    bits <~ resolve_all true qubits;;
    s <~ sget_st;;
    arity <~ (match sget name (s_gates s) with
              | Some gd => sret (List.length (g_qubits gd))
              | None => match lookup_op bitref name with Some (_, n) => sret n | None => schecked end
              end);;
    sguard (negb (Nat.eqb arity 0) && Nat.eqb (Nat.modulo (List.length bits) arity) 0) EValidation;;~
    sret (List.concat (repeat (map (fun grp => TExt name pvals grp inv) (chunks (List.length bits) arity bits)) (Z.to_nat k)))
  else srepeat (Z.to_nat k) (apply_gate name args qubits inv).

Definition exec_phase (mods : list gmod) (arg : expr) (qubits : list qarg) : SM (list top) :=
  '(k, inv) <~ scollapse mods 1 false;;
  sguard (k <? 10000) (EUnmodelled "huge power");;~
  s <~ sget_st;;
  (* operands on gphase are rejected at global scope and in the blocks of it *)
  (match qubits with
   | _ :: _ => if existsb (fun f => match fk f with FFunc | FGate => true | _ => false end) (s_env s) then sret tt else schecked
   | [] => sret tt
   end);;~
  v <~ seval0 arg false;;
  (match v with VInt _ | VFloat _ => sret tt | _ => sunspec "non-numeric phase" end);;~
  let v' := if inv then match v with VInt z => VInt (- z) | VFloat f => VFloat (PrimFloat.opp f) | o => o end else v in
  sret (repeat (TPhase v') (Z.to_nat k)).

(* ---------- statements ---------- *)
Definition exec_block (k : fkind) (bs : list (string * binding)) (l : list stmt) : SM (list top) :=
  push_frame k bs;;~
  out <~ sconcatM exec_rec l;;
  pop_frame;;~
  sret out.

Fixpoint expr_mentions_creg (e : expr) (s : sstate) : bool :=
  match e with
  | EId x => match lookup x (s_env s) with Some (BCreg _) => true | _ => false end
  | EIndexE c _ => expr_mentions_creg c s
  | EBin _ l r => expr_mentions_creg l s || expr_mentions_creg r s
  | EUn _ x => expr_mentions_creg x s
  | _ => false
  end.

Fixpoint stmt_is_quantum (st : stmt) : bool :=
  match st with
  | SGate _ _ _ _ | SPhase _ _ _ | SReset _ | SBarrier _ | SMeasure _ _ => true
  | _ => false
  end.

Definition exec_if (cond : expr) (t e : list stmt) : SM (list top) :=
  s <~ sget_st;;
  sguard (negb (match t with [] => true | _ => false end)) EValidation;;~
  if expr_mentions_creg cond s then
    '(reg, idx, val) <~
       (match cond with
        | EBin "==" (EIndexE (EId r) (IdxList [IExpr (ELit (VInt i))])) rhs =>
            v <~ seval0 rhs false;; sret (r, Some i, VBool (truthy v))
        | EBin "==" (EId r) rhs =>
            v <~ seval0 rhs false;;
            match v with VInt z => sret (r, None, VInt z) | VBool b => sret (r, None, VBool b) | _ => schecked end
        | EIndexE (EId r) (IdxList [IExpr (ELit (VInt i))]) => sret (r, Some i, VBool true)
        | EUn "!" (EIndexE (EId r) (IdxList [IExpr (ELit (VInt i))])) => sret (r, Some i, VBool false)
        | EBin "==" _ _ => sunspec "condition shape"
        | EBin _ _ _ | EUn _ _ | EId _ | EIndexE _ _ => schecked
        | _ => sunspec "condition shape"
        end);;
    match lookup reg (s_env s) with
    | Some (BCreg n) =>
        sguard (match idx with Some i => (0 <=? i) && (i <? n) | None => true end) EValidation;;~
        (* only quantum statements inside: classical data flow through run-time conditions is
           outside the statically resolvable envelope *)
        sguard (forallb stmt_is_quantum t && forallb stmt_is_quantum e) (EUnmodelled "classical statements under a run-time condition");;~
        tt_ <~ exec_block FBlock [] t;;
        te <~ exec_block FBlock [] e;;
        sret [TIf reg idx val tt_ te]
    | _ => schecked
    end
  else
    (* the condition is evaluated inside the branch's own frame (the implementation opens the block
       scope first; only the known-deviation bookkeeping can tell the difference) *)
    push_frame FBlock [];;~
    v <~ seval0 cond false;;
    pop_frame;;~
    exec_block FBlock [] (if truthy v then t else e).

Definition exec_for (t : ctype) (var : string) (set : forset) (body : list stmt) : SM (list top) :=
  ty <~ sty_of t;;
  sguard (negb (is_constant_name var)) EValidation;;~
  vals <~ (match set with
           | FRange (Some a) (Some b) step =>
               az <~ eval_int a false;; bz <~ eval_int b false;;
               sz <~ (match step with None => sret 1 | Some e => eval_int e false end);;
               if sz =? 0 then sunspec "zero step"
               else l <~ slift (py_range az (bz + (if 0 <? sz then 1 else -1)) sz);; sret (map VInt l)
           | FRange _ _ _ => sunspec "open range"
           | FSet [] => sunspec "empty set"
           | FSet vals => smapM (fun e => seval0 e false) vals
           | FOtherSet => schecked
           end);;
  sconcatM (fun v =>
              cv <~ slift (store ty v);;
              exec_block FBlock [(var, BVar ty (Some cv) false)] body) vals.

Definition all_case_values (cases : list (list expr * list stmt)) : list expr := flat_map fst cases.

Definition exec_switch (target : expr) (cases : list (list expr * list stmt)) (default : option (list stmt)) : SM (list top) :=
  s <~ sget_st;;
  (match target with
   | EId x => match lookup x (s_env s) with Some (BVar (SInt _) _ _) => sret tt | _ => schecked end
   | _ => schecked
   end);;~
  tv <~ eval_int target false;;
  sguard (negb (match cases with [] => true | _ => false end)) EValidation;;~
  (* statements a case may not contain *)
  sguard (forallb (fun c => forallb (fun st => negb (stmt_blacklisted_in_switch st)) (snd c)) cases) (EUnmodelled "declaration inside switch");;~
  let first_hit :=
    (fix go (cs : list (list expr * list stmt)) : SM (option (list stmt)) :=
       match cs with
       | [] => sret None
       | (vals, body) :: cs' =>
           vs <~ smapM (fun e => match e with
                                 | ELit (VInt z) => sret z
                                 | EId x => s <~ sget_st;;
                                            match lookup x (s_env s) with
                                            | Some (BVar (SInt _) (Some (VInt z)) true) => sret z
                                            | _ => schecked
                                            end
                                 | _ => v <~ seval0 e true;; match v with VInt z => sret z | _ => schecked end
                                 end) vals;;
           sguard (nodupb (map (fun z => ("", z)) vs)) EValidation;;~
           if existsb (Z.eqb tv) vs then sret (Some body) else go cs'
       end) in
  hit <~ first_hit cases;;
  match hit with
  | Some body => exec_block FBlock [] body
  | None => match default with Some d => exec_block FBlock [] d | None => sret [] end
  end.

Definition exec_stmt_body (st : stmt) : SM (list top) :=
  match st with
  | SInclude f =>
      s <~ sget_st;;
      sguard (negb (smem f (s_incl s))) EValidation;;~
      (fun s => Ok ([TInclude f], mkS (s_env s) (s_gates s) (s_subs s) (f :: s_incl s) (s_nq s) (s_gstack s)))
  | SQubitDecl name size =>
      n <~ (match size with None => sret 1 | Some e => eval_int e true end);;
      sguard (negb (is_constant_name name)) EValidation;;~
      sguard ((0 <? n) && (n <? 100000)) (EUnmodelled "register size");;~
      s <~ sget_st;;
      (match s_env s with [_] => sret tt | _ => sunspec "register declared in a nested scope" end);;~
      e' <~ slift (declare name (BQreg n) (s_env s));;
      (fun s => Ok ([TQreg name n], mkS e' (s_gates s) (s_subs s) (s_incl s) (s_nq s + n) (s_gstack s)))
  | SClassicalDecl (TBit size) name init =>
      n <~ (match size with None => sret 1 | Some e => eval_int e true end);;
      sguard (negb (is_constant_name name)) EValidation;;~
      sguard (0 <? n) EValidation;;~
      (match init with None => sret tt | Some _ => sunspec "bit initialiser" end);;~
      s <~ sget_st;;
      (match s_env s with [_] => sret tt | _ => sunspec "register declared in a nested scope" end);;~
      e' <~ slift (declare name (BCreg n) (s_env s));;
      sput_env e';;~ sret [TCreg name n]
  | SClassicalDecl t name init =>
      sguard (negb (is_constant_name name)) EValidation;;~
      ty <~ sty_of t;;
      '(v, tr) <~ (match init with
                   | None => sret (None, [])
                   | Some e => '(iv, tr) <~ seval e false;; cv <~ slift (store ty iv);; sret (Some cv, tr)
                   end);;
      s <~ sget_st;;
      e' <~ slift (declare name (BVar ty v false) (s_env s));;
      sput_env e';;~ sret tr
  | SConstDecl t name init =>
      sguard (negb (is_constant_name name)) EValidation;;~
      ty <~ sty_of t;;
      '(iv, tr) <~ seval init true;;
      cv <~ slift (store ty iv);;
      s <~ sget_st;;
      (match lookup name (s_env s) with Some _ => schecked | None => sret tt end);;~
      e' <~ slift (declare name (BVar ty (Some cv) true) (s_env s));;
      sput_env e';;~ sret tr
  | SAssign (QId x) op rv =>
      s <~ sget_st;;
      match lookup x (s_env s) with
      | Some (BVar ty cur c) =>
          sguard (negb c) EValidation;;~
          '(v, tr) <~ (if String.eqb op "=" then seval rv false
                       else seval (EBin (substring 0 (Nat.pred (String.length op)) op) (EId x) rv) false);;
          cv <~ slift (store ty v);;
          s' <~ sget_st;;
          sput_env (update x (BVar ty (Some cv) c) (s_env s'));;~
          sret tr
      | _ => schecked
      end
  | SAssign (QIdx _ _) _ _ => sunspec "indexed assignment"
  | SGateDef name params qubits body =>
      s <~ sget_st;;
      sguard (negb (smemk name (s_gates s))) EValidation;;~
      (fun s => Ok ([], mkS (s_env s) (sset name (mkGate params qubits body) (s_gates s)) (s_subs s) (s_incl s) (s_nq s) (s_gstack s)))
  | SGate mods name args qubits => exec_gate mods name args qubits
  | SPhase mods arg qubits => exec_phase mods arg qubits
  | SMeasure q (Some t) =>
      s <~ sget_st;;
      (match lookup (qarg_name q) (s_env s) with
       | Some (BQubits _) => known "measurement through an alias or formal argument" (sret tt)
       | _ => sret tt
       end);;~
      src <~ resolve_all true [q];;
      tgt <~ resolve_all false [t];;
      sguard (Nat.eqb (List.length src) (List.length tgt)) EValidation;;~
      sret (map (fun p => TMeasure (fst p) (snd p)) (combine src tgt))
  | SMeasure _ None => schecked
  | SReset q => bits <~ resolve_all true [q];; sret (map TReset bits)
  | SBarrier qs => bits <~ resolve_all true qs;; sret [TBarrier bits]
  | SIf c t e => exec_if c t e
  | SFor t v set body => exec_for t v set body
  | SSwitch t cases d => exec_switch t cases d
  | SAlias name value =>
      s <~ sget_st;;
      bits <~ (match value with
               | EId x => resolve_bits true (QId x)
               | EIndexE (EId x) (IdxList (_ :: _ :: _)) => schecked      (* q[0, 1]: one index, set or range only *)
               | EIndexE (EId x) idx => resolve_bits true (QIdx x [idx])
               | _ => schecked
               end);;
      (match value with
       | EId x | EIndexE (EId x) _ =>
           match lookup x (s_env s) with Some (BQreg _) => sret tt | _ => known "alias of an alias" (sret tt) end
       | _ => sret tt
       end);;~
      sguard (nodupb bits) EValidation;;~
      (match bits with [] => sunspec "empty alias" | _ => sret tt end);;~
      (* pyqasm lets an alias name be re-bound; so does the specification *)
      s <~ sget_st;;
      (match lookup name (s_env s) with
       | Some (BQubits _) => sput_env (update name (BQubits bits) (s_env s))
       | Some _ => schecked
       | None => e' <~ slift (declare name (BQubits bits) (s_env s));; sput_env e'
       end);;~
      sret []
  | SSubDef name args ret_ body =>
      sguard (negb (is_constant_name name)) EValidation;;~
      s <~ sget_st;;
      sguard (negb (smemk name (s_subs s))) EValidation;;~
      (match lookup name (s_env s) with Some _ => schecked | None => sret tt end);;~
      (fun s => Ok ([], mkS (s_env s) (s_gates s) (sset name (mkSub args ret_ body) (s_subs s)) (s_incl s) (s_nq s) (s_gstack s)))
  | SExprStmt (ECall f args) => '(_, tr) <~ call_rec f args;; sret tr
  | SExprStmt _ => sunspec "expression statement"
  | SIODecl => sret []
  | SReturn _ | SOther _ => schecked
  end.

(* ---------- subroutine call ---------- *)
Definition call_spec (f : string) (args : list expr) : SM (pyval * list top) :=
  s <~ sget_st;;
  match sget f (s_subs s) with
  | None => schecked
  | Some sd =>
      sguard (Nat.eqb (List.length args) (List.length (s_args sd))) EValidation;;~
      '(bs, used) <~
         (fix go (l : list (expr * farg)) (bs : list (string * binding)) (used : list bitref)
            : SM (list (string * binding) * list bitref) :=
            match l with
            | [] => sret (bs, used)
            | (actual, FClassical t name _) :: l' =>
                ty <~ sty_of t;;
                (match actual with
                 | EId x => s <~ sget_st;;
                            match lookup x (s_env s) with
                            | Some (BVar _ _ _) => sret tt
                            | Some _ => schecked
                            | None => if is_constant_name x then sret tt else schecked
                            end
                 | _ => sret tt
                 end);;~
                v <~ seval0 actual false;;
                cv <~ slift (store ty v);;
                go l' (bs ++ [(name, BVar ty (Some cv) false)]) used
            | (actual, FQubit name size) :: l' =>
                n <~ (match size with None => sret 1 | Some e => eval_int e true end);;
                sguard (0 <? n) EValidation;;~
                q <~ (match actual with
                      | EId x => sret (QId x)
                      | EIndexE (EId x) idx => sret (QIdx x [idx])
                      | _ => schecked
                      end);;
                s <~ sget_st;;
                (match lookup (qarg_name q) (s_env s) with
                 | Some (BQreg _) => sret tt
                 | Some (BQubits _) => known "formal or alias qubits passed on to a subroutine" (sret tt)
                 | _ => schecked
                 end);;~
                (match q with
                 | QIdx _ (IdxList (IExpr (ELit _ | EId _) :: _) :: _) | QIdx _ (IdxList (IRange _ _ _ :: _) :: _)
                 | QIdx _ (IdxSet _ :: _) | QId _ => sret tt
                 | _ => known "computed index as a qubit argument" (sret tt)
                 end);;~
                bits <~ resolve_bits true q;;
                sguard (Z.of_nat (List.length bits) =? n) EValidation;;~
                sguard (nodupb (used ++ bits)) EValidation;;~
                go l' (bs ++ [(name, BQubits bits)]) (used ++ bits)
            end) (combine args (s_args sd)) [] [];;
      sguard (nodupb (map (fun p => (fst p, 0)) bs)) (EUnmodelled "repeated formal name");;~
      push_frame FFunc bs;;~
      '(out, retstmt) <~
         (fix go (body : list stmt) : SM (list top * option (option expr)) :=
            match body with
            | [] => sret ([], None)
            | SReturn e :: _ => sret ([], Some e)
            | st :: body' => o <~ exec_rec st;; '(os, r) <~ go body';; sret (o ++ os, r)
            end) (s_body sd);;
      '(rv, rtr) <~
         (match retstmt, s_ret sd with
          | None, _ => sret (VNone, [])
          | Some None, None => sret (VNone, [])
          | Some None, Some _ => schecked
          | Some (Some _), None => schecked
          | Some (Some e), Some t =>
              ty <~ sty_of t;;
              '(v, tr) <~ seval e false;;
              cv <~ slift (store ty v);;
              sret (cv, tr)
          end);;
      pop_frame;;~
      sret (rv, out ++ rtr)
  end.

End SpecOpen.

Fixpoint exec (strict : bool) (externals : list string) (fuel : nat) (st : stmt) : SM (list top) :=
  match fuel with
  | O => sfail EFuel
  | S f => exec_stmt_body strict externals (exec strict externals f) (scall strict externals f) st
  end
with scall (strict : bool) (externals : list string) (fuel : nat) (f : string) (args : list expr) : SM (pyval * list top) :=
  match fuel with
  | O => sfail EFuel
  | S f' => call_spec strict (exec strict externals f') (scall strict externals f') f args
  end.

Definition spec_run (strict : bool) (qasm2 : bool) (externals : list string) (prog : list stmt) : res (list top) :=
  if qasm2 && negb (forallb qasm2_allowed prog) then Err EValidation
  else match sconcatM (exec strict externals default_fuel) prog (mkS [mkFrame FGlobal []] [] [] [] 0 []) with
       | Ok (tr, _) => Ok tr
       | Err e => Err e
       end.

(* ---------- lowering a trace to flat statements (to compare with unroll output) ---------- *)
(* inverse of a basis-gate application *)
Definition invert_basis (g : stmt) : res stmt :=
  match g with
  | SGate [] name args qs =>
      if smem name ["id"; "h"; "x"; "y"; "z"; "cx"; "cz"; "swap"; "ccx"; "c4x"] then Ok g
      else if String.eqb name "s" then Ok (SGate [] "sdg" args qs)
      else if String.eqb name "sdg" then Ok (SGate [] "s" args qs)
      else if String.eqb name "t" then Ok (SGate [] "tdg" args qs)
      else if String.eqb name "tdg" then Ok (SGate [] "t" args qs)
      else if smem name ["rx"; "ry"; "rz"] then
        match args with
        | [ELit v] => do v' <- neg_val v;; Ok (SGate [] name [ELit v'] qs)
        | _ => unspec "rotation arguments"
        end
      else unspec "inverse of basis gate"
  | SPhase [] (ELit v) qs => do v' <- neg_val v;; Ok (SPhase [] (ELit v') qs)
  | _ => unspec "inverse of non-gate"
  end.

Definition lower_gate (name : string) (params0 : list pyval) (qs : list bitref) (inv0 : bool) : res (list stmt) :=
  (* the inverse of a rotation-like multi-qubit gate is the gate at the negated parameters *)
  do pi <- (if inv0 && smem name negation_inverse_names && negb (smem name ["rx"; "ry"; "rz"])
            then do ps <- mapR neg_val params0;; Ok (ps, false) else Ok (params0, inv0));;
  let '(params, inv) := pi in
  match lookup_op bitref name with
  | Some (Some (_, _, f), _) =>
      match f (map GA (map AVar (seq 0 (List.length params))) ++ map GQ qs) with
      | None => unspec "callable rejects arguments"
      | Some bgs =>
          do l <- mapR (stmt_of_bgate params) bgs;;
          (* an involution is its own inverse (C06: self_inverse_names are proved involutive);
             otherwise reverse the circuit and invert every basis gate *)
          if inv && negb (smem name self_inverse_names) then do l' <- mapR invert_basis l;; Ok (rev l') else Ok l
      end
  | _ => unspec "not a library gate"
  end.

Fixpoint lower_top (t : top) : res (list stmt) :=
  let lower_list :=
    fix go (l : list top) : res (list stmt) :=
      match l with
      | [] => Ok []
      | x :: l' => do a <- lower_top x;; do b <- go l';; Ok (a ++ b)
      end in
  match t with
  | TInclude f => Ok [SInclude f]
  | TQreg n sz => Ok [SQubitDecl n (Some (ELit (VInt sz)))]
  | TCreg n sz => Ok [SClassicalDecl (TBit (Some (ELit (VInt sz)))) n None]
  | TGate n ps qs inv => lower_gate n ps qs inv
  | TExt n ps qs inv => Ok [SGate (if inv then [MInv] else []) n (map ELit ps) (map qarg_of qs)]
  | TPhase v => Ok [SPhase [] (ELit v) []]
  | TMeasure q c => Ok [SMeasure (qarg_of q) (Some (qarg_of c))]
  | TReset q => Ok [SReset (qarg_of q)]
  | TBarrier qs => Ok (map (fun q => SBarrier [qarg_of q]) qs)
  | TIf r i v t e =>
      do lt <- lower_list t;; do le <- lower_list e;;
      let lhs := match i with
                 | Some k => EIndexE (EId r) (IdxList [IExpr (ELit (VInt k))])
                 | None => EId r
                 end in
      Ok [SIf (EBin "==" lhs (ELit v)) lt le]
  end.

Fixpoint lower (tr : list top) : res (list stmt) :=
  match tr with
  | [] => Ok []
  | t :: tr' => do a <- lower_top t;; do b <- lower tr';; Ok (a ++ b)
  end.

(* equality of flat statements up to the representation of numbers (1 = 1.0 = true as a gate
   parameter), the operand list of gphase and the initialiser of a bit declaration *)
Definition num_eqb (a b : pyval) : bool :=
  match py_binop OpEq a b with Ok (VBool r) => r | _ => false end.

Fixpoint flat_equiv (a b : stmt) {struct a} : bool :=
  let lits_eq :=
    fix go (x y : list expr) : bool :=
      match x, y with
      | [], [] => true
      | ELit u :: x', ELit v :: y' => num_eqb u v && go x' y'
      | _, _ => false
      end in
  let blocks_eq :=
    fix go (x y : list stmt) : bool :=
      match x, y with
      | [], [] => true
      | s1 :: x', s2 :: y' => flat_equiv s1 s2 && go x' y'
      | _, _ => false
      end in
  match a, b with
  | SGate m1 n1 a1 q1, SGate m2 n2 a2 q2 =>
      list_eqb gmod_eqb m1 m2 && String.eqb n1 n2 && lits_eq a1 a2 && list_eqb qarg_eqb q1 q2
  | SPhase [] (ELit u) _, SPhase [] (ELit v) _ => num_eqb u v
  | SClassicalDecl t1 n1 _, SClassicalDecl t2 n2 _ => ctype_eqb t1 t2 && String.eqb n1 n2
  | SIf (EBin o1 l1 (ELit u)) t1 e1, SIf (EBin o2 l2 (ELit v)) t2 e2 =>
      String.eqb o1 o2 && expr_eqb l1 l2 && num_eqb u v && blocks_eq t1 t2 && blocks_eq e1 e2
  | _, _ => stmt_eqb a b
  end.

Definition flat_equiv_list := list_eqb flat_equiv.
