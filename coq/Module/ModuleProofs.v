(* Properties of the abstract machine of the module API (ModuleSpec.v), for every world, every
   module index and every call; lifted to arbitrary call histories by induction. *)
From Coq Require Import ZArith List Bool String Lia.
From Verif Require Import BGate PyVal Ast State Unroll Corr Spec Transforms TransformProofs ModuleSpec.
Import ListNotations.
Open Scope Z_scope.

Definition is_query (o : mop) : bool :=
  match o with
  | OValidate | OUnroll | ODepth | ONumQ | ONumC | OHasM | OHasB | ODumps => true
  | _ => false
  end.

Lemma effect_query m o : is_query o = true -> effect m o = None.
Proof. destruct o; simpl; intros; try discriminate; reflexivity. Qed.

(* ---------- queries change nothing ---------- *)
Theorem query_keeps_program m o : sp_prog (fst (query m o)) = sp_prog m /\ sp_q2 (fst (query m o)) = sp_q2 m.
Proof.
  destruct o; simpl; auto.
  - destruct (flat m); simpl; auto.
Qed.

Theorem query_keeps_state m o : o <> OUnroll -> fst (query m o) = m.
Proof. destruct o; simpl; intros; try reflexivity; congruence. Qed.

(* the answers to counts, depth and validate depend on the current program only; the flags also on
   whether the module has an unrolled view (the flat program is then the current one: a statement in
   code that never runs is part of the text but not of it) *)
Definition program_query (o : mop) : bool :=
  match o with OValidate | ODepth | ONumQ | ONumC | OHasM | OHasB => true | _ => false end.
Definition view_query (o : mop) : bool := match o with OHasM | OHasB => true | _ => false end.

Theorem answers_depend_on_program m m' o :
  program_query o = true -> sp_prog m = sp_prog m' -> sp_q2 m = sp_q2 m' ->
  (view_query o = true -> sp_unrolled m = sp_unrolled m') ->
  snd (query m o) = snd (query m' o).
Proof.
  intros Ho Hp Hq Hu. destruct o; try discriminate Ho; cbn [query snd]; unfold flat, has_answer; rewrite ?Hp, ?Hq, ?(Hu eq_refl); reflexivity.
Qed.

Lemma query_keeps_view m o : o <> OUnroll -> sp_unrolled (fst (query m o)) = sp_unrolled m.
Proof. intros H. rewrite query_keeps_state by exact H. reflexivity. Qed.

Corollary queries_are_idempotent m o1 o2 :
  program_query o2 = true -> (view_query o2 = true -> o1 <> OUnroll) ->
  snd (query (fst (query m o1)) o2) = snd (query m o2).
Proof.
  intros H Hv. destruct (query_keeps_program m o1) as [Hp Hq]. apply answers_depend_on_program; auto.
  intros V. apply query_keeps_view. exact (Hv V).
Qed.

(* ---------- set_nth / nth_error ---------- *)
Lemma nth_error_set_nth_same {A} (l : list A) i x : (i < List.length l)%nat -> nth_error (set_nth i x l) i = Some x.
Proof.
  revert i; induction l as [|y l IH]; intros [|i] H; simpl in *; try lia; auto; apply IH; lia.
Qed.
Lemma nth_error_set_nth_other {A} (l : list A) i j x : i <> j -> nth_error (set_nth i x l) j = nth_error l j.
Proof.
  revert i j; induction l as [|y l IH]; intros [|i] [|j] H; simpl; auto; try congruence.
Qed.
Lemma set_nth_length {A} (l : list A) i x : List.length (set_nth i x l) = List.length l.
Proof. revert i; induction l as [|y l IH]; intros [|i]; simpl; auto. Qed.

(* ---------- a call on one module never changes another module ---------- *)
Theorem step_other_module w i j o : i <> j -> (j < List.length w)%nat ->
  nth_error (fst (step w i o)) j = nth_error w j.
Proof.
  intros Hij Hj. unfold step. destruct (nth_error w i) as [m|]; [|reflexivity].
  destruct (effect m o) as [[m'|e]|].
  - destruct (in_place_of o); simpl.
    + now apply nth_error_set_nth_other.
    + now rewrite nth_error_app1.
  - reflexivity.
  - destruct (query m o) as [m' out]. simpl. now apply nth_error_set_nth_other.
Qed.

(* ---------- in_place=False / copy: the original is untouched, the new module is the in-place
   effect on an independent copy ---------- *)
Theorem not_in_place_keeps_world w i o : in_place_of o = false ->
  firstn (List.length w) (fst (step w i o)) = w.
Proof.
  intros Hip. unfold step. destruct (nth_error w i) as [m|]; [|apply firstn_all].
  destruct (effect m o) as [[m'|e]|] eqn:E.
  - rewrite Hip. simpl. rewrite firstn_app, Nat.sub_diag, firstn_all. simpl. apply app_nil_r.
  - apply firstn_all.
  - destruct o; simpl in *; try discriminate.
Qed.

Definition in_place_version (o : mop) : mop :=
  match o with
  | ORemove k _ => ORemove k true
  | OPopulate _ => OPopulate true
  | ORemoveIdle _ => ORemoveIdle true
  | OReverse _ => OReverse true
  | o => o
  end.

Lemma effect_ignores_flag m o : effect m (in_place_version o) = effect m o.
Proof. destruct o; reflexivity. Qed.
Lemma in_place_version_in_place o : o <> OCopy -> o <> OToQasm3 -> in_place_of (in_place_version o) = true.
Proof. destruct o; simpl; congruence. Qed.

Theorem not_in_place_is_effect_on_copy w i o m m' :
  in_place_of o = false -> o <> OCopy -> o <> OToQasm3 -> nth_error w i = Some m -> effect m o = Some (Ok m') ->
  step w i o = (w ++ [m'], OutNew) /\
  (* the same state an in-place call produces on a world holding only a copy of m *)
  step [m] 0 (in_place_version o) = ([m'], OutUnit).
Proof.
  intros Hip Hc Hq Hn He. split.
  - unfold step. now rewrite Hn, He, Hip.
  - unfold step. cbn [nth_error]. rewrite effect_ignores_flag, He, in_place_version_in_place by assumption. reflexivity.
Qed.

Theorem copy_is_identical w i m : nth_error w i = Some m -> step w i OCopy = (w ++ [m], OutNew).
Proof. intros H. unfold step. now rewrite H. Qed.

(* to_qasm3() of a version-2 module: a new version-3 module holding the current program with the include rewritten;
   the world (the version-2 module included) is untouched *)
Theorem to_qasm3_is_a_new_module w i m : nth_error w i = Some m -> sp_q2 m = true ->
  step w i OToQasm3 = (w ++ [mkMS (Qasm2.to_qasm3 (sp_prog m)) false false], OutNew).
Proof. intros H Hq. unfold step. rewrite H. cbn [effect]. rewrite Hq. reflexivity. Qed.

(* ---------- a rejected call leaves no trace ---------- *)
Theorem failed_call_leaves_world w i o e : snd (step w i o) = OutErr e ->
  forall j, nth_error (fst (step w i o)) j = nth_error w j.
Proof.
  unfold step. destruct (nth_error w i) as [m|] eqn:Hn; [|reflexivity].
  destruct (effect m o) as [[m'|e']|] eqn:E.
  - destruct (in_place_of o); simpl; discriminate.
  - reflexivity.
  - destruct (query m o) as [m' out] eqn:Q. simpl. intros ->. intros j.
    assert (m' = m).
    { destruct o; simpl in Q; try (inversion Q; reflexivity); try (simpl in E; discriminate).
      destruct (flat m); inversion Q; reflexivity. }
    subst m'. destruct (Nat.eq_dec i j) as [->|Hne].
    + destruct (Nat.lt_ge_cases j (List.length w)).
      * rewrite nth_error_set_nth_same by assumption. now rewrite Hn.
      * apply nth_error_None in H. rewrite Hn in H. discriminate.
    + now apply nth_error_set_nth_other.
Qed.

(* and the same call fails again in the same way (retries raise the same error) *)
Theorem failed_call_fails_again w i o e : snd (step w i o) = OutErr e ->
  snd (step (fst (step w i o)) i o) = OutErr e.
Proof.
  intros H. pose proof (failed_call_leaves_world w i o e H i) as Hi.
  unfold step at 1. rewrite Hi. unfold step in H. destruct (nth_error w i) as [m|]; [|exact H].
  destruct (effect m o) as [[m'|e']|].
  - destruct (in_place_of o); simpl in *; discriminate.
  - exact H.
  - destruct (query m o); exact H.
Qed.

(* ---------- the machine is a function of the program text and the call sequence ---------- *)
Theorem run_deterministic w h r1 r2 : run w h = r1 -> run w h = r2 -> r1 = r2.
Proof. congruence. Qed.

(* ---------- transformations: documented effect ---------- *)
Theorem remove_then_flag_false m k b m' :
  effect m (ORemove k b) = Some (Ok m') -> has_kind k (sp_prog m') = false.
Proof.
  simpl. destruct (cur m) as [c|]; [|discriminate].
  destruct (has_empty_if (remove_kind k c) && negb (has_empty_if c)); [discriminate|].
  intros H; inversion H; subst. simpl. apply remove_kind_no_kind.
Qed.

Theorem reverse_twice_on_flat (p : list stmt) : reverse_qubits (reverse_qubits p) = p.
Proof. apply reverse_involutive. Qed.

(* an interleaved query never changes what a later transformation does to the program, unless it is
   unroll (which only selects the flat form of the same program as input) *)
Theorem query_then_effect m o t : o <> OUnroll -> effect (fst (query m o)) t = effect m t.
Proof. intros H. now rewrite query_keeps_state. Qed.

(* ---------- lifted to histories ---------- *)
Lemma run_app w h1 h2 :
  run w (h1 ++ h2) = let '(w1, o1) := run w h1 in let '(w2, o2) := run w1 h2 in (w2, o1 ++ o2).
Proof.
  revert w; induction h1 as [|[i o] h1 IH]; intros w; simpl.
  - destruct (run w h2); reflexivity.
  - destruct (step w i o) as [w1 out]. rewrite IH. destruct (run w1 h1) as [w2 outs].
    destruct (run w2 h2); reflexivity.
Qed.

Definition pure_query (o : mop) : bool :=
  match o with OValidate | ODepth | ONumQ | ONumC | OHasM | OHasB | ODumps => true | _ => false end.

Lemma set_nth_same {A} (l : list A) i x : nth_error l i = Some x -> set_nth i x l = l.
Proof.
  revert i; induction l as [|y l IH]; intros [|i] H; simpl in *; try discriminate; auto.
  - inversion H; reflexivity.
  - f_equal. now apply IH.
Qed.

Lemma pure_query_step w i o : pure_query o = true -> fst (step w i o) = w.
Proof.
  intros Hq. unfold step. destruct (nth_error w i) as [m|] eqn:Hn; [|reflexivity].
  rewrite effect_query by (destruct o; simpl in *; congruence).
  destruct (query m o) as [m' out] eqn:Q. simpl.
  assert (m' = m) by (change m' with (fst (m', out)); rewrite <- Q; apply query_keeps_state; destruct o; simpl in *; congruence).
  subst. now apply set_nth_same.
Qed.

(* queries (validate, depth, counts, flags, dumps) interleaved anywhere in a call sequence change
   nothing: the final world is that of the sequence with those calls deleted *)
Theorem queries_are_transparent h : forall w,
  fst (run w h) = fst (run w (filter (fun io => negb (pure_query (snd io))) h)).
Proof.
  induction h as [|[i o] h IH]; intros w; [reflexivity|].
  cbn [run filter snd]. destruct (pure_query o) eqn:Hq; cbn [negb].
  - pose proof (pure_query_step w i o Hq) as Hs. destruct (step w i o) as [w1 out]. simpl in Hs. subst w1.
    specialize (IH w). destruct (run w h). exact IH.
  - cbn [run]. destruct (step w i o) as [w1 out]. specialize (IH w1).
    destruct (run w1 h), (run w1 (filter _ h)). exact IH.
Qed.

(* repeating a program query at any later point of a history of queries gives the same answer *)
Definition run_q (m : mspec) (os : list mop) : mspec := fold_left (fun m o => fst (query m o)) os m.

Theorem queries_keep_program_history os : forall m,
  sp_prog (run_q m os) = sp_prog m /\ sp_q2 (run_q m os) = sp_q2 m.
Proof.
  induction os as [|o os IH]; intros m; [auto|]. simpl.
  destruct (IH (fst (query m o))) as [H1 H2]. destruct (query_keeps_program m o) as [H3 H4].
  unfold run_q in *. split; congruence.
Qed.

Lemma queries_keep_view_history os : forall m, ~ In OUnroll os -> sp_unrolled (run_q m os) = sp_unrolled m.
Proof.
  induction os as [|o os IH]; intros m Hn; [reflexivity|]. simpl.
  unfold run_q in *. rewrite IH by (intros H; apply Hn; right; exact H).
  apply query_keeps_view. intros ->. apply Hn. left; reflexivity.
Qed.

(* counts, depth and validate: stable under any history of queries (unroll included); the flags:
   under any history of queries that does not produce an unrolled view *)
Corollary answer_stable_under_queries m os o :
  program_query o = true -> (view_query o = true -> ~ In OUnroll os) ->
  snd (query (run_q m os) o) = snd (query m o).
Proof.
  intros H Hv. destruct (queries_keep_program_history os m). apply answers_depend_on_program; auto.
  intros V. apply queries_keep_view_history. exact (Hv V).
Qed.
