(* Documented effect of the module transformations as pure functions on programs
   (DESIGN appendix B): the specification the module layer is judged against.
     remove_kind k   - every statement of kind k removed, at every nesting level
     reverse_qubits  - index i of a register of size n becomes n-1-i in every operation
     remove_idle     - unused qubits dropped, survivors renumbered in order, empty registers undeclared
     populate_idle   - one `id` appended per unused qubit
   [reverse_qubits], [remove_idle], [populate_idle] act on flat (unrolled) programs. *)
From Coq Require Import ZArith List Bool String.
From Verif Require Import BGate PyVal Ast State.
Import ListNotations.
Open Scope Z_scope.

(* ---------- kinds ---------- *)
Inductive kind := KMeas | KBarr | KIncl.
Definition is_kind (k : kind) (s : stmt) : bool :=
  match k, s with
  | KMeas, SMeasure _ _ => true
  | KBarr, SBarrier _ => true
  | KIncl, SInclude _ => true
  | _, _ => false
  end.

Fixpoint rk (k : kind) (s : stmt) : list stmt :=
  let rkl := fix go (l : list stmt) : list stmt :=
               match l with [] => [] | x :: l' => rk k x ++ go l' end in
  match s with
  | SIf c t e => [SIf c (rkl t) (rkl e)]
  | SFor ty v set body => [SFor ty v set (rkl body)]
  | SSwitch tg cases d =>
      [SSwitch tg
         ((fix gc (cs : list (list expr * list stmt)) : list (list expr * list stmt) :=
             match cs with [] => [] | (vs, b) :: cs' => (vs, rkl b) :: gc cs' end) cases)
         (match d with Some b => Some (rkl b) | None => None end)]
  | SSubDef n a r body => [SSubDef n a r (rkl body)]
  | SGateDef n p q body => [SGateDef n p q (rkl body)]
  | _ => if is_kind k s then [] else [s]
  end.
Fixpoint remove_kind (k : kind) (p : list stmt) : list stmt :=
  match p with [] => [] | x :: p' => rk k x ++ remove_kind k p' end.

Fixpoint hk (k : kind) (s : stmt) : bool :=
  let hkl := fix go (l : list stmt) : bool := match l with [] => false | x :: l' => hk k x || go l' end in
  match s with
  | SIf _ t e => hkl t || hkl e
  | SFor _ _ _ body | SSubDef _ _ _ body | SGateDef _ _ _ body => hkl body
  | SSwitch _ cases d =>
      (fix gc (cs : list (list expr * list stmt)) : bool :=
         match cs with [] => false | (_, b) :: cs' => hkl b || gc cs' end) cases
      || match d with Some b => hkl b | None => false end
  | _ => is_kind k s
  end.
Fixpoint has_kind (k : kind) (p : list stmt) : bool :=
  match p with [] => false | x :: p' => hk k x || has_kind k p' end.

(* ---------- operands of flat statements ---------- *)
Definition qarg_bit (q : qarg) : option bitref :=
  match q with
  | QIdx x [IdxList [IExpr (ELit (VInt i))]] => Some (x, i)
  | _ => None
  end.
Definition bit_qarg (b : bitref) : qarg := QIdx (fst b) [IdxList [IExpr (ELit (VInt (snd b)))]].

Definition map_qarg (f : bitref -> bitref) (q : qarg) : qarg :=
  match qarg_bit q with Some b => bit_qarg (f b) | None => q end.

(* apply a renaming of qubits to every quantum operand (classical operands untouched) *)
Fixpoint map_qubits (f : bitref -> bitref) (s : stmt) : stmt :=
  let ml := fix go (l : list stmt) : list stmt := match l with [] => [] | x :: l' => map_qubits f x :: go l' end in
  match s with
  | SGate m n a qs => SGate m n a (map (map_qarg f) qs)
  | SPhase m a qs => SPhase m a (map (map_qarg f) qs)
  | SMeasure q t => SMeasure (map_qarg f q) t
  | SReset q => SReset (map_qarg f q)
  | SBarrier qs => SBarrier (map (map_qarg f) qs)
  | SIf c t e => SIf c (ml t) (ml e)
  | _ => s
  end.

Fixpoint opt_list {A} (l : list (option A)) : list A :=
  match l with [] => [] | Some x :: l' => x :: opt_list l' | None :: l' => opt_list l' end.

(* qubits an operation touches (gphase touches none: it is not counted by pyqasm either) *)
Fixpoint stmt_qubits (s : stmt) : list bitref :=
  let sl := fix go (l : list stmt) : list bitref := match l with [] => [] | x :: l' => stmt_qubits x ++ go l' end in
  match s with
  | SGate _ _ _ qs | SBarrier qs => opt_list (map qarg_bit qs)
  | SMeasure q _ | SReset q => opt_list [qarg_bit q]
  | SIf _ t e => sl t ++ sl e
  | _ => []
  end.
Fixpoint used_qubits (p : list stmt) : list bitref :=
  match p with [] => [] | x :: p' => stmt_qubits x ++ used_qubits p' end.

Definition bmem (b : bitref) (l : list bitref) : bool := existsb (bitref_eqb b) l.

(* declared qubit registers of a flat program, in declaration order *)
Fixpoint qregs_of (p : list stmt) : list (string * Z) :=
  match p with
  | [] => []
  | SQubitDecl n (Some (ELit (VInt sz))) :: p' => (n, sz) :: qregs_of p'
  | SQubitDecl n None :: p' => (n, 1) :: qregs_of p'
  | _ :: p' => qregs_of p'
  end.
Fixpoint cregs_of (p : list stmt) : list (string * Z) :=
  match p with
  | [] => []
  | SClassicalDecl (TBit (Some (ELit (VInt sz)))) n _ :: p' => (n, sz) :: cregs_of p'
  | SClassicalDecl (TBit None) n _ :: p' => (n, 1) :: cregs_of p'
  | _ :: p' => cregs_of p'
  end.
Definition total_size (rs : list (string * Z)) : Z := fold_right (fun r a => snd r + a) 0 rs.

Definition range_z (n : Z) : list Z := map Z.of_nat (seq 0 (Z.to_nat n)).

(* ---------- reverse ---------- *)
Definition rev_bit (regs : list (string * Z)) (b : bitref) : bitref :=
  match sget (fst b) regs with
  | Some n => (fst b, n - 1 - snd b)
  | None => b
  end.
Definition reverse_qubits (p : list stmt) : list stmt := map (map_qubits (rev_bit (qregs_of p))) p.

(* ---------- remove idle ---------- *)
(* new index of qubit (r, i): the number of used qubits of r below i *)
Definition rank (used : list bitref) (r : string) (i : Z) : Z :=
  Z.of_nat (List.length (filter (fun j => bmem (r, j) used) (range_z i))).
Definition idle_rename (used : list bitref) (b : bitref) : bitref := (fst b, rank used (fst b) (snd b)).

Fixpoint shrink_decls (used : list bitref) (p : list stmt) : list stmt :=
  match p with
  | [] => []
  | s :: p' =>
      match s with
      | SQubitDecl n sz =>
          let size := match sz with Some (ELit (VInt z)) => z | _ => 1 end in
          let k := rank used n size in
          if k =? 0 then shrink_decls used p'
          else SQubitDecl n (Some (ELit (VInt k))) :: shrink_decls used p'
      | _ => s :: shrink_decls used p'
      end
  end.
Definition remove_idle (p : list stmt) : list stmt :=
  let used := used_qubits p in
  map (map_qubits (idle_rename used)) (shrink_decls used p).

(* ---------- populate idle ---------- *)
Definition all_qubits (regs : list (string * Z)) : list bitref :=
  flat_map (fun r => map (fun i => (fst r, i)) (range_z (snd r))) regs.
Definition idle_qubits (p : list stmt) : list bitref :=
  filter (fun b => negb (bmem b (used_qubits p))) (all_qubits (qregs_of p)).
Definition id_gate (b : bitref) : stmt := SGate [] "id" [] [bit_qarg b].

(* a conditional whose if-block is empty (at any depth): pyqasm rejects such programs on re-visit *)
Fixpoint stmt_empty_if (s : stmt) : bool :=
  let el := fix go (l : list stmt) : bool := match l with [] => false | x :: l' => stmt_empty_if x || go l' end in
  match s with
  | SIf _ t e => match t with [] => true | _ => el t || el e end
  | SFor _ _ _ body | SSubDef _ _ _ body | SGateDef _ _ _ body => el body
  | SSwitch _ cases d =>
      (fix gc (cs : list (list expr * list stmt)) : bool :=
         match cs with [] => false | (_, b) :: cs' => el b || gc cs' end) cases
      || match d with Some b => el b | None => false end
  | _ => false
  end.
Definition has_empty_if (p : list stmt) : bool := existsb stmt_empty_if p.
