(* Theorems about the documented effects of the module transformations (Transforms.v), for
   every program: no bound on length, nesting depth or register sizes. *)
From Coq Require Import ZArith List Bool String Lia.
From Verif Require Import BGate PyVal Ast State Transforms.
Import ListNotations.
Open Scope Z_scope.

(* ---------- induction principle for statements with nested blocks ---------- *)
Section StmtInd.
Variable P : stmt -> Prop.
Definition PL (l : list stmt) : Prop := Forall P l.
Hypothesis H_if : forall c t e, PL t -> PL e -> P (SIf c t e).
Hypothesis H_for : forall ty v set body, PL body -> P (SFor ty v set body).
Hypothesis H_switch : forall tg cases d,
  Forall (fun c => PL (snd c)) cases -> PL (match d with Some b => b | None => [] end) -> P (SSwitch tg cases d).
Hypothesis H_sub : forall n a r body, PL body -> P (SSubDef n a r body).
Hypothesis H_gdef : forall n p q body, PL body -> P (SGateDef n p q body).
Hypothesis H_leaf : forall s,
  match s with SIf _ _ _ | SFor _ _ _ _ | SSwitch _ _ _ | SSubDef _ _ _ _ | SGateDef _ _ _ _ => False | _ => True end -> P s.

Fixpoint stmt_ind' (s : stmt) : P s :=
  let list_ind' := fix go (l : list stmt) : PL l :=
    match l with [] => Forall_nil _ | x :: l' => Forall_cons _ (stmt_ind' x) (go l') end in
  match s with
  | SIf c t e => H_if c t e (list_ind' t) (list_ind' e)
  | SFor ty v set body => H_for ty v set body (list_ind' body)
  | SSwitch tg cases d =>
      H_switch tg cases d
        ((fix gc (cs : list (list expr * list stmt)) : Forall (fun c => PL (snd c)) cs :=
            match cs with
            | [] => Forall_nil _
            | (vs, b) :: cs' => @Forall_cons _ (fun c => PL (snd c)) (vs, b) cs' (list_ind' b) (gc cs')
            end) cases)
        (match d as d0 return PL (match d0 with Some b => b | None => [] end) with Some b => list_ind' b | None => Forall_nil P end)
  | SSubDef n a r body => H_sub n a r body (list_ind' body)
  | SGateDef n p q body => H_gdef n p q body (list_ind' body)
  | SInclude f => H_leaf (SInclude f) I
  | SQubitDecl n sz => H_leaf (SQubitDecl n sz) I
  | SClassicalDecl t n i => H_leaf (SClassicalDecl t n i) I
  | SConstDecl t n i => H_leaf (SConstDecl t n i) I
  | SAssign l o r => H_leaf (SAssign l o r) I
  | SGate m n a q => H_leaf (SGate m n a q) I
  | SPhase m a q => H_leaf (SPhase m a q) I
  | SMeasure q t => H_leaf (SMeasure q t) I
  | SReset q => H_leaf (SReset q) I
  | SBarrier q => H_leaf (SBarrier q) I
  | SAlias n v => H_leaf (SAlias n v) I
  | SExprStmt e => H_leaf (SExprStmt e) I
  | SReturn e => H_leaf (SReturn e) I
  | SIODecl => H_leaf SIODecl I
  | SOther k => H_leaf (SOther k) I
  end.
End StmtInd.

(* ---------- the block-level functions, named ---------- *)
Fixpoint rkl (k : kind) (l : list stmt) : list stmt :=
  match l with [] => [] | x :: l' => rk k x ++ rkl k l' end.
Fixpoint hkl (k : kind) (l : list stmt) : bool :=
  match l with [] => false | x :: l' => hk k x || hkl k l' end.
Fixpoint rk_cases (k : kind) (cs : list (list expr * list stmt)) : list (list expr * list stmt) :=
  match cs with [] => [] | (vs, b) :: cs' => (vs, rkl k b) :: rk_cases k cs' end.
Fixpoint hk_cases (k : kind) (cs : list (list expr * list stmt)) : bool :=
  match cs with [] => false | (_, b) :: cs' => hkl k b || hk_cases k cs' end.

Lemma remove_kind_rkl k p : remove_kind k p = rkl k p.
Proof. induction p; simpl; congruence. Qed.
Lemma has_kind_hkl k p : has_kind k p = hkl k p.
Proof. induction p; simpl; congruence. Qed.

Lemma rk_block k (b : list stmt) :
  (fix go (l : list stmt) : list stmt := match l with [] => [] | x :: l' => rk k x ++ go l' end) b = rkl k b.
Proof. induction b; simpl; congruence. Qed.
Lemma hk_block k (b : list stmt) :
  (fix go (l : list stmt) : bool := match l with [] => false | x :: l' => hk k x || go l' end) b = hkl k b.
Proof. induction b; simpl; congruence. Qed.

Lemma rk_if k c t e : rk k (SIf c t e) = [SIf c (rkl k t) (rkl k e)].
Proof. cbn [rk]. now rewrite !rk_block. Qed.
Lemma rk_for k ty v set b : rk k (SFor ty v set b) = [SFor ty v set (rkl k b)].
Proof. cbn [rk]. now rewrite !rk_block. Qed.
Lemma rk_sub k n a r b : rk k (SSubDef n a r b) = [SSubDef n a r (rkl k b)].
Proof. cbn [rk]. now rewrite !rk_block. Qed.
Lemma rk_gdef k n p q b : rk k (SGateDef n p q b) = [SGateDef n p q (rkl k b)].
Proof. cbn [rk]. now rewrite !rk_block. Qed.
Lemma rk_switch k tg cs d :
  rk k (SSwitch tg cs d) = [SSwitch tg (rk_cases k cs) (match d with Some b => Some (rkl k b) | None => None end)].
Proof.
  cbn [rk]. f_equal. f_equal.
  - induction cs as [|[vs b] cs IH]; [reflexivity|]. rewrite IH. cbn [rk_cases]. now rewrite rk_block.
  - destruct d; [|reflexivity]. now rewrite rk_block.
Qed.
Lemma hk_if k c t e : hk k (SIf c t e) = hkl k t || hkl k e.
Proof. cbn [hk]. now rewrite !hk_block. Qed.
Lemma hk_for k ty v set b : hk k (SFor ty v set b) = hkl k b.
Proof. cbn [hk]. now rewrite !hk_block. Qed.
Lemma hk_sub k n a r b : hk k (SSubDef n a r b) = hkl k b.
Proof. cbn [hk]. now rewrite !hk_block. Qed.
Lemma hk_gdef k n p q b : hk k (SGateDef n p q b) = hkl k b.
Proof. cbn [hk]. now rewrite !hk_block. Qed.
Lemma hk_switch k tg cs d :
  hk k (SSwitch tg cs d) = hk_cases k cs || match d with Some b => hkl k b | None => false end.
Proof.
  cbn [hk]. f_equal.
  - induction cs as [|[vs b] cs IH]; [reflexivity|]. rewrite IH. cbn [hk_cases]. now rewrite hk_block.
  - destruct d; [|reflexivity]. now rewrite hk_block.
Qed.

Lemma hkl_app k a b : hkl k (a ++ b) = hkl k a || hkl k b.
Proof. induction a; simpl; [reflexivity|]. rewrite IHa. now rewrite orb_assoc. Qed.

Lemma is_kind_leaf k s : is_kind k s = true ->
  match s with SIf _ _ _ | SFor _ _ _ _ | SSwitch _ _ _ | SSubDef _ _ _ _ | SGateDef _ _ _ _ => False | _ => True end.
Proof. destruct k, s; simpl; intros; try discriminate; exact I. Qed.

(* ---------- remove_kind: nothing of the kind remains, at any depth ---------- *)
Lemma Forall_rkl (Q : stmt -> Prop) k l :
  Forall (fun s => hkl k (rk k s) = false) l -> hkl k (rkl k l) = false.
Proof.
  induction 1 as [|x l Hx _ IH]; simpl; [reflexivity|]. rewrite hkl_app, Hx, IH. reflexivity.
Qed.

Theorem rk_no_kind k s : hkl k (rk k s) = false.
Proof.
  induction s using stmt_ind'.
  - rewrite rk_if. cbn [hkl]. rewrite hk_if, !(Forall_rkl (fun _ => True)) by assumption. reflexivity.
  - rewrite rk_for. cbn [hkl]. rewrite hk_for, !(Forall_rkl (fun _ => True)) by assumption. reflexivity.
  - rewrite rk_switch. cbn [hkl]. rewrite hk_switch.
    assert (hk_cases k (rk_cases k cases) = false) as ->.
    { induction H as [|[vs b] cs Hb _ IH]; cbn [rk_cases hk_cases]; [reflexivity|].
      cbn [snd] in Hb. rewrite (Forall_rkl (fun _ => True)), IH by assumption. reflexivity. }
    destruct d as [b|]; [|reflexivity]. rewrite (Forall_rkl (fun _ => True)) by assumption. reflexivity.
  - rewrite rk_sub. cbn [hkl]. rewrite hk_sub, !(Forall_rkl (fun _ => True)) by assumption. reflexivity.
  - rewrite rk_gdef. cbn [hkl]. rewrite hk_gdef, !(Forall_rkl (fun _ => True)) by assumption. reflexivity.
  - destruct s; try contradiction; destruct k; reflexivity.
Qed.

Theorem remove_kind_no_kind k p : has_kind k (remove_kind k p) = false.
Proof.
  rewrite remove_kind_rkl, has_kind_hkl. apply (Forall_rkl (fun _ => True)).
  apply Forall_forall. intros s _. apply rk_no_kind.
Qed.

(* ---------- remove_kind: a program without the kind is returned unchanged ---------- *)
Lemma Forall_rkl_id k l :
  Forall (fun s => hk k s = false -> rk k s = [s]) l -> hkl k l = false -> rkl k l = l.
Proof.
  induction 1 as [|x l Hx _ IH]; simpl; [reflexivity|]. intros Hh. apply orb_false_iff in Hh as [H1 H2].
  rewrite Hx, IH; auto.
Qed.

Theorem rk_id k s : hk k s = false -> rk k s = [s].
Proof.
  induction s using stmt_ind'; intros Hh.
  - rewrite hk_if in Hh. apply orb_false_iff in Hh as [H1 H2]. rewrite rk_if, !Forall_rkl_id; auto.
  - rewrite hk_for in Hh. rewrite rk_for, Forall_rkl_id; auto.
  - rewrite hk_switch in Hh. apply orb_false_iff in Hh as [H1 H2]. rewrite rk_switch.
    assert (rk_cases k cases = cases) as ->.
    { clear H2. induction H as [|[vs b] cs Hb _ IH]; simpl in *; [reflexivity|].
      apply orb_false_iff in H1 as [Ha Hb']. rewrite Forall_rkl_id, IH; auto. }
    destruct d as [b|]; [|reflexivity]. rewrite Forall_rkl_id; auto.
  - rewrite hk_sub in Hh. rewrite rk_sub, Forall_rkl_id; auto.
  - rewrite hk_gdef in Hh. rewrite rk_gdef, Forall_rkl_id; auto.
  - destruct s; try contradiction; cbn [hk] in Hh; cbn [rk]; rewrite Hh; reflexivity.
Qed.

Theorem remove_kind_id k p : has_kind k p = false -> remove_kind k p = p.
Proof.
  rewrite remove_kind_rkl, has_kind_hkl. apply Forall_rkl_id.
  apply Forall_forall. intros s _. apply rk_id.
Qed.

Corollary remove_kind_idempotent k p : remove_kind k (remove_kind k p) = remove_kind k p.
Proof. apply remove_kind_id, remove_kind_no_kind. Qed.

(* ---------- remove_kind: "all and only" -- the leaf statements that remain are exactly the
   leaf statements of the program that are not of the kind, in the same order ---------- *)
Fixpoint leaves (s : stmt) : list stmt :=
  let ll := fix go (l : list stmt) : list stmt := match l with [] => [] | x :: l' => leaves x ++ go l' end in
  match s with
  | SIf _ t e => ll t ++ ll e
  | SFor _ _ _ body | SSubDef _ _ _ body | SGateDef _ _ _ body => ll body
  | SSwitch _ cases d =>
      (fix gc (cs : list (list expr * list stmt)) : list stmt :=
         match cs with [] => [] | (_, b) :: cs' => ll b ++ gc cs' end) cases
      ++ match d with Some b => ll b | None => [] end
  | _ => [s]
  end.
Fixpoint leavesl (l : list stmt) : list stmt :=
  match l with [] => [] | x :: l' => leaves x ++ leavesl l' end.
Fixpoint leaves_cases (cs : list (list expr * list stmt)) : list stmt :=
  match cs with [] => [] | (_, b) :: cs' => leavesl b ++ leaves_cases cs' end.

Lemma leaves_block (b : list stmt) :
  (fix go (l : list stmt) : list stmt := match l with [] => [] | x :: l' => leaves x ++ go l' end) b = leavesl b.
Proof. induction b; simpl; congruence. Qed.
Lemma leaves_cases_fix (cs : list (list expr * list stmt)) :
  (fix gc (cs : list (list expr * list stmt)) : list stmt :=
     match cs with
     | [] => []
     | (_, b) :: cs' =>
         (fix go (l : list stmt) : list stmt := match l with [] => [] | x :: l' => leaves x ++ go l' end) b ++ gc cs'
     end) cs = leaves_cases cs.
Proof. induction cs as [|[vs b] cs IH]; [reflexivity|]. rewrite IH. cbn [leaves_cases]. now rewrite leaves_block. Qed.
Lemma leaves_switch tg cs d :
  leaves (SSwitch tg cs d) = leaves_cases cs ++ match d with Some b => leavesl b | None => [] end.
Proof.
  cbn [leaves]. rewrite leaves_cases_fix. destruct d as [b|]; [|reflexivity]. now rewrite leaves_block.
Qed.
Lemma leaves_if c t e : leaves (SIf c t e) = leavesl t ++ leavesl e.
Proof. cbn [leaves]. now rewrite !leaves_block. Qed.

Lemma leavesl_app a b : leavesl (a ++ b) = leavesl a ++ leavesl b.
Proof. induction a; simpl; [reflexivity|]. now rewrite IHa, app_assoc. Qed.

Definition keep (k : kind) (s : stmt) : bool := negb (is_kind k s).

Lemma Forall_leaves k l :
  Forall (fun s => leavesl (rk k s) = filter (keep k) (leaves s)) l ->
  leavesl (rkl k l) = filter (keep k) (leavesl l).
Proof.
  induction 1 as [|x l Hx _ IH]; simpl; [reflexivity|]. now rewrite leavesl_app, filter_app, Hx, IH.
Qed.

Theorem rk_leaves k s : leavesl (rk k s) = filter (keep k) (leaves s).
Proof.
  induction s using stmt_ind'.
  - rewrite rk_if. cbn [leavesl]. rewrite app_nil_r, !leaves_if, filter_app, !Forall_leaves; auto.
  - rewrite rk_for. cbn [leavesl leaves]. rewrite app_nil_r, !leaves_block, Forall_leaves; auto.
  - rewrite rk_switch. cbn [leavesl]. rewrite app_nil_r, !leaves_switch, filter_app. f_equal.
    + induction H as [|[vs b] cs Hb _ IH]; simpl; [reflexivity|]. now rewrite filter_app, Forall_leaves, IH.
    + destruct d as [b|]; [|reflexivity]. apply Forall_leaves. exact H0.
  - rewrite rk_sub. cbn [leavesl leaves]. rewrite app_nil_r, !leaves_block, Forall_leaves; auto.
  - rewrite rk_gdef. cbn [leavesl leaves]. rewrite app_nil_r, !leaves_block, Forall_leaves; auto.
  - destruct s; try contradiction; unfold keep; simpl; destruct k; simpl; reflexivity.
Qed.

Theorem remove_kind_leaves k p :
  leavesl (remove_kind k p) = filter (keep k) (leavesl p).
Proof.
  rewrite remove_kind_rkl. apply Forall_leaves. apply Forall_forall. intros s _. apply rk_leaves.
Qed.

(* the block structure is kept: the conditionals, loops, switches and definitions of the result
   are those of the program, in order, with the same conditions/headers *)
Fixpoint headers (s : stmt) : list stmt :=
  let hl := fix go (l : list stmt) : list stmt := match l with [] => [] | x :: l' => headers x ++ go l' end in
  match s with
  | SIf c t e => SIf c [] [] :: hl t ++ hl e
  | SFor ty v set body => SFor ty v set [] :: hl body
  | SSubDef n a r body => SSubDef n a r [] :: hl body
  | SGateDef n p q body => SGateDef n p q [] :: hl body
  | SSwitch tg cases d =>
      SSwitch tg (map (fun c => (fst c, [])) cases) (match d with Some _ => Some [] | None => None end)
      :: (fix gc (cs : list (list expr * list stmt)) : list stmt :=
            match cs with [] => [] | (_, b) :: cs' => hl b ++ gc cs' end) cases
      ++ match d with Some b => hl b | None => [] end
  | _ => []
  end.
Fixpoint headersl (l : list stmt) : list stmt :=
  match l with [] => [] | x :: l' => headers x ++ headersl l' end.
Lemma headers_block (b : list stmt) :
  (fix go (l : list stmt) : list stmt := match l with [] => [] | x :: l' => headers x ++ go l' end) b = headersl b.
Proof. induction b; simpl; congruence. Qed.
Lemma headersl_app a b : headersl (a ++ b) = headersl a ++ headersl b.
Proof. induction a; simpl; [reflexivity|]. now rewrite IHa, app_assoc. Qed.

Lemma Forall_headers k l :
  Forall (fun s => headersl (rk k s) = headers s) l -> headersl (rkl k l) = headersl l.
Proof.
  induction 1 as [|x l Hx _ IH]; simpl; [reflexivity|]. now rewrite headersl_app, Hx, IH.
Qed.

Theorem rk_headers k s : headersl (rk k s) = headers s.
Proof.
  induction s using stmt_ind'.
  - rewrite rk_if. cbn [headersl headers]. rewrite app_nil_r, !headers_block, !Forall_headers; auto.
  - rewrite rk_for. cbn [headersl headers]. rewrite app_nil_r, !headers_block, Forall_headers; auto.
  - rewrite rk_switch. cbn [headersl headers]. rewrite app_nil_r. f_equal.
    + f_equal.
      * clear. induction cases as [|[vs b] cs IH]; simpl; [reflexivity|]. now rewrite IH.
      * destruct d; reflexivity.
    + f_equal.
      * induction H as [|[vs b] cs Hb _ IH]; simpl; [reflexivity|]. rewrite !headers_block, Forall_headers, IH; auto.
      * destruct d as [b|]; [|reflexivity]. rewrite !headers_block. apply Forall_headers. exact H0.
  - rewrite rk_sub. cbn [headersl headers]. rewrite app_nil_r, !headers_block, Forall_headers; auto.
  - rewrite rk_gdef. cbn [headersl headers]. rewrite app_nil_r, !headers_block, Forall_headers; auto.
  - destruct s; try contradiction; simpl; destruct k; simpl; reflexivity.
Qed.

Theorem remove_kind_headers k p : headersl (remove_kind k p) = headersl p.
Proof.
  rewrite remove_kind_rkl. apply Forall_headers. apply Forall_forall. intros s _. apply rk_headers.
Qed.

(* ====================================================================================== *)
(* Renaming of qubit operands                                                              *)
(* ====================================================================================== *)
Lemma qarg_bit_bit_qarg b : qarg_bit (bit_qarg b) = Some b.
Proof. destruct b; reflexivity. Qed.

Lemma bit_qarg_qarg_bit q b : qarg_bit q = Some b -> bit_qarg b = q.
Proof.
  unfold qarg_bit. intros H.
  repeat match type of H with
  | match ?x with _ => _ end = _ => destruct x; try discriminate
  end.
  inversion H; reflexivity.
Qed.

Lemma map_qarg_comp f g q : map_qarg f (map_qarg g q) = map_qarg (fun b => f (g b)) q.
Proof.
  unfold map_qarg. destruct (qarg_bit q) as [b|] eqn:E.
  - now rewrite qarg_bit_bit_qarg.
  - now rewrite E.
Qed.

Lemma map_qarg_ext f g q : (forall b, f b = g b) -> map_qarg f q = map_qarg g q.
Proof. intros H. unfold map_qarg. destruct (qarg_bit q); [now rewrite H|reflexivity]. Qed.

Lemma map_qarg_id f q : (forall b, f b = b) -> map_qarg f q = q.
Proof.
  intros H. unfold map_qarg. destruct (qarg_bit q) as [b|] eqn:E; [|reflexivity].
  rewrite H. now apply bit_qarg_qarg_bit.
Qed.

Fixpoint mql (f : bitref -> bitref) (l : list stmt) : list stmt :=
  match l with [] => [] | x :: l' => map_qubits f x :: mql f l' end.
Lemma mq_block f (b : list stmt) :
  (fix go (l : list stmt) : list stmt := match l with [] => [] | x :: l' => map_qubits f x :: go l' end) b = mql f b.
Proof. induction b; simpl; congruence. Qed.
Lemma mq_if f c t e : map_qubits f (SIf c t e) = SIf c (mql f t) (mql f e).
Proof. cbn [map_qubits]. now rewrite !mq_block. Qed.
Lemma mql_map f l : mql f l = map (map_qubits f) l.
Proof. induction l; simpl; congruence. Qed.

Lemma Forall_mql (R : stmt -> stmt -> Prop) f g h l :
  Forall (fun s => map_qubits f (map_qubits g s) = map_qubits h s) l -> mql f (mql g l) = mql h l.
Proof. induction 1 as [|x l Hx _ IH]; simpl; [reflexivity|]. now rewrite Hx, IH. Qed.

Theorem map_qubits_comp f g s : map_qubits f (map_qubits g s) = map_qubits (fun b => f (g b)) s.
Proof.
  induction s using stmt_ind'; try reflexivity.
  - rewrite !mq_if. f_equal; apply (Forall_mql (fun _ _ => True)); assumption.
  - destruct s; try contradiction; try reflexivity; cbn [map_qubits].
    + f_equal. rewrite map_map. apply map_ext. intros; apply map_qarg_comp.
    + f_equal. rewrite map_map. apply map_ext. intros; apply map_qarg_comp.
    + f_equal. apply map_qarg_comp.
    + f_equal. apply map_qarg_comp.
    + f_equal. rewrite map_map. apply map_ext. intros; apply map_qarg_comp.
Qed.

Lemma Forall_mql_ext f g l :
  Forall (fun s => map_qubits f s = map_qubits g s) l -> mql f l = mql g l.
Proof. induction 1 as [|x l Hx _ IH]; simpl; [reflexivity|]. now rewrite Hx, IH. Qed.

Theorem map_qubits_ext f g s : (forall b, f b = g b) -> map_qubits f s = map_qubits g s.
Proof.
  intros H. induction s using stmt_ind'; try reflexivity.
  - rewrite !mq_if. f_equal; apply Forall_mql_ext; assumption.
  - destruct s; try contradiction; try reflexivity; cbn [map_qubits]; f_equal;
      try (apply map_ext; intros); now apply map_qarg_ext.
Qed.

Lemma Forall_mql_id f l : Forall (fun s => map_qubits f s = s) l -> mql f l = l.
Proof. induction 1 as [|x l Hx _ IH]; simpl; [reflexivity|]. now rewrite Hx, IH. Qed.

Theorem map_qubits_id f s : (forall b, f b = b) -> map_qubits f s = s.
Proof.
  intros H. induction s using stmt_ind'; try reflexivity.
  - rewrite mq_if. f_equal; apply Forall_mql_id; assumption.
  - destruct s; try contradiction; try reflexivity; cbn [map_qubits]; f_equal;
      try (rewrite <- (map_id qubits) at 2 || rewrite <- (map_id qs) at 2; apply map_ext; intros); now apply map_qarg_id.
Qed.

(* the qubits an operation touches are renamed pointwise *)
Lemma opt_list_map_qarg f qs :
  opt_list (map qarg_bit (map (map_qarg f) qs)) = map f (opt_list (map qarg_bit qs)).
Proof.
  induction qs as [|q qs IH]; simpl; [reflexivity|].
  unfold map_qarg at 1. destruct (qarg_bit q) as [b|] eqn:E.
  - rewrite qarg_bit_bit_qarg. simpl. now rewrite IH.
  - rewrite E. exact IH.
Qed.

Fixpoint sql (l : list stmt) : list bitref :=
  match l with [] => [] | x :: l' => stmt_qubits x ++ sql l' end.
Lemma sq_block (b : list stmt) :
  (fix go (l : list stmt) : list bitref := match l with [] => [] | x :: l' => stmt_qubits x ++ go l' end) b = sql b.
Proof. induction b; simpl; congruence. Qed.
Lemma sq_if c t e : stmt_qubits (SIf c t e) = sql t ++ sql e.
Proof. cbn [stmt_qubits]. now rewrite !sq_block. Qed.
Lemma used_sql p : used_qubits p = sql p.
Proof. induction p; simpl; congruence. Qed.

Lemma Forall_sql f l :
  Forall (fun s => stmt_qubits (map_qubits f s) = map f (stmt_qubits s)) l -> sql (mql f l) = map f (sql l).
Proof. induction 1 as [|x l Hx _ IH]; simpl; [reflexivity|]. now rewrite map_app, Hx, IH. Qed.

Theorem stmt_qubits_map f s : stmt_qubits (map_qubits f s) = map f (stmt_qubits s).
Proof.
  induction s using stmt_ind'; try reflexivity.
  - rewrite mq_if, !sq_if, map_app. f_equal; apply Forall_sql; assumption.
  - destruct s; try contradiction; try reflexivity; cbn [map_qubits stmt_qubits].
    + apply opt_list_map_qarg.
    + apply (opt_list_map_qarg f [q]).
    + apply (opt_list_map_qarg f [q]).
    + apply opt_list_map_qarg.
Qed.

Theorem used_qubits_map f p : used_qubits (map (map_qubits f) p) = map f (used_qubits p).
Proof.
  rewrite !used_sql, <- mql_map. apply Forall_sql. apply Forall_forall. intros s _. apply stmt_qubits_map.
Qed.

(* declarations are not operands: register tables are unchanged by any renaming *)
Ltac destruct_matches :=
  repeat match goal with
         | |- context [match ?x with _ => _ end] => is_var x; destruct x
         end.

Lemma qregs_of_map f p : qregs_of (map (map_qubits f) p) = qregs_of p.
Proof.
  induction p as [|s p IH]; [reflexivity|].
  destruct s; cbn [map map_qubits qregs_of]; try exact IH.
  destruct_matches; rewrite ?IH; reflexivity.
Qed.
Lemma cregs_of_map f p : cregs_of (map (map_qubits f) p) = cregs_of p.
Proof.
  induction p as [|s p IH]; [reflexivity|].
  destruct s; cbn [map map_qubits cregs_of]; try exact IH.
  destruct_matches; rewrite ?IH; reflexivity.
Qed.

(* everything but the qubit indices: what a renaming that keeps register names cannot change *)
Definition erase_idx (s : stmt) : stmt := map_qubits (fun b => (fst b, 0)) s.

Theorem renaming_frame f s : (forall b, fst (f b) = fst b) -> erase_idx (map_qubits f s) = erase_idx s.
Proof.
  intros H. unfold erase_idx. rewrite map_qubits_comp. apply map_qubits_ext. intros b. now rewrite H.
Qed.

(* ====================================================================================== *)
(* reverse_qubit_order                                                                     *)
(* ====================================================================================== *)
Lemma rev_bit_fst regs b : fst (rev_bit regs b) = fst b.
Proof. unfold rev_bit. destruct (sget (fst b) regs); reflexivity. Qed.

Lemma rev_bit_involutive regs b : rev_bit regs (rev_bit regs b) = b.
Proof.
  unfold rev_bit. destruct (sget (fst b) regs) as [n|] eqn:E; simpl.
  - rewrite E. simpl. destruct b as [x i]; simpl. f_equal. lia.
  - now rewrite E.
Qed.

Theorem reverse_involutive p : reverse_qubits (reverse_qubits p) = p.
Proof.
  unfold reverse_qubits. rewrite qregs_of_map, map_map.
  transitivity (map (fun s => s) p); [|apply map_id]. apply map_ext. intros s.
  rewrite map_qubits_comp. apply map_qubits_id. apply rev_bit_involutive.
Qed.

Theorem reverse_declarations p :
  qregs_of (reverse_qubits p) = qregs_of p /\ cregs_of (reverse_qubits p) = cregs_of p /\
  List.length (reverse_qubits p) = List.length p.
Proof. unfold reverse_qubits. rewrite qregs_of_map, cregs_of_map, map_length. auto. Qed.

Theorem reverse_frame p : map erase_idx (reverse_qubits p) = map erase_idx p.
Proof.
  unfold reverse_qubits. rewrite map_map. apply map_ext. intros s. apply renaming_frame, rev_bit_fst.
Qed.

(* every operation acts on index size-1-i of the same register wherever it acted on index i *)
Theorem reverse_operands p :
  used_qubits (reverse_qubits p) = map (rev_bit (qregs_of p)) (used_qubits p).
Proof. apply used_qubits_map. Qed.

Theorem reverse_statement_operands p n s :
  nth_error p n = Some s ->
  exists s', nth_error (reverse_qubits p) n = Some s' /\
             stmt_qubits s' = map (rev_bit (qregs_of p)) (stmt_qubits s).
Proof.
  intros H. unfold reverse_qubits. exists (map_qubits (rev_bit (qregs_of p)) s). split.
  - now apply map_nth_error.
  - apply stmt_qubits_map.
Qed.

Lemma rev_bit_spec regs x i n : sget x regs = Some n -> rev_bit regs (x, i) = (x, n - 1 - i).
Proof. intros H. unfold rev_bit. simpl. now rewrite H. Qed.

(* ====================================================================================== *)
(* populate_idle_qubits                                                                    *)
(* ====================================================================================== *)
Definition populate (p : list stmt) : list stmt := p ++ map id_gate (idle_qubits p).

Lemma used_app p q : used_qubits (p ++ q) = used_qubits p ++ used_qubits q.
Proof. induction p; simpl; [reflexivity|]. now rewrite IHp, app_assoc. Qed.

Lemma used_id_gates l : used_qubits (map id_gate l) = l.
Proof.
  induction l as [|b l IH]; [reflexivity|]. cbn [map used_qubits]. rewrite IH.
  unfold id_gate. cbn [stmt_qubits map opt_list]. now rewrite qarg_bit_bit_qarg.
Qed.

Lemma qregs_app_ids p l : qregs_of (p ++ map id_gate l) = qregs_of p.
Proof.
  induction p as [|s p IH]; cbn [app qregs_of].
  - induction l; simpl; auto.
  - destruct s; try exact IH. destruct_matches; rewrite ?IH; reflexivity.
Qed.

Lemma bmem_In b l : bmem b l = true <-> In b l.
Proof.
  unfold bmem. rewrite existsb_exists. split.
  - intros [x [Hx He]]. unfold bitref_eqb in He. apply andb_true_iff in He as [H1 H2].
    apply String.eqb_eq in H1. apply Z.eqb_eq in H2. destruct b, x; simpl in *; subst; auto.
  - intros H. exists b. split; auto. unfold bitref_eqb. now rewrite String.eqb_refl, Z.eqb_refl.
Qed.

(* afterwards no qubit is idle *)
Theorem populate_no_idle p : idle_qubits (populate p) = [].
Proof.
  unfold populate, idle_qubits at 1. rewrite qregs_app_ids, used_app, used_id_gates.
  set (A := all_qubits (qregs_of p)). 
  assert (forall b, In b A -> negb (bmem b (used_qubits p ++ idle_qubits p)) = false) as H.
  { intros b Hb. apply negb_false_iff. apply bmem_In. apply in_or_app.
    destruct (bmem b (used_qubits p)) eqn:E.
    - left. now apply bmem_In.
    - right. unfold idle_qubits. apply filter_In. split; auto. fold A. now rewrite E. }
  clearbody A. induction A as [|a A IH]; simpl; [reflexivity|].
  rewrite H by (now left). apply IH. intros b Hb. apply H. now right.
Qed.

(* calling it again adds nothing *)
Theorem populate_idempotent p : populate (populate p) = populate p.
Proof. unfold populate at 1. now rewrite populate_no_idle, app_nil_r. Qed.

(* exactly one id gate per idle qubit is appended, and nothing else changes *)
Theorem populate_appends p :
  exists ids, populate p = p ++ ids /\ ids = map id_gate (idle_qubits p) /\
              List.length ids = List.length (idle_qubits p) /\ firstn (List.length p) (populate p) = p.
Proof.
  exists (map id_gate (idle_qubits p)). unfold populate. repeat split.
  - apply map_length.
  - rewrite firstn_app, Nat.sub_diag, firstn_all. simpl. apply app_nil_r.
Qed.

Theorem populate_idle_exact p b :
  In b (idle_qubits p) <-> In b (all_qubits (qregs_of p)) /\ ~ In b (used_qubits p).
Proof.
  unfold idle_qubits. rewrite filter_In. split; intros [H1 H2]; split; auto.
  - intros Hu. apply bmem_In in Hu. now rewrite Hu in H2.
  - apply negb_true_iff. destruct (bmem b (used_qubits p)) eqn:E; auto. apply bmem_In in E. tauto.
Qed.

Theorem populate_declarations p : qregs_of (populate p) = qregs_of p.
Proof. apply qregs_app_ids. Qed.

(* ====================================================================================== *)
(* remove_idle_qubits                                                                      *)
(* ====================================================================================== *)
Section Rank.
Variable used : list bitref.
Variable r : string.

Definition isused (j : Z) : bool := bmem (r, j) used.
Definition cnt (n : nat) : nat := List.length (filter isused (map Z.of_nat (seq 0 n))).

Lemma rank_cnt i : rank used r i = Z.of_nat (cnt (Z.to_nat i)).
Proof. reflexivity. Qed.

Lemma cnt_S n : cnt (S n) = (cnt n + if isused (Z.of_nat n) then 1 else 0)%nat.
Proof.
  unfold cnt. rewrite seq_S, map_app, filter_app, app_length. simpl.
  destruct (isused (Z.of_nat n)); reflexivity.
Qed.

Lemma cnt_mono n m : (n <= m)%nat -> (cnt n <= cnt m)%nat.
Proof. induction 1 as [|m _ IH]; [lia|]. rewrite cnt_S. lia. Qed.

Lemma cnt_strict n m : (n < m)%nat -> isused (Z.of_nat n) = true -> (cnt n < cnt m)%nat.
Proof.
  intros Hlt Hu. assert (cnt (S n) <= cnt m)%nat by (apply cnt_mono; lia).
  rewrite cnt_S, Hu in H. lia.
Qed.

Lemma cnt_le n : (cnt n <= n)%nat.
Proof. induction n as [|n IH]; [reflexivity|]. rewrite cnt_S. destruct (isused _); lia. Qed.

Lemma cnt_onto n : forall k, (k < cnt n)%nat ->
  exists i, (i < n)%nat /\ isused (Z.of_nat i) = true /\ cnt i = k.
Proof.
  induction n as [|n IH]; intros k Hk.
  - unfold cnt in Hk; simpl in Hk; lia.
  - rewrite cnt_S in Hk. destruct (Nat.lt_ge_cases k (cnt n)) as [Hlt|Hge].
    + destruct (IH k Hlt) as (i & Hi & Hu & Hc). exists i. repeat split; auto; lia.
    + destruct (isused (Z.of_nat n)) eqn:E; [|lia]. exists n. repeat split; auto; lia.
Qed.

(* survivors are renumbered consecutively in their original order *)
Theorem rank_strict i j : 0 <= i < j -> isused i = true -> rank used r i < rank used r j.
Proof.
  intros Hij Hu. rewrite !rank_cnt. apply inj_lt. apply cnt_strict; [lia|]. now rewrite Z2Nat.id by lia.
Qed.

Theorem rank_mono i j : i <= j -> rank used r i <= rank used r j.
Proof. intros Hij. rewrite !rank_cnt. apply inj_le. apply cnt_mono. lia. Qed.

Theorem rank_injective i j : 0 <= i -> 0 <= j -> isused i = true -> isused j = true ->
  rank used r i = rank used r j -> i = j.
Proof.
  intros Hi Hj Hui Huj He. destruct (Z.lt_trichotomy i j) as [H|[H|H]]; auto.
  - pose proof (rank_strict i j ltac:(lia) Hui). lia.
  - pose proof (rank_strict j i ltac:(lia) Huj). lia.
Qed.

Theorem rank_in_range i n : 0 <= i < n -> isused i = true -> 0 <= rank used r i < rank used r n.
Proof.
  intros Hin Hu. split; [rewrite rank_cnt; lia|]. apply rank_strict; auto.
Qed.

Theorem rank_onto n k : 0 <= k < rank used r n ->
  exists i, 0 <= i < n /\ isused i = true /\ rank used r i = k.
Proof.
  intros Hk. rewrite rank_cnt in Hk.
  destruct (cnt_onto (Z.to_nat n) (Z.to_nat k) ltac:(lia)) as (i & Hi & Hu & Hc).
  exists (Z.of_nat i). repeat split; try lia; auto.
  rewrite rank_cnt, Nat2Z.id, Hc. lia.
Qed.

Lemma rank_le n : 0 <= n -> rank used r n <= n.
Proof. intros. rewrite rank_cnt. pose proof (cnt_le (Z.to_nat n)). lia. Qed.
End Rank.

(* ---------- shape of the result ---------- *)
Definition is_qdecl (s : stmt) : bool := match s with SQubitDecl _ _ => true | _ => false end.

Fixpoint decls_literal (p : list stmt) : bool :=
  match p with
  | [] => true
  | SQubitDecl _ (Some (ELit (VInt _))) :: p' | SQubitDecl _ None :: p' => decls_literal p'
  | SQubitDecl _ _ :: _ => false
  | _ :: p' => decls_literal p'
  end.

Definition shrink_reg (used : list bitref) (rg : string * Z) : list (string * Z) :=
  let k := rank used (fst rg) (snd rg) in if k =? 0 then [] else [(fst rg, k)].

Lemma qregs_shrink used p : decls_literal p = true ->
  qregs_of (shrink_decls used p) = flat_map (shrink_reg used) (qregs_of p).
Proof.
  induction p as [|s p IH]; [reflexivity|]. intros Hd.
  destruct s; cbn [shrink_decls decls_literal qregs_of] in *; auto.
  destruct size as [e|].
  - destruct e; try discriminate. destruct v; try discriminate.
    cbn [flat_map shrink_reg fst snd]. unfold shrink_reg; cbn [fst snd].
    destruct (rank used name z =? 0); cbn [qregs_of app]; rewrite IH; auto.
  - cbn [flat_map]. unfold shrink_reg; cbn [fst snd].
    destruct (rank used name 1 =? 0); cbn [qregs_of app]; rewrite IH; auto.
Qed.

Lemma used_shrink used p : used_qubits (shrink_decls used p) = used_qubits p.
Proof.
  induction p as [|s p IH]; [reflexivity|].
  destruct s; cbn [shrink_decls used_qubits]; try (now rewrite IH).
  destruct (rank used name _ =? 0); cbn [used_qubits stmt_qubits app]; exact IH.
Qed.

Lemma cregs_shrink used p : cregs_of (shrink_decls used p) = cregs_of p.
Proof.
  induction p as [|s p IH]; [reflexivity|].
  destruct s; cbn [shrink_decls cregs_of]; try exact IH.
  - destruct (rank used name _ =? 0); cbn [cregs_of]; exact IH.
  - destruct_matches; rewrite ?IH; reflexivity.
Qed.

Lemma others_shrink used p :
  filter (fun s => negb (is_qdecl s)) (shrink_decls used p) = filter (fun s => negb (is_qdecl s)) p.
Proof.
  induction p as [|s p IH]; [reflexivity|].
  destruct s; cbn [shrink_decls filter is_qdecl negb]; try (now rewrite IH).
  destruct (rank used name _ =? 0); cbn [filter is_qdecl negb]; exact IH.
Qed.

Lemma is_qdecl_map f s : is_qdecl (map_qubits f s) = is_qdecl s.
Proof. destruct s; reflexivity. Qed.

Lemma idle_rename_fst used b : fst (idle_rename used b) = fst b.
Proof. reflexivity. Qed.

(* classical registers, the order and kind of the operations and everything about them except
   the qubit indices are unchanged; only qubit declarations are rewritten or dropped *)
Theorem remove_idle_frame p :
  cregs_of (remove_idle p) = cregs_of p /\
  map erase_idx (filter (fun s => negb (is_qdecl s)) (remove_idle p))
  = map erase_idx (filter (fun s => negb (is_qdecl s)) p).
Proof.
  unfold remove_idle. split.
  - now rewrite cregs_of_map, cregs_shrink.
  - set (u := used_qubits p). rewrite <- (others_shrink u p).
    generalize (shrink_decls u p). intros l. induction l as [|s l IH]; [reflexivity|].
    cbn [map filter]. rewrite is_qdecl_map. destruct (negb (is_qdecl s)); cbn [map]; rewrite IH; [|reflexivity].
    f_equal. apply renaming_frame. intros; apply idle_rename_fst.
Qed.

(* every operation refers to the renumbered qubit it referred to before *)
Theorem remove_idle_operands p :
  used_qubits (remove_idle p) = map (idle_rename (used_qubits p)) (used_qubits p).
Proof. unfold remove_idle. now rewrite used_qubits_map, used_shrink. Qed.

Theorem remove_idle_registers p : decls_literal p = true ->
  qregs_of (remove_idle p) = flat_map (shrink_reg (used_qubits p)) (qregs_of p).
Proof. intros H. unfold remove_idle. now rewrite qregs_of_map, qregs_shrink. Qed.

(* ---------- well-formed flat programs ---------- *)
Definition in_regs (regs : list (string * Z)) (b : bitref) : Prop :=
  exists n, In (fst b, n) regs /\ 0 <= snd b < n.

Lemma in_all_qubits regs b : In b (all_qubits regs) <-> in_regs regs b.
Proof.
  unfold all_qubits, in_regs. rewrite in_flat_map. split.
  - intros ([x n] & Hin & Hb). cbn [fst snd] in Hb. apply in_map_iff in Hb as (i & <- & Hi). cbn [fst snd].
    unfold range_z in Hi. apply in_map_iff in Hi as (k & <- & Hk). apply in_seq in Hk.
    exists n. split; auto. lia.
  - intros (n & Hin & Hr). exists (fst b, n). split; auto. cbn [fst snd]. apply in_map_iff. exists (snd b).
    split; [destruct b; reflexivity|]. unfold range_z. apply in_map_iff. exists (Z.to_nat (snd b)).
    split; [lia|]. apply in_seq. lia.
Qed.

(* every qubit that some operation touches is kept (at its renumbered position, inside its
   shrunk register) *)
Theorem remove_idle_keeps_used p b : decls_literal p = true ->
  In b (used_qubits p) -> in_regs (qregs_of p) b ->
  in_regs (qregs_of (remove_idle p)) (idle_rename (used_qubits p) b).
Proof.
  intros Hd Hu (n & Hin & Hr). rewrite remove_idle_registers by assumption.
  set (u := used_qubits p) in *. destruct b as [x i]. simpl in *.
  assert (Hus : isused u x i = true) by (apply bmem_In; exact Hu).
  pose proof (rank_in_range u x i n Hr Hus) as Hrk.
  exists (rank u x n). split; [|exact Hrk].
  apply in_flat_map. exists (x, n). split; auto. unfold shrink_reg; simpl.
  destruct (rank u x n =? 0) eqn:E; [apply Z.eqb_eq in E; lia|now left].
Qed.

(* every qubit that no operation touches is gone: each qubit the result declares is used *)
Theorem remove_idle_no_idle p : decls_literal p = true -> idle_qubits (remove_idle p) = [].
Proof.
  intros Hd. unfold idle_qubits. 
  assert (H : forall b, In b (all_qubits (qregs_of (remove_idle p))) -> bmem b (used_qubits (remove_idle p)) = true).
  { intros [x k] Hb. apply in_all_qubits in Hb as (K & Hin & Hk). simpl in *.
    rewrite remove_idle_registers in Hin by assumption. apply in_flat_map in Hin as ([y n] & Hy & Hs).
    unfold shrink_reg in Hs; simpl in Hs. destruct (rank (used_qubits p) y n =? 0); [destruct Hs|].
    destruct Hs as [Hs|[]]. inversion Hs; subst y K; clear Hs.
    destruct (rank_onto (used_qubits p) x n k Hk) as (i & Hi & Hu & Hrk).
    apply bmem_In. rewrite remove_idle_operands. apply in_map_iff. exists (x, i). split.
    - unfold idle_rename; simpl. now rewrite Hrk.
    - now apply bmem_In. }
  induction (all_qubits (qregs_of (remove_idle p))) as [|a A IH]; [reflexivity|].
  cbn [filter]. rewrite H by (now left). cbn [negb]. apply IH. intros b Hb. apply H. now right.
Qed.

Corollary remove_idle_then_populate p : decls_literal p = true -> populate (remove_idle p) = remove_idle p.
Proof. intros H. unfold populate. now rewrite remove_idle_no_idle, app_nil_r. Qed.

(* distinct used qubits stay distinct: the renumbering is injective on the used qubits *)
Theorem remove_idle_injective p a b :
  In a (used_qubits p) -> In b (used_qubits p) -> 0 <= snd a -> 0 <= snd b ->
  idle_rename (used_qubits p) a = idle_rename (used_qubits p) b -> a = b.
Proof.
  intros Ha Hb Pa Pb He. destruct a as [x i], b as [y j]. unfold idle_rename in He; simpl in *.
  inversion He; subst y. f_equal.
  apply (rank_injective (used_qubits p) x i j); auto; apply bmem_In; assumption.
Qed.

(* and order-preserving within a register *)
Theorem remove_idle_order p x i j :
  In (x, i) (used_qubits p) -> 0 <= i < j ->
  snd (idle_rename (used_qubits p) (x, i)) < snd (idle_rename (used_qubits p) (x, j)).
Proof. intros Hu Hij. simpl. apply rank_strict; auto. now apply bmem_In. Qed.

(* the new total number of qubits is the number of declared qubits that are used *)
Lemma rank_as_filter used x n :
  rank used x n = Z.of_nat (List.length (filter (fun b => bmem b used) (map (fun i => (x, i)) (range_z n)))).
Proof.
  unfold rank. f_equal. generalize (range_z n). intros l. induction l as [|a l IH]; [reflexivity|].
  cbn [map filter]. destruct (bmem (x, a) used); cbn [List.length]; now rewrite IH.
Qed.

Lemma total_size_app a b : total_size (a ++ b) = total_size a + total_size b.
Proof. unfold total_size. induction a as [|y a IHa]; cbn [app fold_right]; [lia|]. rewrite IHa. lia. Qed.

Lemma shrunk_total used regs :
  total_size (flat_map (shrink_reg used) regs)
  = Z.of_nat (List.length (filter (fun b => bmem b used) (all_qubits regs))).
Proof.
  unfold all_qubits. induction regs as [|[x n] regs IH]; [reflexivity|].
  change (flat_map (shrink_reg used) ((x, n) :: regs)) with (shrink_reg used (x, n) ++ flat_map (shrink_reg used) regs).
  change (flat_map (fun r : string * Z => map (fun i : Z => (fst r, i)) (range_z (snd r))) ((x, n) :: regs))
    with (map (fun i : Z => (x, i)) (range_z n) ++ flat_map (fun r : string * Z => map (fun i : Z => (fst r, i)) (range_z (snd r))) regs).
  rewrite total_size_app, filter_app, app_length, Nat2Z.inj_add, IH, <- rank_as_filter. f_equal.
  unfold shrink_reg; cbn [fst snd].
  destruct (rank used x n =? 0) eqn:E.
  - apply Z.eqb_eq in E. rewrite E. reflexivity.
  - unfold total_size; cbn [fold_right snd]. lia.
Qed.

Theorem remove_idle_num_qubits p : decls_literal p = true ->
  total_size (qregs_of (remove_idle p))
  = Z.of_nat (List.length (filter (fun b => bmem b (used_qubits p)) (all_qubits (qregs_of p)))).
Proof. intros Hd. rewrite remove_idle_registers by assumption. apply shrunk_total. Qed.
