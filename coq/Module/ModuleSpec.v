(* The abstract machine of the module API (DESIGN appendix B).  State of a module: its current
   program P (source-level or flat) and whether an unrolled view has been produced.  Every
   observable is a function of that state; unrolling goes through the visitor model (Unroll.v). *)
From Coq Require Import ZArith List Bool String.
From Verif Require Import BGate PyVal Ast State Unroll Corr Spec Transforms Qasm2.
Import ListNotations.
Open Scope list_scope.
Open Scope Z_scope.

Record mspec := mkMS { sp_prog : list stmt; sp_unrolled : bool; sp_q2 : bool }.

Inductive mop :=
| OValidate | OUnroll | ODepth | ONumQ | ONumC | OHasM | OHasB | ODumps
| ORemove (k : kind) (in_place : bool)
| OPopulate (in_place : bool)
| ORemoveIdle (in_place : bool)
| OReverse (in_place : bool)
| OCopy
| OToQasm3.           (* Qasm2Module.to_qasm3(): a new version-3 module *)

Inductive mout :=
| OutUnit
| OutErr (e : err)
| OutZ (z : Z)
| OutB (b : bool)
| OutProg (p : list stmt)
| OutNew
| OutAnyB.   (* either answer is accepted: the property text does not decide (see has_answer) *)

Definition flat (m : mspec) : res (list stmt) :=
  match unroll_v (sp_q2 m) [] (sp_prog m) with Ok o => Ok (o_stmts o) | Err e => Err e end.

Definition cur (m : mspec) : res (list stmt) := if sp_unrolled m then flat m else Ok (sp_prog m).

Definition with_prog (m : mspec) (p : list stmt) (u : bool) : mspec := mkMS p u (sp_q2 m).

(* the state transformation of a transforming call, or None for queries *)
Definition effect (m : mspec) (o : mop) : option (res mspec) :=
  match o with
  | ORemove k _ =>
      Some (match cur m with
            | Ok c => let p' := remove_kind k c in
                      (* envelope: removal that empties the if-block of a conditional yields a program
                         pyqasm itself refuses to visit again ("Missing if block"); the machine is silent *)
                      if has_empty_if p' && negb (has_empty_if c) then Err (EUnmodelled "removal empties an if block")
                      else Ok (with_prog m p' (sp_unrolled m))
            | Err e => Err e
            end)
  | OPopulate _ =>
      Some (match validate_v (sp_q2 m) (sp_prog m), flat m, cur m with
            | Ok _, Ok f, Ok c => Ok (with_prog m (c ++ map id_gate (idle_qubits f)) (sp_unrolled m))
            | Err e, _, _ | _, Err e, _ | _, _, Err e => Err e
            end)
  | ORemoveIdle _ => Some (match flat m with Ok f => Ok (with_prog m (remove_idle f) true) | Err e => Err e end)
  | OReverse _ => Some (match flat m with Ok f => Ok (with_prog m (reverse_qubits f) true) | Err e => Err e end)
  | OCopy => Some (Ok m)
  | OToQasm3 =>
      (* the module's current program with the include rewritten, as a fresh version-3 module;
         a version-3 module has no such method *)
      Some (if sp_q2 m then Ok (mkMS (to_qasm3 (sp_prog m)) false false) else Err (EInternal KAttr))
  | _ => None
  end.

Definition in_place_of (o : mop) : bool :=
  match o with
  | ORemove _ b | OPopulate b | ORemoveIdle b | OReverse b => b
  | OCopy | OToQasm3 => false
  | _ => true
  end.

(* "does the current program contain a statement of kind k": when the current program is still
   source-level, `contains' can be read on the text (any nesting level) or on the inlined circuit;
   the two differ only for statements in code that never runs (zero-iteration loops, untaken
   compile-time branches, uncalled subroutines).  The machine answers only when they coincide -- and
   always once the module has an unrolled view, because the flat program is then the current one. *)
Definition has_answer (k : kind) (m : mspec) (f : list stmt) : mout :=
  if sp_unrolled m then OutB (has_kind k f)          (* an unrolled view exists: the flat program is the current one *)
  else if Bool.eqb (has_kind k f) (has_kind k (sp_prog m)) then OutB (has_kind k f) else OutAnyB.

Definition query (m : mspec) (o : mop) : mspec * mout :=
  match o with
  | OValidate => (m, match validate_v (sp_q2 m) (sp_prog m) with Ok _ => OutUnit | Err e => OutErr e end)
  | OUnroll => match flat m with
               | Ok _ => (mkMS (sp_prog m) true (sp_q2 m), OutUnit)
               | Err e => (m, OutErr e)
               end
  | ODepth => (m, match unroll_v (sp_q2 m) [] (sp_prog m) with Ok o => OutZ (max_depth (o_state o)) | Err e => OutErr e end)
  | ONumQ => (m, match validate_v (sp_q2 m) (sp_prog m) with Ok o => OutZ (num_qubits (o_state o)) | Err e => OutErr e end)
  | ONumC => (m, match validate_v (sp_q2 m) (sp_prog m) with Ok o => OutZ (num_clbits (o_state o)) | Err e => OutErr e end)
  (* on a program that is rejected the flags are not specified (they never raise) *)
  | OHasM => (m, match flat m with Ok f => has_answer KMeas m f | Err _ => OutAnyB end)
  | OHasB => (m, match flat m with Ok f => has_answer KBarr m f | Err _ => OutAnyB end)
  (* the printed program is compared after re-loading and unrolling it: a module with an unrolled
     view prints its flat program, whose re-loading unrolls it once more (the same program
     whenever unroll is a fixpoint, C03); otherwise the source-level program is printed *)
  | ODumps => (m, match flat m with
                  | Ok f => if sp_unrolled m
                            then match flat (with_prog m f true) with Ok f2 => OutProg f2 | Err e => OutErr e end
                            else OutProg f
                  | Err e => OutErr e
                  end)
  | _ => (m, OutUnit)
  end.

Definition world := list mspec.

Fixpoint set_nth {A} (n : nat) (x : A) (l : list A) : list A :=
  match n, l with
  | _, [] => []
  | O, _ :: l' => x :: l'
  | S n', y :: l' => y :: set_nth n' x l'
  end.

(* one call on module number i of the world *)
Definition step (w : world) (i : nat) (o : mop) : world * mout :=
  match nth_error w i with
  | None => (w, OutErr (EUnmodelled "no such module"))
  | Some m =>
      match effect m o with
      | None => let '(m', out) := query m o in (set_nth i m' w, out)
      | Some (Err e) => (w, OutErr e)
      | Some (Ok m') =>
          if in_place_of o then (set_nth i m' w, OutUnit) else (w ++ [m'], OutNew)
      end
  end.

Fixpoint run (w : world) (h : list (nat * mop)) : world * list mout :=
  match h with
  | [] => (w, [])
  | (i, o) :: h' =>
      let '(w1, out) := step w i o in
      let '(w2, outs) := run w1 h' in
      (w2, out :: outs)
  end.

(* ---------- correspondence with the implementation ---------- *)
Inductive xout :=
| XUnit | XErrV | XErrI | XZ (z : Z) | XB (b : bool) | XProg (p : list stmt) | XNew | XSkip.

Definition out_agrees (a : mout) (x : xout) : bool :=
  match a, x with
  | _, XSkip => true
  | OutUnit, XUnit => true
  | OutErr EValidation, XErrV => true
  | OutErr (EInternal _), XErrI => true
  | OutZ a, XZ b => Z.eqb a b
  | OutB a, XB b => Bool.eqb a b
  | OutProg p, XProg q => flat_equiv_list p q
  | OutNew, XNew => true
  | OutAnyB, XB _ => true
  | _, _ => false
  end.

Definition unmodelled_out (a : mout) : bool :=
  match a with OutErr (EUnmodelled _) | OutErr EFuel => true | _ => false end.

(* 0: every output agrees | k+1: first disagreement at call k | 999: the machine is silent (unmodelled) *)
Fixpoint first_diff (k : nat) (outs : list mout) (xs : list xout) : nat :=
  match outs, xs with
  | [], [] => 0
  | a :: outs', x :: xs' =>
      if unmodelled_out a then 999
      else if out_agrees a x then first_diff (S k) outs' xs' else S k
  | _, _ => 998
  end%nat.

Definition check_history (q2 : bool) (prog : list stmt) (h : list (nat * mop)) (xs : list xout) : nat :=
  first_diff 0 (snd (run [mkMS prog false q2] h)) xs.
